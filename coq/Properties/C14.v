(* C14 — Ignoring a lint hides that lint, only that lint, and keeps hiding it.
   This file pins the statements; it contains nothing but `exact`.
   Model: Model/Ignore.v.  `context` = LintContext::from_lint as it is in /repo now, i.e. after the fix
   commits 8948350 (F12), 4550195 (F13) and 483b7cf (C16-N1); the code before them is `context_old` in
   History/C14History.v, where the old witnesses are kept as history.  `hash` is universally
   quantified (DefaultHasher); where injectivity matters it is an explicit premise. *)
Require Import Base Suggestion Ignore ListLemmas IgnoreProofs IgnoreJson IgnoreWitness Tables_lintcontext IgnoreShape
  C14EditProofs C14JsonExact C14Hash C14Flat.
Require Import Tables_spanexprs C14RuleSpans.
From Coq Require Import String.
From Coq Require Import Permutation.

(* ---------- the model has the shape of the code (table regenerated from /repo on every run) ---------- *)
(* LintContext hashes (lint_kind, suggestions, message, priority, tokens); from_lint uses the window
   expressions and the order that `context_indices` models and applies to every fat token exactly the
   blanking that `blank_kind` models (twin_loc, word metadata; the translator raises on any other statement);
   FatToken = (content, kind), Quote carries twin_loc, Number its four fields, every TokenKind variant has a
   constructor in `tkind`; the JSON key is the model's.
   THIS THEOREM BREAKS when one of the fix commits 8948350 / 4550195 / 483b7cf is reverted. *)
Theorem C14_model_has_the_shape_of_the_code :
  lc_fields = ["lint_kind"; "suggestions"; "message"; "priority"; "tokens"]%string /\
  lc_derives_hash = true /\ lc_built_from_fields = true /\
  lc_chain_prequel_problem_sequel = true /\
  (forall l d, context_indices_v lc_prequel_variant lc_sequel_variant l d = context_indices l d) /\
  (forall k, blank_kind_v lc_blanks_twin_loc lc_blanks_word_metadata k = blank_kind k) /\
  fat_token_fields = ["content"; "kind"]%string /\ fat_token_derives_hash = true /\
  quote_fields = ["twin_loc"]%string /\ quote_derives_hash = true /\ token_kind_derives_hash = true /\
  number_fields = ["value"; "suffix"; "radix"; "precision"]%string /\ number_derives_hash = true /\
  token_kind_variants = ["Word"; "Punctuation"; "Decade"; "Number"; "Space"; "Newline"; "EmailAddress"; "Url";
                         "Hostname"; "Unlintable"; "ParagraphBreak"; "Regexish"]%string /\
  ignored_json_key = key_text /\ ignored_derives_serde = true.
Proof. exact code_shape. Qed.
Check C14_model_has_the_shape_of_the_code :
  lc_fields = ["lint_kind"; "suggestions"; "message"; "priority"; "tokens"]%string /\
  lc_derives_hash = true /\ lc_built_from_fields = true /\
  lc_chain_prequel_problem_sequel = true /\
  (forall l d, context_indices_v lc_prequel_variant lc_sequel_variant l d = context_indices l d) /\
  (forall k, blank_kind_v lc_blanks_twin_loc lc_blanks_word_metadata k = blank_kind k) /\
  fat_token_fields = ["content"; "kind"]%string /\ fat_token_derives_hash = true /\
  quote_fields = ["twin_loc"]%string /\ quote_derives_hash = true /\ token_kind_derives_hash = true /\
  number_fields = ["value"; "suffix"; "radix"; "precision"]%string /\ number_derives_hash = true /\
  token_kind_variants = ["Word"; "Punctuation"; "Decade"; "Number"; "Space"; "Newline"; "EmailAddress"; "Url";
                         "Hostname"; "Unlintable"; "ParagraphBreak"; "Regexish"]%string /\
  ignored_json_key = key_text /\ ignored_derives_serde = true.
Print Assumptions C14_model_has_the_shape_of_the_code.

(* ---------- totality: nothing in the ignore machinery panics on a well-formed document ---------- *)
Theorem C14_context_total :
  forall l d, doc_wf d -> exists c, context l d = Ok c.
Proof. exact context_total. Qed.
Check C14_context_total :
  forall l d, doc_wf d -> exists c, context l d = Ok c.
Print Assumptions C14_context_total.

(* ---------- what the context is ---------- *)
(* The tokens from_lint hashes are exactly the property's neighbourhood — the tokens within two characters
   before the flagged text (fewer at the start of the text), the flagged tokens, the tokens within two
   characters after its end, each as (kind, text) without partner index / dictionary metadata —
   flattened into one list; Span::new in the prequel window never panics. *)
Theorem C14_context_is_the_neighbourhood :
  forall l d, context_tokens l d = nb_tokens l d /\ context_indices l d = Ok (nb_indices l d).
Proof. exact (fun l d => conj (context_tokens_nb l d) (context_indices_nb l d)). Qed.
Check C14_context_is_the_neighbourhood :
  forall l d, context_tokens l d = nb_tokens l d /\ context_indices l d = Ok (nb_indices l d).
Print Assumptions C14_context_is_the_neighbourhood.

(* ---------- hides ---------- *)
(* After any history of ignore operations containing (l, d) — whatever was in the list before,
   whatever is ignored before or after — re-checking d reports neither l nor any lint of d with
   the same context, invents nothing, and nothing panics. *)
Theorem C14_hides :
  forall (hash : ctx -> N) s hist l d ls,
  In (l, d) hist ->
  (forall l' d', In (l', d') hist -> doc_wf d') -> doc_wf d ->
  exists s' ls', ignore_all context hash s hist = Ok s' /\ remove_ignored context hash s' ls d = Ok ls' /\
    ~ In l ls' /\ (forall l', context l' d = context l d -> ~ In l' ls') /\
    (forall l', In l' ls' -> In l' ls).
Proof. exact (fun hash => hides context hash context_total). Qed.
Check C14_hides :
  forall (hash : ctx -> N) s hist l d ls,
  In (l, d) hist ->
  (forall l' d', In (l', d') hist -> doc_wf d') -> doc_wf d ->
  exists s' ls', ignore_all context hash s hist = Ok s' /\ remove_ignored context hash s' ls d = Ok ls' /\
    ~ In l ls' /\ (forall l', context l' d = context l d -> ~ In l' ls') /\
    (forall l', In l' ls' -> In l' ls).
Print Assumptions C14_hides.

(* remove_ignored is the order-preserving filter by is_ignored *)
Theorem C14_remove_is_filter :
  forall (hash : ctx -> N) s d ls ls',
  retain_unignored context hash s ls d = Ok ls' ->
  ls' = filter (fun l => match is_ignored context hash s l d with Ok b => negb b | Panic _ => false end) ls.
Proof. exact (retain_is_filter context). Qed.
Check C14_remove_is_filter :
  forall (hash : ctx -> N) s d ls ls',
  retain_unignored context hash s ls d = Ok ls' ->
  ls' = filter (fun l => match is_ignored context hash s l d with Ok b => negb b | Panic _ => false end) ls.
Print Assumptions C14_remove_is_filter.

(* ---------- only ---------- *)
(* A lint whose context differs from the context of every lint ever ignored is still reported,
   provided the hash function does not collide on those contexts (monitored by the harness). *)
Theorem C14_only :
  forall (hash : ctx -> N) hist cs l d c ls s' ls',
  contexts_of context hist cs ->
  ignore_all context hash [] hist = Ok s' ->
  (forall l0, In l0 ls -> exists c0, context l0 d = Ok c0) ->
  remove_ignored context hash s' ls d = Ok ls' ->
  In l ls -> context l d = Ok c ->
  ~ In c cs ->
  hash_injective_on hash (c :: cs) ->
  In l ls'.
Proof. exact (only context). Qed.
Check C14_only :
  forall (hash : ctx -> N) hist cs l d c ls s' ls',
  contexts_of context hist cs ->
  ignore_all context hash [] hist = Ok s' ->
  (forall l0, In l0 ls -> exists c0, context l0 d = Ok c0) ->
  remove_ignored context hash s' ls d = Ok ls' ->
  In l ls -> context l d = Ok c ->
  ~ In c cs ->
  hash_injective_on hash (c :: cs) ->
  In l ls'.
Print Assumptions C14_only.

(* which lints share a context, exactly: the same kind, suggestions, message (and priority, which the
   property does not list but the code hashes too) and the same flattened neighbourhood *)
Theorem C14_context_same_iff :
  forall l d c l' d' c',
  context l d = Ok c -> context l' d' = Ok c' ->
  (c = c' <-> same_report l l' /\ nb_tokens l d = nb_tokens l' d').
Proof. exact context_same_iff. Qed.
Check C14_context_same_iff :
  forall l d c l' d' c',
  context l d = Ok c -> context l' d' = Ok c' ->
  (c = c' <-> same_report l l' /\ nb_tokens l d = nb_tokens l' d').
Print Assumptions C14_context_same_iff.

(* hence: a difference in message, kind, suggestions (or priority) or in the surrounding tokens — as
   the flat list before ++ flagged ++ after — makes the contexts differ, and by C14_only the lint is kept *)
Theorem C14_context_differs :
  forall l d c l' d' c',
  context l d = Ok c -> context l' d' = Ok c' ->
  il_msg l <> il_msg l' \/ il_kind l <> il_kind l' \/ il_sugg l <> il_sugg l' \/ il_prio l <> il_prio l'
  \/ nb_tokens l d <> nb_tokens l' d' ->
  c <> c'.
Proof. exact context_differs. Qed.
Check C14_context_differs :
  forall l d c l' d' c',
  context l d = Ok c -> context l' d' = Ok c' ->
  il_msg l <> il_msg l' \/ il_kind l <> il_kind l' \/ il_sugg l <> il_sugg l' \/ il_prio l <> il_prio l'
  \/ nb_tokens l d <> nb_tokens l' d' ->
  c <> c'.
Print Assumptions C14_context_differs.

(* F13d, still open: "differs in surrounding words" as the property means it — different tokens before,
   under or after the flagged text (nb_parts) — does NOT always give a different context, because the three
   windows are hashed as one flat list.  Two lints of one document with the same report that flag different
   tokens, hidden together for every hash.  (Synthetic lints; never seen with lints of real rules.) *)
Theorem C14_only_refuted_flat :
  exists d l1 l2,
    doc_wf d /\ same_report l1 l2 /\ il_span l1 <> il_span l2 /\
    nb_parts l1 d <> nb_parts l2 d /\ is_ok (nb_parts l1 d) = true /\ is_ok (nb_parts l2 d) = true /\
    window_tokens d (il_span l1) <> window_tokens d (il_span l2) /\
    context l1 d = context l2 d /\
    forall (hash : ctx -> N) s s1, ignore_lint context hash s l1 d = Ok s1 ->
      is_ignored context hash s1 l2 d = Ok true /\
      forall ls ls', remove_ignored context hash s1 ls d = Ok ls' -> ~ In l2 ls'.
Proof. exact only_refuted_flat. Qed.
Check C14_only_refuted_flat :
  exists d l1 l2,
    doc_wf d /\ same_report l1 l2 /\ il_span l1 <> il_span l2 /\
    nb_parts l1 d <> nb_parts l2 d /\ is_ok (nb_parts l1 d) = true /\ is_ok (nb_parts l2 d) = true /\
    window_tokens d (il_span l1) <> window_tokens d (il_span l2) /\
    context l1 d = context l2 d /\
    forall (hash : ctx -> N) s s1, ignore_lint context hash s l1 d = Ok s1 ->
      is_ignored context hash s1 l2 d = Ok true /\
      forall ls ls', remove_ignored context hash s1 ls d = Ok ls' -> ~ In l2 ls'.
Print Assumptions C14_only_refuted_flat.

(* ---------- export / import ---------- *)
(* p = the list in the HashSet's iteration order.  The exported text imports into an empty list
   to a duplicate-free list with the same members, and importing it into the list it came from
   (import appends) returns that list unchanged. *)
Theorem C14_roundtrip :
  forall s p,
  Permutation p s -> Forall (fun h => (h <= u64_max)%N) s ->
  (exists s', import_into [] (run_export p) = Some s' /\ NoDup s' /\ forall h, In h s' <-> In h s) /\
  import_into s (run_export p) = Some s.
Proof. exact roundtrip. Qed.
Check C14_roundtrip :
  forall s p,
  Permutation p s -> Forall (fun h => (h <= u64_max)%N) s ->
  (exists s', import_into [] (run_export p) = Some s' /\ NoDup s' /\ forall h, In h s' <-> In h s) /\
  import_into s (run_export p) = Some s.
Print Assumptions C14_roundtrip.

(* import = union for ANY pair of lists: the text exported from a list o (in any iteration order p),
   imported into any duplicate-free list s — empty or not, overlapping or not — gives a duplicate-free list
   whose members are exactly those of s and those of o: every lint ignored in either source stays hidden
   (C14_hides speaks about membership of the hash only), nothing else becomes hidden *)
Theorem C14_import_is_union :
  forall s o p,
  Permutation p o -> Forall (fun h => (h <= u64_max)%N) o -> NoDup s ->
  exists s', import_into s (run_export p) = Some s' /\ NoDup s' /\ forall h, In h s' <-> In h s \/ In h o.
Proof. exact import_is_union. Qed.
Check C14_import_is_union :
  forall s o p,
  Permutation p o -> Forall (fun h => (h <= u64_max)%N) o -> NoDup s ->
  exists s', import_into s (run_export p) = Some s' /\ NoDup s' /\ forall h, In h s' <-> In h s \/ In h o.
Print Assumptions C14_import_is_union.

(* IgnoredLints::append itself: set union *)
Theorem C14_append_is_union :
  forall s o,
  NoDup s -> NoDup (ig_append s o) /\ forall h, In h (ig_append s o) <-> In h s \/ In h o.
Proof. exact append_is_union. Qed.
Check C14_append_is_union :
  forall s o,
  NoDup s -> NoDup (ig_append s o) /\ forall h, In h (ig_append s o) <-> In h s \/ In h o.
Print Assumptions C14_append_is_union.

(* ---------- keeps hiding it ---------- *)
(* The property's third sentence at full strength (stays_ignored, IgnoreProofs.v): whatever the hash
   function, whatever was in the list and whatever is ignored afterwards — if the report is the same and the
   tokens before / under / after the flagged text are untouched (`untouched`: the property's premise, three
   position-free lists), the lint of the edited document is still ignored.  No side condition on quotation
   marks, span length or offset any more (F12, F13, F13e, C16-N1 are repaired). *)
Theorem C14_stable :
  forall (hash : ctx -> N) s l d l' d' s1 hist s2,
  doc_wf d -> doc_wf d' -> untouched l d l' d' ->
  ignore_lint context hash s l d = Ok s1 -> ignore_all context hash s1 hist = Ok s2 ->
  is_ignored context hash s2 l' d' = Ok true.
Proof. exact stable. Qed.
Check C14_stable :
  forall (hash : ctx -> N) s l d l' d' s1 hist s2,
  doc_wf d -> doc_wf d' -> untouched l d l' d' ->
  ignore_lint context hash s l d = Ok s1 -> ignore_all context hash s1 hist = Ok s2 ->
  is_ignored context hash s2 l' d' = Ok true.
Print Assumptions C14_stable.

(* the same text parsed again with another dictionary (other word metadata) or with quotation marks
   paired differently: every ignored lint stays ignored, wherever it is *)
Theorem C14_stable_dictionary :
  forall (hash : ctx -> N) s l d d' s1 hist s2,
  blank_doc d = blank_doc d' ->
  ignore_lint context hash s l d = Ok s1 -> ignore_all context hash s1 hist = Ok s2 ->
  is_ignored context hash s2 l d' = Ok true.
Proof. exact stable_dictionary. Qed.
Check C14_stable_dictionary :
  forall (hash : ctx -> N) s l d d' s1 hist s2,
  blank_doc d = blank_doc d' ->
  ignore_lint context hash s l d = Ok s1 -> ignore_all context hash s1 hist = Ok s2 ->
  is_ignored context hash s2 l d' = Ok true.
Print Assumptions C14_stable_dictionary.

(* ---------- phase 3: edits, at the level of (source, token vector) ----------
   The document is X ++ M ++ Y with the tokens of X (any tokens ending by |X|), of M and of Y (any tokens starting at or
   behind |M|), the latter two moved by |X|: `around`.  The edit replaces X, Y and THEIR TOKENS by anything (tokens
   inserted / removed elsewhere); M keeps its tokens.  A lint of M (span [s,e) in M's coordinates) whose two-character
   windows lie in M — exactly: 2 <= s, s <= |M|, e + 2 <= |M| — has the same context before and after.  Both bounds are
   needed: C14EditProofs.context_prepend_needs_two / context_append_needs_two *)
Theorem C14_context_edit :
  forall X tsX X' tsX' M tsM Y tsY Y' tsY' l,
  doc_wf (mkdoc M tsM) ->
  fits_before X tsX -> fits_before X' tsX' -> fits_after M Y tsY -> fits_after M Y' tsY' ->
  2 <= sstart (il_span l) -> sstart (il_span l) <= List.length M -> send (il_span l) + 2 <= List.length M ->
  context (shift_lint (List.length X) l) (around X tsX M tsM Y tsY)
  = context (shift_lint (List.length X') l) (around X' tsX' M tsM Y' tsY').
Proof. exact context_edit. Qed.
Check C14_context_edit :
  forall X tsX X' tsX' M tsM Y tsY Y' tsY' l,
  doc_wf (mkdoc M tsM) ->
  fits_before X tsX -> fits_before X' tsX' -> fits_after M Y tsY -> fits_after M Y' tsY' ->
  2 <= sstart (il_span l) -> sstart (il_span l) <= List.length M -> send (il_span l) + 2 <= List.length M ->
  context (shift_lint (List.length X) l) (around X tsX M tsM Y tsY)
  = context (shift_lint (List.length X') l) (around X' tsX' M tsM Y' tsY').
Print Assumptions C14_context_edit.

(* hence the lint, once ignored, stays ignored across the edit: any hash, any history in between *)
Theorem C14_stable_edit :
  forall (hash : ctx -> N) X tsX X' tsX' M tsM Y tsY Y' tsY' l s s1 hist s2,
  doc_wf (mkdoc M tsM) ->
  fits_before X tsX -> fits_before X' tsX' -> fits_after M Y tsY -> fits_after M Y' tsY' ->
  2 <= sstart (il_span l) -> sstart (il_span l) <= List.length M -> send (il_span l) + 2 <= List.length M ->
  ignore_lint context hash s (shift_lint (List.length X) l) (around X tsX M tsM Y tsY) = Ok s1 ->
  ignore_all context hash s1 hist = Ok s2 ->
  is_ignored context hash s2 (shift_lint (List.length X') l) (around X' tsX' M tsM Y' tsY') = Ok true.
Proof. exact stable_edit. Qed.
Check C14_stable_edit :
  forall (hash : ctx -> N) X tsX X' tsX' M tsM Y tsY Y' tsY' l s s1 hist s2,
  doc_wf (mkdoc M tsM) ->
  fits_before X tsX -> fits_before X' tsX' -> fits_after M Y tsY -> fits_after M Y' tsY' ->
  2 <= sstart (il_span l) -> sstart (il_span l) <= List.length M -> send (il_span l) + 2 <= List.length M ->
  ignore_lint context hash s (shift_lint (List.length X) l) (around X tsX M tsM Y tsY) = Ok s1 ->
  ignore_all context hash s1 hist = Ok s2 ->
  is_ignored context hash s2 (shift_lint (List.length X') l) (around X' tsX' M tsM Y' tsY') = Ok true.
Print Assumptions C14_stable_edit.

(* ---------- phase 3: the serde_json text, exactly ----------
   parse (print p) for ANY list p of u64 values — duplicates, any order, 0 and u64::MAX included: the first occurrence
   of every value survives (HashSet), in the reversed order of the text *)
Theorem C14_json_exact :
  forall p, Forall (fun h => (h <= u64_max)%N) p -> run_import (run_export p) = Some (rev (first_occ [] p)).
Proof. exact import_export_exact. Qed.
Check C14_json_exact :
  forall p, Forall (fun h => (h <= u64_max)%N) p -> run_import (run_export p) = Some (rev (first_occ [] p)).
Print Assumptions C14_json_exact.

(* a real export (duplicate-free): text -> list -> text gives back the same bytes *)
Theorem C14_json_text_identity :
  forall p, NoDup p -> Forall (fun h => (h <= u64_max)%N) p ->
  exists s, run_import (run_export p) = Some s /\ s = rev p /\ run_export (rev s) = run_export p.
Proof. exact export_import_export. Qed.
Check C14_json_text_identity :
  forall p, NoDup p -> Forall (fun h => (h <= u64_max)%N) p ->
  exists s, run_import (run_export p) = Some s /\ s = rev p /\ run_export (rev s) = run_export p.
Print Assumptions C14_json_text_identity.

(* two lists with the same text are the same list *)
Theorem C14_export_injective :
  forall p q, NoDup p -> NoDup q ->
  Forall (fun h => (h <= u64_max)%N) p -> Forall (fun h => (h <= u64_max)%N) q ->
  run_export p = run_export q -> p = q.
Proof. exact export_injective. Qed.
Check C14_export_injective :
  forall p q, NoDup p -> NoDup q ->
  Forall (fun h => (h <= u64_max)%N) p -> Forall (fun h => (h <= u64_max)%N) q ->
  run_export p = run_export q -> p = q.
Print Assumptions C14_export_injective.

(* a number above u64::MAX (up to 20 digits) anywhere in the array: the import fails as a whole and changes no list *)
Theorem C14_import_rejects_overflow :
  forall a n b,
  Forall (fun h => (h <= u64_max)%N) a -> (u64_max < n)%N -> (n < 10 ^ N.of_nat 20)%N ->
  run_import (run_export (a ++ n :: b)%list) = None /\ forall s, import_into s (run_export (a ++ n :: b)%list) = None.
Proof. exact import_rejects_overflow. Qed.
Check C14_import_rejects_overflow :
  forall a n b,
  Forall (fun h => (h <= u64_max)%N) a -> (u64_max < n)%N -> (n < 10 ^ N.of_nat 20)%N ->
  run_import (run_export (a ++ n :: b)%list) = None /\ forall s, import_into s (run_export (a ++ n :: b)%list) = None.
Print Assumptions C14_import_rejects_overflow.

(* ---------- phase 3: what is asked of DefaultHasher ----------
   on a universe of contexts where the hash does not collide, ignored <=> the context is one of the ignored ones *)
Theorem C14_ignored_iff :
  forall (hash : ctx -> N) hist cs l d c s',
  contexts_of context hist cs -> ignore_all context hash [] hist = Ok s' ->
  context l d = Ok c -> hash_injective_on hash (c :: cs) ->
  (is_ignored context hash s' l d = Ok true <-> In c cs).
Proof. exact ignored_iff. Qed.
Check C14_ignored_iff :
  forall (hash : ctx -> N) hist cs l d c s',
  contexts_of context hist cs -> ignore_all context hash [] hist = Ok s' ->
  context l d = Ok c -> hash_injective_on hash (c :: cs) ->
  (is_ignored context hash s' l d = Ok true <-> In c cs).
Print Assumptions C14_ignored_iff.

(* and the hypothesis is necessary: any collision between the contexts of two lints makes ignoring one hide the other *)
Theorem C14_collision_hides :
  forall (hash : ctx -> N) l1 d1 l2 d2 c1 c2 s s1,
  context l1 d1 = Ok c1 -> context l2 d2 = Ok c2 -> hash c1 = hash c2 ->
  ignore_lint context hash s l1 d1 = Ok s1 ->
  is_ignored context hash s1 l2 d2 = Ok true /\
  forall ls ls', remove_ignored context hash s1 ls d2 = Ok ls' -> ~ In l2 ls'.
Proof. exact collision_hides. Qed.
Check C14_collision_hides :
  forall (hash : ctx -> N) l1 d1 l2 d2 c1 c2 s s1,
  context l1 d1 = Ok c1 -> context l2 d2 = Ok c2 -> hash c1 = hash c2 ->
  ignore_lint context hash s l1 d1 = Ok s1 ->
  is_ignored context hash s1 l2 d2 = Ok true /\
  forall ls ls', remove_ignored context hash s1 ls d2 = Ok ls' -> ~ In l2 ls'.
Print Assumptions C14_collision_hides.

(* ---------- phase 4: the open finding F13d, exactly ----------
   Two lints get the same context although the property tells them apart (different tokens before / under / after the
   flagged text) IF AND ONLY IF they have the same report and the same flat list before ++ flagged ++ after, cut
   differently between the three windows (split_of = number of tokens before, number of flagged tokens) *)
Theorem C14_flat_collision_iff :
  forall l d c w l' d' c' w',
  context l d = Ok c -> context l' d' = Ok c' -> nb_parts l d = Ok w -> nb_parts l' d' = Ok w' ->
  (c = c' /\ w <> w') <-> (same_report l l' /\ flat_of w = flat_of w' /\ split_of w <> split_of w').
Proof. exact flat_collision_iff. Qed.
Check C14_flat_collision_iff :
  forall l d c w l' d' c' w',
  context l d = Ok c -> context l' d' = Ok c' -> nb_parts l d = Ok w -> nb_parts l' d' = Ok w' ->
  (c = c' /\ w <> w') <-> (same_report l l' /\ flat_of w = flat_of w' /\ split_of w <> split_of w').
Print Assumptions C14_flat_collision_iff.

(* and that is exactly the class of "only that lint" failures between two lints when the hash does not collide on their
   two contexts: after ignoring l alone, a lint l' that is NOT the same lint (other report, or other tokens before / under /
   after) is hidden  <=>  same report, same flat list, different split.  The known-finding classifier of the harness
   (same context in the model, same flat list, different split) is this right-hand side. *)
Theorem C14_flat_failure_iff :
  forall (hash : ctx -> N) l d c w l' d' c' w' s1,
  context l d = Ok c -> context l' d' = Ok c' -> nb_parts l d = Ok w -> nb_parts l' d' = Ok w' ->
  hash_injective_on hash [c'; c] ->
  ignore_lint context hash [] l d = Ok s1 ->
  (is_ignored context hash s1 l' d' = Ok true /\ (~ same_report l l' \/ w <> w'))
  <-> (same_report l l' /\ flat_of w = flat_of w' /\ split_of w <> split_of w').
Proof. exact flat_failure_iff. Qed.
Check C14_flat_failure_iff :
  forall (hash : ctx -> N) l d c w l' d' c' w' s1,
  context l d = Ok c -> context l' d' = Ok c' -> nb_parts l d = Ok w -> nb_parts l' d' = Ok w' ->
  hash_injective_on hash [c'; c] ->
  ignore_lint context hash [] l d = Ok s1 ->
  (is_ignored context hash s1 l' d' = Ok true /\ (~ same_report l l' \/ w <> w'))
  <-> (same_report l l' /\ flat_of w = flat_of w' /\ split_of w <> split_of w').
Print Assumptions C14_flat_failure_iff.

(* ---------- phase 4: lints that flag whole tokens (what real rules report) ----------
   `aligned d l pre mid post`: the tokens of d are pre ++ mid ++ post, they tile the text, and mid (not empty) covers exactly
   the flagged span.  The three windows in closed form: flagged = mid; before = the last token of pre, and the one in front
   of it exactly when that last token is one character long; after likewise from the front of post. *)
Theorem C14_aligned_windows :
  forall d l pre mid post,
  aligned d l pre mid post ->
  before_shape pre (wtoks (dtoks d) (before_window (il_span l))) /\
  wtoks (dtoks d) (il_span l) = mid /\
  after_shape post (wtoks (dtoks d) (after_window (il_span l))).
Proof. exact aligned_windows. Qed.
Check C14_aligned_windows :
  forall d l pre mid post,
  aligned d l pre mid post ->
  before_shape pre (wtoks (dtoks d) (before_window (il_span l))) /\
  wtoks (dtoks d) (il_span l) = mid /\
  after_shape post (wtoks (dtoks d) (after_window (il_span l))).
Print Assumptions C14_aligned_windows.

(* hence F13d between two token-aligned lints (of one tiled document or of two) needs a lint at the very start / end of its
   text, or a ONE-CHARACTER token directly in front of / behind one of the flagged spans.  Both escapes are real:
   C14Flat.aligned_collision_edge_example (no one-character token anywhere), aligned_collision_one_char_example. *)
Theorem C14_aligned_collision_needs :
  forall d1 l1 pre1 mid1 post1 w1 d2 l2 pre2 mid2 post2 w2,
  aligned d1 l1 pre1 mid1 post1 -> aligned d2 l2 pre2 mid2 post2 ->
  nb_parts l1 d1 = Ok w1 -> nb_parts l2 d2 = Ok w2 ->
  flat_of w1 = flat_of w2 -> w1 <> w2 ->
  at_edge pre1 post1 \/ at_edge pre2 post2 \/ one_char_border pre1 post1 \/ one_char_border pre2 post2.
Proof. exact aligned_collision_needs. Qed.
Check C14_aligned_collision_needs :
  forall d1 l1 pre1 mid1 post1 w1 d2 l2 pre2 mid2 post2 w2,
  aligned d1 l1 pre1 mid1 post1 -> aligned d2 l2 pre2 mid2 post2 ->
  nb_parts l1 d1 = Ok w1 -> nb_parts l2 d2 = Ok w2 ->
  flat_of w1 = flat_of w2 -> w1 <> w2 ->
  at_edge pre1 post1 \/ at_edge pre2 post2 \/ one_char_border pre1 post1 \/ one_char_border pre2 post2.
Print Assumptions C14_aligned_collision_needs.

(* the same as an IFF on the documents' own token vectors: before_count pre = 0 at the start of the text, 2 when the token
   in front of the flagged ones is one character long and not the first token, else 1 *)
Theorem C14_aligned_collision_iff :
  forall d1 l1 pre1 mid1 post1 c1 w1 d2 l2 pre2 mid2 post2 c2 w2,
  aligned d1 l1 pre1 mid1 post1 -> aligned d2 l2 pre2 mid2 post2 ->
  context l1 d1 = Ok c1 -> context l2 d2 = Ok c2 -> nb_parts l1 d1 = Ok w1 -> nb_parts l2 d2 = Ok w2 ->
  (c1 = c2 /\ w1 <> w2) <->
  (same_report l1 l2 /\ flat_of w1 = flat_of w2 /\
   (before_count pre1, List.length mid1) <> (before_count pre2, List.length mid2)).
Proof. exact aligned_collision_iff. Qed.
Check C14_aligned_collision_iff :
  forall d1 l1 pre1 mid1 post1 c1 w1 d2 l2 pre2 mid2 post2 c2 w2,
  aligned d1 l1 pre1 mid1 post1 -> aligned d2 l2 pre2 mid2 post2 ->
  context l1 d1 = Ok c1 -> context l2 d2 = Ok c2 -> nb_parts l1 d1 = Ok w1 -> nb_parts l2 d2 = Ok w2 ->
  (c1 = c2 /\ w1 <> w2) <->
  (same_report l1 l2 /\ flat_of w1 = flat_of w2 /\
   (before_count pre1, List.length mid1) <> (before_count pre2, List.length mid2)).
Print Assumptions C14_aligned_collision_iff.

(* which lints of REAL rules flag whole tokens: over the table of span sources regenerated from harper-core/src/linting/*.rs
   (tools/tables/spanexprs.py) — every `Lint { span, .. }` of a rule file takes its span from a token's span, the hull of a
   slice of tokens or Span::new(a.span.start, b.span.end), except the lints of three files whose spans lie inside one token
   (the two-character suffix of a number, the first character of a sentence); nothing is unclassified *)
Theorem C14_rule_lint_spans_token_aligned :
  forallb (fun x => classified (snd x)) rule_lint_sites = true /\
  map site_file (filter (fun x => negb (aligned_src (snd x))) rule_lint_sites)
  = ["correct_number_suffix.rs"; "number_suffix_capitalization.rs"; "sentence_capitalization.rs"]%string.
Proof. exact rule_lint_spans_token_aligned. Qed.
Check C14_rule_lint_spans_token_aligned :
  forallb (fun x => classified (snd x)) rule_lint_sites = true /\
  map site_file (filter (fun x => negb (aligned_src (snd x))) rule_lint_sites)
  = ["correct_number_suffix.rs"; "number_suffix_capitalization.rs"; "sentence_capitalization.rs"]%string.
Print Assumptions C14_rule_lint_spans_token_aligned.

(* ---------- non-vacuity ---------- *)
(* the premises of hides / stable / stable_dictionary are satisfiable on real documents, and the witnesses
   of the repaired findings (regression inputs of corpus/C14; History/C14History.v proves that the OLD context
   broke the property on each of them) are now handled as the property asks: the F12, F13 and F13e pairs
   satisfy `untouched` and keep their context, the two `recieve` lints are told apart, and the text parsed
   under two dictionaries gives two different documents with the same context *)
Example C14_regression_witnesses :
  doc_wf f12_d1 /\ doc_wf f12_d2 /\ untouched f12_l1 f12_d1 f12_l2 f12_d2 /\ context f12_l1 f12_d1 = context f12_l2 f12_d2 /\
  untouched f13s_l1 f13s_d1 f13s_l2 f13s_d2 /\ context f13s_l1 f13s_d1 = context f13s_l2 f13s_d2 /\
  untouched f13e_l1 f13e_d1 f13e_l2 f13e_d2 /\ context f13e_l1 f13e_d1 = context f13e_l2 f13e_d2 /\
  context f13o_l1 f13o_d1 <> context f13o_l2 f13o_d1 /\
  dict_d1 <> dict_d2 /\ blank_doc dict_d1 = blank_doc dict_d2 /\ context dict_l dict_d1 = context dict_l dict_d2 /\
  is_ok (context dict_l dict_d1) = true.
Proof.
  split; [apply f12_wf|]. split; [apply f12_wf|]. split; [apply f12_untouched|]. split; [apply f12_same|].
  split; [apply f13s_untouched|]. split; [apply f13s_same|]. split; [apply f13e_untouched|]. split; [apply f13e_same|].
  split; [apply f13o_differ|]. split; [apply dict_docs_differ|]. split; [apply dict_same_blank|]. split; [apply dict_same|].
  vm_compute; reflexivity.
Qed.

(* the context of the F12 lint: prequel = (space, quote), problem = `an`, sequel = (space, `problem`); of the
   first `recieve`: (`we`, space), `recieve`, (space, `it`); at the start of the text the prequel is empty *)
Example C14_context_indices_example :
  context_indices f12_l1 f12_d1 = Ok [3; 4; 5; 6; 7] /\ context_indices f13o_l1 f13o_d1 = Ok [0; 1; 2; 3; 4] /\
  context_indices (mkilint (mkspan 0 3) 0%N [] [] 0%N) f13o_d1 = Ok [0; 1; 2] /\
  context_indices (mkilint (mkspan 1 7) 0%N [] [] 0%N) f13e_d1 = Ok [0; 1; 2; 3].
Proof. repeat split; vm_compute; reflexivity. Qed.

(* export / import on concrete u64 values, the largest included *)
Example C14_roundtrip_example :
  run_import (run_export [18446744073709551615; 0; 10; 1099511627776]%N) = Some [1099511627776; 10; 0; 18446744073709551615]%N /\
  run_import [123; 34; 99; 111; 110; 116; 101; 120; 116; 95; 104; 97; 115; 104; 101; 115; 34; 58; 91; 48; 49; 93; 125]%N = None /\
  run_import (run_export [18446744073709551616]%N) = None.
Proof. repeat split; vm_compute; reflexivity. Qed.

(* import into a NON-EMPTY list: members of both survive, whatever the numeric order of the hashes *)
Example C14_import_union_example :
  import_into [5; 100]%N (run_export [7; 300; 5]%N) = Some [7; 300; 5; 100]%N /\
  import_into [300]%N (run_export [7]%N) = Some [7; 300]%N /\ import_into [7]%N (run_export [300]%N) = Some [300; 7]%N.
Proof. repeat split; vm_compute; reflexivity. Qed.

(* phase 3: the premises of C14_context_edit are satisfiable and the two bounds cannot be dropped; the JSON text with
   duplicates and both u64 extremes; a colliding hash on the two `recieve` lints *)
Example C14_phase3_examples :
  (doc_wf (mkdoc needs_M needs_ts) /\ fits_before [120%N] [w_tok 0 1] /\ sstart (il_span (needs_l 1 2)) = 1 /\
   context (shift_lint 1 (needs_l 1 2)) (prepend_doc [120%N] [w_tok 0 1] (mkdoc needs_M needs_ts))
   <> context (needs_l 1 2) (mkdoc needs_M needs_ts)) /\
  (fits_after needs_M [120%N] [w_tok 5 6] /\ send (il_span (needs_l 3 4)) + 2 = S (List.length needs_M) /\
   context (needs_l 3 4) (append_doc (mkdoc needs_M needs_ts) [120%N] [w_tok 5 6])
   <> context (needs_l 3 4) (mkdoc needs_M needs_ts)) /\
  run_import (run_export [7; 0; 7; 18446744073709551615; 0; 3]%N) = Some [3; 18446744073709551615; 0; 7]%N /\
  run_import (run_export [5; 18446744073709551616; 9]%N) = None.
Proof.
  split; [exact context_prepend_needs_two|]. split; [exact context_append_needs_two|].
  split; vm_compute; reflexivity.
Qed.

(* phase 4: the right-hand side of C14_flat_collision_iff is satisfiable by token-aligned lints — at the edge of a text
   without any one-character token, and inside a text next to a one-character token *)
Example C14_phase4_examples :
  (aligned fl_edge_doc (fl_lint 0 4) [] (firstn 2 fl_edge_toks) (skipn 2 fl_edge_toks) /\
   aligned fl_edge_doc (fl_lint 10 12) (firstn 5 fl_edge_toks) (firstn 1 (skipn 5 fl_edge_toks)) (skipn 6 fl_edge_toks) /\
   context (fl_lint 0 4) fl_edge_doc = context (fl_lint 10 12) fl_edge_doc /\
   is_ok (context (fl_lint 0 4) fl_edge_doc) = true /\
   nb_parts (fl_lint 0 4) fl_edge_doc <> nb_parts (fl_lint 10 12) fl_edge_doc /\
   Forall (fun t => ~ one_char t) fl_edge_toks) /\
  (aligned fl_one_doc (fl_lint 4 8) (firstn 1 fl_one_toks) (firstn 2 (skipn 1 fl_one_toks)) (skipn 3 fl_one_toks) /\
   aligned fl_one_doc (fl_lint 5 9) (firstn 2 fl_one_toks) (firstn 2 (skipn 2 fl_one_toks)) (skipn 4 fl_one_toks) /\
   context (fl_lint 4 8) fl_one_doc = context (fl_lint 5 9) fl_one_doc /\
   is_ok (context (fl_lint 4 8) fl_one_doc) = true /\
   nb_parts (fl_lint 4 8) fl_one_doc <> nb_parts (fl_lint 5 9) fl_one_doc /\
   ~ at_edge (firstn 1 fl_one_toks) (skipn 3 fl_one_toks) /\ ~ at_edge (firstn 2 fl_one_toks) (skipn 4 fl_one_toks)).
Proof. split; [exact aligned_collision_edge_example|exact aligned_collision_one_char_example]. Qed.

Require Import C14Bytes C14BytesProofs C14BytesFit Tables_hashstream C14BytesShape C14BytesWitness.

(* ---------- phase 5: the byte stream of the derived Hash, and SipHash-1-3 over it ----------
   the byte-level model follows the declarations of the code (table regenerated from /repo on every run by
   tools/tables/hashstream.py): discriminants = variant indices, payloads, struct fields in order with their types, every
   type derives Hash, hash_lint_context = DefaultHasher::default() over the derived Hash.
   THIS THEOREM BREAKS when an enum is reordered / extended in the middle or a hashed struct gains, loses or retypes a field. *)
Theorem C14_hash_stream_has_the_shape_of_the_code :
  hs_all_derive_hash = true /\ hs_default_hasher_over_derived_hash = true /\
  (* LintContext / FatToken / Number / Quote: enc_ctx, enc_ftok, enc_kind (KNumber, KQuote) *)
  hs_lint_context = [("lint_kind", "LintKind"); ("suggestions", "Vec<Suggestion>"); ("message", "String");
                     ("priority", "u8"); ("tokens", "Vec<FatToken>")]%string /\
  hs_fat_token = [("content", "Vec<char>"); ("kind", "TokenKind")]%string /\
  hs_number = [("value", "OrderedFloat<f64>"); ("suffix", "Option<NumberSuffix>"); ("radix", "u32"); ("precision", "usize")]%string /\
  hs_quote = [("twin_loc", "Option<usize>")]%string /\
  (* TokenKind *)
  variant_at hs_token_kind d_tk_word = Some ("Word", "Option<WordMetadata>")%string /\
  variant_at hs_token_kind d_tk_punct = Some ("Punctuation", "Punctuation")%string /\
  variant_at hs_token_kind d_tk_decade = Some ("Decade", ""%string)%string /\
  variant_at hs_token_kind d_tk_number = Some ("Number", "Number")%string /\
  variant_at hs_token_kind d_tk_space = Some ("Space", "usize")%string /\
  variant_at hs_token_kind d_tk_newline = Some ("Newline", "usize")%string /\
  variant_at hs_token_kind d_tk_email = Some ("EmailAddress", ""%string)%string /\
  variant_at hs_token_kind d_tk_url = Some ("Url", ""%string)%string /\
  variant_at hs_token_kind d_tk_hostname = Some ("Hostname", ""%string)%string /\
  variant_at hs_token_kind d_tk_unlintable = Some ("Unlintable", ""%string)%string /\
  variant_at hs_token_kind d_tk_parbreak = Some ("ParagraphBreak", ""%string)%string /\
  variant_at hs_token_kind d_tk_regexish = Some ("Regexish", ""%string)%string /\
  List.length hs_token_kind = 12 /\
  (* Punctuation: Quote(Quote) and Currency(Currency) carry data, nothing else does; indices below 64 (enc_punct) *)
  variant_at hs_punctuation d_p_quote = Some ("Quote", "Quote")%string /\
  variant_at hs_punctuation d_p_currency = Some ("Currency", "Currency")%string /\
  fieldless_but hs_punctuation ["Quote"; "Currency"]%string = true /\
  List.length hs_punctuation < 64 /\
  fieldless_but hs_currency [] = true /\ fieldless_but hs_number_suffix [] = true /\ fieldless_but hs_lint_kind [] = true /\
  (* Suggestion *)
  variant_at hs_suggestion d_s_replace = Some ("ReplaceWith", "Vec<char>")%string /\
  variant_at hs_suggestion d_s_insert = Some ("InsertAfter", "Vec<char>")%string /\
  variant_at hs_suggestion d_s_remove = Some ("Remove", ""%string)%string /\
  List.length hs_suggestion = 3.
Proof. exact bytes_model_has_the_shape_of_the_code. Qed.
Check C14_hash_stream_has_the_shape_of_the_code :
  hs_all_derive_hash = true /\ hs_default_hasher_over_derived_hash = true /\
  (* LintContext / FatToken / Number / Quote: enc_ctx, enc_ftok, enc_kind (KNumber, KQuote) *)
  hs_lint_context = [("lint_kind", "LintKind"); ("suggestions", "Vec<Suggestion>"); ("message", "String");
                     ("priority", "u8"); ("tokens", "Vec<FatToken>")]%string /\
  hs_fat_token = [("content", "Vec<char>"); ("kind", "TokenKind")]%string /\
  hs_number = [("value", "OrderedFloat<f64>"); ("suffix", "Option<NumberSuffix>"); ("radix", "u32"); ("precision", "usize")]%string /\
  hs_quote = [("twin_loc", "Option<usize>")]%string /\
  (* TokenKind *)
  variant_at hs_token_kind d_tk_word = Some ("Word", "Option<WordMetadata>")%string /\
  variant_at hs_token_kind d_tk_punct = Some ("Punctuation", "Punctuation")%string /\
  variant_at hs_token_kind d_tk_decade = Some ("Decade", ""%string)%string /\
  variant_at hs_token_kind d_tk_number = Some ("Number", "Number")%string /\
  variant_at hs_token_kind d_tk_space = Some ("Space", "usize")%string /\
  variant_at hs_token_kind d_tk_newline = Some ("Newline", "usize")%string /\
  variant_at hs_token_kind d_tk_email = Some ("EmailAddress", ""%string)%string /\
  variant_at hs_token_kind d_tk_url = Some ("Url", ""%string)%string /\
  variant_at hs_token_kind d_tk_hostname = Some ("Hostname", ""%string)%string /\
  variant_at hs_token_kind d_tk_unlintable = Some ("Unlintable", ""%string)%string /\
  variant_at hs_token_kind d_tk_parbreak = Some ("ParagraphBreak", ""%string)%string /\
  variant_at hs_token_kind d_tk_regexish = Some ("Regexish", ""%string)%string /\
  List.length hs_token_kind = 12 /\
  (* Punctuation: Quote(Quote) and Currency(Currency) carry data, nothing else does; indices below 64 (enc_punct) *)
  variant_at hs_punctuation d_p_quote = Some ("Quote", "Quote")%string /\
  variant_at hs_punctuation d_p_currency = Some ("Currency", "Currency")%string /\
  fieldless_but hs_punctuation ["Quote"; "Currency"]%string = true /\
  List.length hs_punctuation < 64 /\
  fieldless_but hs_currency [] = true /\ fieldless_but hs_number_suffix [] = true /\ fieldless_but hs_lint_kind [] = true /\
  (* Suggestion *)
  variant_at hs_suggestion d_s_replace = Some ("ReplaceWith", "Vec<char>")%string /\
  variant_at hs_suggestion d_s_insert = Some ("InsertAfter", "Vec<char>")%string /\
  variant_at hs_suggestion d_s_remove = Some ("Remove", ""%string)%string /\
  List.length hs_suggestion = 3.
Print Assumptions C14_hash_stream_has_the_shape_of_the_code.

(* the stream is PREFIX-FREE on contexts whose values fit their Rust types: no stream is a proper prefix of another, and
   equal streams come from equal contexts (length prefixes, fixed-width little-endian integers, UTF-8 is a prefix code and
   the 0xFF terminator is not a UTF-8 byte, discriminants separate the variants) *)
Theorem C14_hash_stream_prefix_free :
  forall c c' r r', ctx_wfb c = true -> ctx_wfb c' = true ->
  (enc_ctx c ++ r = enc_ctx c' ++ r')%list -> c = c' /\ r = r'.
Proof. exact enc_ctx_pf. Qed.
Check C14_hash_stream_prefix_free :
  forall c c' r r', ctx_wfb c = true -> ctx_wfb c' = true ->
  (enc_ctx c ++ r = enc_ctx c' ++ r')%list -> c = c' /\ r = r'.
Print Assumptions C14_hash_stream_prefix_free.

Theorem C14_hash_stream_injective :
  forall c c', ctx_wfb c = true -> ctx_wfb c' = true -> enc_ctx c = enc_ctx c' -> c = c'.
Proof. exact enc_ctx_injective. Qed.
Check C14_hash_stream_injective :
  forall c c', ctx_wfb c = true -> ctx_wfb c' = true -> enc_ctx c = enc_ctx c' -> c = c'.
Print Assumptions C14_hash_stream_injective.

(* `ctx_wfb` is not a premise about contexts: every context from_lint builds from a lint and a document whose values fit
   their Rust types has it; in particular every kind in a context is blanked (the unmodelled WordMetadata never reaches
   the stream) *)
Theorem C14_context_fits :
  forall l d c, context l d = Ok c -> lint_fitsb l = true -> doc_fitsb d = true -> ctx_wfb c = true.
Proof. exact context_fits. Qed.
Check C14_context_fits :
  forall l d c, context l d = Ok c -> lint_fitsb l = true -> doc_fitsb d = true -> ctx_wfb c = true.
Print Assumptions C14_context_fits.

Theorem C14_context_kinds_blanked :
  forall l d c, context l d = Ok c -> Forall (fun f => blank_kind (fst f) = fst f) (c_toks c).
Proof. exact context_kinds_blanked. Qed.
Check C14_context_kinds_blanked :
  forall l d c, context l d = Ok c -> Forall (fun f => blank_kind (fst f) = fst f) (c_toks c).
Print Assumptions C14_context_kinds_blanked.

(* hence hash_injective_on — the premise of C14_only / C14_ignored_iff / C14_flat_failure_iff — reduces to: the hasher
   does not collide on the BYTE STRINGS of the contexts in play; and nothing is lost (the converse) *)
Theorem C14_hash_reduces_to_bytes :
  forall (h : bytes -> N) cs, Forall (fun c => ctx_wfb c = true) cs ->
  bytes_injective_on h (map enc_ctx cs) -> hash_injective_on (fun c => h (enc_ctx c)) cs.
Proof. exact hash_reduces_to_bytes. Qed.
Check C14_hash_reduces_to_bytes :
  forall (h : bytes -> N) cs, Forall (fun c => ctx_wfb c = true) cs ->
  bytes_injective_on h (map enc_ctx cs) -> hash_injective_on (fun c => h (enc_ctx c)) cs.
Print Assumptions C14_hash_reduces_to_bytes.

Theorem C14_bytes_reduce_to_hash :
  forall (h : bytes -> N) cs,
  hash_injective_on (fun c => h (enc_ctx c)) cs -> bytes_injective_on h (map enc_ctx cs).
Proof. exact bytes_reduce_to_hash. Qed.
Check C14_bytes_reduce_to_hash :
  forall (h : bytes -> N) cs,
  hash_injective_on (fun c => h (enc_ctx c)) cs -> bytes_injective_on h (map enc_ctx cs).
Print Assumptions C14_bytes_reduce_to_hash.

(* for the hash IgnoredLints REALLY stores (stored_hash = SipHash-1-3 with keys (0,0) over enc_ctx — compared with
   DefaultHasher on every case of stream B): ignored <=> the context is an ignored one, and "only that lint", under the
   one remaining hypothesis that SipHash-1-3 does not collide on the byte strings of the contexts in play *)
Theorem C14_ignored_iff_stored_hash :
  forall hist cs l d c s',
  contexts_of context hist cs -> ignore_all context stored_hash [] hist = Ok s' ->
  context l d = Ok c -> Forall (fun c => ctx_wfb c = true) (c :: cs) ->
  bytes_injective_on default_hasher (map enc_ctx (c :: cs)) ->
  (is_ignored context stored_hash s' l d = Ok true <-> In c cs).
Proof. exact ignored_iff_sip. Qed.
Check C14_ignored_iff_stored_hash :
  forall hist cs l d c s',
  contexts_of context hist cs -> ignore_all context stored_hash [] hist = Ok s' ->
  context l d = Ok c -> Forall (fun c => ctx_wfb c = true) (c :: cs) ->
  bytes_injective_on default_hasher (map enc_ctx (c :: cs)) ->
  (is_ignored context stored_hash s' l d = Ok true <-> In c cs).
Print Assumptions C14_ignored_iff_stored_hash.

Theorem C14_only_stored_hash :
  forall hist cs l d c ls s' ls',
  contexts_of context hist cs -> ignore_all context stored_hash [] hist = Ok s' ->
  (forall l0, In l0 ls -> exists c0, context l0 d = Ok c0) ->
  remove_ignored context stored_hash s' ls d = Ok ls' ->
  In l ls -> context l d = Ok c ->
  ~ In c cs ->
  Forall (fun ld => lint_fitsb (fst ld) = true /\ doc_fitsb (snd ld) = true) ((l, d) :: hist) ->
  bytes_injective_on default_hasher (map enc_ctx (c :: cs)) ->
  In l ls'.
Proof. exact only_sip_inputs. Qed.
Check C14_only_stored_hash :
  forall hist cs l d c ls s' ls',
  contexts_of context hist cs -> ignore_all context stored_hash [] hist = Ok s' ->
  (forall l0, In l0 ls -> exists c0, context l0 d = Ok c0) ->
  remove_ignored context stored_hash s' ls d = Ok ls' ->
  In l ls -> context l d = Ok c ->
  ~ In c cs ->
  Forall (fun ld => lint_fitsb (fst ld) = true /\ doc_fitsb (snd ld) = true) ((l, d) :: hist) ->
  bytes_injective_on default_hasher (map enc_ctx (c :: cs)) ->
  In l ls'.
Print Assumptions C14_only_stored_hash.

(* non-vacuity, on data RECORDED FROM THE IMPLEMENTATION (Proofs/C14BytesWitness.v; the same inputs run on every check):
   the document `1st 22nd 3rd 4th 0.250 1e3 ¥7 ...` fits, two lints over it (a Punctuation lint with message `é`, suggestions
   InsertAfter [U+10FFFF; U+0000] / InsertAfter "ab", priority 127, over number tokens with suffixes; a Formatting lint over
   the currency sign ¥ and the number behind it) fit; the model's stream is byte for byte the recorded one and the model's
   SipHash-1-3 is the u64 the implementation stored; the two contexts differ and so do their streams and hashes *)
Example C14_hash_stream_example :
  doc_fitsb bw_doc = true /\ lint_fitsb bw_lint1 = true /\ lint_fitsb bw_lint2 = true /\
  run_bytes bw_lint1 bw_doc = Some (true, bw_stream1, le64 bw_hash1) /\
  run_bytes bw_lint2 bw_doc = Some (true, bw_stream2, le64 bw_hash2) /\
  bw_stream1 <> bw_stream2 /\ bw_hash1 <> bw_hash2 /\
  bytes_injective_on default_hasher [bw_stream1; bw_stream2].
Proof.
  assert (default_hasher bw_stream1 = bw_hash1) as H1 by (vm_compute; reflexivity).
  assert (default_hasher bw_stream2 = bw_hash2) as H2 by (vm_compute; reflexivity).
  assert (bw_hash1 <> bw_hash2) as Hd by (vm_compute; discriminate).
  split; [vm_compute; reflexivity|]. split; [vm_compute; reflexivity|]. split; [vm_compute; reflexivity|].
  split; [vm_compute; reflexivity|]. split; [vm_compute; reflexivity|].
  split; [intros E; apply Hd; rewrite <- H1, <- H2, E; reflexivity|]. split; [exact Hd|].
  intros a b [<-|[<-|[]]] [<-|[<-|[]]] E; try reflexivity; exfalso; rewrite ?H1, ?H2 in E;
    [apply Hd; exact E|apply Hd; symmetry; exact E].
Qed.
