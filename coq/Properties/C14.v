(* C14 — Ignoring a lint hides that lint, only that lint, and keeps hiding it.
   This file pins the statements; it contains nothing but `exact`.
   Model: Model/Ignore.v.  `context` = LintContext::from_lint as it is in /repo now;
   `context_fixed` = the same after fixes/F12.diff + fixes/F13.diff.  `hash` is universally
   quantified (DefaultHasher); where injectivity matters it is an explicit premise. *)
Require Import Base Suggestion Ignore ListLemmas IgnoreProofs IgnoreJson IgnoreWitness Tables_lintcontext IgnoreShape.
From Coq Require Import String.
From Coq Require Import Permutation.

(* ---------- the model has the shape of the code (table regenerated from /repo on every run) ---------- *)
(* LintContext hashes (lint_kind, suggestions, message, priority, tokens); from_lint uses the windows and
   the order that `context` models and does not blank twin_loc; FatToken = (content, kind), Quote carries
   twin_loc, Number its four fields, every TokenKind variant has a constructor in `tkind`; the JSON key is the model's.
   THIS THEOREM BREAKS when fixes/F12.diff or fixes/F13.diff is applied: `context` is then no longer
   the code, and the _refuted theorems below have to move to History (DESIGN.md, section 8). *)
Theorem C14_model_has_the_shape_of_the_code :
  lc_fields = ["lint_kind"; "suggestions"; "message"; "priority"; "tokens"]%string /\
  lc_derives_hash = true /\ lc_built_from_fields = true /\
  lc_prequel_variant = lc_sequel_variant /\ lc_chain_prequel_problem_sequel = true /\
  context_v source_variant = context /\
  fat_token_fields = ["content"; "kind"]%string /\ fat_token_derives_hash = true /\
  quote_fields = ["twin_loc"]%string /\ quote_derives_hash = true /\ token_kind_derives_hash = true /\
  number_fields = ["value"; "suffix"; "radix"; "precision"]%string /\ number_derives_hash = true /\
  token_kind_variants = ["Word"; "Punctuation"; "Decade"; "Number"; "Space"; "Newline"; "EmailAddress"; "Url";
                         "Hostname"; "Unlintable"; "ParagraphBreak"; "Regexish"]%string /\
  ignored_json_key = key_text /\ ignored_derives_serde = true.
Proof. exact code_shape. Qed.
Check C14_model_has_the_shape_of_the_code :
  lc_fields = ["lint_kind"; "suggestions"; "message"; "priority"; "tokens"]%string /\
  lc_derives_hash = true /\ lc_built_from_fields = true /\
  lc_prequel_variant = lc_sequel_variant /\ lc_chain_prequel_problem_sequel = true /\
  context_v source_variant = context /\
  fat_token_fields = ["content"; "kind"]%string /\ fat_token_derives_hash = true /\
  quote_fields = ["twin_loc"]%string /\ quote_derives_hash = true /\ token_kind_derives_hash = true /\
  number_fields = ["value"; "suffix"; "radix"; "precision"]%string /\ number_derives_hash = true /\
  token_kind_variants = ["Word"; "Punctuation"; "Decade"; "Number"; "Space"; "Newline"; "EmailAddress"; "Url";
                         "Hostname"; "Unlintable"; "ParagraphBreak"; "Regexish"]%string /\
  ignored_json_key = key_text /\ ignored_derives_serde = true.
Print Assumptions C14_model_has_the_shape_of_the_code.

(* ---------- totality: nothing in the ignore machinery panics on a well-formed document ---------- *)
Theorem C14_context_total : forall l d, doc_wf d -> exists c, context l d = Ok c.
Proof. exact context_total. Qed.
Check C14_context_total : forall l d, doc_wf d -> exists c, context l d = Ok c.
Print Assumptions C14_context_total.

(* ---------- hides ---------- *)
(* After any history of ignore operations containing (l, d) — whatever was in the list before,
   whatever is ignored before or after — re-checking d reports neither l nor any lint of d with
   the same context, invents nothing, and nothing panics. *)
Theorem C14_hides : forall (hash : ctx -> N) s hist l d ls,
  In (l, d) hist ->
  (forall l' d', In (l', d') hist -> doc_wf d') -> doc_wf d ->
  exists s' ls', ignore_all context hash s hist = Ok s' /\ remove_ignored context hash s' ls d = Ok ls' /\
    ~ In l ls' /\ (forall l', context l' d = context l d -> ~ In l' ls') /\
    (forall l', In l' ls' -> In l' ls).
Proof. exact (fun hash => hides context hash context_total). Qed.
Check C14_hides : forall (hash : ctx -> N) s hist l d ls,
  In (l, d) hist ->
  (forall l' d', In (l', d') hist -> doc_wf d') -> doc_wf d ->
  exists s' ls', ignore_all context hash s hist = Ok s' /\ remove_ignored context hash s' ls d = Ok ls' /\
    ~ In l ls' /\ (forall l', context l' d = context l d -> ~ In l' ls') /\
    (forall l', In l' ls' -> In l' ls).
Print Assumptions C14_hides.

(* remove_ignored is the order-preserving filter by is_ignored *)
Theorem C14_remove_is_filter : forall (hash : ctx -> N) s d ls ls',
  retain_unignored context hash s ls d = Ok ls' ->
  ls' = filter (fun l => match is_ignored context hash s l d with Ok b => negb b | Panic _ => false end) ls.
Proof. exact (retain_is_filter context). Qed.
Check C14_remove_is_filter : forall (hash : ctx -> N) s d ls ls',
  retain_unignored context hash s ls d = Ok ls' ->
  ls' = filter (fun l => match is_ignored context hash s l d with Ok b => negb b | Panic _ => false end) ls.
Print Assumptions C14_remove_is_filter.

(* ---------- only ---------- *)
(* A lint whose context differs from the context of every lint ever ignored is still reported,
   provided the hash function does not collide on those contexts (monitored by the harness). *)
Theorem C14_only : forall (hash : ctx -> N) hist cs l d c ls s' ls',
  contexts_of context hist cs ->
  ignore_all context hash [] hist = Ok s' ->
  (forall l0, In l0 ls -> exists c0, context l0 d = Ok c0) ->
  remove_ignored context hash s' ls d = Ok ls' ->
  In l ls -> context l d = Ok c ->
  ~ In c cs ->
  hash_injective_on hash (c :: cs) ->
  In l ls'.
Proof. exact (only context). Qed.
Check C14_only : forall (hash : ctx -> N) hist cs l d c ls s' ls',
  contexts_of context hist cs ->
  ignore_all context hash [] hist = Ok s' ->
  (forall l0, In l0 ls -> exists c0, context l0 d = Ok c0) ->
  remove_ignored context hash s' ls d = Ok ls' ->
  In l ls -> context l d = Ok c ->
  ~ In c cs ->
  hash_injective_on hash (c :: cs) ->
  In l ls'.
Print Assumptions C14_only.

(* which differences make contexts differ: message, kind, suggestions — and priority, which the
   property does not list but the code hashes too — and the fat tokens of the code's three windows.
   NOT in general "the surrounding words": see C14_only_refuted_F13. *)
Theorem C14_context_differs : forall l d c l' d' c',
  context l d = Ok c -> context l' d' = Ok c' ->
  il_msg l <> il_msg l' \/ il_kind l <> il_kind l' \/ il_sugg l <> il_sugg l' \/ il_prio l <> il_prio l'
  \/ context_tokens l d <> context_tokens l' d' ->
  c <> c'.
Proof. exact context_differs. Qed.
Check C14_context_differs : forall l d c l' d' c',
  context l d = Ok c -> context l' d' = Ok c' ->
  il_msg l <> il_msg l' \/ il_kind l <> il_kind l' \/ il_sugg l <> il_sugg l' \/ il_prio l <> il_prio l'
  \/ context_tokens l d <> context_tokens l' d' ->
  c <> c'.
Print Assumptions C14_context_differs.

(* two lints of one document that differ in the words after them, hidden together *)
Theorem C14_only_refuted_F13 :
  exists d l1 l2,
    doc_wf d /\ same_report l1 l2 /\ il_span l1 <> il_span l2 /\
    nb_tokens l1 d <> nb_tokens l2 d /\ is_ok (nb_tokens l1 d) = true /\ is_ok (nb_tokens l2 d) = true /\
    context l1 d = context l2 d /\
    forall (hash : ctx -> N) s s1, ignore_lint context hash s l1 d = Ok s1 ->
      is_ignored context hash s1 l2 d = Ok true /\
      forall ls ls', remove_ignored context hash s1 ls d = Ok ls' -> ~ In l2 ls'.
Proof. exact only_refuted_F13. Qed.
Check C14_only_refuted_F13 :
  exists d l1 l2,
    doc_wf d /\ same_report l1 l2 /\ il_span l1 <> il_span l2 /\
    nb_tokens l1 d <> nb_tokens l2 d /\ is_ok (nb_tokens l1 d) = true /\ is_ok (nb_tokens l2 d) = true /\
    context l1 d = context l2 d /\
    forall (hash : ctx -> N) s s1, ignore_lint context hash s l1 d = Ok s1 ->
      is_ignored context hash s1 l2 d = Ok true /\
      forall ls ls', remove_ignored context hash s1 ls d = Ok ls' -> ~ In l2 ls'.
Print Assumptions C14_only_refuted_F13.

(* ---------- export / import ---------- *)
(* p = the list in the HashSet's iteration order.  The exported text imports into an empty list
   to a duplicate-free list with the same members, and importing it into the list it came from
   (import appends) returns that list unchanged. *)
Theorem C14_roundtrip : forall s p,
  Permutation p s -> Forall (fun h => (h <= u64_max)%N) s ->
  (exists s', import_into [] (run_export p) = Some s' /\ NoDup s' /\ forall h, In h s' <-> In h s) /\
  import_into s (run_export p) = Some s.
Proof. exact roundtrip. Qed.
Check C14_roundtrip : forall s p,
  Permutation p s -> Forall (fun h => (h <= u64_max)%N) s ->
  (exists s', import_into [] (run_export p) = Some s' /\ NoDup s' /\ forall h, In h s' <-> In h s) /\
  import_into s (run_export p) = Some s.
Print Assumptions C14_roundtrip.

(* ---------- keeps hiding it ---------- *)
(* what is true of the code: equal fat tokens (twin_loc included) in the three windows
   [s-2,s) (only when s >= 2), [s,e), [s+2,s+4)  ==>  still ignored.  Partial: those windows are not
   "the tokens within two characters" and fat tokens are not position free. *)
Theorem C14_stable_partial : forall (hash : ctx -> N) s l d l' d' w s1 hist s2,
  same_report l l' ->
  context_tokens l d = Ok w -> context_tokens l' d' = Ok w ->
  ignore_lint context hash s l d = Ok s1 ->
  ignore_all context hash s1 hist = Ok s2 ->
  is_ignored context hash s2 l' d' = Ok true.
Proof. exact stable_partial. Qed.
Check C14_stable_partial : forall (hash : ctx -> N) s l d l' d' w s1 hist s2,
  same_report l l' ->
  context_tokens l d = Ok w -> context_tokens l' d' = Ok w ->
  ignore_lint context hash s l d = Ok s1 ->
  ignore_all context hash s1 hist = Ok s2 ->
  is_ignored context hash s2 l' d' = Ok true.
Print Assumptions C14_stable_partial.

(* the property's premise (`untouched`: same report; the position-free tokens before / under / after
   the flagged text are the same) suffices for every lint OUTSIDE the two known classes *)
Theorem C14_stable_outside_known : forall l d l' d' b p a,
  same_report l l' ->
  nb_parts l d = Ok (b, p, a) -> nb_parts l' d' = Ok (b, p, a) ->
  no_quote (b ++ p ++ a) ->                                                      (* not F12 *)
  send (il_span l) = sstart (il_span l) + 2 -> send (il_span l') = sstart (il_span l') + 2 ->   (* not F13 *)
  (2 <= sstart (il_span l) <-> 2 <= sstart (il_span l')) ->
  context l d = context l' d'.
Proof. exact stable_outside_known. Qed.
Check C14_stable_outside_known : forall l d l' d' b p a,
  same_report l l' ->
  nb_parts l d = Ok (b, p, a) -> nb_parts l' d' = Ok (b, p, a) ->
  no_quote (b ++ p ++ a) ->
  send (il_span l) = sstart (il_span l) + 2 -> send (il_span l') = sstart (il_span l') + 2 ->
  (2 <= sstart (il_span l) <-> 2 <= sstart (il_span l')) ->
  context l d = context l' d'.
Print Assumptions C14_stable_outside_known.

(* F12: text is prepended, nothing else changes, the contexts differ in twin_loc only, and any hash
   that tells them apart reports the ignored lint again *)
Theorem C14_stable_refuted_F12 :
  exists l d l' d',
    doc_wf d /\ doc_wf d' /\ untouched l d l' d' /\
    (exists k, l' = shift_lint k l /\ skipn k (dsrc d') = dsrc d) /\
    context_f12 l d = context_f12 l' d' /\
    exists c c', context l d = Ok c /\ context l' d' = Ok c' /\ c <> c' /\
      forall hash : ctx -> N, hash c <> hash c' ->
        exists s1, ignore_lint context hash [] l d = Ok s1 /\ is_ignored context hash s1 l' d' = Ok false.
Proof. exact stable_refuted_F12. Qed.
Check C14_stable_refuted_F12 :
  exists l d l' d',
    doc_wf d /\ doc_wf d' /\ untouched l d l' d' /\
    (exists k, l' = shift_lint k l /\ skipn k (dsrc d') = dsrc d) /\
    context_f12 l d = context_f12 l' d' /\
    exists c c', context l d = Ok c /\ context l' d' = Ok c' /\ c <> c' /\
      forall hash : ctx -> N, hash c <> hash c' ->
        exists s1, ignore_lint context hash [] l d = Ok s1 /\ is_ignored context hash s1 l' d' = Ok false.
Print Assumptions C14_stable_refuted_F12.

(* F13: a one-character lint, no quotation mark around; a word three characters after it is edited *)
Theorem C14_stable_refuted_F13 :
  exists l d l' d',
    doc_wf d /\ doc_wf d' /\ untouched l d l' d' /\ il_span l' = il_span l /\
    span_len_wf (il_span l) = 1 /\
    no_quote (match nb_tokens l d with Ok w => w | Panic _ => [] end) /\
    context_f12 l d <> context_f12 l' d' /\
    exists c c', context l d = Ok c /\ context l' d' = Ok c' /\ c <> c' /\
      forall hash : ctx -> N, hash c <> hash c' ->
        exists s1, ignore_lint context hash [] l d = Ok s1 /\ is_ignored context hash s1 l' d' = Ok false.
Proof. exact stable_refuted_F13. Qed.
Check C14_stable_refuted_F13 :
  exists l d l' d',
    doc_wf d /\ doc_wf d' /\ untouched l d l' d' /\ il_span l' = il_span l /\
    span_len_wf (il_span l) = 1 /\
    no_quote (match nb_tokens l d with Ok w => w | Panic _ => [] end) /\
    context_f12 l d <> context_f12 l' d' /\
    exists c c', context l d = Ok c /\ context l' d' = Ok c' /\ c <> c' /\
      forall hash : ctx -> N, hash c <> hash c' ->
        exists s1, ignore_lint context hash [] l d = Ok s1 /\ is_ignored context hash s1 l' d' = Ok false.
Print Assumptions C14_stable_refuted_F13.

(* F13e: a lint at offset 1 has no prequel window; a Markdown paragraph put in front gives it one *)
Theorem C14_stable_refuted_prequel :
  exists l d l' d',
    doc_wf d /\ doc_wf d' /\ untouched l d l' d' /\
    (exists k, l' = shift_lint k l /\ skipn k (dsrc d') = dsrc d) /\
    sstart (il_span l) = 1 /\
    no_quote (match nb_tokens l d with Ok w => w | Panic _ => [] end) /\
    context_fixed l d = context_fixed l' d' /\
    exists c c', context l d = Ok c /\ context l' d' = Ok c' /\ c <> c' /\
      forall hash : ctx -> N, hash c <> hash c' ->
        exists s1, ignore_lint context hash [] l d = Ok s1 /\ is_ignored context hash s1 l' d' = Ok false.
Proof. exact stable_refuted_prequel. Qed.
Check C14_stable_refuted_prequel :
  exists l d l' d',
    doc_wf d /\ doc_wf d' /\ untouched l d l' d' /\
    (exists k, l' = shift_lint k l /\ skipn k (dsrc d') = dsrc d) /\
    sstart (il_span l) = 1 /\
    no_quote (match nb_tokens l d with Ok w => w | Panic _ => [] end) /\
    context_fixed l d = context_fixed l' d' /\
    exists c c', context l d = Ok c /\ context l' d' = Ok c' /\ c <> c' /\
      forall hash : ctx -> N, hash c <> hash c' ->
        exists s1, ignore_lint context hash [] l d = Ok s1 /\ is_ignored context hash s1 l' d' = Ok false.
Print Assumptions C14_stable_refuted_prequel.

(* hence the property's third sentence, as a statement about the code, is false — also with F12's repair alone *)
Theorem C14_stays_ignored_refuted : ~ stays_ignored context /\ ~ stays_ignored context_f12.
Proof. exact stays_ignored_refuted. Qed.
Check C14_stays_ignored_refuted : ~ stays_ignored context /\ ~ stays_ignored context_f12.
Print Assumptions C14_stays_ignored_refuted.

(* ---------- the repaired context: full strength ---------- *)
Theorem C14_stable_fixed : forall (hash : ctx -> N) s l d l' d' s1 hist s2,
  doc_wf d -> doc_wf d' -> untouched l d l' d' ->
  ignore_lint context_fixed hash s l d = Ok s1 -> ignore_all context_fixed hash s1 hist = Ok s2 ->
  is_ignored context_fixed hash s2 l' d' = Ok true.
Proof. exact stable_fixed. Qed.
Check C14_stable_fixed : forall (hash : ctx -> N) s l d l' d' s1 hist s2,
  doc_wf d -> doc_wf d' -> untouched l d l' d' ->
  ignore_lint context_fixed hash s l d = Ok s1 -> ignore_all context_fixed hash s1 hist = Ok s2 ->
  is_ignored context_fixed hash s2 l' d' = Ok true.
Print Assumptions C14_stable_fixed.

Theorem C14_hides_fixed : forall (hash : ctx -> N) s hist l d ls,
  In (l, d) hist ->
  (forall l' d', In (l', d') hist -> doc_wf d') -> doc_wf d ->
  exists s' ls', ignore_all context_fixed hash s hist = Ok s' /\ remove_ignored context_fixed hash s' ls d = Ok ls' /\
    ~ In l ls' /\ (forall l', context_fixed l' d = context_fixed l d -> ~ In l' ls') /\
    (forall l', In l' ls' -> In l' ls).
Proof. exact (fun hash => hides context_fixed hash context_fixed_total). Qed.
Check C14_hides_fixed : forall (hash : ctx -> N) s hist l d ls,
  In (l, d) hist ->
  (forall l' d', In (l', d') hist -> doc_wf d') -> doc_wf d ->
  exists s' ls', ignore_all context_fixed hash s hist = Ok s' /\ remove_ignored context_fixed hash s' ls d = Ok ls' /\
    ~ In l ls' /\ (forall l', context_fixed l' d = context_fixed l d -> ~ In l' ls') /\
    (forall l', In l' ls' -> In l' ls).
Print Assumptions C14_hides_fixed.

Theorem C14_only_fixed : forall (hash : ctx -> N) hist cs l d c ls s' ls',
  contexts_of context_fixed hist cs ->
  ignore_all context_fixed hash [] hist = Ok s' ->
  (forall l0, In l0 ls -> exists c0, context_fixed l0 d = Ok c0) ->
  remove_ignored context_fixed hash s' ls d = Ok ls' ->
  In l ls -> context_fixed l d = Ok c ->
  ~ In c cs ->
  hash_injective_on hash (c :: cs) ->
  In l ls'.
Proof. exact (only context_fixed). Qed.
Check C14_only_fixed : forall (hash : ctx -> N) hist cs l d c ls s' ls',
  contexts_of context_fixed hist cs ->
  ignore_all context_fixed hash [] hist = Ok s' ->
  (forall l0, In l0 ls -> exists c0, context_fixed l0 d = Ok c0) ->
  remove_ignored context_fixed hash s' ls d = Ok ls' ->
  In l ls -> context_fixed l d = Ok c ->
  ~ In c cs ->
  hash_injective_on hash (c :: cs) ->
  In l ls'.
Print Assumptions C14_only_fixed.

(* with the repaired context "differs in surrounding words" does mean "different context" *)
Theorem C14_fixed_differs : forall l d c l' d' c',
  context_fixed l d = Ok c -> context_fixed l' d' = Ok c' ->
  il_msg l <> il_msg l' \/ il_kind l <> il_kind l' \/ il_sugg l <> il_sugg l' \/ il_prio l <> il_prio l'
  \/ nb_tokens l d <> nb_tokens l' d' ->
  c <> c'.
Proof. exact context_fixed_differs. Qed.
Check C14_fixed_differs : forall l d c l' d' c',
  context_fixed l d = Ok c -> context_fixed l' d' = Ok c' ->
  il_msg l <> il_msg l' \/ il_kind l <> il_kind l' \/ il_sugg l <> il_sugg l' \/ il_prio l <> il_prio l'
  \/ nb_tokens l d <> nb_tokens l' d' ->
  c <> c'.
Print Assumptions C14_fixed_differs.

(* ---------- non-vacuity ---------- *)
(* the premises of hides / stable_fixed / stable_outside_known are satisfiable on real documents:
   the three witness documents are well formed, the F12 and F13 pairs satisfy `untouched`, and the
   repaired context keeps both ignored while telling the two `recieve` lints apart *)
Example C14_nonvacuous_docs :
  doc_wf f12_d1 /\ doc_wf f12_d2 /\ untouched f12_l1 f12_d1 f12_l2 f12_d2 /\ untouched f13s_l1 f13s_d1 f13s_l2 f13s_d2 /\
  context_fixed f12_l1 f12_d1 = context_fixed f12_l2 f12_d2 /\
  context_fixed f13s_l1 f13s_d1 = context_fixed f13s_l2 f13s_d2 /\
  context_fixed f13o_l1 f13o_d1 <> context_fixed f13o_l2 f13o_d1.
Proof.
  split; [apply f12_wf|]. split; [apply f12_wf|]. split; [apply f12_untouched|]. split; [apply f13s_untouched|].
  split; [apply f12_fixed_same|]. split; [apply f13s_fixed_same|]. apply f13o_fixed_differ.
Qed.

(* the context of the F12 lint: prequel = (space, quote -> 8), problem = `an`, sequel = (space, `problem`) *)
Example C14_context_indices_example :
  context_indices f12_l1 f12_d1 = [3; 4; 5; 6; 7] /\ context_indices f13o_l1 f13o_d1 = [0; 1; 2; 2] /\
  context_indices (mkilint (mkspan 0 3) 0%N [] [] 0%N) f13o_d1 = [0; 1; 1; 2].
Proof. repeat split; vm_compute; reflexivity. Qed.

(* stable_outside_known is not vacuous: a two-character lint away from quotation marks, text prepended *)
Example C14_outside_known_example :
  let d := mkdoc [111; 102; 32; 97; 110; 32; 97; 112; 101]%N
             [mktok (mkspan 0 2) (KWord (Some 1%N)); mktok (mkspan 2 3) (KSpace 1); mktok (mkspan 3 5) (KWord (Some 2%N));
              mktok (mkspan 5 6) (KSpace 1); mktok (mkspan 6 9) (KWord (Some 3%N))] in
  let d' := mkdoc [79; 104; 46; 32; 111; 102; 32; 97; 110; 32; 97; 112; 101]%N
             [mktok (mkspan 0 2) (KWord (Some 9%N)); mktok (mkspan 2 3) (KPunct 7%N); mktok (mkspan 3 4) (KSpace 1);
              mktok (mkspan 4 6) (KWord (Some 1%N)); mktok (mkspan 6 7) (KSpace 1); mktok (mkspan 7 9) (KWord (Some 2%N));
              mktok (mkspan 9 10) (KSpace 1); mktok (mkspan 10 13) (KWord (Some 3%N))] in
  let l := mkilint (mkspan 3 5) 8%N [ReplaceWith [97]%N] [120]%N 31%N in
  let l' := shift_lint 4 l in
  exists b p a, nb_parts l d = Ok (b, p, a) /\ nb_parts l' d' = Ok (b, p, a) /\ no_quote (b ++ p ++ a) /\
    context l d = context l' d' /\ is_ok (context l d) = true.
Proof.
  cbv zeta. eexists _, _, _. split; [vm_compute; reflexivity|]. split; [vm_compute; reflexivity|].
  split; [repeat constructor; intros t; discriminate|]. split; vm_compute; reflexivity.
Qed.

(* export / import on concrete u64 values, the largest included *)
Example C14_roundtrip_example :
  run_import (run_export [18446744073709551615; 0; 10; 1099511627776]%N) = Some [1099511627776; 10; 0; 18446744073709551615]%N /\
  run_import [123; 34; 99; 111; 110; 116; 101; 120; 116; 95; 104; 97; 115; 104; 101; 115; 34; 58; 91; 48; 49; 93; 125]%N = None /\
  run_import (run_export [18446744073709551616]%N) = None.
Proof. repeat split; vm_compute; reflexivity. Qed.
