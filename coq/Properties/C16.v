(* C16 — The JavaScript-facing linter API (harper_wasm::Linter) is self-consistent.
   Pinned statements only: nothing but `exact`.  The model is Model/Wasm.v (state machine `step`/`run`
   over the Section variables curated / word_id / raw_lints / ctx, which appear here as universally
   quantified parameters) and Model/LintJson.v (serde_json text of Span / Suggestion / Lint). *)
From Coq Require Import String.
Require Import Ignore IgnoreProofs.
Require Import Base Overlap Suggestion LintJson Wasm ListLemmas OverlapProofs SuggestionProofs WasmProofs LintJsonProofs Tables_wasmapi WasmTables.
Require Import C16Ctx C16CtxProofs.
Require JsonEscape Stats.
Require Import C16Api C16ApiProofs Tables_wasmsurface C16Surface.
Require C19Record C19RecordProofs C16Stats C16StatsProofs.
From Coq Require Import List Sorting.Sorted Sorting.Permutation.

(* lint, any state, any text: when the rules' lints lie inside the text (C03's business, monitored), the answer exists (no panic while slicing the problem text), every returned lint lies inside the text, is one of the rules' lints, carries exactly the characters at its span and the language of the call, and no two returned lints share a character (C13 lifted through the wrapper) *)
Theorem C16_lint_wellformed :
  forall (curated : config) (word_id : text -> N) (raw_lints : text -> language -> config -> dict -> nat -> list rlint) (ctx : rlint -> text -> language -> dict -> N) st t lang,
  Forall (fun l => span_in (length t) (rspan l)) (raw_of curated raw_lints st t lang) ->
  exists ls, api_lint curated raw_lints ctx st t lang = Ok ls /\
    Forall (fun w => span_in (length t) (rspan (winner w))
                     /\ wproblem w = slice t (sstart (rspan (winner w))) (send (rspan (winner w)))
                     /\ wlang w = lang
                     /\ In (winner w) (raw_of curated raw_lints st t lang)) ls
    /\ ForallOrdPairs (fun a b => rdisjoint (winner a) (winner b)) ls.
Proof. exact lint_wellformed. Qed.
Check C16_lint_wellformed :
  forall (curated : config) (word_id : text -> N) (raw_lints : text -> language -> config -> dict -> nat -> list rlint) (ctx : rlint -> text -> language -> dict -> N) st t lang,
  Forall (fun l => span_in (length t) (rspan l)) (raw_of curated raw_lints st t lang) ->
  exists ls, api_lint curated raw_lints ctx st t lang = Ok ls /\
    Forall (fun w => span_in (length t) (rspan (winner w))
                     /\ wproblem w = slice t (sstart (rspan (winner w))) (send (rspan (winner w)))
                     /\ wlang w = lang
                     /\ In (winner w) (raw_of curated raw_lints st t lang)) ls
    /\ ForallOrdPairs (fun a b => rdisjoint (winner a) (winner b)) ls.
Print Assumptions C16_lint_wellformed.

(* ... for every history of calls from every state: each answer to a lint call is well-formed *)
Theorem C16_history_wellformed :
  forall (curated : config) (word_id : text -> N) (raw_lints : text -> language -> config -> dict -> nat -> list rlint) (ctx : rlint -> text -> language -> dict -> N),
  (forall t lang cfg d dia, Forall (fun l => span_in (length t) (rspan l)) (raw_lints t lang cfg d dia)) ->
  forall cs st, Forall2 answer_ok cs (snd (run curated word_id raw_lints ctx st cs)).
Proof. exact history_wellformed. Qed.
Check C16_history_wellformed :
  forall (curated : config) (word_id : text -> N) (raw_lints : text -> language -> config -> dict -> nat -> list rlint) (ctx : rlint -> text -> language -> dict -> N),
  (forall t lang cfg d dia, Forall (fun l => span_in (length t) (rspan l)) (raw_lints t lang cfg d dia)) ->
  forall cs st, Forall2 answer_ok cs (snd (run curated word_id raw_lints ctx st cs)).
Print Assumptions C16_history_wellformed.

(* apply_suggestion on a lint inside the text: the answer is prefix ++ replacement ++ suffix of exactly that span (C03), one statistics record is appended and nothing else of the state changes *)
Theorem C16_apply :
  forall (curated : config) (word_id : text -> N) (raw_lints : text -> language -> config -> dict -> nat -> list rlint) (ctx : rlint -> text -> language -> dict -> N) st t l s,
  span_in (length t) (rspan (winner l)) ->
  let sp := rspan (winner l) in
  step curated word_id raw_lints ctx st (CApply t l s) =
    (push_record st t l, OText (firstn (sstart sp) t ++ repl s (slice t (sstart sp) (send sp)) ++ skipn (send sp) t))
  /\ length (s_stats (push_record st t l)) = S (length (s_stats st))
  /\ s_cfg (push_record st t l) = s_cfg st /\ s_user (push_record st t l) = s_user st
  /\ s_lint_dict (push_record st t l) = s_lint_dict st /\ s_ignored (push_record st t l) = s_ignored st
  /\ s_dialect (push_record st t l) = s_dialect st.
Proof. exact apply_spec_wasm. Qed.
Check C16_apply :
  forall (curated : config) (word_id : text -> N) (raw_lints : text -> language -> config -> dict -> nat -> list rlint) (ctx : rlint -> text -> language -> dict -> N) st t l s,
  span_in (length t) (rspan (winner l)) ->
  let sp := rspan (winner l) in
  step curated word_id raw_lints ctx st (CApply t l s) =
    (push_record st t l, OText (firstn (sstart sp) t ++ repl s (slice t (sstart sp) (send sp)) ++ skipn (send sp) t))
  /\ length (s_stats (push_record st t l)) = S (length (s_stats st))
  /\ s_cfg (push_record st t l) = s_cfg st /\ s_user (push_record st t l) = s_user st
  /\ s_lint_dict (push_record st t l) = s_lint_dict st /\ s_ignored (push_record st t l) = s_ignored st
  /\ s_dialect (push_record st t l) = s_dialect st.
Print Assumptions C16_apply.

(* ignore_lint of a returned lint, then lint of the same text: the earlier answer minus exactly the lints whose context equals that of the ignored lint (order kept, problem texts kept), the ignored lint itself is gone, nothing else of the state changes.  (lib.rs removes overlaps BEFORE ignored lints, so dropping a lint cannot resurrect one that lost an overlap.) *)
Theorem C16_ignore :
  forall (curated : config) (word_id : text -> N) (raw_lints : text -> language -> config -> dict -> nat -> list rlint) (ctx : rlint -> text -> language -> dict -> N) st t lang ls l,
  api_lint curated raw_lints ctx st t lang = Ok ls -> In l ls ->
  let st' := fst (step curated word_id raw_lints ctx st (CIgnore t l)) in
  let same (w : wlint) := (ctx (winner w) t lang (s_lint_dict st) =? ctx (winner l) t lang (s_lint_dict st))%N in
  api_lint curated raw_lints ctx st' t lang = Ok (filter (fun w => negb (same w)) ls)
  /\ ~ In l (filter (fun w => negb (same w)) ls)
  /\ s_cfg st' = s_cfg st /\ s_user st' = s_user st /\ s_lint_dict st' = s_lint_dict st
  /\ s_stats st' = s_stats st /\ s_dialect st' = s_dialect st.
Proof. exact ignore_spec. Qed.
Check C16_ignore :
  forall (curated : config) (word_id : text -> N) (raw_lints : text -> language -> config -> dict -> nat -> list rlint) (ctx : rlint -> text -> language -> dict -> N) st t lang ls l,
  api_lint curated raw_lints ctx st t lang = Ok ls -> In l ls ->
  let st' := fst (step curated word_id raw_lints ctx st (CIgnore t l)) in
  let same (w : wlint) := (ctx (winner w) t lang (s_lint_dict st) =? ctx (winner l) t lang (s_lint_dict st))%N in
  api_lint curated raw_lints ctx st' t lang = Ok (filter (fun w => negb (same w)) ls)
  /\ ~ In l (filter (fun w => negb (same w)) ls)
  /\ s_cfg st' = s_cfg st /\ s_user st' = s_user st /\ s_lint_dict st' = s_lint_dict st
  /\ s_stats st' = s_stats st /\ s_dialect st' = s_dialect st.
Print Assumptions C16_ignore.

(* an ignored lint stays away, for ANY context function (the abstract form; C16_ignore_persistent below instantiates the context with the model of LintContext::from_lint and has no such premise): GIVEN that the context hash of a lint is the same under every user dictionary (ctx_ignores_dict), after ignore_lint, whatever is called in between (import_words, set_lint_config, imports, other ignores ...) until clear_ignored_lints: no later answer on any text contains a lint with the ignored context, and no later answer on the same text and language contains the ignored lint *)
Theorem C16_ignore_persistent_any_context :
  forall (curated : config) (word_id : text -> N) (raw_lints : text -> language -> config -> dict -> nat -> list rlint) (ctx : rlint -> text -> language -> dict -> N) st t l cs t2 lang2 ls,
  ctx_ignores_dict ctx ->
  Forall (fun c => c <> CClearIgnored) cs ->
  let st1 := fst (step curated word_id raw_lints ctx st (CIgnore t l)) in
  let st2 := fst (run curated word_id raw_lints ctx st1 cs) in
  api_lint curated raw_lints ctx st2 t2 lang2 = Ok ls ->
  Forall (fun w => (forall d d', ctx (winner w) t2 lang2 d <> ctx (winner l) t (wlang l) d')
                   /\ (t2 = t -> lang2 = wlang l -> winner w <> winner l)) ls.
Proof. exact ignore_persistent_full. Qed.
Check C16_ignore_persistent_any_context :
  forall (curated : config) (word_id : text -> N) (raw_lints : text -> language -> config -> dict -> nat -> list rlint) (ctx : rlint -> text -> language -> dict -> N) st t l cs t2 lang2 ls,
  ctx_ignores_dict ctx ->
  Forall (fun c => c <> CClearIgnored) cs ->
  let st1 := fst (step curated word_id raw_lints ctx st (CIgnore t l)) in
  let st2 := fst (run curated word_id raw_lints ctx st1 cs) in
  api_lint curated raw_lints ctx st2 t2 lang2 = Ok ls ->
  Forall (fun w => (forall d d', ctx (winner w) t2 lang2 d <> ctx (winner l) t (wlang l) d')
                   /\ (t2 = t -> lang2 = wlang l -> winner w <> winner l)) ls.
Print Assumptions C16_ignore_persistent_any_context.

(* the Document model behind the context (Model/C16Ctx.v: the token sequence of parser + the passes of Document::parse that run without a dictionary, then the metadata loop): whatever the dictionary, the document of a text has that text as source and is the dictionary-free token sequence up to the metadata of word tokens — same spans, same kinds, same quote partners.  'The dictionary only sets word metadata.' *)
Theorem C16_document_dictionary_sets_metadata_only :
  forall (pre_tokens : text -> language -> list token) (word_meta : dict -> text -> option N) t lang d dc,
  document pre_tokens word_meta t lang d = Ok dc ->
  dsrc dc = t /\ blank_doc dc = blank_doc (mkdoc t (pre_tokens t lang))
  /\ map tspan (dtoks dc) = map tspan (pre_tokens t lang).
Proof. exact document_is_pre_tokens_up_to_metadata. Qed.
Check C16_document_dictionary_sets_metadata_only :
  forall (pre_tokens : text -> language -> list token) (word_meta : dict -> text -> option N) t lang d dc,
  document pre_tokens word_meta t lang d = Ok dc ->
  dsrc dc = t /\ blank_doc dc = blank_doc (mkdoc t (pre_tokens t lang))
  /\ map tspan (dtoks dc) = map tspan (pre_tokens t lang).
Print Assumptions C16_document_dictionary_sets_metadata_only.

(* ctx_ignores_dict DISCHARGED: with the context of Model/Ignore.v (C14's model of LintContext::from_lint, which blanks word metadata since 483b7cf) over that Document model, the context of a lint on a text — the LintContext value, its hash under any hash function, and the total function Wasm.v's `ctx` is instantiated with — is the same under every user dictionary (a panic included: the same panic) *)
Theorem C16_context_ignores_dictionary :
  forall (pre_tokens : text -> language -> list token) (word_meta : dict -> text -> option N) (hash : Ignore.ctx -> N),
  (forall l t lang d d', context_of pre_tokens word_meta l t lang d = context_of pre_tokens word_meta l t lang d')
  /\ (forall l t lang d d', hash_of pre_tokens word_meta hash l t lang d = hash_of pre_tokens word_meta hash l t lang d')
  /\ ctx_ignores_dict (ctx_inst pre_tokens word_meta hash).
Proof. exact context_ignores_dictionary. Qed.
Check C16_context_ignores_dictionary :
  forall (pre_tokens : text -> language -> list token) (word_meta : dict -> text -> option N) (hash : Ignore.ctx -> N),
  (forall l t lang d d', context_of pre_tokens word_meta l t lang d = context_of pre_tokens word_meta l t lang d')
  /\ (forall l t lang d d', hash_of pre_tokens word_meta hash l t lang d = hash_of pre_tokens word_meta hash l t lang d')
  /\ ctx_ignores_dict (ctx_inst pre_tokens word_meta hash).
Print Assumptions C16_context_ignores_dictionary.

(* ... and on well-formed token sequences (every token inside the text: C02) building the document and the context does not panic, and the instance is the hash of the LintContext *)
Theorem C16_context_total :
  forall (pre_tokens : text -> language -> list token) (word_meta : dict -> text -> option N) (hash : Ignore.ctx -> N) l t lang d,
  (forall t lang, Forall (fun tok => span_in (length t) (tspan tok)) (pre_tokens t lang)) ->
  exists c, context_of pre_tokens word_meta l t lang d = Ok c
            /\ hash_of pre_tokens word_meta hash l t lang d = Ok (hash c)
            /\ ctx_inst pre_tokens word_meta hash l t lang d = hash c.
Proof. exact context_of_total. Qed.
Check C16_context_total :
  forall (pre_tokens : text -> language -> list token) (word_meta : dict -> text -> option N) (hash : Ignore.ctx -> N) l t lang d,
  (forall t lang, Forall (fun tok => span_in (length t) (tspan tok)) (pre_tokens t lang)) ->
  exists c, context_of pre_tokens word_meta l t lang d = Ok c
            /\ hash_of pre_tokens word_meta hash l t lang d = Ok (hash c)
            /\ ctx_inst pre_tokens word_meta hash l t lang d = hash c.
Print Assumptions C16_context_total.

(* an ignored lint stays away, full strength, NO premise about the dictionary: with `ctx` instantiated as above, after ignore_lint, whatever is called in between (import_words, set_lint_config, imports, other ignores ...) until clear_ignored_lints, under any hash function: no later answer on any text contains a lint with the ignored context hash, nor one with the ignored LintContext (under any dictionaries), and no later answer on the same text and language contains the ignored lint *)
Theorem C16_ignore_persistent :
  forall (curated : config) (word_id : text -> N) (raw_lints : text -> language -> config -> dict -> nat -> list rlint)
         (pre_tokens : text -> language -> list token) (word_meta : dict -> text -> option N) (hash : Ignore.ctx -> N) st t l cs t2 lang2 ls,
  let ctx := ctx_inst pre_tokens word_meta hash in
  Forall (fun c => c <> CClearIgnored) cs ->
  let st1 := fst (step curated word_id raw_lints ctx st (CIgnore t l)) in
  let st2 := fst (run curated word_id raw_lints ctx st1 cs) in
  api_lint curated raw_lints ctx st2 t2 lang2 = Ok ls ->
  Forall (fun w => (forall d d', ctx (winner w) t2 lang2 d <> ctx (winner l) t (wlang l) d')
                   /\ (forall d d', context_of pre_tokens word_meta (winner w) t2 lang2 d
                                    <> context_of pre_tokens word_meta (winner l) t (wlang l) d')
                   /\ (t2 = t -> lang2 = wlang l -> winner w <> winner l)) ls.
Proof. exact ignore_persistent_closed. Qed.
Check C16_ignore_persistent :
  forall (curated : config) (word_id : text -> N) (raw_lints : text -> language -> config -> dict -> nat -> list rlint)
         (pre_tokens : text -> language -> list token) (word_meta : dict -> text -> option N) (hash : Ignore.ctx -> N) st t l cs t2 lang2 ls,
  let ctx := ctx_inst pre_tokens word_meta hash in
  Forall (fun c => c <> CClearIgnored) cs ->
  let st1 := fst (step curated word_id raw_lints ctx st (CIgnore t l)) in
  let st2 := fst (run curated word_id raw_lints ctx st1 cs) in
  api_lint curated raw_lints ctx st2 t2 lang2 = Ok ls ->
  Forall (fun w => (forall d d', ctx (winner w) t2 lang2 d <> ctx (winner l) t (wlang l) d')
                   /\ (forall d d', context_of pre_tokens word_meta (winner w) t2 lang2 d
                                    <> context_of pre_tokens word_meta (winner l) t (wlang l) d')
                   /\ (t2 = t -> lang2 = wlang l -> winner w <> winner l)) ls.
Print Assumptions C16_ignore_persistent.

(* export_ignored_lints gives JSON that import_ignored_lints reads back as the same list; imported into any linter it adds exactly those contexts and changes nothing else; export, clear, import on one linter restores the behaviour of lint on every text *)
Theorem C16_ignore_roundtrip :
  forall (curated : config) (word_id : text -> N) (raw_lints : text -> language -> config -> dict -> nat -> list rlint) (ctx : rlint -> text -> language -> dict -> N) st,
  exists j, step curated word_id raw_lints ctx st CExportIgnored = (st, OJson j) /\
    ignored_from_json j = Some (s_ignored st) /\
    (forall st', exists st2, step curated word_id raw_lints ctx st' (CImportIgnored j) = (st2, OUnit) /\
       (forall h, hmem h (s_ignored st2) = hmem h (s_ignored st') || hmem h (s_ignored st)) /\
       s_cfg st2 = s_cfg st' /\ s_user st2 = s_user st' /\ s_lint_dict st2 = s_lint_dict st' /\
       s_stats st2 = s_stats st' /\ s_dialect st2 = s_dialect st') /\
    let st1 := fst (step curated word_id raw_lints ctx st CClearIgnored) in
    let st2 := fst (step curated word_id raw_lints ctx st1 (CImportIgnored j)) in
    (forall h, hmem h (s_ignored st2) = hmem h (s_ignored st)) /\
    (forall t lang, api_lint curated raw_lints ctx st2 t lang = api_lint curated raw_lints ctx st t lang).
Proof. exact ignored_roundtrip. Qed.
Check C16_ignore_roundtrip :
  forall (curated : config) (word_id : text -> N) (raw_lints : text -> language -> config -> dict -> nat -> list rlint) (ctx : rlint -> text -> language -> dict -> N) st,
  exists j, step curated word_id raw_lints ctx st CExportIgnored = (st, OJson j) /\
    ignored_from_json j = Some (s_ignored st) /\
    (forall st', exists st2, step curated word_id raw_lints ctx st' (CImportIgnored j) = (st2, OUnit) /\
       (forall h, hmem h (s_ignored st2) = hmem h (s_ignored st') || hmem h (s_ignored st)) /\
       s_cfg st2 = s_cfg st' /\ s_user st2 = s_user st' /\ s_lint_dict st2 = s_lint_dict st' /\
       s_stats st2 = s_stats st' /\ s_dialect st2 = s_dialect st') /\
    let st1 := fst (step curated word_id raw_lints ctx st CClearIgnored) in
    let st2 := fst (step curated word_id raw_lints ctx st1 (CImportIgnored j)) in
    (forall h, hmem h (s_ignored st2) = hmem h (s_ignored st)) /\
    (forall t lang, api_lint curated raw_lints ctx st2 t lang = api_lint curated raw_lints ctx st t lang).
Print Assumptions C16_ignore_roundtrip.

(* the lint dictionary IS the user dictionary in every state reachable from a synchronised one, in particular in every history from Linter::new (import_words re-synchronises whenever the user dictionary changed, fix ba0a239; C16-F15 repaired) *)
Theorem C16_synced :
  forall (curated : config) (word_id : text -> N) (raw_lints : text -> language -> config -> dict -> nat -> list rlint) (ctx : rlint -> text -> language -> dict -> N) cs st,
  s_lint_dict st = s_user st ->
  s_lint_dict (fst (run curated word_id raw_lints ctx st cs)) = s_user (fst (run curated word_id raw_lints ctx st cs)).
Proof. exact run_synced. Qed.
Check C16_synced :
  forall (curated : config) (word_id : text -> N) (raw_lints : text -> language -> config -> dict -> nat -> list rlint) (ctx : rlint -> text -> language -> dict -> N) cs st,
  s_lint_dict st = s_user st ->
  s_lint_dict (fst (run curated word_id raw_lints ctx st cs)) = s_user (fst (run curated word_id raw_lints ctx st cs)).
Print Assumptions C16_synced.

(* custom words, state level: a new linter that imports the exported words in any order ends up with the same user dictionary, synchronised on it, and exports the same words *)
Theorem C16_words_reimport :
  forall (curated : config) (word_id : text -> N) st dia ws,
  dict_wf word_id (s_user st) -> Permutation ws (export_words st) ->
  let st2 := import_words curated word_id (new curated dia) ws in
  s_user st2 = s_user st /\ s_lint_dict st2 = s_user st /\ s_cfg st2 = cfg_clear curated /\ s_ignored st2 = []
  /\ export_words st2 = export_words st.
Proof. exact words_roundtrip. Qed.
Check C16_words_reimport :
  forall (curated : config) (word_id : text -> N) st dia ws,
  dict_wf word_id (s_user st) -> Permutation ws (export_words st) ->
  let st2 := import_words curated word_id (new curated dia) ws in
  s_user st2 = s_user st /\ s_lint_dict st2 = s_user st /\ s_cfg st2 = cfg_clear curated /\ s_ignored st2 = []
  /\ export_words st2 = export_words st.
Print Assumptions C16_words_reimport.

(* 'exporting then importing the custom words restores the same behaviour', full strength: for EVERY history of calls on a linter made by Linter::new, a second new linter that receives the first one's configuration (get/set_lint_config), ignore list (export/import) and exported words in any order exports the same words and answers lint on every text in both languages exactly as the first (the configurations may differ in null entries of names that are no rules; fill_with_curated copies only explicit choices, so the rules see the same configuration) *)
Theorem C16_words_roundtrip :
  forall (curated : config) (word_id : text -> N) (raw_lints : text -> language -> config -> dict -> nat -> list rlint) (ctx : rlint -> text -> language -> dict -> N) dia cs ws,
  amap_sorted curated ->
  let st := fst (run curated word_id raw_lints ctx (new curated dia) cs) in
  Permutation ws (export_words st) ->
  let st2 := fst (run curated word_id raw_lints ctx (new curated dia)
                    [CSetConfig (Some (s_cfg st)); CImportIgnored (print_ignored (s_ignored st)); CImportWords ws]) in
  export_words st2 = export_words st /\ s_user st2 = s_user st /\ s_lint_dict st2 = s_lint_dict st
  /\ forall t lang, api_lint curated raw_lints ctx st2 t lang = api_lint curated raw_lints ctx st t lang.
Proof. exact words_roundtrip_full. Qed.
Check C16_words_roundtrip :
  forall (curated : config) (word_id : text -> N) (raw_lints : text -> language -> config -> dict -> nat -> list rlint) (ctx : rlint -> text -> language -> dict -> N) dia cs ws,
  amap_sorted curated ->
  let st := fst (run curated word_id raw_lints ctx (new curated dia) cs) in
  Permutation ws (export_words st) ->
  let st2 := fst (run curated word_id raw_lints ctx (new curated dia)
                    [CSetConfig (Some (s_cfg st)); CImportIgnored (print_ignored (s_ignored st)); CImportWords ws]) in
  export_words st2 = export_words st /\ s_user st2 = s_user st /\ s_lint_dict st2 = s_lint_dict st
  /\ forall t lang, api_lint curated raw_lints ctx st2 t lang = api_lint curated raw_lints ctx st t lang.
Print Assumptions C16_words_roundtrip.

(* JSON: from_json (to_json x) = Some x for Span *)
Theorem C16_json_roundtrip_span :
  forall s, span_from_json (print_span s) = Some s.
Proof. exact span_json_roundtrip. Qed.
Check C16_json_roundtrip_span :
  forall s, span_from_json (print_span s) = Some s.
Print Assumptions C16_json_roundtrip_span.

(* JSON: ... for Suggestion (all three kinds, any characters) *)
Theorem C16_json_roundtrip_suggestion :
  forall s, suggestion_from_json (print_wsuggestion s) = Some s.
Proof. exact suggestion_json_roundtrip. Qed.
Check C16_json_roundtrip_suggestion :
  forall s, suggestion_from_json (print_wsuggestion s) = Some s.
Print Assumptions C16_json_roundtrip_suggestion.

(* JSON: ... for Lint (any span, kind, suggestions, message and problem text over all code points; priority a u8) *)
Theorem C16_json_roundtrip_lint :
  forall l, rprio (winner l) <= 255 -> lint_from_json (print_wlint l) = Some l.
Proof. exact lint_json_roundtrip. Qed.
Check C16_json_roundtrip_lint :
  forall l, rprio (winner l) <= 255 -> lint_from_json (print_wlint l) = Some l.
Print Assumptions C16_json_roundtrip_lint.

(* JSON: ... for the ignore list *)
Theorem C16_json_roundtrip_ignored :
  forall hs, ignored_from_json (print_ignored hs) = Some hs.
Proof. exact ignored_json_roundtrip. Qed.
Check C16_json_roundtrip_ignored :
  forall hs, ignored_from_json (print_ignored hs) = Some hs.
Print Assumptions C16_json_roundtrip_ignored.

(* JSON: the escaping leaves no raw control character in the text of a string *)
Theorem C16_json_no_raw_control :
  forall c, Forall (fun x => (32 <= x)%N) (esc_char c).
Proof. exact esc_char_no_control. Qed.
Check C16_json_no_raw_control :
  forall c, Forall (fun x => (32 <= x)%N) (esc_char c).
Print Assumptions C16_json_no_raw_control.

(* tie to the source text (table regenerated from harper-wasm/src/lib.rs on every run): Linter::lint still does overlay, LintGroup::lint, restore, remove_overlaps, remove_ignored, problem text, in this order; import_words snapshots the user dictionary, extends it and synchronises exactly when `self.user_dictionary != before`; set_lint_config_from_json/_from_object parse, clear, merge; synchronize_lint_dict, apply_suggestion (record first), import_ignored_lints (append), ignore_lint (lint's own language, the linter's dictionary) have the modelled shape *)
Theorem C16_source_shape :
  wasm_lint_pipeline = model_lint_pipeline
  /\ wasm_import_words_before = "self.user_dictionary.clone()"%string
  /\ wasm_import_words_sync_condition = model_sync_condition
  /\ wasm_import_words_steps = model_import_words_steps
  /\ wasm_set_config_json_steps = model_set_config_steps
  /\ wasm_set_config_object_steps = model_set_config_steps
  /\ wasm_synchronize_steps = model_synchronize_steps
  /\ wasm_apply_suggestion_steps = ["push_record"; "apply_to_lint_span"]%string
  /\ wasm_import_ignored_steps = ["append"]%string
  /\ wasm_ignore_lint_steps = ["parser_of_lint_language"; "linter_dictionary"; "ignore_inner_on_document"]%string.
Proof. exact wasm_source_shape. Qed.
Check C16_source_shape :
  wasm_lint_pipeline = model_lint_pipeline
  /\ wasm_import_words_before = "self.user_dictionary.clone()"%string
  /\ wasm_import_words_sync_condition = model_sync_condition
  /\ wasm_import_words_steps = model_import_words_steps
  /\ wasm_set_config_json_steps = model_set_config_steps
  /\ wasm_set_config_object_steps = model_set_config_steps
  /\ wasm_synchronize_steps = model_synchronize_steps
  /\ wasm_apply_suggestion_steps = ["push_record"; "apply_to_lint_span"]%string
  /\ wasm_import_ignored_steps = ["append"]%string
  /\ wasm_ignore_lint_steps = ["parser_of_lint_language"; "linter_dictionary"; "ignore_inner_on_document"]%string.
Print Assumptions C16_source_shape.

(* ... the source facts the premise ctx_ignores_dict rests on: LintContext::from_lint takes the tokens of [start-2,start), the problem span and [end,end+2) and blanks the quote twin index and the word metadata; Document::parse uses the dictionary for the word metadata only; harper-wasm's two parsers take no dictionary *)
Theorem C16_context_shape :
  lint_context_steps = ["problem_tokens"; "prequel_two_before_start"; "sequel_two_after_end"; "to_fat";
                        "blank_quote_twin_loc"; "blank_word_metadata"]%string
  /\ document_parse_dictionary_uses = ["dictionary.get_word_metadata(word_source)"]%string
  /\ wasm_parser_constructors = ["PlainEnglish"; "Markdown::default()"]%string.
Proof. exact wasm_context_shape. Qed.
Check C16_context_shape :
  lint_context_steps = ["problem_tokens"; "prequel_two_before_start"; "sequel_two_after_end"; "to_fat";
                        "blank_quote_twin_loc"; "blank_word_metadata"]%string
  /\ document_parse_dictionary_uses = ["dictionary.get_word_metadata(word_source)"]%string
  /\ wasm_parser_constructors = ["PlainEnglish"; "Markdown::default()"]%string.
Print Assumptions C16_context_shape.

(* ... and the types serde derives the JSON from still have the variants / fields the printers write, with no #[serde(..)] attribute *)
Theorem C16_serde_shape :
  lint_kind_variants = map kind_name all_kinds
  /\ language_variants = [lang_name Plain; lang_name Markdown]
  /\ suggestion_variants = ["ReplaceWith"; "InsertAfter"; "Remove"]%string
  /\ core_lint_fields = ["span"; "lint_kind"; "suggestions"; "message"; "priority"]%string
  /\ core_span_fields = ["start"; "end"]%string /\ wasm_span_fields = ["start"; "end"]%string
  /\ wasm_lint_fields = ["inner"; "problem_text"; "language"]%string
  /\ wasm_suggestion_fields = ["inner"]%string
  /\ ignored_lints_fields = ["context_hashes"]%string
  /\ serde_attributes_on_these_types = [].
Proof. exact wasm_serde_shape. Qed.
Check C16_serde_shape :
  lint_kind_variants = map kind_name all_kinds
  /\ language_variants = [lang_name Plain; lang_name Markdown]
  /\ suggestion_variants = ["ReplaceWith"; "InsertAfter"; "Remove"]%string
  /\ core_lint_fields = ["span"; "lint_kind"; "suggestions"; "message"; "priority"]%string
  /\ core_span_fields = ["start"; "end"]%string /\ wasm_span_fields = ["start"; "end"]%string
  /\ wasm_lint_fields = ["inner"; "problem_text"; "language"]%string
  /\ wasm_suggestion_fields = ["inner"]%string
  /\ ignored_lints_fields = ["context_hashes"]%string
  /\ serde_attributes_on_these_types = [].
Print Assumptions C16_serde_shape.

(* the configuration the rules see during lint (fill_with_curated over a clone, restored afterwards): the user's explicit true/false wins, a null or absent entry falls back to the curated default *)
Theorem C16_config_overlay :
  forall (curated c : config) k, amap_sorted c -> aget k (cfg_fill_with_curated curated c) = match aget k c with Some (Some v) => Some (Some v) | _ => aget k curated end.
Proof. exact config_overlay. Qed.
Check C16_config_overlay :
  forall (curated c : config) k, amap_sorted c -> aget k (cfg_fill_with_curated curated c) = match aget k c with Some (Some v) => Some (Some v) | _ => aget k curated end.
Print Assumptions C16_config_overlay.

(* set_lint_config_from_json REPLACES the explicit choices (clear, then merge; fix b67a243): afterwards a rule is explicitly on/off exactly when the new configuration says so, every key the linter listed stays listed (null when the new configuration does not choose it), nothing else of the state changes *)
Theorem C16_set_config_replaces :
  forall (curated : config) (word_id : text -> N) (raw_lints : text -> language -> config -> dict -> nat -> list rlint) (ctx : rlint -> text -> language -> dict -> N) st c k, amap_sorted c ->
  let st' := fst (step curated word_id raw_lints ctx st (CSetConfig (Some c))) in
  explicit k (s_cfg st') = explicit k c
  /\ aget k (s_cfg st') = match aget k c with
                          | Some (Some v) => Some (Some v)
                          | _ => match aget k (s_cfg st) with Some _ => Some None | None => None end
                          end
  /\ s_user st' = s_user st /\ s_lint_dict st' = s_lint_dict st /\ s_ignored st' = s_ignored st
  /\ s_stats st' = s_stats st /\ s_dialect st' = s_dialect st.
Proof. exact set_config_replaces. Qed.
Check C16_set_config_replaces :
  forall (curated : config) (word_id : text -> N) (raw_lints : text -> language -> config -> dict -> nat -> list rlint) (ctx : rlint -> text -> language -> dict -> N) st c k, amap_sorted c ->
  let st' := fst (step curated word_id raw_lints ctx st (CSetConfig (Some c))) in
  explicit k (s_cfg st') = explicit k c
  /\ aget k (s_cfg st') = match aget k c with
                          | Some (Some v) => Some (Some v)
                          | _ => match aget k (s_cfg st) with Some _ => Some None | None => None end
                          end
  /\ s_user st' = s_user st /\ s_lint_dict st' = s_lint_dict st /\ s_ignored st' = s_ignored st
  /\ s_stats st' = s_stats st /\ s_dialect st' = s_dialect st.
Print Assumptions C16_set_config_replaces.

(* synchronize_lint_dict (run by import_words) rebuilds the LintGroup and re-merges the saved configuration: in every history that starts with Linter::new every explicit choice and every entry of a curated rule is the same after import_words; the only possible change is that a null entry of a name that is no curated rule (left behind by set_lint_config's clear) disappears *)
Theorem C16_import_words_keeps_config :
  forall (curated : config) (word_id : text -> N) (raw_lints : text -> language -> config -> dict -> nat -> list rlint) (ctx : rlint -> text -> language -> dict -> N) dia cs ws k, amap_sorted curated ->
  let st := fst (run curated word_id raw_lints ctx (new curated dia) cs) in
  let a := aget k (s_cfg (import_words curated word_id st ws)) in
  let b := aget k (s_cfg st) in
  explicit k (s_cfg (import_words curated word_id st ws)) = explicit k (s_cfg st)
  /\ (a = b \/ (b = Some None /\ aget k curated = None /\ a = None)).
Proof. exact import_words_keeps_config. Qed.
Check C16_import_words_keeps_config :
  forall (curated : config) (word_id : text -> N) (raw_lints : text -> language -> config -> dict -> nat -> list rlint) (ctx : rlint -> text -> language -> dict -> N) dia cs ws k, amap_sorted curated ->
  let st := fst (run curated word_id raw_lints ctx (new curated dia) cs) in
  let a := aget k (s_cfg (import_words curated word_id st ws)) in
  let b := aget k (s_cfg st) in
  explicit k (s_cfg (import_words curated word_id st ws)) = explicit k (s_cfg st)
  /\ (a = b \/ (b = Some None /\ aget k curated = None /\ a = None)).
Print Assumptions C16_import_words_keeps_config.

(* the whole export list of harper-wasm (GENERATED from harper-wasm/src/lib.rs on every run) is accounted for, function by function, in C16Surface.api_classification: modelled (entry named), projection of a modelled value, or outside the model with the reason; outside are exactly the seven named here (JsValue in or out, the console setup, the constant rule descriptions).  A new export breaks this theorem. *)
Theorem C16_api_coverage :
  wasm_exported_functions = map fst api_classification
  /\ map fst (filter (fun e => is_outside (snd e)) api_classification)
     = ["setup"].
Proof. exact api_coverage. Qed.
Check C16_api_coverage :
  wasm_exported_functions = map fst api_classification
  /\ map fst (filter (fun e => is_outside (snd e)) api_classification)
     = ["setup"].
Print Assumptions C16_api_coverage.

(* the exports modelled as compositions in Model/C16Api.v still have the bodies transcribed there (to_title_case = make_title_case_str with PlainEnglish and the curated dictionary; is_likely_english / isolate_english on self.dictionary; get_default_lint_config_as_json = the curated LintGroup's config; generate/import_stats_file = Stats::write / Stats::read + append) *)
Theorem C16_api_bodies :
  wasm_body_to_title_case = "harper_core::make_title_case_str(&text, &PlainEnglish, &FstDictionary::curated())"
  /\ wasm_body_is_likely_english = "let document = Document::new_plain_english(&text, &self.dictionary); is_doc_likely_english(&document, &self.dictionary)"
  /\ wasm_body_isolate_english = "let document = Document::new( &text, &IsolateEnglish::new(Box::new(PlainEnglish), self.dictionary.clone()), &self.dictionary, ); document.to_string()"
  /\ wasm_body_get_default_lint_config_as_json = "let config = LintGroup::new_curated(MutableDictionary::new().into(), Dialect::American.into()).config; serde_json::to_string(&config).unwrap()"
  /\ wasm_body_generate_stats_file = "let mut output = Vec::new(); self.stats.write(&mut output).unwrap(); String::from_utf8(output).unwrap()"
  /\ wasm_body_import_stats_file = "let data = file.as_bytes(); let mut read = Cursor::new(data); let mut new_stats = Stats::read(&mut read).map_err(|err| err.to_string())?; self.stats.records.append(&mut new_stats.records); Ok(())"
  /\ wasm_body_get_lint_config_as_json = "serde_json::to_string(&self.lint_group.config).unwrap()"
  /\ wasm_body_summarize_stats = "let mut operable_copy = self.stats.clone(); if let Some(start_time) = start_time { operable_copy.records.retain(|i| i.when > start_time); } if let Some(end_time) = end_time { operable_copy.records.retain(|i| i.when < end_time); } operable_copy .summarize() .serialize(&Serializer::json_compatible()) .unwrap()"
  /\ wasm_body_get_lint_descriptions_as_json = "serde_json::to_string(&self.lint_group.all_descriptions()).unwrap()"
  /\ wasm_body_get_lint_descriptions_as_object = "let serializer = Serializer::json_compatible(); self.lint_group .all_descriptions() .serialize(&serializer) .unwrap()"
  /\ wasm_body_get_lint_config_as_object = "let serializer = Serializer::json_compatible(); self.lint_group.config.serialize(&serializer).unwrap()"
  /\ wasm_body_set_lint_config_from_json = "let mut new_config = serde_json::from_str(&json).map_err(|v| v.to_string())?; self.lint_group.config.clear(); self.lint_group.config.merge_from(&mut new_config); Ok(())"
  /\ wasm_body_set_lint_config_from_object = "let mut new_config = serde_wasm_bindgen::from_value(object).map_err(|v| v.to_string())?; self.lint_group.config.clear(); self.lint_group.config.merge_from(&mut new_config); Ok(())"
  /\ wasm_body_get_default_lint_config = "let config = LintGroup::new_curated(MutableDictionary::new().into(), Dialect::American.into()).config; let serializer = Serializer::json_compatible(); config.serialize(&serializer).unwrap()".
Proof. exact api_bodies. Qed.
Check C16_api_bodies :
  wasm_body_to_title_case = "harper_core::make_title_case_str(&text, &PlainEnglish, &FstDictionary::curated())"
  /\ wasm_body_is_likely_english = "let document = Document::new_plain_english(&text, &self.dictionary); is_doc_likely_english(&document, &self.dictionary)"
  /\ wasm_body_isolate_english = "let document = Document::new( &text, &IsolateEnglish::new(Box::new(PlainEnglish), self.dictionary.clone()), &self.dictionary, ); document.to_string()"
  /\ wasm_body_get_default_lint_config_as_json = "let config = LintGroup::new_curated(MutableDictionary::new().into(), Dialect::American.into()).config; serde_json::to_string(&config).unwrap()"
  /\ wasm_body_generate_stats_file = "let mut output = Vec::new(); self.stats.write(&mut output).unwrap(); String::from_utf8(output).unwrap()"
  /\ wasm_body_import_stats_file = "let data = file.as_bytes(); let mut read = Cursor::new(data); let mut new_stats = Stats::read(&mut read).map_err(|err| err.to_string())?; self.stats.records.append(&mut new_stats.records); Ok(())"
  /\ wasm_body_get_lint_config_as_json = "serde_json::to_string(&self.lint_group.config).unwrap()"
  /\ wasm_body_summarize_stats = "let mut operable_copy = self.stats.clone(); if let Some(start_time) = start_time { operable_copy.records.retain(|i| i.when > start_time); } if let Some(end_time) = end_time { operable_copy.records.retain(|i| i.when < end_time); } operable_copy .summarize() .serialize(&Serializer::json_compatible()) .unwrap()"
  /\ wasm_body_get_lint_descriptions_as_json = "serde_json::to_string(&self.lint_group.all_descriptions()).unwrap()"
  /\ wasm_body_get_lint_descriptions_as_object = "let serializer = Serializer::json_compatible(); self.lint_group .all_descriptions() .serialize(&serializer) .unwrap()"
  /\ wasm_body_get_lint_config_as_object = "let serializer = Serializer::json_compatible(); self.lint_group.config.serialize(&serializer).unwrap()"
  /\ wasm_body_set_lint_config_from_json = "let mut new_config = serde_json::from_str(&json).map_err(|v| v.to_string())?; self.lint_group.config.clear(); self.lint_group.config.merge_from(&mut new_config); Ok(())"
  /\ wasm_body_set_lint_config_from_object = "let mut new_config = serde_wasm_bindgen::from_value(object).map_err(|v| v.to_string())?; self.lint_group.config.clear(); self.lint_group.config.merge_from(&mut new_config); Ok(())"
  /\ wasm_body_get_default_lint_config = "let config = LintGroup::new_curated(MutableDictionary::new().into(), Dialect::American.into()).config; let serializer = Serializer::json_compatible(); config.serialize(&serializer).unwrap()".
Print Assumptions C16_api_bodies.

(* frame: to_title_case, is_likely_english, isolate_english, get_default_lint_config_as_json, generate_stats_file leave the linter as it is; import_stats_file changes the statistics only; a call of Model/Wasm.v is that call *)
Theorem C16_api_frame :
  forall (curated : config) (word_id : text -> N) (raw_lints : text -> language -> config -> dict -> nat -> list rlint) (ctx : rlint -> text -> language -> dict -> N)
         (title_case : text -> text) (likely_english : text -> dict -> bool) (isolate : text -> dict -> text) (ser : stat_record -> JsonEscape.bytes) (de : JsonEscape.bytes -> option stat_record) st c,
  match c with
  | XBase b => fst (xstep curated word_id raw_lints ctx title_case likely_english isolate ser de st c) = fst (step curated word_id raw_lints ctx st b)
               /\ snd (xstep curated word_id raw_lints ctx title_case likely_english isolate ser de st c) = XOut (snd (step curated word_id raw_lints ctx st b))
  | XImportStats f => same_but_stats (fst (xstep curated word_id raw_lints ctx title_case likely_english isolate ser de st c)) st
  | _ => fst (xstep curated word_id raw_lints ctx title_case likely_english isolate ser de st c) = st
  end.
Proof. exact xstep_frame. Qed.
Check C16_api_frame :
  forall (curated : config) (word_id : text -> N) (raw_lints : text -> language -> config -> dict -> nat -> list rlint) (ctx : rlint -> text -> language -> dict -> N)
         (title_case : text -> text) (likely_english : text -> dict -> bool) (isolate : text -> dict -> text) (ser : stat_record -> JsonEscape.bytes) (de : JsonEscape.bytes -> option stat_record) st c,
  match c with
  | XBase b => fst (xstep curated word_id raw_lints ctx title_case likely_english isolate ser de st c) = fst (step curated word_id raw_lints ctx st b)
               /\ snd (xstep curated word_id raw_lints ctx title_case likely_english isolate ser de st c) = XOut (snd (step curated word_id raw_lints ctx st b))
  | XImportStats f => same_but_stats (fst (xstep curated word_id raw_lints ctx title_case likely_english isolate ser de st c)) st
  | _ => fst (xstep curated word_id raw_lints ctx title_case likely_english isolate ser de st c) = st
  end.
Print Assumptions C16_api_frame.

(* composition: a history over the WHOLE modelled API and the history of its Model/Wasm.v calls alone end in linters that differ at most in their statistics, lint every text alike and export the same words — every theorem above about `run` therefore speaks about histories with the other exports interleaved *)
Theorem C16_api_histories :
  forall (curated : config) (word_id : text -> N) (raw_lints : text -> language -> config -> dict -> nat -> list rlint) (ctx : rlint -> text -> language -> dict -> N)
         (title_case : text -> text) (likely_english : text -> dict -> bool) (isolate : text -> dict -> text) (ser : stat_record -> JsonEscape.bytes) (de : JsonEscape.bytes -> option stat_record) cs st,
  let a := fst (xrun curated word_id raw_lints ctx title_case likely_english isolate ser de st cs) in
  let b := fst (run curated word_id raw_lints ctx st (base_calls cs)) in
  same_but_stats a b
  /\ (forall t lang, api_lint curated raw_lints ctx a t lang = api_lint curated raw_lints ctx b t lang)
  /\ export_words a = export_words b.
Proof. exact xrun_lints_as_run. Qed.
Check C16_api_histories :
  forall (curated : config) (word_id : text -> N) (raw_lints : text -> language -> config -> dict -> nat -> list rlint) (ctx : rlint -> text -> language -> dict -> N)
         (title_case : text -> text) (likely_english : text -> dict -> bool) (isolate : text -> dict -> text) (ser : stat_record -> JsonEscape.bytes) (de : JsonEscape.bytes -> option stat_record) cs st,
  let a := fst (xrun curated word_id raw_lints ctx title_case likely_english isolate ser de st cs) in
  let b := fst (run curated word_id raw_lints ctx st (base_calls cs)) in
  same_but_stats a b
  /\ (forall t lang, api_lint curated raw_lints ctx a t lang = api_lint curated raw_lints ctx b t lang)
  /\ export_words a = export_words b.
Print Assumptions C16_api_histories.

(* ABSTRACT FORM, kept: for ANY record type and serde with the contract below (C16_stats_file_roundtrip_any_serde further down discharges the contract for the real Record) — statistics file (C19's log round trip lifted through the wrapper): generate_stats_file of one linter is accepted by import_stats_file of any linter, appends exactly the first linter's records, changes nothing else, and a linter without records reproduces the file *)
Theorem C16_stats_file_roundtrip_any_serde :
  forall (curated : config) (word_id : text -> N) (raw_lints : text -> language -> config -> dict -> nat -> list rlint) (ctx : rlint -> text -> language -> dict -> N)
         (title_case : text -> text) (likely_english : text -> dict -> bool) (isolate : text -> dict -> text) (ser : stat_record -> JsonEscape.bytes) (de : JsonEscape.bytes -> option stat_record) (valid : stat_record -> Prop),
  (forall r, valid r -> de (ser r) = Some r) -> (forall r, valid r -> Stats.line_ok (ser r)) ->
  forall st st', Forall valid (s_stats st) ->
  exists f, xstep curated word_id raw_lints ctx title_case likely_english isolate ser de st XGenerateStats = (st, XFile f)
    /\ xstep curated word_id raw_lints ctx title_case likely_english isolate ser de st' (XImportStats f) = (set_stats st' (s_stats st' ++ s_stats st), XOut OUnit)
    /\ same_but_stats (set_stats st' (s_stats st' ++ s_stats st)) st'
    /\ (s_stats st' = [] ->
        snd (xstep curated word_id raw_lints ctx title_case likely_english isolate ser de (set_stats st' (s_stats st' ++ s_stats st)) XGenerateStats) = XFile f).
Proof. exact stats_file_roundtrip. Qed.
Check C16_stats_file_roundtrip_any_serde :
  forall (curated : config) (word_id : text -> N) (raw_lints : text -> language -> config -> dict -> nat -> list rlint) (ctx : rlint -> text -> language -> dict -> N)
         (title_case : text -> text) (likely_english : text -> dict -> bool) (isolate : text -> dict -> text) (ser : stat_record -> JsonEscape.bytes) (de : JsonEscape.bytes -> option stat_record) (valid : stat_record -> Prop),
  (forall r, valid r -> de (ser r) = Some r) -> (forall r, valid r -> Stats.line_ok (ser r)) ->
  forall st st', Forall valid (s_stats st) ->
  exists f, xstep curated word_id raw_lints ctx title_case likely_english isolate ser de st XGenerateStats = (st, XFile f)
    /\ xstep curated word_id raw_lints ctx title_case likely_english isolate ser de st' (XImportStats f) = (set_stats st' (s_stats st' ++ s_stats st), XOut OUnit)
    /\ same_but_stats (set_stats st' (s_stats st' ++ s_stats st)) st'
    /\ (s_stats st' = [] ->
        snd (xstep curated word_id raw_lints ctx title_case likely_english isolate ser de (set_stats st' (s_stats st' ++ s_stats st)) XGenerateStats) = XFile f).
Print Assumptions C16_stats_file_roundtrip_any_serde.

(* statistics file over the CONCRETE harper_stats::Record (C19's Model/C19Record.v: every struct, enum and serde attribute of Record as serde_json writes and reads it) — the serde contract of a record is no premise any more, C19_record_value_roundtrip discharges it.  What is left: C19's float_rt (serde_json prints a finite f64 as a non-empty number text and reads it back) and that the records are values of the Rust types whose Numbers are finite (`good`).  Then, for any clock and uuids: generate_stats_file of one linter is accepted by import_stats_file of ANY linter, which appends exactly those records in order and changes nothing else; the importing linter then writes its own file followed by the imported one, and a linter without records writes the same file *)
Theorem C16_stats_file_roundtrip :
  forall (F : Type) (finite : F -> Prop) (print_f64 : F -> JsonEscape.bytes) (parse_f64 : JsonEscape.bytes -> option F)
         (curated : config) (word_id : text -> N) (raw_lints : text -> language -> config -> dict -> nat -> list rlint) (ctx : rlint -> text -> language -> dict -> N)
         (title_case : text -> text) (likely_english : text -> dict -> bool) (isolate : text -> dict -> text) (descriptions : list (N * text))
         (fat_context : text -> language -> dict -> span -> list (C19Record.fattoken F)),
  C19RecordProofs.float_rt F finite print_f64 parse_f64 ->
  forall env st log, Forall (C19RecordProofs.good F finite print_f64 parse_f64) log ->
  exists f, C16Stats.cstep F finite print_f64 parse_f64 curated word_id raw_lints ctx title_case likely_english isolate descriptions fat_context env (st, log) (C16Stats.YX XGenerateStats) = ((st, log), C16Stats.YFileOut f)
    /\ forall env' st' log',
         C16Stats.cstep F finite print_f64 parse_f64 curated word_id raw_lints ctx title_case likely_english isolate descriptions fat_context env' (st', log') (C16Stats.YX (XImportStats f)) = ((st', log' ++ log), C16Stats.YOut (XOut OUnit))
         /\ (exists f', C16Stats.cstep F finite print_f64 parse_f64 curated word_id raw_lints ctx title_case likely_english isolate descriptions fat_context env' (st', log') (C16Stats.YX XGenerateStats) = ((st', log'), C16Stats.YFileOut f')
                        /\ snd (C16Stats.cstep F finite print_f64 parse_f64 curated word_id raw_lints ctx title_case likely_english isolate descriptions fat_context env' (st', log' ++ log) (C16Stats.YX XGenerateStats)) = C16Stats.YFileOut (f' ++ f))
         /\ (log' = [] -> snd (C16Stats.cstep F finite print_f64 parse_f64 curated word_id raw_lints ctx title_case likely_english isolate descriptions fat_context env' (st', log' ++ log) (C16Stats.YX XGenerateStats)) = C16Stats.YFileOut f).
Proof. exact C16StatsProofs.stats_file_roundtrip_concrete. Qed.
Check C16_stats_file_roundtrip :
  forall (F : Type) (finite : F -> Prop) (print_f64 : F -> JsonEscape.bytes) (parse_f64 : JsonEscape.bytes -> option F)
         (curated : config) (word_id : text -> N) (raw_lints : text -> language -> config -> dict -> nat -> list rlint) (ctx : rlint -> text -> language -> dict -> N)
         (title_case : text -> text) (likely_english : text -> dict -> bool) (isolate : text -> dict -> text) (descriptions : list (N * text))
         (fat_context : text -> language -> dict -> span -> list (C19Record.fattoken F)),
  C19RecordProofs.float_rt F finite print_f64 parse_f64 ->
  forall env st log, Forall (C19RecordProofs.good F finite print_f64 parse_f64) log ->
  exists f, C16Stats.cstep F finite print_f64 parse_f64 curated word_id raw_lints ctx title_case likely_english isolate descriptions fat_context env (st, log) (C16Stats.YX XGenerateStats) = ((st, log), C16Stats.YFileOut f)
    /\ forall env' st' log',
         C16Stats.cstep F finite print_f64 parse_f64 curated word_id raw_lints ctx title_case likely_english isolate descriptions fat_context env' (st', log') (C16Stats.YX (XImportStats f)) = ((st', log' ++ log), C16Stats.YOut (XOut OUnit))
         /\ (exists f', C16Stats.cstep F finite print_f64 parse_f64 curated word_id raw_lints ctx title_case likely_english isolate descriptions fat_context env' (st', log') (C16Stats.YX XGenerateStats) = ((st', log'), C16Stats.YFileOut f')
                        /\ snd (C16Stats.cstep F finite print_f64 parse_f64 curated word_id raw_lints ctx title_case likely_english isolate descriptions fat_context env' (st', log' ++ log) (C16Stats.YX XGenerateStats)) = C16Stats.YFileOut (f' ++ f))
         /\ (log' = [] -> snd (C16Stats.cstep F finite print_f64 parse_f64 curated word_id raw_lints ctx title_case likely_english isolate descriptions fat_context env' (st', log' ++ log) (C16Stats.YX XGenerateStats)) = C16Stats.YFileOut f).
Print Assumptions C16_stats_file_roundtrip.

(* the premise `good` of C16_stats_file_roundtrip is an invariant of histories: if every apply_suggestion pushes a good record (C16_stats_apply_record_good: tokens that are Rust values with finite Numbers, an i64 clock, a hyphenated uuid) and every file import_stats_file accepts holds good records (call_good; C16_stats_own_file_good: a file generated from good records does), the records of the linter stay good *)
Theorem C16_stats_records_stay_good :
  forall (F : Type) (finite : F -> Prop) (print_f64 : F -> JsonEscape.bytes) (parse_f64 : JsonEscape.bytes -> option F)
         (curated : config) (word_id : text -> N) (raw_lints : text -> language -> config -> dict -> nat -> list rlint) (ctx : rlint -> text -> language -> dict -> N)
         (title_case : text -> text) (likely_english : text -> dict -> bool) (isolate : text -> dict -> text) (descriptions : list (N * text))
         (fat_context : text -> language -> dict -> span -> list (C19Record.fattoken F)),
  forall h cs, Forall (C19RecordProofs.good F finite print_f64 parse_f64) (snd cs) ->
  C16StatsProofs.hist_good F finite print_f64 parse_f64 curated word_id raw_lints ctx title_case likely_english isolate descriptions fat_context cs h ->
  Forall (C19RecordProofs.good F finite print_f64 parse_f64) (snd (fst (C16Stats.crun F finite print_f64 parse_f64 curated word_id raw_lints ctx title_case likely_english isolate descriptions fat_context cs h))).
Proof. exact C16StatsProofs.crun_log_good. Qed.
Check C16_stats_records_stay_good :
  forall (F : Type) (finite : F -> Prop) (print_f64 : F -> JsonEscape.bytes) (parse_f64 : JsonEscape.bytes -> option F)
         (curated : config) (word_id : text -> N) (raw_lints : text -> language -> config -> dict -> nat -> list rlint) (ctx : rlint -> text -> language -> dict -> N)
         (title_case : text -> text) (likely_english : text -> dict -> bool) (isolate : text -> dict -> text) (descriptions : list (N * text))
         (fat_context : text -> language -> dict -> span -> list (C19Record.fattoken F)),
  forall h cs, Forall (C19RecordProofs.good F finite print_f64 parse_f64) (snd cs) ->
  C16StatsProofs.hist_good F finite print_f64 parse_f64 curated word_id raw_lints ctx title_case likely_english isolate descriptions fat_context cs h ->
  Forall (C19RecordProofs.good F finite print_f64 parse_f64) (snd (fst (C16Stats.crun F finite print_f64 parse_f64 curated word_id raw_lints ctx title_case likely_english isolate descriptions fat_context cs h))).
Print Assumptions C16_stats_records_stay_good.

(* a statistics file generated from good records is a file whose import is `call_good` *)
Theorem C16_stats_own_file_good :
  forall (F : Type) (finite : F -> Prop) (print_f64 : F -> JsonEscape.bytes) (parse_f64 : JsonEscape.bytes -> option F)
         (curated : config) (fat_context : text -> language -> dict -> span -> list (C19Record.fattoken F)),
  C19RecordProofs.float_rt F finite print_f64 parse_f64 ->
  forall rs0, Forall (C19RecordProofs.good F finite print_f64 parse_f64) rs0 ->
  C16StatsProofs.call_good F finite print_f64 parse_f64 fat_context (Z0, []) (new curated 0)
    (C16Stats.YX (XImportStats (Stats.write (C19Record.record F) (C19Record.ser_record F finite print_f64 parse_f64) rs0))).
Proof. exact C16StatsProofs.own_file_good. Qed.
Check C16_stats_own_file_good :
  forall (F : Type) (finite : F -> Prop) (print_f64 : F -> JsonEscape.bytes) (parse_f64 : JsonEscape.bytes -> option F)
         (curated : config) (fat_context : text -> language -> dict -> span -> list (C19Record.fattoken F)),
  C19RecordProofs.float_rt F finite print_f64 parse_f64 ->
  forall rs0, Forall (C19RecordProofs.good F finite print_f64 parse_f64) rs0 ->
  C16StatsProofs.call_good F finite print_f64 parse_f64 fat_context (Z0, []) (new curated 0)
    (C16Stats.YX (XImportStats (Stats.write (C19Record.record F) (C19Record.ser_record F finite print_f64 parse_f64) rs0))).
Print Assumptions C16_stats_own_file_good.

(* the record apply_suggestion pushes — kind = the lint's kind (in range of C19Record's name table by C16_stats_kind_table), context = the fat tokens, the clock and the uuid of the call — is good when the tokens are Rust values with finite Numbers, the clock an i64 and the uuid hyphenated lower-case hex *)
Theorem C16_stats_apply_record_good :
  forall (F : Type) (finite : F -> Prop) (print_f64 : F -> JsonEscape.bytes) (parse_f64 : JsonEscape.bytes -> option F)
         (fat_context : text -> language -> dict -> span -> list (C19Record.fattoken F)) t l d env,
  Forall (C19RecordProofs.fattoken_wf F (fun _ => True) print_f64 parse_f64) (fat_context t (wlang l) d (rspan (winner l))) ->
  Forall finite (flat_map (C19Record.tk_numbers F) (fat_context t (wlang l) d (rspan (winner l)))) ->
  C19Record.i64_okb (fst env) = true -> Forall JsonEscape.scalar (snd env) -> C19Record.uuid_textb (snd env) = true ->
  C19RecordProofs.good F finite print_f64 parse_f64 (C16Stats.record_now F fat_context t l d env).
Proof. exact C16StatsProofs.record_now_good. Qed.
Check C16_stats_apply_record_good :
  forall (F : Type) (finite : F -> Prop) (print_f64 : F -> JsonEscape.bytes) (parse_f64 : JsonEscape.bytes -> option F)
         (fat_context : text -> language -> dict -> span -> list (C19Record.fattoken F)) t l d env,
  Forall (C19RecordProofs.fattoken_wf F (fun _ => True) print_f64 parse_f64) (fat_context t (wlang l) d (rspan (winner l))) ->
  Forall finite (flat_map (C19Record.tk_numbers F) (fat_context t (wlang l) d (rspan (winner l)))) ->
  C19Record.i64_okb (fst env) = true -> Forall JsonEscape.scalar (snd env) -> C19Record.uuid_textb (snd env) = true ->
  C19RecordProofs.good F finite print_f64 parse_f64 (C16Stats.record_now F fat_context t l d env).
Print Assumptions C16_stats_apply_record_good.

(* histories over EVERY export of harper-wasm that touches a linter (Model/C16Stats.v: the calls of Model/C16Api.v + summarize_stats, the rule descriptions, the four JsValue functions; any clock, any uuids): the linter ends as after the history of its Model/Wasm.v calls alone, but for the statistics — it lints every text alike and exports the same words.  So every theorem about `run` covers such histories *)
Theorem C16_whole_api_histories :
  forall (F : Type) (finite : F -> Prop) (print_f64 : F -> JsonEscape.bytes) (parse_f64 : JsonEscape.bytes -> option F)
         (curated : config) (word_id : text -> N) (raw_lints : text -> language -> config -> dict -> nat -> list rlint) (ctx : rlint -> text -> language -> dict -> N)
         (title_case : text -> text) (likely_english : text -> dict -> bool) (isolate : text -> dict -> text) (descriptions : list (N * text))
         (fat_context : text -> language -> dict -> span -> list (C19Record.fattoken F)) h st log,
  let a := fst (fst (C16Stats.crun F finite print_f64 parse_f64 curated word_id raw_lints ctx title_case likely_english isolate descriptions fat_context (st, log) h)) in
  let b := fst (run curated word_id raw_lints ctx st (base_calls (C16Stats.yproj_calls h))) in
  same_but_stats a b /\ (forall t lang, api_lint curated raw_lints ctx a t lang = api_lint curated raw_lints ctx b t lang)
  /\ export_words a = export_words b.
Proof. exact C16StatsProofs.crun_lints_as_run. Qed.
Check C16_whole_api_histories :
  forall (F : Type) (finite : F -> Prop) (print_f64 : F -> JsonEscape.bytes) (parse_f64 : JsonEscape.bytes -> option F)
         (curated : config) (word_id : text -> N) (raw_lints : text -> language -> config -> dict -> nat -> list rlint) (ctx : rlint -> text -> language -> dict -> N)
         (title_case : text -> text) (likely_english : text -> dict -> bool) (isolate : text -> dict -> text) (descriptions : list (N * text))
         (fat_context : text -> language -> dict -> span -> list (C19Record.fattoken F)) h st log,
  let a := fst (fst (C16Stats.crun F finite print_f64 parse_f64 curated word_id raw_lints ctx title_case likely_english isolate descriptions fat_context (st, log) h)) in
  let b := fst (run curated word_id raw_lints ctx st (base_calls (C16Stats.yproj_calls h))) in
  same_but_stats a b /\ (forall t lang, api_lint curated raw_lints ctx a t lang = api_lint curated raw_lints ctx b t lang)
  /\ export_words a = export_words b.
Print Assumptions C16_whole_api_histories.

(* the exports that take or return a JsValue (not executable outside a JavaScript host) do to the linter and answer what their twin does: get_lint_descriptions_as_object / _as_json, get_lint_config_as_object / _as_json, set_lint_config_from_object / _from_json, get_default_lint_config / _as_json (bodies pinned by C16_api_bodies: same value or same steps, another serialiser) *)
Theorem C16_api_twins :
  forall (F : Type) (finite : F -> Prop) (print_f64 : F -> JsonEscape.bytes) (parse_f64 : JsonEscape.bytes -> option F)
         (curated : config) (word_id : text -> N) (raw_lints : text -> language -> config -> dict -> nat -> list rlint) (ctx : rlint -> text -> language -> dict -> N)
         (title_case : text -> text) (likely_english : text -> dict -> bool) (isolate : text -> dict -> text) (descriptions : list (N * text))
         (fat_context : text -> language -> dict -> span -> list (C19Record.fattoken F)) env cs c c',
  C16Stats.twin c = Some c' -> C16Stats.cstep F finite print_f64 parse_f64 curated word_id raw_lints ctx title_case likely_english isolate descriptions fat_context env cs c = C16Stats.cstep F finite print_f64 parse_f64 curated word_id raw_lints ctx title_case likely_english isolate descriptions fat_context env cs c'.
Proof. exact C16StatsProofs.cstep_twin. Qed.
Check C16_api_twins :
  forall (F : Type) (finite : F -> Prop) (print_f64 : F -> JsonEscape.bytes) (parse_f64 : JsonEscape.bytes -> option F)
         (curated : config) (word_id : text -> N) (raw_lints : text -> language -> config -> dict -> nat -> list rlint) (ctx : rlint -> text -> language -> dict -> N)
         (title_case : text -> text) (likely_english : text -> dict -> bool) (isolate : text -> dict -> text) (descriptions : list (N * text))
         (fat_context : text -> language -> dict -> span -> list (C19Record.fattoken F)) env cs c c',
  C16Stats.twin c = Some c' -> C16Stats.cstep F finite print_f64 parse_f64 curated word_id raw_lints ctx title_case likely_english isolate descriptions fat_context env cs c = C16Stats.cstep F finite print_f64 parse_f64 curated word_id raw_lints ctx title_case likely_english isolate descriptions fat_context env cs c'.
Print Assumptions C16_api_twins.

(* summarize_stats, the rule descriptions (both forms), get_lint_config_as_object, get_default_lint_config and generate_stats_file change neither the linter nor its records *)
Theorem C16_api_readonly :
  forall (F : Type) (finite : F -> Prop) (print_f64 : F -> JsonEscape.bytes) (parse_f64 : JsonEscape.bytes -> option F)
         (curated : config) (word_id : text -> N) (raw_lints : text -> language -> config -> dict -> nat -> list rlint) (ctx : rlint -> text -> language -> dict -> N)
         (title_case : text -> text) (likely_english : text -> dict -> bool) (isolate : text -> dict -> text) (descriptions : list (N * text))
         (fat_context : text -> language -> dict -> span -> list (C19Record.fattoken F)) env cs c,
  match c with
  | C16Stats.YSummarize _ _ | C16Stats.YGetDescriptions | C16Stats.YGetDescriptionsObject | C16Stats.YGetConfigObject
  | C16Stats.YGetDefaultConfigObject | C16Stats.YX XGenerateStats => fst (C16Stats.cstep F finite print_f64 parse_f64 curated word_id raw_lints ctx title_case likely_english isolate descriptions fat_context env cs c) = cs
  | _ => True
  end.
Proof. exact C16StatsProofs.cstep_frame. Qed.
Check C16_api_readonly :
  forall (F : Type) (finite : F -> Prop) (print_f64 : F -> JsonEscape.bytes) (parse_f64 : JsonEscape.bytes -> option F)
         (curated : config) (word_id : text -> N) (raw_lints : text -> language -> config -> dict -> nat -> list rlint) (ctx : rlint -> text -> language -> dict -> N)
         (title_case : text -> text) (likely_english : text -> dict -> bool) (isolate : text -> dict -> text) (descriptions : list (N * text))
         (fat_context : text -> language -> dict -> span -> list (C19Record.fattoken F)) env cs c,
  match c with
  | C16Stats.YSummarize _ _ | C16Stats.YGetDescriptions | C16Stats.YGetDescriptionsObject | C16Stats.YGetConfigObject
  | C16Stats.YGetDefaultConfigObject | C16Stats.YX XGenerateStats => fst (C16Stats.cstep F finite print_f64 parse_f64 curated word_id raw_lints ctx title_case likely_english isolate descriptions fat_context env cs c) = cs
  | _ => True
  end.
Print Assumptions C16_api_readonly.

(* summarize_stats(start, end): the two retain passes keep exactly the records with start < when < end (strictly; a missing bound does not bound), in order; the Summary (the value then handed to serde_wasm_bindgen) counts each kept Lint record once under its kind, total_applied is their number (C19's summary_counts); without bounds it is the summary of all records; linter and records unchanged *)
Theorem C16_summarize_stats :
  forall (F : Type) (finite : F -> Prop) (print_f64 : F -> JsonEscape.bytes) (parse_f64 : JsonEscape.bytes -> option F)
         (curated : config) (word_id : text -> N) (raw_lints : text -> language -> config -> dict -> nat -> list rlint) (ctx : rlint -> text -> language -> dict -> N)
         (title_case : text -> text) (likely_english : text -> dict -> bool) (isolate : text -> dict -> text) (descriptions : list (N * text))
         (fat_context : text -> language -> dict -> span -> list (C19Record.fattoken F)) env st log a b,
  exists s, C16Stats.cstep F finite print_f64 parse_f64 curated word_id raw_lints ctx title_case likely_english isolate descriptions fat_context env (st, log) (C16Stats.YSummarize a b) = ((st, log), C16Stats.YSummary s)
    /\ s = C16Stats.summary_of_records F (filter (C16StatsProofs.in_window F a b) log)
    /\ (forall k, Stats.get_count nat Nat.eqb C19Record.config s k
                  = count_occ Nat.eq_dec (C19RecordProofs.lint_kinds F (filter (C16StatsProofs.in_window F a b) log)) k)
    /\ Stats.total_applied _ _ s = List.length (C19RecordProofs.lint_kinds F (filter (C16StatsProofs.in_window F a b) log))
    /\ (a = None -> b = None -> s = C16Stats.summary_of_records F log).
Proof. exact C16StatsProofs.summarize_stats_window. Qed.
Check C16_summarize_stats :
  forall (F : Type) (finite : F -> Prop) (print_f64 : F -> JsonEscape.bytes) (parse_f64 : JsonEscape.bytes -> option F)
         (curated : config) (word_id : text -> N) (raw_lints : text -> language -> config -> dict -> nat -> list rlint) (ctx : rlint -> text -> language -> dict -> N)
         (title_case : text -> text) (likely_english : text -> dict -> bool) (isolate : text -> dict -> text) (descriptions : list (N * text))
         (fat_context : text -> language -> dict -> span -> list (C19Record.fattoken F)) env st log a b,
  exists s, C16Stats.cstep F finite print_f64 parse_f64 curated word_id raw_lints ctx title_case likely_english isolate descriptions fat_context env (st, log) (C16Stats.YSummarize a b) = ((st, log), C16Stats.YSummary s)
    /\ s = C16Stats.summary_of_records F (filter (C16StatsProofs.in_window F a b) log)
    /\ (forall k, Stats.get_count nat Nat.eqb C19Record.config s k
                  = count_occ Nat.eq_dec (C19RecordProofs.lint_kinds F (filter (C16StatsProofs.in_window F a b) log)) k)
    /\ Stats.total_applied _ _ s = List.length (C19RecordProofs.lint_kinds F (filter (C16StatsProofs.in_window F a b) log))
    /\ (a = None -> b = None -> s = C16Stats.summary_of_records F log).
Print Assumptions C16_summarize_stats.

(* C19Record's table of LintKind names (the index is the `kind` of a Lint record) is C16's: every kind has an index in range whose name is the name print_wlint writes; the table is the GENERATED enum of harper-core's LintKind, in order *)
Theorem C16_stats_kind_table :
  (forall k, (C16Stats.kind_idx k < List.length C19Record.lintkind_names)%nat
              /\ nth (C16Stats.kind_idx k) C19Record.lintkind_names [] = C19Record.jb (kind_name k))
  /\ map C19Record.jb lint_kind_enum = C19Record.lintkind_names
  /\ map C16Stats.kind_idx all_kinds = seq 0 (List.length C19Record.lintkind_names).
Proof. exact C16StatsProofs.kind_table. Qed.
Check C16_stats_kind_table :
  (forall k, (C16Stats.kind_idx k < List.length C19Record.lintkind_names)%nat
              /\ nth (C16Stats.kind_idx k) C19Record.lintkind_names [] = C19Record.jb (kind_name k))
  /\ map C19Record.jb lint_kind_enum = C19Record.lintkind_names
  /\ map C16Stats.kind_idx all_kinds = seq 0 (List.length C19Record.lintkind_names).
Print Assumptions C16_stats_kind_table.

(* get_default_lint_config_as_json is the curated configuration; set_lint_config_from_json of it (on a linter whose configuration map is sorted — a BTreeMap), and Linter::new by itself, make the rules see exactly the curated choices during lint *)
Theorem C16_default_config :
  forall (curated : config) (word_id : text -> N) (raw_lints : text -> language -> config -> dict -> nat -> list rlint) (ctx : rlint -> text -> language -> dict -> N)
         (title_case : text -> text) (likely_english : text -> dict -> bool) (isolate : text -> dict -> text) (ser : stat_record -> JsonEscape.bytes) (de : JsonEscape.bytes -> option stat_record) st dia k,
  amap_sorted curated -> amap_sorted (s_cfg st) ->
  snd (xstep curated word_id raw_lints ctx title_case likely_english isolate ser de st XGetDefaultConfig) = XOut (OConfig curated)
  /\ (let st' := fst (step curated word_id raw_lints ctx st (CSetConfig (Some curated))) in
      explicit k (cfg_fill_with_curated curated (s_cfg st')) = explicit k curated)
  /\ explicit k (cfg_fill_with_curated curated (s_cfg (new curated dia))) = explicit k curated.
Proof. exact default_config_is_default. Qed.
Check C16_default_config :
  forall (curated : config) (word_id : text -> N) (raw_lints : text -> language -> config -> dict -> nat -> list rlint) (ctx : rlint -> text -> language -> dict -> N)
         (title_case : text -> text) (likely_english : text -> dict -> bool) (isolate : text -> dict -> text) (ser : stat_record -> JsonEscape.bytes) (de : JsonEscape.bytes -> option stat_record) st dia k,
  amap_sorted curated -> amap_sorted (s_cfg st) ->
  snd (xstep curated word_id raw_lints ctx title_case likely_english isolate ser de st XGetDefaultConfig) = XOut (OConfig curated)
  /\ (let st' := fst (step curated word_id raw_lints ctx st (CSetConfig (Some curated))) in
      explicit k (cfg_fill_with_curated curated (s_cfg st')) = explicit k curated)
  /\ explicit k (cfg_fill_with_curated curated (s_cfg (new curated dia))) = explicit k curated.
Print Assumptions C16_default_config.

(* the enums of the JSON, from GENERATED tables (LintKind / Suggestion / Language variants with payload types; the name serde writes per variant; the names serde ACCEPTS with the variant each yields — the derive, or the arms of new_from_str under #[serde(try_from)]): they are the constructors of the model (all of them), the names print_rlint writes and the table parse_kind reads *)
Theorem C16_enum_tables :
  lint_kind_enum = map kind_name all_kinds
  /\ (forall k, In k all_kinds)
  /\ lint_kind_serialize = map (fun k => (kind_name k, kind_name k)) all_kinds
  /\ lint_kind_deserialize = map (fun k => (kind_name k, kind_name k)) all_kinds
  /\ suggestion_enum = [("ReplaceWith", "Vec<char>"); ("InsertAfter", "Vec<char>"); ("Remove", "")]
  /\ (forall s, In (sugg_tag s) (map fst suggestion_enum))
  /\ language_enum = map (fun l => (lang_name l, "")) all_languages
  /\ (forall l, In l all_languages).
Proof. exact enum_tables. Qed.
Check C16_enum_tables :
  lint_kind_enum = map kind_name all_kinds
  /\ (forall k, In k all_kinds)
  /\ lint_kind_serialize = map (fun k => (kind_name k, kind_name k)) all_kinds
  /\ lint_kind_deserialize = map (fun k => (kind_name k, kind_name k)) all_kinds
  /\ suggestion_enum = [("ReplaceWith", "Vec<char>"); ("InsertAfter", "Vec<char>"); ("Remove", "")]
  /\ (forall s, In (sugg_tag s) (map fst suggestion_enum))
  /\ language_enum = map (fun l => (lang_name l, "")) all_languages
  /\ (forall l, In l all_languages).
Print Assumptions C16_enum_tables.

(* 'Lints, spans and suggestions survive their JSON round trip' variant by variant of the GENERATED tables: each listed LintKind name is a constructor that is written under that name, accepted under that name and read back in any lint; each listed Suggestion variant (any payload) and each Language likewise.  A variant the Rust enum gains or a name the deserialiser's table lacks (seed c16-4: Punctuation) leaves an obligation without witness *)
Theorem C16_json_roundtrip_every_variant :
  Forall (fun v => exists k, kind_name k = v
                    /\ In (v, v) lint_kind_serialize /\ In (v, v) lint_kind_deserialize
                    /\ forall l, rkind (winner l) = k -> rprio (winner l) <= 255 ->
                                 lint_from_json (print_wlint l) = Some l) lint_kind_enum
  /\ Forall (fun v => exists mk : text -> suggestion,
                    (forall cs, sugg_tag (mk cs) = fst v)
                    /\ (forall cs, suggestion_from_json (print_wsuggestion (mk cs)) = Some (mk cs))
                    /\ (forall l cs, rprio (winner l) <= 255 -> In (mk cs) (rsugs (winner l)) ->
                                     lint_from_json (print_wlint l) = Some l)) suggestion_enum
  /\ Forall (fun v => exists g, lang_name g = fst v
                    /\ forall l, wlang l = g -> rprio (winner l) <= 255 ->
                                 lint_from_json (print_wlint l) = Some l) language_enum.
Proof. exact json_roundtrip_every_variant. Qed.
Check C16_json_roundtrip_every_variant :
  Forall (fun v => exists k, kind_name k = v
                    /\ In (v, v) lint_kind_serialize /\ In (v, v) lint_kind_deserialize
                    /\ forall l, rkind (winner l) = k -> rprio (winner l) <= 255 ->
                                 lint_from_json (print_wlint l) = Some l) lint_kind_enum
  /\ Forall (fun v => exists mk : text -> suggestion,
                    (forall cs, sugg_tag (mk cs) = fst v)
                    /\ (forall cs, suggestion_from_json (print_wsuggestion (mk cs)) = Some (mk cs))
                    /\ (forall l cs, rprio (winner l) <= 255 -> In (mk cs) (rsugs (winner l)) ->
                                     lint_from_json (print_wlint l) = Some l)) suggestion_enum
  /\ Forall (fun v => exists g, lang_name g = fst v
                    /\ forall l, wlang l = g -> rprio (winner l) <= 255 ->
                                 lint_from_json (print_wlint l) = Some l) language_enum.
Print Assumptions C16_json_roundtrip_every_variant.

(* ---------- non-vacuity: the hypotheses are satisfiable on non-trivial inputs ---------- *)
Definition ex_raw (t : text) (lg : language) (c : config) (d : dict) (n : nat) : list rlint :=
  [mkrl (mkspan 2 6) Style [] [] 31; mkrl (mkspan 0 4) Spelling [ReplaceWith [97%N]] [34%N; 10%N] 63;
   mkrl (mkspan 4 4) Formatting [Remove] [] 127; mkrl (mkspan 4 7) WordChoice [InsertAfter [44%N]] [] 63;
   mkrl (mkspan 7 9) Spelling [] [] 63].
Definition ex_text : text := [97; 98; 99; 100; 101; 102; 103; 104; 105]%N.
Definition ex_ctx (l : rlint) (t : text) (lg : language) (d : dict) : N := N.of_nat (sstart (rspan l)).

(* raw lints in bounds, overlapping; the answer keeps 3 of 5 with their problem texts *)
Example C16_lint_nonvacuous :
  Forall (fun l => span_in (length ex_text) (rspan l)) (raw_of [] ex_raw (new [] 0) ex_text Plain)
  /\ api_lint [] ex_raw ex_ctx (new [] 0) ex_text Plain
     = Ok [mkwl (mkrl (mkspan 0 4) Spelling [ReplaceWith [97%N]] [34%N; 10%N] 63) [97; 98; 99; 100]%N Plain;
           mkwl (mkrl (mkspan 4 7) WordChoice [InsertAfter [44%N]] [] 63) [101; 102; 103]%N Plain;
           mkwl (mkrl (mkspan 7 9) Spelling [] [] 63) [104; 105]%N Plain].
Proof. split; [repeat constructor; cbn; lia|vm_compute; reflexivity]. Qed.

(* ignoring the middle lint removes it and nothing else; clearing brings it back; a history with apply *)
Example C16_ignore_nonvacuous :
  let l := mkwl (mkrl (mkspan 4 7) WordChoice [InsertAfter [44%N]] [] 63) [101; 102; 103]%N Plain in
  let '(st, os) := run [] toy_word_id ex_raw ex_ctx (new [] 0)
       [CLint ex_text Plain; CIgnore ex_text l; CLint ex_text Plain; CApply ex_text l (InsertAfter [44%N]);
        CExportIgnored; CClearIgnored; CLint ex_text Plain; CGetStats] in
  match os with
  | [OLints a; OUnit; OLints b; OText t; OJson j; OUnit; OLints c; OStats rs] =>
      length a = 3 /\ length b = 2 /\ ~ In l b /\ a = c /\ t = [97; 98; 99; 100; 101; 102; 103; 44; 104; 105]%N
      /\ j = lit "{""context_hashes"":[4]}"%string /\ length rs = 1
  | _ => False
  end.
Proof. vm_compute. repeat split; try reflexivity. intros [H|[H|[]]]; discriminate. Qed.

(* the premises of the words round trip hold after real imports (two words, one re-imported) *)
Example C16_words_nonvacuous :
  let st := fst (run [] toy_word_id toy_raw toy_ctx (new [] 0)
                  [CImportWords [[97; 98; 99]%N; [97]%N]; CImportWords [[97]%N]]) in
  dict_wf toy_word_id (s_user st) /\ s_lint_dict st = s_user st /\ export_words st = [[97]%N; [97; 98; 99]%N].
Proof. vm_compute. repeat split; repeat constructor. Qed.

(* a lint whose message needs every kind of escape *)
Example C16_json_nonvacuous :
  let l := mkwl (mkrl (mkspan 3 5) WordChoice [ReplaceWith [34; 92]%N; Remove; InsertAfter []] [34; 92; 10; 1; 31; 127; 233; 128512]%N 255) [9]%N Markdown in
  print_wlint l = lit "{""inner"":{""span"":{""start"":3,""end"":5},""lint_kind"":""WordChoice"",""suggestions"":[{""ReplaceWith"":[""\"""",""\\""]},""Remove"",{""InsertAfter"":[]}],""message"":""\""\\\n\u0001\u001f"%string ++ [127; 233; 128512]%N ++ lit """,""priority"":255},""problem_text"":""\t"",""language"":""Markdown""}"%string
  /\ lint_from_json (print_wlint l) = Some l.
Proof. split; vm_compute; reflexivity. Qed.

(* the premise about harper-core is satisfiable by a context that reads the lint but not the dictionary; the
   rule of the examples below is gated by the explicit choice for key 1 (and reports unless the text is a
   user word): a null entry and an absent entry are alike to it *)
Definition ex_raw_cfg (t : text) (lg : language) (c : config) (d : dict) (n : nat) : list rlint :=
  match explicit 1%N c with
  | Some true => toy_raw t lg c d n
  | _ => []
  end.
Example C16_premises_nonvacuous :
  ctx_ignores_dict toy_ctx
  /\ ex_raw_cfg [97]%N Plain [(1%N, Some true)] [] 0 <> ex_raw_cfg [97]%N Plain [(1%N, None)] [] 0
  /\ ex_raw_cfg [97]%N Plain [(1%N, None)] [] 0 = ex_raw_cfg [97]%N Plain [] [] 0.
Proof.
  split; [|split].
  - intros l t lg d d'. reflexivity.
  - vm_compute. discriminate.
  - reflexivity.
Qed.

(* the full words round trip on a concrete history: two spellings of one WordId, a configuration change with
   an unknown rule that is later un-chosen, an ignored lint; the second linter gets config + ignore list +
   words and answers alike (here checked on the two spellings) *)
Example C16_words_roundtrip_nonvacuous :
  let cur : config := [(1%N, Some true); (2%N, Some false)] in
  let cs := [CImportWords [[97; 98]%N]; CSetConfig (Some [(3%N, Some true)]); CImportWords [[65; 66]%N];
             CSetConfig (Some [(2%N, Some true)]); CIgnore [120]%N (mkwl (mkrl (mkspan 0 1) Spelling [] [] 63) [120]%N Plain)] in
  let st := fst (run cur toy_word_id ex_raw_cfg toy_ctx (new cur 0) cs) in
  let st2 := fst (run cur toy_word_id ex_raw_cfg toy_ctx (new cur 0)
                    [CSetConfig (Some (s_cfg st)); CImportIgnored (print_ignored (s_ignored st)); CImportWords (export_words st)]) in
  export_words st = [[65; 66]%N] /\ s_lint_dict st = s_user st /\ s_cfg st <> s_cfg st2
  /\ api_lint cur ex_raw_cfg toy_ctx st [97; 98]%N Plain = api_lint cur ex_raw_cfg toy_ctx st2 [97; 98]%N Plain
  /\ api_lint cur ex_raw_cfg toy_ctx st [65; 66]%N Plain = api_lint cur ex_raw_cfg toy_ctx st2 [65; 66]%N Plain.
Proof. vm_compute. repeat split; try reflexivity. discriminate. Qed.

(* the instantiated context on a concrete document: "zz a" = word, space, word; the user dictionary decides the
   metadata of `zz` (so the two documents DIFFER), the lint on `a` has `zz` within two characters, its context
   and its hash are nevertheless the same; in a history lint / ignore / import_words [zz] / lint the rule
   reports the lint again (the raw lints are unchanged), the lint dictionary has changed, the answer is empty *)
Definition ex_pre (t : text) (lg : language) : list token :=
  [mktok (mkspan 0 2) (KWord None); mktok (mkspan 2 3) (KSpace 1); mktok (mkspan 3 4) (KWord None)].
Definition ex_meta (d : dict) (w : text) : option N :=
  if existsb (fun kw => Wasm.text_eqb (snd kw) w) d then Some 7%N
  else if Wasm.text_eqb w [97%N] then Some 1%N else None.
Definition ex_hash (c : Ignore.ctx) : N := (1 + c_prio c + 1000 * N.of_nat (length (c_toks c)) + 100000 * c_kind c)%N.
Definition ex_raw_a (t : text) (lg : language) (c : config) (d : dict) (n : nat) : list rlint :=
  [mkrl (mkspan 3 4) Style [Remove] [33%N] 31].
Example C16_context_nonvacuous :
  let t := [122; 122; 32; 97]%N in
  let l := mkrl (mkspan 3 4) Style [Remove] [33%N] 31 in
  let d := [(2%N, [122; 122]%N)] in
  (forall t lang, Forall (fun tok => span_in (length t) (tspan tok)) (ex_pre t lang) \/ length t < 4)
  /\ document ex_pre ex_meta t Plain [] <> document ex_pre ex_meta t Plain d
  /\ context_of ex_pre ex_meta l t Plain []
     = Ok (mkctx 2 [Remove] [33%N] 31 [(KWord None, [122; 122]%N); (KSpace 1, [32%N]); (KWord None, [97%N])])
  /\ context_of ex_pre ex_meta l t Plain d = context_of ex_pre ex_meta l t Plain []
  /\ ctx_inst ex_pre ex_meta ex_hash l t Plain d = 203032%N
  /\ snd (run [] toy_word_id ex_raw_a (ctx_inst ex_pre ex_meta ex_hash) (new [] 0)
            [CLint t Plain; CIgnore t (mkwl l [97%N] Plain); CImportWords [[122; 122]%N]; CLint t Plain; CExportWords])
     = [OLints [mkwl l [97%N] Plain]; OUnit; OUnit; OLints []; OWords [[122; 122]%N]].
Proof.
  cbv zeta. split; [|split; [|split; [|split; [|split]]]].
  - intros t lang. destruct (Nat.ltb (length t) 4) eqn:E; [right; now apply Nat.ltb_lt|left].
    apply Nat.ltb_ge in E. unfold ex_pre. repeat constructor; cbn [tspan sstart send]; lia.
  - vm_compute. discriminate.
  - vm_compute. reflexivity.
  - vm_compute. reflexivity.
  - vm_compute. reflexivity.
  - vm_compute. reflexivity.
Qed.

(* the whole API on a concrete history: statistics written by one linter and imported into a second one (serde of a
   record = its span start as one byte: a contract-satisfying toy), the other exports interleaved; lint answers as
   in the history of the Model/Wasm.v calls alone *)
Definition ex_ser (r : stat_record) : JsonEscape.bytes := [N.of_nat (sstart (sr_span r)) + 65]%N.
Definition ex_de (b : JsonEscape.bytes) : option stat_record :=
  match b with [c] => Some (mkrec Spelling (mkspan (N.to_nat (c - 65)) 4) ex_text Plain []) | _ => None end.
Example C16_api_nonvacuous :
  let l := mkwl (mkrl (mkspan 0 4) Spelling [ReplaceWith [97%N]] [34%N; 10%N] 63) [97; 98; 99; 100]%N Plain in
  let X := xrun [] toy_word_id ex_raw ex_ctx (fun t => t) (fun _ _ => true) (fun t _ => t) ex_ser ex_de in
  let '(st, os) := X (new [] 0) [XBase (CLint ex_text Plain); XToTitleCase [97%N]; XBase (CApply ex_text l (ReplaceWith [97%N]));
                                 XIsLikelyEnglish ex_text; XGenerateStats; XGetDefaultConfig] in
  match os with
  | [XOut (OLints a); XOut (OText [97%N]); XOut (OText _); XBool true; XFile f; XOut (OConfig [])] =>
      length a = 3 /\ f = [65; 10]%N
      /\ snd (X (new [] 1) [XImportStats f; XImportStats [66; 66; 10]%N; XGenerateStats; XBase CGetStats])
         = [XOut OUnit; XOut OErr; XFile f; XOut (OStats [mkrec Spelling (mkspan 0 4) ex_text Plain []])]
  | _ => False
  end.
Proof. vm_compute. repeat split. Qed.

(* the statistics over the concrete Record on a concrete history: a linter that already holds C19's example record
   (clock -1; a misspelt word with LF, quote, backslash and an astral character, a Number, a quote, a currency sign, a
   word with metadata) applies two suggestions at clock 5 and 7; summarize_stats(5, None) keeps only the record of
   clock 7 (strictly later), the unbounded summary counts all three; the file it generates is imported by a new linter,
   which then generates the same file; the JsValue twin of get_lint_config answers like get_lint_config_as_json;
   float_rt and `good` are satisfiable (C19's instance: a float is the text serde_json printed for it) *)
Example C16_stats_nonvacuous :
  C19RecordProofs.float_rt JsonEscape.bytes C19RecordProofs.txt_finite (fun t => t) (fun t => Some t)
  /\ Forall (C19RecordProofs.good JsonEscape.bytes C19RecordProofs.txt_finite (fun t => t) (fun t => Some t)) [C19RecordProofs.ex_lint]
  /\ let l := mkwl (mkrl (mkspan 0 4) Repetition [ReplaceWith [97%N]] [34%N; 10%N] 63) [97; 98; 99; 100]%N Plain in
     let fat := fun (_ : text) (_ : language) (_ : dict) (_ : span) => [([116; 101; 104]%N, C19Record.TKWord JsonEscape.bytes None)] in
     let Y := C16Stats.crun JsonEscape.bytes C19RecordProofs.txt_finite (fun t => t) (fun t => Some t) [] toy_word_id ex_raw ex_ctx
                (fun t => t) (fun _ _ => true) (fun t _ => t) [(0%N, [100%N])] fat in
     let u := C19Record.jb "00000000-0000-4000-8000-000000000001" in
     let '(cs, os) := Y (new [] 0, [C19RecordProofs.ex_lint])
        [((C16StatsProofs.zn 5, u), C16Stats.YX (XBase (CApply ex_text l (ReplaceWith [97%N]))));
         ((C16StatsProofs.zn 7, u), C16Stats.YX (XBase (CApply ex_text l (ReplaceWith [97%N]))));
         ((C16StatsProofs.zn 9, u), C16Stats.YSummarize (Some (C16StatsProofs.zn 5)) None);
         ((C16StatsProofs.zn 9, u), C16Stats.YSummarize None None);
         ((C16StatsProofs.zn 9, u), C16Stats.YX XGenerateStats);
         ((C16StatsProofs.zn 9, u), C16Stats.YGetConfigObject);
         ((C16StatsProofs.zn 9, u), C16Stats.YGetDescriptionsObject)] in
     match os with
     | [_; _; C16Stats.YSummary s1; C16Stats.YSummary s2; C16Stats.YFileOut f; C16Stats.YOut (XOut (OConfig [])); C16Stats.YDescriptions [(0%N, [100%N])]] =>
         Stats.total_applied _ _ s1 = 1%nat /\ Stats.total_applied _ _ s2 = 3%nat
         /\ Stats.get_count nat Nat.eqb C19Record.config s2 4%nat = 2%nat
         /\ Stats.lookup (Stats.text_eqb) [116; 101; 104]%N (Stats.misspelled _ _ s2) = 2%nat
         /\ List.length (snd cs) = 3%nat
         /\ snd (Y (new [] 1, []) [((C16StatsProofs.zn 0, []), C16Stats.YX (XImportStats f)); ((C16StatsProofs.zn 0, []), C16Stats.YX XGenerateStats)])
            = [C16Stats.YOut (XOut OUnit); C16Stats.YFileOut f]
     | _ => False
     end.
Proof.
  split; [exact C19RecordProofs.txt_float_rt|]. split; [constructor; [exact (proj1 C19RecordProofs.ex_good)|constructor]|].
  vm_compute. repeat split.
Qed.

(* HISTORY — the OLD import_words (synchronise only when the word count grew; before fix ba0a239, finding
   C16-F15) refuted the words round trip: regression witness over Wasm.import_words_old, which is no longer
   part of `step` *)
Example C16_words_roundtrip_old_refuted :
  let st1 := import_words_old [] toy_word_id (new [] 0) [[97; 98]%N] in
  let st := import_words_old [] toy_word_id st1 [[65; 66]%N] in
  let st2 := import_words_old [] toy_word_id (new [] 0) (export_words st) in
  api_lint [] toy_raw toy_ctx st [97; 98]%N Plain <> api_lint [] toy_raw toy_ctx st2 [97; 98]%N Plain.
Proof. exact words_roundtrip_old_refuted. Qed.
