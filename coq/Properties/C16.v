(* C16 — The JavaScript-facing linter API (harper_wasm::Linter) is self-consistent.
   Pinned statements only: nothing but `exact`.  The model is Model/Wasm.v (state machine `step`/`run`
   over the Section variables curated / word_id / raw_lints / ctx, which appear here as universally
   quantified parameters) and Model/LintJson.v (serde_json text of Span / Suggestion / Lint). *)
From Coq Require Import String.
Require Import Base Overlap Suggestion LintJson Wasm ListLemmas OverlapProofs SuggestionProofs WasmProofs LintJsonProofs Tables_wasmapi WasmTables.
From Coq Require Import List Sorting.Sorted Sorting.Permutation.

(* lint, any state, any text: when the rules' lints lie inside the text (C03's business, monitored), the answer exists (no panic while slicing the problem text), every returned lint lies inside the text, is one of the rules' lints, carries exactly the characters at its span and the language of the call, and no two returned lints share a character (C13 lifted through the wrapper) *)
Theorem C16_lint_wellformed :
  forall (curated : config) (word_id : text -> N) (raw_lints : text -> language -> config -> dict -> nat -> list rlint) (ctx : rlint -> text -> language -> dict -> N) st t lang,
  Forall (fun l => span_in (length t) (rspan l)) (raw_of curated raw_lints st t lang) ->
  exists ls, api_lint curated raw_lints ctx st t lang = Ok ls /\
    Forall (fun w => span_in (length t) (rspan (winner w))
                     /\ wproblem w = slice t (sstart (rspan (winner w))) (send (rspan (winner w)))
                     /\ wlang w = lang
                     /\ In (winner w) (raw_of curated raw_lints st t lang)) ls
    /\ ForallOrdPairs (fun a b => rdisjoint (winner a) (winner b)) ls.
Proof. exact lint_wellformed. Qed.
Check C16_lint_wellformed :
  forall (curated : config) (word_id : text -> N) (raw_lints : text -> language -> config -> dict -> nat -> list rlint) (ctx : rlint -> text -> language -> dict -> N) st t lang,
  Forall (fun l => span_in (length t) (rspan l)) (raw_of curated raw_lints st t lang) ->
  exists ls, api_lint curated raw_lints ctx st t lang = Ok ls /\
    Forall (fun w => span_in (length t) (rspan (winner w))
                     /\ wproblem w = slice t (sstart (rspan (winner w))) (send (rspan (winner w)))
                     /\ wlang w = lang
                     /\ In (winner w) (raw_of curated raw_lints st t lang)) ls
    /\ ForallOrdPairs (fun a b => rdisjoint (winner a) (winner b)) ls.
Print Assumptions C16_lint_wellformed.

(* ... for every history of calls from every state: each answer to a lint call is well-formed *)
Theorem C16_history_wellformed :
  forall (curated : config) (word_id : text -> N) (raw_lints : text -> language -> config -> dict -> nat -> list rlint) (ctx : rlint -> text -> language -> dict -> N),
  (forall t lang cfg d dia, Forall (fun l => span_in (length t) (rspan l)) (raw_lints t lang cfg d dia)) ->
  forall cs st, Forall2 answer_ok cs (snd (run curated word_id raw_lints ctx st cs)).
Proof. exact history_wellformed. Qed.
Check C16_history_wellformed :
  forall (curated : config) (word_id : text -> N) (raw_lints : text -> language -> config -> dict -> nat -> list rlint) (ctx : rlint -> text -> language -> dict -> N),
  (forall t lang cfg d dia, Forall (fun l => span_in (length t) (rspan l)) (raw_lints t lang cfg d dia)) ->
  forall cs st, Forall2 answer_ok cs (snd (run curated word_id raw_lints ctx st cs)).
Print Assumptions C16_history_wellformed.

(* apply_suggestion on a lint inside the text: the answer is prefix ++ replacement ++ suffix of exactly that span (C03), one statistics record is appended and nothing else of the state changes *)
Theorem C16_apply :
  forall (curated : config) (word_id : text -> N) (raw_lints : text -> language -> config -> dict -> nat -> list rlint) (ctx : rlint -> text -> language -> dict -> N) st t l s,
  span_in (length t) (rspan (winner l)) ->
  let sp := rspan (winner l) in
  step curated word_id raw_lints ctx st (CApply t l s) =
    (push_record st t l, OText (firstn (sstart sp) t ++ repl s (slice t (sstart sp) (send sp)) ++ skipn (send sp) t))
  /\ length (s_stats (push_record st t l)) = S (length (s_stats st))
  /\ s_cfg (push_record st t l) = s_cfg st /\ s_user (push_record st t l) = s_user st
  /\ s_lint_dict (push_record st t l) = s_lint_dict st /\ s_ignored (push_record st t l) = s_ignored st
  /\ s_dialect (push_record st t l) = s_dialect st.
Proof. exact apply_spec_wasm. Qed.
Check C16_apply :
  forall (curated : config) (word_id : text -> N) (raw_lints : text -> language -> config -> dict -> nat -> list rlint) (ctx : rlint -> text -> language -> dict -> N) st t l s,
  span_in (length t) (rspan (winner l)) ->
  let sp := rspan (winner l) in
  step curated word_id raw_lints ctx st (CApply t l s) =
    (push_record st t l, OText (firstn (sstart sp) t ++ repl s (slice t (sstart sp) (send sp)) ++ skipn (send sp) t))
  /\ length (s_stats (push_record st t l)) = S (length (s_stats st))
  /\ s_cfg (push_record st t l) = s_cfg st /\ s_user (push_record st t l) = s_user st
  /\ s_lint_dict (push_record st t l) = s_lint_dict st /\ s_ignored (push_record st t l) = s_ignored st
  /\ s_dialect (push_record st t l) = s_dialect st.
Print Assumptions C16_apply.

(* ignore_lint of a returned lint, then lint of the same text: the earlier answer minus exactly the lints whose context equals that of the ignored lint (order kept, problem texts kept), the ignored lint itself is gone, nothing else of the state changes.  (lib.rs removes overlaps BEFORE ignored lints, so dropping a lint cannot resurrect one that lost an overlap.) *)
Theorem C16_ignore :
  forall (curated : config) (word_id : text -> N) (raw_lints : text -> language -> config -> dict -> nat -> list rlint) (ctx : rlint -> text -> language -> dict -> N) st t lang ls l,
  api_lint curated raw_lints ctx st t lang = Ok ls -> In l ls ->
  let st' := fst (step curated word_id raw_lints ctx st (CIgnore t l)) in
  let same (w : wlint) := (ctx (winner w) t lang (s_lint_dict st) =? ctx (winner l) t lang (s_lint_dict st))%N in
  api_lint curated raw_lints ctx st' t lang = Ok (filter (fun w => negb (same w)) ls)
  /\ ~ In l (filter (fun w => negb (same w)) ls)
  /\ s_cfg st' = s_cfg st /\ s_user st' = s_user st /\ s_lint_dict st' = s_lint_dict st
  /\ s_stats st' = s_stats st /\ s_dialect st' = s_dialect st.
Proof. exact ignore_spec. Qed.
Check C16_ignore :
  forall (curated : config) (word_id : text -> N) (raw_lints : text -> language -> config -> dict -> nat -> list rlint) (ctx : rlint -> text -> language -> dict -> N) st t lang ls l,
  api_lint curated raw_lints ctx st t lang = Ok ls -> In l ls ->
  let st' := fst (step curated word_id raw_lints ctx st (CIgnore t l)) in
  let same (w : wlint) := (ctx (winner w) t lang (s_lint_dict st) =? ctx (winner l) t lang (s_lint_dict st))%N in
  api_lint curated raw_lints ctx st' t lang = Ok (filter (fun w => negb (same w)) ls)
  /\ ~ In l (filter (fun w => negb (same w)) ls)
  /\ s_cfg st' = s_cfg st /\ s_user st' = s_user st /\ s_lint_dict st' = s_lint_dict st
  /\ s_stats st' = s_stats st /\ s_dialect st' = s_dialect st.
Print Assumptions C16_ignore.

(* an ignored context never comes back, whatever is called in between, until clear_ignored_lints.  The context of a later lint is computed with the lint dictionary of that moment: a dictionary change may change it (finding C16-N1, not excluded by this theorem) *)
Theorem C16_ignore_persistent :
  forall (curated : config) (word_id : text -> N) (raw_lints : text -> language -> config -> dict -> nat -> list rlint) (ctx : rlint -> text -> language -> dict -> N) st t l cs t2 lang2 ls,
  Forall (fun c => c <> CClearIgnored) cs ->
  let st1 := fst (step curated word_id raw_lints ctx st (CIgnore t l)) in
  let st2 := fst (run curated word_id raw_lints ctx st1 cs) in
  api_lint curated raw_lints ctx st2 t2 lang2 = Ok ls ->
  Forall (fun w => ctx (winner w) t2 lang2 (s_lint_dict st2) <> ctx (winner l) t (wlang l) (s_lint_dict st)) ls.
Proof. exact ignore_persistent. Qed.
Check C16_ignore_persistent :
  forall (curated : config) (word_id : text -> N) (raw_lints : text -> language -> config -> dict -> nat -> list rlint) (ctx : rlint -> text -> language -> dict -> N) st t l cs t2 lang2 ls,
  Forall (fun c => c <> CClearIgnored) cs ->
  let st1 := fst (step curated word_id raw_lints ctx st (CIgnore t l)) in
  let st2 := fst (run curated word_id raw_lints ctx st1 cs) in
  api_lint curated raw_lints ctx st2 t2 lang2 = Ok ls ->
  Forall (fun w => ctx (winner w) t2 lang2 (s_lint_dict st2) <> ctx (winner l) t (wlang l) (s_lint_dict st)) ls.
Print Assumptions C16_ignore_persistent.

(* export_ignored_lints gives JSON that import_ignored_lints reads back as the same list; imported into any linter it adds exactly those contexts and changes nothing else; export, clear, import on one linter restores the behaviour of lint on every text *)
Theorem C16_ignore_roundtrip :
  forall (curated : config) (word_id : text -> N) (raw_lints : text -> language -> config -> dict -> nat -> list rlint) (ctx : rlint -> text -> language -> dict -> N) st,
  exists j, step curated word_id raw_lints ctx st CExportIgnored = (st, OJson j) /\
    ignored_from_json j = Some (s_ignored st) /\
    (forall st', exists st2, step curated word_id raw_lints ctx st' (CImportIgnored j) = (st2, OUnit) /\
       (forall h, hmem h (s_ignored st2) = hmem h (s_ignored st') || hmem h (s_ignored st)) /\
       s_cfg st2 = s_cfg st' /\ s_user st2 = s_user st' /\ s_lint_dict st2 = s_lint_dict st' /\
       s_stats st2 = s_stats st' /\ s_dialect st2 = s_dialect st') /\
    let st1 := fst (step curated word_id raw_lints ctx st CClearIgnored) in
    let st2 := fst (step curated word_id raw_lints ctx st1 (CImportIgnored j)) in
    (forall h, hmem h (s_ignored st2) = hmem h (s_ignored st)) /\
    (forall t lang, api_lint curated raw_lints ctx st2 t lang = api_lint curated raw_lints ctx st t lang).
Proof. exact ignored_roundtrip. Qed.
Check C16_ignore_roundtrip :
  forall (curated : config) (word_id : text -> N) (raw_lints : text -> language -> config -> dict -> nat -> list rlint) (ctx : rlint -> text -> language -> dict -> N) st,
  exists j, step curated word_id raw_lints ctx st CExportIgnored = (st, OJson j) /\
    ignored_from_json j = Some (s_ignored st) /\
    (forall st', exists st2, step curated word_id raw_lints ctx st' (CImportIgnored j) = (st2, OUnit) /\
       (forall h, hmem h (s_ignored st2) = hmem h (s_ignored st') || hmem h (s_ignored st)) /\
       s_cfg st2 = s_cfg st' /\ s_user st2 = s_user st' /\ s_lint_dict st2 = s_lint_dict st' /\
       s_stats st2 = s_stats st' /\ s_dialect st2 = s_dialect st') /\
    let st1 := fst (step curated word_id raw_lints ctx st CClearIgnored) in
    let st2 := fst (step curated word_id raw_lints ctx st1 (CImportIgnored j)) in
    (forall h, hmem h (s_ignored st2) = hmem h (s_ignored st)) /\
    (forall t lang, api_lint curated raw_lints ctx st2 t lang = api_lint curated raw_lints ctx st t lang).
Print Assumptions C16_ignore_roundtrip.

(* custom words, partial: a new linter that imports the exported words in any order ends up with the same user dictionary and is synchronised on it ... *)
Theorem C16_words_roundtrip_partial :
  forall (curated : config) (word_id : text -> N) st dia ws,
  dict_wf word_id (s_user st) -> Permutation ws (export_words st) ->
  let st2 := import_words curated word_id (new curated dia) ws in
  s_user st2 = s_user st /\ s_lint_dict st2 = s_user st /\ s_cfg st2 = cfg_clear curated /\ s_ignored st2 = []
  /\ export_words st2 = export_words st.
Proof. exact words_roundtrip. Qed.
Check C16_words_roundtrip_partial :
  forall (curated : config) (word_id : text -> N) st dia ws,
  dict_wf word_id (s_user st) -> Permutation ws (export_words st) ->
  let st2 := import_words curated word_id (new curated dia) ws in
  s_user st2 = s_user st /\ s_lint_dict st2 = s_user st /\ s_cfg st2 = cfg_clear curated /\ s_ignored st2 = []
  /\ export_words st2 = export_words st.
Print Assumptions C16_words_roundtrip_partial.

(* ... hence it lints every text like the first one PROVIDED the first linter was itself synchronised with what it exports (s_lint_dict = s_user); what is missing for the full statement is exactly that proviso, see C16_words_desync / C16_words_roundtrip_refuted *)
Theorem C16_words_roundtrip_behaviour_partial :
  forall (curated : config) (word_id : text -> N) (raw_lints : text -> language -> config -> dict -> nat -> list rlint) (ctx : rlint -> text -> language -> dict -> N) st st' ws,
  dict_wf word_id (s_user st) -> Permutation ws (export_words st) ->
  s_lint_dict st = s_user st ->
  s_user st' = [] -> s_lint_dict st' = [] -> s_dialect st' = s_dialect st ->
  (forall h, hmem h (s_ignored st') = hmem h (s_ignored st)) ->
  let st2 := import_words curated word_id st' ws in
  s_cfg st2 = s_cfg st ->
  forall t lang, api_lint curated raw_lints ctx st2 t lang = api_lint curated raw_lints ctx st t lang.
Proof. exact words_roundtrip_behaviour. Qed.
Check C16_words_roundtrip_behaviour_partial :
  forall (curated : config) (word_id : text -> N) (raw_lints : text -> language -> config -> dict -> nat -> list rlint) (ctx : rlint -> text -> language -> dict -> N) st st' ws,
  dict_wf word_id (s_user st) -> Permutation ws (export_words st) ->
  s_lint_dict st = s_user st ->
  s_user st' = [] -> s_lint_dict st' = [] -> s_dialect st' = s_dialect st ->
  (forall h, hmem h (s_ignored st') = hmem h (s_ignored st)) ->
  let st2 := import_words curated word_id st' ws in
  s_cfg st2 = s_cfg st ->
  forall t lang, api_lint curated raw_lints ctx st2 t lang = api_lint curated raw_lints ctx st t lang.
Print Assumptions C16_words_roundtrip_behaviour_partial.

(* F15, wasm half: import_words re-synchronises only when the word count grows.  Importing a second spelling w2 of a known word w1 (same WordId) changes what is exported but not the dictionary the linter lints with; the linter rebuilt from the export lints with the other spelling *)
Theorem C16_words_desync :
  forall (curated : config) (word_id : text -> N) (raw_lints : text -> language -> config -> dict -> nat -> list rlint) (ctx : rlint -> text -> language -> dict -> N) dia w1 w2,
  w1 <> w2 -> word_id w1 = word_id w2 ->
  let st := fst (run curated word_id raw_lints ctx (new curated dia) [CImportWords [w1]; CImportWords [w2]]) in
  let st2 := import_words curated word_id (new curated dia) (export_words st) in
  export_words st = [w2] /\ s_user st = [(word_id w1, w2)]
  /\ s_lint_dict st = [(word_id w1, w1)] /\ s_lint_dict st2 = [(word_id w1, w2)]
  /\ s_lint_dict st <> s_lint_dict st2
  /\ s_cfg st = s_cfg st2 /\ s_ignored st = s_ignored st2 /\ s_dialect st = s_dialect st2
  /\ (forall t lang,
        api_lint curated raw_lints ctx st t lang = attach t lang (ro_full (raw_lints t lang (cfg_fill_with_curated curated (cfg_clear curated)) [(word_id w1, w1)] dia))
        /\ api_lint curated raw_lints ctx st2 t lang = attach t lang (ro_full (raw_lints t lang (cfg_fill_with_curated curated (cfg_clear curated)) [(word_id w1, w2)] dia))).
Proof. exact words_desync. Qed.
Check C16_words_desync :
  forall (curated : config) (word_id : text -> N) (raw_lints : text -> language -> config -> dict -> nat -> list rlint) (ctx : rlint -> text -> language -> dict -> N) dia w1 w2,
  w1 <> w2 -> word_id w1 = word_id w2 ->
  let st := fst (run curated word_id raw_lints ctx (new curated dia) [CImportWords [w1]; CImportWords [w2]]) in
  let st2 := import_words curated word_id (new curated dia) (export_words st) in
  export_words st = [w2] /\ s_user st = [(word_id w1, w2)]
  /\ s_lint_dict st = [(word_id w1, w1)] /\ s_lint_dict st2 = [(word_id w1, w2)]
  /\ s_lint_dict st <> s_lint_dict st2
  /\ s_cfg st = s_cfg st2 /\ s_ignored st = s_ignored st2 /\ s_dialect st = s_dialect st2
  /\ (forall t lang,
        api_lint curated raw_lints ctx st t lang = attach t lang (ro_full (raw_lints t lang (cfg_fill_with_curated curated (cfg_clear curated)) [(word_id w1, w1)] dia))
        /\ api_lint curated raw_lints ctx st2 t lang = attach t lang (ro_full (raw_lints t lang (cfg_fill_with_curated curated (cfg_clear curated)) [(word_id w1, w2)] dia))).
Print Assumptions C16_words_desync.

(* so 'export then import of the custom words restores the same behaviour' is false of the model: concrete witness (toy rules: WordId = word length, one rule reporting a text that is not a dictionary word); the same history on the real API is known finding C16-F15 *)
Theorem C16_words_roundtrip_refuted :
  exists (curated : config) (word_id : text -> N) raw_lints ctx (cs : list call) (t : text) (lang : language),
    let st := fst (run curated word_id raw_lints ctx (new curated 0) cs) in
    let st2 := import_words curated word_id (new curated 0) (export_words st) in
    api_lint curated raw_lints ctx st t lang <> api_lint curated raw_lints ctx st2 t lang.
Proof. exact words_roundtrip_refuted. Qed.
Check C16_words_roundtrip_refuted :
  exists (curated : config) (word_id : text -> N) raw_lints ctx (cs : list call) (t : text) (lang : language),
    let st := fst (run curated word_id raw_lints ctx (new curated 0) cs) in
    let st2 := import_words curated word_id (new curated 0) (export_words st) in
    api_lint curated raw_lints ctx st t lang <> api_lint curated raw_lints ctx st2 t lang.
Print Assumptions C16_words_roundtrip_refuted.

(* JSON: from_json (to_json x) = Some x for Span *)
Theorem C16_json_roundtrip_span :
  forall s, span_from_json (print_span s) = Some s.
Proof. exact span_json_roundtrip. Qed.
Check C16_json_roundtrip_span :
  forall s, span_from_json (print_span s) = Some s.
Print Assumptions C16_json_roundtrip_span.

(* JSON: ... for Suggestion (all three kinds, any characters) *)
Theorem C16_json_roundtrip_suggestion :
  forall s, suggestion_from_json (print_wsuggestion s) = Some s.
Proof. exact suggestion_json_roundtrip. Qed.
Check C16_json_roundtrip_suggestion :
  forall s, suggestion_from_json (print_wsuggestion s) = Some s.
Print Assumptions C16_json_roundtrip_suggestion.

(* JSON: ... for Lint (any span, kind, suggestions, message and problem text over all code points; priority a u8) *)
Theorem C16_json_roundtrip_lint :
  forall l, rprio (winner l) <= 255 -> lint_from_json (print_wlint l) = Some l.
Proof. exact lint_json_roundtrip. Qed.
Check C16_json_roundtrip_lint :
  forall l, rprio (winner l) <= 255 -> lint_from_json (print_wlint l) = Some l.
Print Assumptions C16_json_roundtrip_lint.

(* JSON: ... for the ignore list *)
Theorem C16_json_roundtrip_ignored :
  forall hs, ignored_from_json (print_ignored hs) = Some hs.
Proof. exact ignored_json_roundtrip. Qed.
Check C16_json_roundtrip_ignored :
  forall hs, ignored_from_json (print_ignored hs) = Some hs.
Print Assumptions C16_json_roundtrip_ignored.

(* JSON: the escaping leaves no raw control character in the text of a string *)
Theorem C16_json_no_raw_control :
  forall c, Forall (fun x => (32 <= x)%N) (esc_char c).
Proof. exact esc_char_no_control. Qed.
Check C16_json_no_raw_control :
  forall c, Forall (fun x => (32 <= x)%N) (esc_char c).
Print Assumptions C16_json_no_raw_control.

(* tie to the source text (table regenerated from harper-wasm/src/lib.rs on every run): Linter::lint still does overlay, LintGroup::lint, restore, remove_overlaps, remove_ignored, problem text, in this order; import_words still synchronises only when the word count grew; synchronize_lint_dict, apply_suggestion (record first), import_ignored_lints (append), ignore_lint (lint's own language, the linter's dictionary) have the modelled shape *)
Theorem C16_source_shape :
  wasm_lint_pipeline = model_lint_pipeline
  /\ wasm_import_words_init_len = "self.user_dictionary.word_count()"%string
  /\ wasm_import_words_sync_condition = model_sync_condition
  /\ wasm_synchronize_steps = model_synchronize_steps
  /\ wasm_apply_suggestion_steps = ["push_record"; "apply_to_lint_span"]%string
  /\ wasm_import_ignored_steps = ["append"]%string
  /\ wasm_ignore_lint_steps = ["parser_of_lint_language"; "linter_dictionary"; "ignore_inner_on_document"]%string.
Proof. exact wasm_source_shape. Qed.
Check C16_source_shape :
  wasm_lint_pipeline = model_lint_pipeline
  /\ wasm_import_words_init_len = "self.user_dictionary.word_count()"%string
  /\ wasm_import_words_sync_condition = model_sync_condition
  /\ wasm_synchronize_steps = model_synchronize_steps
  /\ wasm_apply_suggestion_steps = ["push_record"; "apply_to_lint_span"]%string
  /\ wasm_import_ignored_steps = ["append"]%string
  /\ wasm_ignore_lint_steps = ["parser_of_lint_language"; "linter_dictionary"; "ignore_inner_on_document"]%string.
Print Assumptions C16_source_shape.

(* ... and the types serde derives the JSON from still have the variants / fields the printers write, with no #[serde(..)] attribute *)
Theorem C16_serde_shape :
  lint_kind_variants = map kind_name all_kinds
  /\ language_variants = [lang_name Plain; lang_name Markdown]
  /\ suggestion_variants = ["ReplaceWith"; "InsertAfter"; "Remove"]%string
  /\ core_lint_fields = ["span"; "lint_kind"; "suggestions"; "message"; "priority"]%string
  /\ core_span_fields = ["start"; "end"]%string /\ wasm_span_fields = ["start"; "end"]%string
  /\ wasm_lint_fields = ["inner"; "problem_text"; "language"]%string
  /\ wasm_suggestion_fields = ["inner"]%string
  /\ ignored_lints_fields = ["context_hashes"]%string
  /\ serde_attributes_on_these_types = [].
Proof. exact wasm_serde_shape. Qed.
Check C16_serde_shape :
  lint_kind_variants = map kind_name all_kinds
  /\ language_variants = [lang_name Plain; lang_name Markdown]
  /\ suggestion_variants = ["ReplaceWith"; "InsertAfter"; "Remove"]%string
  /\ core_lint_fields = ["span"; "lint_kind"; "suggestions"; "message"; "priority"]%string
  /\ core_span_fields = ["start"; "end"]%string /\ wasm_span_fields = ["start"; "end"]%string
  /\ wasm_lint_fields = ["inner"; "problem_text"; "language"]%string
  /\ wasm_suggestion_fields = ["inner"]%string
  /\ ignored_lints_fields = ["context_hashes"]%string
  /\ serde_attributes_on_these_types = [].
Print Assumptions C16_serde_shape.

(* the configuration the rules see during lint (fill_with_curated over a clone, restored afterwards): the user's explicit true/false wins, a null or absent entry falls back to the curated default *)
Theorem C16_config_overlay :
  forall (curated c : config) k, amap_sorted c -> aget k (cfg_fill_with_curated curated c) = match aget k c with Some (Some v) => Some (Some v) | _ => aget k curated end.
Proof. exact config_overlay. Qed.
Check C16_config_overlay :
  forall (curated c : config) k, amap_sorted c -> aget k (cfg_fill_with_curated curated c) = match aget k c with Some (Some v) => Some (Some v) | _ => aget k curated end.
Print Assumptions C16_config_overlay.

(* synchronize_lint_dict (run by import_words) rebuilds the LintGroup and re-merges the saved configuration: in every history that starts with Linter::new the configuration after import_words is the configuration before *)
Theorem C16_import_words_keeps_config :
  forall (curated : config) (word_id : text -> N) (raw_lints : text -> language -> config -> dict -> nat -> list rlint) (ctx : rlint -> text -> language -> dict -> N) dia cs ws, amap_sorted curated ->
  let st := fst (run curated word_id raw_lints ctx (new curated dia) cs) in
  s_cfg (import_words curated word_id st ws) = s_cfg st.
Proof. exact import_words_keeps_config. Qed.
Check C16_import_words_keeps_config :
  forall (curated : config) (word_id : text -> N) (raw_lints : text -> language -> config -> dict -> nat -> list rlint) (ctx : rlint -> text -> language -> dict -> N) dia cs ws, amap_sorted curated ->
  let st := fst (run curated word_id raw_lints ctx (new curated dia) cs) in
  s_cfg (import_words curated word_id st ws) = s_cfg st.
Print Assumptions C16_import_words_keeps_config.

(* ---------- non-vacuity: the hypotheses are satisfiable on non-trivial inputs ---------- *)
Definition ex_raw (t : text) (lg : language) (c : config) (d : dict) (n : nat) : list rlint :=
  [mkrl (mkspan 2 6) Style [] [] 31; mkrl (mkspan 0 4) Spelling [ReplaceWith [97%N]] [34%N; 10%N] 63;
   mkrl (mkspan 4 4) Formatting [Remove] [] 127; mkrl (mkspan 4 7) WordChoice [InsertAfter [44%N]] [] 63;
   mkrl (mkspan 7 9) Spelling [] [] 63].
Definition ex_text : text := [97; 98; 99; 100; 101; 102; 103; 104; 105]%N.
Definition ex_ctx (l : rlint) (t : text) (lg : language) (d : dict) : N := N.of_nat (sstart (rspan l)).

(* raw lints in bounds, overlapping; the answer keeps 3 of 5 with their problem texts *)
Example C16_lint_nonvacuous :
  Forall (fun l => span_in (length ex_text) (rspan l)) (raw_of [] ex_raw (new [] 0) ex_text Plain)
  /\ api_lint [] ex_raw ex_ctx (new [] 0) ex_text Plain
     = Ok [mkwl (mkrl (mkspan 0 4) Spelling [ReplaceWith [97%N]] [34%N; 10%N] 63) [97; 98; 99; 100]%N Plain;
           mkwl (mkrl (mkspan 4 7) WordChoice [InsertAfter [44%N]] [] 63) [101; 102; 103]%N Plain;
           mkwl (mkrl (mkspan 7 9) Spelling [] [] 63) [104; 105]%N Plain].
Proof. split; [repeat constructor; cbn; lia|vm_compute; reflexivity]. Qed.

(* ignoring the middle lint removes it and nothing else; clearing brings it back; a history with apply *)
Example C16_ignore_nonvacuous :
  let l := mkwl (mkrl (mkspan 4 7) WordChoice [InsertAfter [44%N]] [] 63) [101; 102; 103]%N Plain in
  let '(st, os) := run [] toy_word_id ex_raw ex_ctx (new [] 0)
       [CLint ex_text Plain; CIgnore ex_text l; CLint ex_text Plain; CApply ex_text l (InsertAfter [44%N]);
        CExportIgnored; CClearIgnored; CLint ex_text Plain; CGetStats] in
  match os with
  | [OLints a; OUnit; OLints b; OText t; OJson j; OUnit; OLints c; OStats rs] =>
      length a = 3 /\ length b = 2 /\ ~ In l b /\ a = c /\ t = [97; 98; 99; 100; 101; 102; 103; 44; 104; 105]%N
      /\ j = lit "{""context_hashes"":[4]}"%string /\ length rs = 1
  | _ => False
  end.
Proof. vm_compute. repeat split; try reflexivity. intros [H|[H|[]]]; discriminate. Qed.

(* the premises of the words round trip hold after real imports (two words, one re-imported) *)
Example C16_words_nonvacuous :
  let st := fst (run [] toy_word_id toy_raw toy_ctx (new [] 0)
                  [CImportWords [[97; 98; 99]%N; [97]%N]; CImportWords [[97]%N]]) in
  dict_wf toy_word_id (s_user st) /\ s_lint_dict st = s_user st /\ export_words st = [[97]%N; [97; 98; 99]%N].
Proof. vm_compute. repeat split; repeat constructor. Qed.

(* a lint whose message needs every kind of escape *)
Example C16_json_nonvacuous :
  let l := mkwl (mkrl (mkspan 3 5) WordChoice [ReplaceWith [34; 92]%N; Remove; InsertAfter []] [34; 92; 10; 1; 31; 127; 233; 128512]%N 255) [9]%N Markdown in
  print_wlint l = lit "{""inner"":{""span"":{""start"":3,""end"":5},""lint_kind"":""WordChoice"",""suggestions"":[{""ReplaceWith"":[""\"""",""\\""]},""Remove"",{""InsertAfter"":[]}],""message"":""\""\\\n\u0001\u001f"%string ++ [127; 233; 128512]%N ++ lit """,""priority"":255},""problem_text"":""\t"",""language"":""Markdown""}"%string
  /\ lint_from_json (print_wlint l) = Some l.
Proof. split; vm_compute; reflexivity. Qed.
