(* C12 — checking two paragraphs together equals checking them separately.
   This file pins the statements; it contains nothing but `exact`.
   What is a theorem here: the framework every rule runs in (iterators, hull, LintGroup::lint with its chunk
   cache, the rule schemas) is paragraph-local for EVERY chunk function / schema body; and the property
   itself, conditional on two hypotheses that the harness monitors on the real code in every run:
   H_lex_split (the tokens of P++D are the tokens of P followed by the shifted tokens of D) and
   H_rules_local (every enabled struct rule is paragraph-local).  Hence `_partial`. *)
Require Import Base Overlap Tables_lexer Lexer Condense ParaSplit ParaSplitProofs LexSplitProofs LongSentencesSeam.
From Coq Require Import Sorting.Permutation.

(* the index arithmetic of iter_chunks / iter_sentences / iter_paragraphs never slices out of range and
   computes "cut after every terminator" (one empty slice for the empty token list) *)
Theorem C12_iter_spec : forall p ts,
  iter_by_chk p ts = Ok (iter_by p ts) /\
  iter_by p ts = match ts with [] => [[]] | _ => split_after p ts end /\
  concat (iter_by p ts) = ts.
Proof. exact (fun p ts => conj (iter_by_chk_ok p ts) (conj (iter_by_spec p ts) (concat_iter_by p ts))). Qed.
Check C12_iter_spec : forall p ts,
  iter_by_chk p ts = Ok (iter_by p ts) /\
  iter_by p ts = match ts with [] => [[]] | _ => split_after p ts end /\
  concat (iter_by p ts) = ts.
Print Assumptions C12_iter_spec.

(* each iterator splits exactly where the first part ends in ITS OWN terminator (chunks: . ! ? , : quote
   or break; sentences: . ! ? or break; paragraphs: break) and the rest is non-empty *)
Theorem C12_iter_split_general : forall p A B,
  ends_in p A -> B <> [] -> iter_by p (A ++ B) = iter_by p A ++ iter_by p B.
Proof. exact iter_by_app. Qed.
Check C12_iter_split_general : forall p A B,
  ends_in p A -> B <> [] -> iter_by p (A ++ B) = iter_by p A ++ iter_by p B.
Print Assumptions C12_iter_split_general.

(* a ParagraphBreak terminates all three; the second part may sit anywhere (shifted spans and twins) *)
Theorem C12_iter_split : forall A B n k,
  ends_in_break A -> B <> [] ->
  iter_chunks (A ++ map (shift_tok n k) B) = iter_chunks A ++ map (map (shift_tok n k)) (iter_chunks B) /\
  iter_sentences (A ++ map (shift_tok n k) B) = iter_sentences A ++ map (map (shift_tok n k)) (iter_sentences B) /\
  iter_paragraphs (A ++ map (shift_tok n k) B) = iter_paragraphs A ++ map (map (shift_tok n k)) (iter_paragraphs B).
Proof. exact iter_split. Qed.
Check C12_iter_split : forall A B n k,
  ends_in_break A -> B <> [] ->
  iter_chunks (A ++ map (shift_tok n k) B) = iter_chunks A ++ map (map (shift_tok n k)) (iter_chunks B) /\
  iter_sentences (A ++ map (shift_tok n k) B) = iter_sentences A ++ map (map (shift_tok n k)) (iter_sentences B) /\
  iter_paragraphs (A ++ map (shift_tok n k) B) = iter_paragraphs A ++ map (map (shift_tok n k)) (iter_paragraphs B).
Print Assumptions C12_iter_split.

(* the pattern-rule half of LintGroup::lint is paragraph-local for ANY chunk function *)
Theorem C12_pattern_rules_local : forall chunk_fn A B P D,
  ends_in_break A -> in_bounds (length P) A ->
  pat_spec chunk_fn (iter_chunks (A ++ map (shift_tok (length P) (length A)) B)) (P ++ D)
  = pat_spec chunk_fn (iter_chunks A) P ++ map (shift_lint (length P)) (pat_spec chunk_fn (iter_chunks B) D).
Proof. exact pattern_rules_local. Qed.
Check C12_pattern_rules_local : forall chunk_fn A B P D,
  ends_in_break A -> in_bounds (length P) A ->
  pat_spec chunk_fn (iter_chunks (A ++ map (shift_tok (length P) (length A)) B)) (P ++ D)
  = pat_spec chunk_fn (iter_chunks A) P ++ map (shift_lint (length P)) (pat_spec chunk_fn (iter_chunks B) D).
Print Assumptions C12_pattern_rules_local.

(* ... and the loop as written — checked hull, checked get_content, pull_by/push_by, the chunk cache —
   computes that cache-free reading from every coherent cache (in particular the empty one) and leaves a
   coherent cache behind.  U = the chunk views that occur; U_key = their characters determine what the
   rules report (the cache key is the characters alone). *)
Theorem C12_cache_transparent : forall chunk_fn (U : list tok -> text -> Prop),
  (forall v1 v2 k, U v1 k -> U v2 k -> chunk_fn v1 k = chunk_fn v2 k) ->
  forall rules cch ts src,
    coherent chunk_fn U cch -> in_bounds (length src) ts -> views_in_U U (iter_chunks ts) src ->
    exists cch', lint_group_chk chunk_fn rules cch ts src = Ok (lint_group chunk_fn rules ts src, cch')
                 /\ coherent chunk_fn U cch'.
Proof. exact lint_group_chk_ok. Qed.
Check C12_cache_transparent : forall chunk_fn (U : list tok -> text -> Prop),
  (forall v1 v2 k, U v1 k -> U v2 k -> chunk_fn v1 k = chunk_fn v2 k) ->
  forall rules cch ts src,
    coherent chunk_fn U cch -> in_bounds (length src) ts -> views_in_U U (iter_chunks ts) src ->
    exists cch', lint_group_chk chunk_fn rules cch ts src = Ok (lint_group chunk_fn rules ts src, cch')
                 /\ coherent chunk_fn U cch'.
Print Assumptions C12_cache_transparent.

(* struct-rule schemas: `for x in doc.iter_X() { extend(f(x)) }` with f reading only x's own data (spans
   relative to x, x's characters) is paragraph-local, X = chunks / sentences / paragraphs; so is a rule
   over adjacent-token windows that reports nothing for a window containing a ParagraphBreak *)
Theorem C12_schema_local : forall g0,
  para_local (schema_rule is_chunk_terminator g0) /\
  para_local (schema_rule is_sentence_terminator g0) /\
  para_local (schema_rule is_paragraph_break g0).
Proof. exact schema_local. Qed.
Check C12_schema_local : forall g0,
  para_local (schema_rule is_chunk_terminator g0) /\
  para_local (schema_rule is_sentence_terminator g0) /\
  para_local (schema_rule is_paragraph_break g0).
Print Assumptions C12_schema_local.

Theorem C12_schema_local_windows : forall w g0, 1 <= w -> para_local (window_rule w g0).
Proof. exact window_local. Qed.
Check C12_schema_local_windows : forall w g0, 1 <= w -> para_local (window_rule w g0).
Print Assumptions C12_schema_local_windows.

(* the property, conditional on the monitored hypotheses; D not starting with a newline (the lexer takes a
   maximal newline run, so leading newlines of D belong to the break that closes P — for such D the relation
   is evaluated on the implementation only).  Per rule and for the pattern half the lists are EQUAL; the
   whole is a permutation because LintGroup::lint emits rule by rule. *)
Theorem C12_main_partial : forall (tokens : text -> list tok) (premise : text -> Prop) chunk_fn rules,
  (forall P D, premise P -> no_leading_newline D ->
     tokens (P ++ D) = tokens P ++ map (shift_tok (length P) (length (tokens P))) (tokens D)) ->
  (forall P, premise P -> ends_in_break (tokens P) /\ in_bounds (length P) (tokens P)) ->
  Forall para_local rules ->
  forall P D, premise P -> no_leading_newline D ->
    Permutation (lints tokens chunk_fn rules (P ++ D))
                (lints tokens chunk_fn rules P ++ map (shift_lint (length P)) (lints tokens chunk_fn rules D)).
Proof. exact main_partial. Qed.
Check C12_main_partial : forall (tokens : text -> list tok) (premise : text -> Prop) chunk_fn rules,
  (forall P D, premise P -> no_leading_newline D ->
     tokens (P ++ D) = tokens P ++ map (shift_tok (length P) (length (tokens P))) (tokens D)) ->
  (forall P, premise P -> ends_in_break (tokens P) /\ in_bounds (length P) (tokens P)) ->
  Forall para_local rules ->
  forall P D, premise P -> no_leading_newline D ->
    Permutation (lints tokens chunk_fn rules (P ++ D))
                (lints tokens chunk_fn rules P ++ map (shift_lint (length P)) (lints tokens chunk_fn rules D)).
Print Assumptions C12_main_partial.

Theorem C12_main_parts_partial : forall (tokens : text -> list tok) (premise : text -> Prop) chunk_fn rules,
  (forall P D, premise P -> no_leading_newline D ->
     tokens (P ++ D) = tokens P ++ map (shift_tok (length P) (length (tokens P))) (tokens D)) ->
  (forall P, premise P -> ends_in_break (tokens P) /\ in_bounds (length P) (tokens P)) ->
  Forall para_local rules ->
  forall P D, premise P -> no_leading_newline D ->
    Forall (fun r => r (tokens (P ++ D)) (P ++ D)
                     = r (tokens P) P ++ map (shift_lint (length P)) (r (tokens D) D)) rules /\
    pat_spec chunk_fn (iter_chunks (tokens (P ++ D))) (P ++ D)
    = pat_spec chunk_fn (iter_chunks (tokens P)) P
      ++ map (shift_lint (length P)) (pat_spec chunk_fn (iter_chunks (tokens D)) D).
Proof. exact main_parts. Qed.
Check C12_main_parts_partial : forall (tokens : text -> list tok) (premise : text -> Prop) chunk_fn rules,
  (forall P D, premise P -> no_leading_newline D ->
     tokens (P ++ D) = tokens P ++ map (shift_tok (length P) (length (tokens P))) (tokens D)) ->
  (forall P, premise P -> ends_in_break (tokens P) /\ in_bounds (length P) (tokens P)) ->
  Forall para_local rules ->
  forall P D, premise P -> no_leading_newline D ->
    Forall (fun r => r (tokens (P ++ D)) (P ++ D)
                     = r (tokens P) P ++ map (shift_lint (length P)) (r (tokens D) D)) rules /\
    pat_spec chunk_fn (iter_chunks (tokens (P ++ D))) (P ++ D)
    = pat_spec chunk_fn (iter_chunks (tokens P)) P
      ++ map (shift_lint (length P)) (pat_spec chunk_fn (iter_chunks (tokens D)) D).
Print Assumptions C12_main_parts_partial.

(* the corollary: whatever follows P, the lints of the whole are one fixed list for P plus lints that all
   lie behind P — editing the rest never changes, moves or hides a lint of P *)
Theorem C12_edit_corollary_partial : forall (tokens : text -> list tok) (premise : text -> Prop) chunk_fn rules,
  (forall P D, premise P -> no_leading_newline D ->
     tokens (P ++ D) = tokens P ++ map (shift_tok (length P) (length (tokens P))) (tokens D)) ->
  (forall P, premise P -> ends_in_break (tokens P) /\ in_bounds (length P) (tokens P)) ->
  Forall para_local rules ->
  forall P, premise P ->
    exists LP, forall D, no_leading_newline D ->
      exists R, Permutation (lints tokens chunk_fn rules (P ++ D)) (LP ++ map (shift_lint (length P)) R).
Proof. exact edit_corollary. Qed.
Check C12_edit_corollary_partial : forall (tokens : text -> list tok) (premise : text -> Prop) chunk_fn rules,
  (forall P D, premise P -> no_leading_newline D ->
     tokens (P ++ D) = tokens P ++ map (shift_tok (length P) (length (tokens P))) (tokens D)) ->
  (forall P, premise P -> ends_in_break (tokens P) /\ in_bounds (length P) (tokens P)) ->
  Forall para_local rules ->
  forall P, premise P ->
    exists LP, forall D, no_leading_newline D ->
      exists R, Permutation (lints tokens chunk_fn rules (P ++ D)) (LP ++ map (shift_lint (length P)) R).
Print Assumptions C12_edit_corollary_partial.

(* ---------- the lexer half of H_lex_split, for the lexer model of C02 (Model/Lexer.v) ---------- *)
(* no sub-lexer's answer at a position depends on anything behind the first newline that follows it: for a
   non-empty newline-free a, lex_token on a ++ "\n" ++ r is the same for every r and the token ends inside a.
   The only Unicode facts used are about the newline character itself (monitored). *)
Theorem C12_lex_token_local : forall u,
  u_whitespace u NL = true -> u_numeric u NL = false -> u_alphabetic u NL = false -> u_lingual u NL = false ->
  forall a r r' : list N, nonl a -> a <> [] ->
    lex_token u (a ++ NL :: r) = lex_token u (a ++ NL :: r') /\
    forall n k, lex_token u (a ++ NL :: r) = Some (n, k) -> n <= length a.
Proof. exact lex_token_local. Qed.
Check C12_lex_token_local : forall u,
  u_whitespace u NL = true -> u_numeric u NL = false -> u_alphabetic u NL = false -> u_lingual u NL = false ->
  forall a r r' : list N, nonl a -> a <> [] ->
    lex_token u (a ++ NL :: r) = lex_token u (a ++ NL :: r') /\
    forall n k, lex_token u (a ++ NL :: r) = Some (n, k) -> n <= length a.
Print Assumptions C12_lex_token_local.

(* PlainEnglish::parse never panics, and for P ending in a newline and D not starting with one the tokens
   of P ++ D are the tokens of P followed by the tokens of D moved by |P| (no quote premise needed here) *)
Theorem C12_lex_split : forall u,
  u_whitespace u NL = true -> u_numeric u NL = false -> u_alphabetic u NL = false -> u_lingual u NL = false ->
  forall P D : text, ends_nl P -> no_leading_nl D ->
    exists tp td,
      plain_parse u P = Ok tp /\ plain_parse u D = Ok td /\
      plain_parse u (P ++ D) = Ok (tp ++ map (shift_token (length P)) td).
Proof. exact plain_parse_split. Qed.
Check C12_lex_split : forall u,
  u_whitespace u NL = true -> u_numeric u NL = false -> u_alphabetic u NL = false -> u_lingual u NL = false ->
  forall P D : text, ends_nl P -> no_leading_nl D ->
    exists tp td,
      plain_parse u P = Ok tp /\ plain_parse u D = Ok td /\
      plain_parse u (P ++ D) = Ok (tp ++ map (shift_token (length P)) td).
Print Assumptions C12_lex_split.

(* the property for the real lexer model: what remains assumed is condense_split (the passes of
   Document::parse commute with the split of the raw tokens; monitored at document level) and the locality
   of the struct rules *)
Theorem C12_main_lexer_partial : forall u,
  u_whitespace u NL = true -> u_numeric u NL = false -> u_alphabetic u NL = false -> u_lingual u NL = false ->
  forall chunk_fn rules, condense_split u -> Forall para_local rules ->
  forall P D, c12_premise P -> no_leading_nl D ->
    Permutation (lints (doc_tokens u) chunk_fn rules (P ++ D))
                (lints (doc_tokens u) chunk_fn rules P
                 ++ map (shift_lint (length P)) (lints (doc_tokens u) chunk_fn rules D)).
Proof. exact main_lexer_partial. Qed.
Check C12_main_lexer_partial : forall u,
  u_whitespace u NL = true -> u_numeric u NL = false -> u_alphabetic u NL = false -> u_lingual u NL = false ->
  forall chunk_fn rules, condense_split u -> Forall para_local rules ->
  forall P D, c12_premise P -> no_leading_nl D ->
    Permutation (lints (doc_tokens u) chunk_fn rules (P ++ D))
                (lints (doc_tokens u) chunk_fn rules P
                 ++ map (shift_lint (length P)) (lints (doc_tokens u) chunk_fn rules D)).
Print Assumptions C12_main_lexer_partial.

(* ---------- non-vacuity ---------- *)

(* ---------- one rule body: LongSentences as repaired by 1bab09f (finding FC12a) ---------- *)
(* the rule never panics (slice, span().unwrap(), Span::new are checked operations of the model) *)
Theorem C12_long_sentences_total : forall ts, exists l, long_sentences ts = Ok l.
Proof. exact long_sentences_total. Qed.
Check C12_long_sentences_total : forall ts, exists l, long_sentences ts = Ok l.
Print Assumptions C12_long_sentences_total.

(* its lints do not depend on a whitespace token in front of the token list — the leading Newline token that
   Document(D) has and Document(P++D) lacks when D starts with a newline (there it belongs to P's break) *)
Theorem C12_long_sentences_leading_ws : forall w B,
  is_ws_kind (tkind w) = true -> long_sentences (w :: B) = long_sentences B.
Proof. exact long_sentences_leading_ws. Qed.
Check C12_long_sentences_leading_ws : forall w B,
  is_ws_kind (tkind w) = true -> long_sentences (w :: B) = long_sentences B.
Print Assumptions C12_long_sentences_leading_ws.

(* "Hi, yo. <break> So? No" : kinds W , S W . B W ? S W with spans tiling 0..17 *)
Definition ex_A : list tok :=
  [mktok (mkspan 0 2) KWord; mktok (mkspan 2 3) KComma; mktok (mkspan 3 4) KSpace; mktok (mkspan 4 6) KWord;
   mktok (mkspan 6 7) KPeriod; mktok (mkspan 7 9) KBreak].
Definition ex_B : list tok :=
  [mktok (mkspan 0 2) KWord; mktok (mkspan 2 3) KQuestion; mktok (mkspan 3 4) KSpace; mktok (mkspan 4 6) (KQuote (Some 0))].

Example C12_iter_nonvacuous :
  ends_in_break ex_A /\ ex_B <> [] /\
  map (@length tok) (iter_chunks (ex_A ++ map (shift_tok 9 6) ex_B)) = [2; 3; 1; 2; 2] /\
  map (@length tok) (iter_sentences (ex_A ++ map (shift_tok 9 6) ex_B)) = [5; 1; 2; 2] /\
  map (@length tok) (iter_paragraphs (ex_A ++ map (shift_tok 9 6) ex_B)) = [6; 4] /\
  map tkind (map (shift_tok 9 6) ex_B) = [KWord; KQuestion; KSpace; KQuote (Some 6)].
Proof.
  split; [exists (firstn 5 ex_A), (mktok (mkspan 7 9) KBreak); split; reflexivity|].
  split; [discriminate|]. repeat split; vm_compute; reflexivity.
Qed.

(* the side condition of the split is needed: without a terminator at the end of A the chunk straddles *)
Example C12_iter_split_needs_terminator :
  let A := [mktok (mkspan 0 2) KWord] in let B := [mktok (mkspan 2 4) KWord] in
  iter_chunks (A ++ B) = [A ++ B] /\ iter_chunks A ++ iter_chunks B = [A; B].
Proof. split; vm_compute; reflexivity. Qed.

(* the hypotheses of C12_main_partial are satisfiable together: a character-level lexer (newline = break),
   a sentence-schema rule and a window rule, a chunk function reporting every word *)
Example C12_main_hyps_satisfiable :
  let rules := [schema_rule is_sentence_terminator sentence_g0; window_rule 2 word_chunk_fn] in
  (forall P D, toy_premise P -> no_leading_newline D ->
     toy_tokens (P ++ D) = toy_tokens P ++ map (shift_tok (length P) (length (toy_tokens P))) (toy_tokens D)) /\
  (forall P, toy_premise P -> ends_in_break (toy_tokens P) /\ in_bounds (length P) (toy_tokens P)) /\
  Forall para_local rules /\
  toy_premise [72; 105; 46; 10]%N /\
  map (fun l => (lstart l, lend l, lid l)) (lints toy_tokens word_chunk_fn rules ([72; 105; 46; 10] ++ [79; 107; 44; 32; 97])%N)
  = [(0, 3, 3); (3, 4, 1); (4, 9, 5); (0, 1, 1); (1, 2, 1); (1, 2, 1); (4, 5, 1); (5, 6, 1); (5, 6, 1); (8, 9, 1);
     (0, 1, 1); (1, 2, 1); (4, 5, 1); (5, 6, 1); (8, 9, 1)].
Proof.
  cbv zeta. split; [intros P D _ _; apply toy_split|]. split; [exact toy_P_tokens|].
  split; [repeat constructor; [apply schema_local|apply window_local; lia]|].
  split; [exists [72; 105]%N; reflexivity|vm_compute; reflexivity].
Qed.

(* an ASCII-only instance of the Unicode record: the four facts about the newline hold, and on
   P = <It's $5. e.g.> + blank line, D = <x@y.z 7th> + a quoted q, the lexer and the passes of Document::parse
   split as stated *)
Definition ascii_uni : uni :=
  mkuni (fun c => mem_n c [9; 10; 11; 12; 13; 32]%N) is_ascii_digit is_ascii_alphabetic is_ascii_alphabetic.
Definition ex_P : text := [73; 116; 39; 115; 32; 36; 53; 46; 32; 101; 46; 103; 46; 10; 10]%N.
Definition ex_D : text := [120; 64; 121; 46; 122; 32; 55; 116; 104; 32; 34; 113; 34]%N.

Example C12_lex_split_nonvacuous :
  u_whitespace ascii_uni NL = true /\ u_numeric ascii_uni NL = false /\
  u_alphabetic ascii_uni NL = false /\ u_lingual ascii_uni NL = false /\
  ends_nl ex_P /\ no_leading_nl ex_D /\ c12_premise ex_P /\
  (exists tp td A B,
     plain_parse ascii_uni ex_P = Ok tp /\ plain_parse ascii_uni ex_D = Ok td /\
     length tp = 13 /\ length td = 8 /\
     plain_parse ascii_uni (ex_P ++ ex_D) = Ok (tp ++ map (shift_token (length ex_P)) td) /\
     document_passes ex_P tp = Ok A /\ document_passes ex_D td = Ok B /\ length A = 8 /\ length B = 7 /\
     document_passes (ex_P ++ ex_D) (tp ++ map (shift_token (length ex_P)) td)
       = Ok (A ++ map (shift_token2 (length ex_P) (length A)) B) /\
     ends_in_break (map to_ps A) /\ in_bounds (length ex_P) (map to_ps A)).
Proof.
  repeat (split; [reflexivity|]).
  split; [right; exists (firstn 14 ex_P); reflexivity|].
  split; [cbn; discriminate|].
  split; [split; [repeat constructor|exists (firstn 12 ex_P), 46%N; split; [reflexivity|now left]]|].
  eexists. eexists. eexists. eexists.
  split; [vm_compute; reflexivity|]. split; [vm_compute; reflexivity|].
  split; [reflexivity|]. split; [reflexivity|].
  split; [vm_compute; reflexivity|].
  split; [vm_compute; reflexivity|]. split; [vm_compute; reflexivity|].
  split; [reflexivity|]. split; [reflexivity|].
  split; [vm_compute; reflexivity|].
  split.
  - match goal with |- ends_in_break ?l =>
      let l' := eval vm_compute in l in
      exists (removelast l'), (last l' (ParaSplit.mktok (mkspan 0 0) KOther)) end.
    split; vm_compute; reflexivity.
  - vm_compute. repeat constructor.
Qed.

(* the quote-free premise is needed (quote pairing is positional over the whole document): with one double
   quote in P (a quote, the letter a, a period, a blank line) the two quotes of D (quote b quote) pair up
   differently behind P than alone, and the quote of P gets a twin *)
Example C12_quote_premise_needed :
  let P := [34; 97; 46; 10; 10]%N in let D := [34; 98; 34]%N in
  ~ quote_free P /\
  map ParaSplit.tkind (doc_tokens ascii_uni P) = [KQuote None; ParaSplit.KWord; KPeriod; KBreak] /\
  map ParaSplit.tkind (doc_tokens ascii_uni D) = [KQuote (Some 2); ParaSplit.KWord; KQuote (Some 0)] /\
  map ParaSplit.tkind (doc_tokens ascii_uni (P ++ D))
  = [KQuote (Some 4); ParaSplit.KWord; KPeriod; KBreak; KQuote (Some 0); ParaSplit.KWord; KQuote None].
Proof.
  cbv zeta. split; [intros H; inversion H; discriminate|]. repeat split; vm_compute; reflexivity.
Qed.

(* HISTORY (FC12a, repaired by 1bab09f): the old LongSentences reported the hull of the whole sentence, so a
   leading Newline token moved the start of the lint (41 one-character words behind a newline token); the
   repaired rule answers 1..42 with and without it — also the non-vacuity example of the two theorems above *)
Example C12_long_sentences_old_refuted :
  long_sentence_old (nl_tok :: words41 1) = Ok [mkspan 0 42] /\
  long_sentence_old (words41 1) = Ok [mkspan 1 42] /\
  long_sentence (nl_tok :: words41 1) = Ok [mkspan 1 42] /\
  long_sentence (words41 1) = Ok [mkspan 1 42].
Proof. exact long_sentence_old_depends_on_leading_ws. Qed.
