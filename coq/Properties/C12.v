(* C12 — checking two paragraphs together equals checking them separately.
   This file pins the statements; it contains nothing but `exact`.
   What is a theorem here: the framework every rule runs in (iterators, hull, LintGroup::lint with its chunk
   cache, the rule schemas) is paragraph-local for EVERY chunk function / schema body; and the property
   itself, conditional on two hypotheses that the harness monitors on the real code in every run:
   H_lex_split (the tokens of P++D are the tokens of P followed by the shifted tokens of D) and
   H_rules_local (every enabled struct rule is paragraph-local).  Hence `_partial`.
   Phase 3: H_lex_split is a THEOREM for the lexer + condense model (C12_doc_tokens_split): every pass of
   Document::parse is proved to act independently on the two sides of the cut (C12_condense_*_split,
   C12_condense_split); what remains assumed of the model is H_rules_local alone. *)
Require Import Base Overlap Tables_lexer Lexer Condense TokenInv CondenseInv ParaSplit ParaSplitProofs C12Doc LexSplitProofs LongSentencesSeam
  C12CondSpaces C12CondSuffix C12CondPattern C12CondPatterns3 C12CondInit C12CondQuotes C12LexEnds C12CondSplit
  Tables_c12rules C12RuleShapes C12Merge C12MergeProofs C12Windows C12WindowsProofs C12Main
  C12Comma C12CommaProofs C12CommaMain C12CommaTotal C13Callers C12Currency C12CurrencyProofs.
From Coq Require Import Sorting.Permutation.
Import Coq.Strings.String.StringSyntax. (* string literals only *)
Delimit Scope string_scope with string.

(* the index arithmetic of iter_chunks / iter_sentences / iter_paragraphs never slices out of range and
   computes "cut after every terminator" (one empty slice for the empty token list) *)
Theorem C12_iter_spec : forall p ts,
  iter_by_chk p ts = Ok (iter_by p ts) /\
  iter_by p ts = match ts with [] => [[]] | _ => split_after p ts end /\
  concat (iter_by p ts) = ts.
Proof. exact (fun p ts => conj (iter_by_chk_ok p ts) (conj (iter_by_spec p ts) (concat_iter_by p ts))). Qed.
Check C12_iter_spec : forall p ts,
  iter_by_chk p ts = Ok (iter_by p ts) /\
  iter_by p ts = match ts with [] => [[]] | _ => split_after p ts end /\
  concat (iter_by p ts) = ts.
Print Assumptions C12_iter_spec.

(* each iterator splits exactly where the first part ends in ITS OWN terminator (chunks: . ! ? , : quote
   or break; sentences: . ! ? or break; paragraphs: break) and the rest is non-empty *)
Theorem C12_iter_split_general : forall p A B,
  ends_in p A -> B <> [] -> iter_by p (A ++ B) = iter_by p A ++ iter_by p B.
Proof. exact iter_by_app. Qed.
Check C12_iter_split_general : forall p A B,
  ends_in p A -> B <> [] -> iter_by p (A ++ B) = iter_by p A ++ iter_by p B.
Print Assumptions C12_iter_split_general.

(* a ParagraphBreak terminates all three; the second part may sit anywhere (shifted spans and twins) *)
Theorem C12_iter_split : forall A B n k,
  ends_in_break A -> B <> [] ->
  iter_chunks (A ++ map (shift_tok n k) B) = iter_chunks A ++ map (map (shift_tok n k)) (iter_chunks B) /\
  iter_sentences (A ++ map (shift_tok n k) B) = iter_sentences A ++ map (map (shift_tok n k)) (iter_sentences B) /\
  iter_paragraphs (A ++ map (shift_tok n k) B) = iter_paragraphs A ++ map (map (shift_tok n k)) (iter_paragraphs B).
Proof. exact iter_split. Qed.
Check C12_iter_split : forall A B n k,
  ends_in_break A -> B <> [] ->
  iter_chunks (A ++ map (shift_tok n k) B) = iter_chunks A ++ map (map (shift_tok n k)) (iter_chunks B) /\
  iter_sentences (A ++ map (shift_tok n k) B) = iter_sentences A ++ map (map (shift_tok n k)) (iter_sentences B) /\
  iter_paragraphs (A ++ map (shift_tok n k) B) = iter_paragraphs A ++ map (map (shift_tok n k)) (iter_paragraphs B).
Print Assumptions C12_iter_split.

(* the pattern-rule half of LintGroup::lint is paragraph-local for ANY chunk function *)
Theorem C12_pattern_rules_local : forall chunk_fn A B P D,
  ends_in_break A -> in_bounds (length P) A ->
  pat_spec chunk_fn (iter_chunks (A ++ map (shift_tok (length P) (length A)) B)) (P ++ D)
  = pat_spec chunk_fn (iter_chunks A) P ++ map (shift_lint (length P)) (pat_spec chunk_fn (iter_chunks B) D).
Proof. exact pattern_rules_local. Qed.
Check C12_pattern_rules_local : forall chunk_fn A B P D,
  ends_in_break A -> in_bounds (length P) A ->
  pat_spec chunk_fn (iter_chunks (A ++ map (shift_tok (length P) (length A)) B)) (P ++ D)
  = pat_spec chunk_fn (iter_chunks A) P ++ map (shift_lint (length P)) (pat_spec chunk_fn (iter_chunks B) D).
Print Assumptions C12_pattern_rules_local.

(* ... and the loop as written — checked hull, checked get_content, pull_by/push_by, the chunk cache —
   computes that cache-free reading from every coherent cache (in particular the empty one) and leaves a
   coherent cache behind.  U = the chunk views that occur; U_key = their characters determine what the
   rules report (the cache key is the characters alone). *)
Theorem C12_cache_transparent : forall chunk_fn (U : list tok -> text -> Prop),
  (forall v1 v2 k, U v1 k -> U v2 k -> chunk_fn v1 k = chunk_fn v2 k) ->
  forall rules cch ts src,
    coherent chunk_fn U cch -> in_bounds (length src) ts -> views_in_U U (iter_chunks ts) src ->
    exists cch', lint_group_chk chunk_fn rules cch ts src = Ok (lint_group chunk_fn rules ts src, cch')
                 /\ coherent chunk_fn U cch'.
Proof. exact lint_group_chk_ok. Qed.
Check C12_cache_transparent : forall chunk_fn (U : list tok -> text -> Prop),
  (forall v1 v2 k, U v1 k -> U v2 k -> chunk_fn v1 k = chunk_fn v2 k) ->
  forall rules cch ts src,
    coherent chunk_fn U cch -> in_bounds (length src) ts -> views_in_U U (iter_chunks ts) src ->
    exists cch', lint_group_chk chunk_fn rules cch ts src = Ok (lint_group chunk_fn rules ts src, cch')
                 /\ coherent chunk_fn U cch'.
Print Assumptions C12_cache_transparent.

(* struct-rule schemas: `for x in doc.iter_X() { extend(f(x)) }` with f reading only x's own data (spans
   relative to x, x's characters) is paragraph-local, X = chunks / sentences / paragraphs; so is a rule
   over adjacent-token windows that reports nothing for a window containing a ParagraphBreak *)
Theorem C12_schema_local : forall g0,
  para_local (schema_rule is_chunk_terminator g0) /\
  para_local (schema_rule is_sentence_terminator g0) /\
  para_local (schema_rule is_paragraph_break g0).
Proof. exact schema_local. Qed.
Check C12_schema_local : forall g0,
  para_local (schema_rule is_chunk_terminator g0) /\
  para_local (schema_rule is_sentence_terminator g0) /\
  para_local (schema_rule is_paragraph_break g0).
Print Assumptions C12_schema_local.

Theorem C12_schema_local_windows : forall w g0, 1 <= w -> para_local (window_rule w g0).
Proof. exact window_local. Qed.
Check C12_schema_local_windows : forall w g0, 1 <= w -> para_local (window_rule w g0).
Print Assumptions C12_schema_local_windows.

(* the property, conditional on the monitored hypotheses; D not starting with a newline (the lexer takes a
   maximal newline run, so leading newlines of D belong to the break that closes P — for such D the relation
   is evaluated on the implementation only).  Per rule and for the pattern half the lists are EQUAL; the
   whole is a permutation because LintGroup::lint emits rule by rule. *)
Theorem C12_main_partial : forall (tokens : text -> list tok) (premise : text -> Prop) chunk_fn rules,
  (forall P D, premise P -> no_leading_newline D ->
     tokens (P ++ D) = tokens P ++ map (shift_tok (length P) (length (tokens P))) (tokens D)) ->
  (forall P, premise P -> ends_in_break (tokens P) /\ in_bounds (length P) (tokens P)) ->
  Forall para_local rules ->
  forall P D, premise P -> no_leading_newline D ->
    Permutation (lints tokens chunk_fn rules (P ++ D))
                (lints tokens chunk_fn rules P ++ map (shift_lint (length P)) (lints tokens chunk_fn rules D)).
Proof. exact main_partial. Qed.
Check C12_main_partial : forall (tokens : text -> list tok) (premise : text -> Prop) chunk_fn rules,
  (forall P D, premise P -> no_leading_newline D ->
     tokens (P ++ D) = tokens P ++ map (shift_tok (length P) (length (tokens P))) (tokens D)) ->
  (forall P, premise P -> ends_in_break (tokens P) /\ in_bounds (length P) (tokens P)) ->
  Forall para_local rules ->
  forall P D, premise P -> no_leading_newline D ->
    Permutation (lints tokens chunk_fn rules (P ++ D))
                (lints tokens chunk_fn rules P ++ map (shift_lint (length P)) (lints tokens chunk_fn rules D)).
Print Assumptions C12_main_partial.

Theorem C12_main_parts_partial : forall (tokens : text -> list tok) (premise : text -> Prop) chunk_fn rules,
  (forall P D, premise P -> no_leading_newline D ->
     tokens (P ++ D) = tokens P ++ map (shift_tok (length P) (length (tokens P))) (tokens D)) ->
  (forall P, premise P -> ends_in_break (tokens P) /\ in_bounds (length P) (tokens P)) ->
  Forall para_local rules ->
  forall P D, premise P -> no_leading_newline D ->
    Forall (fun r => r (tokens (P ++ D)) (P ++ D)
                     = r (tokens P) P ++ map (shift_lint (length P)) (r (tokens D) D)) rules /\
    pat_spec chunk_fn (iter_chunks (tokens (P ++ D))) (P ++ D)
    = pat_spec chunk_fn (iter_chunks (tokens P)) P
      ++ map (shift_lint (length P)) (pat_spec chunk_fn (iter_chunks (tokens D)) D).
Proof. exact main_parts. Qed.
Check C12_main_parts_partial : forall (tokens : text -> list tok) (premise : text -> Prop) chunk_fn rules,
  (forall P D, premise P -> no_leading_newline D ->
     tokens (P ++ D) = tokens P ++ map (shift_tok (length P) (length (tokens P))) (tokens D)) ->
  (forall P, premise P -> ends_in_break (tokens P) /\ in_bounds (length P) (tokens P)) ->
  Forall para_local rules ->
  forall P D, premise P -> no_leading_newline D ->
    Forall (fun r => r (tokens (P ++ D)) (P ++ D)
                     = r (tokens P) P ++ map (shift_lint (length P)) (r (tokens D) D)) rules /\
    pat_spec chunk_fn (iter_chunks (tokens (P ++ D))) (P ++ D)
    = pat_spec chunk_fn (iter_chunks (tokens P)) P
      ++ map (shift_lint (length P)) (pat_spec chunk_fn (iter_chunks (tokens D)) D).
Print Assumptions C12_main_parts_partial.

(* the corollary: whatever follows P, the lints of the whole are one fixed list for P plus lints that all
   lie behind P — editing the rest never changes, moves or hides a lint of P *)
Theorem C12_edit_corollary_partial : forall (tokens : text -> list tok) (premise : text -> Prop) chunk_fn rules,
  (forall P D, premise P -> no_leading_newline D ->
     tokens (P ++ D) = tokens P ++ map (shift_tok (length P) (length (tokens P))) (tokens D)) ->
  (forall P, premise P -> ends_in_break (tokens P) /\ in_bounds (length P) (tokens P)) ->
  Forall para_local rules ->
  forall P, premise P ->
    exists LP, forall D, no_leading_newline D ->
      exists R, Permutation (lints tokens chunk_fn rules (P ++ D)) (LP ++ map (shift_lint (length P)) R).
Proof. exact edit_corollary. Qed.
Check C12_edit_corollary_partial : forall (tokens : text -> list tok) (premise : text -> Prop) chunk_fn rules,
  (forall P D, premise P -> no_leading_newline D ->
     tokens (P ++ D) = tokens P ++ map (shift_tok (length P) (length (tokens P))) (tokens D)) ->
  (forall P, premise P -> ends_in_break (tokens P) /\ in_bounds (length P) (tokens P)) ->
  Forall para_local rules ->
  forall P, premise P ->
    exists LP, forall D, no_leading_newline D ->
      exists R, Permutation (lints tokens chunk_fn rules (P ++ D)) (LP ++ map (shift_lint (length P)) R).
Print Assumptions C12_edit_corollary_partial.

(* ---------- the lexer half of H_lex_split, for the lexer model of C02 (Model/Lexer.v) ---------- *)
(* no sub-lexer's answer at a position depends on anything behind the first newline that follows it: for a
   non-empty newline-free a, lex_token on a ++ "\n" ++ r is the same for every r and the token ends inside a.
   The only Unicode facts used are about the newline character itself (monitored). *)
Theorem C12_lex_token_local : forall u,
  u_whitespace u NL = true -> u_numeric u NL = false -> u_alphabetic u NL = false -> u_lingual u NL = false ->
  forall a r r' : list N, nonl a -> a <> [] ->
    lex_token u (a ++ NL :: r) = lex_token u (a ++ NL :: r') /\
    forall n k, lex_token u (a ++ NL :: r) = Some (n, k) -> n <= length a.
Proof. exact lex_token_local. Qed.
Check C12_lex_token_local : forall u,
  u_whitespace u NL = true -> u_numeric u NL = false -> u_alphabetic u NL = false -> u_lingual u NL = false ->
  forall a r r' : list N, nonl a -> a <> [] ->
    lex_token u (a ++ NL :: r) = lex_token u (a ++ NL :: r') /\
    forall n k, lex_token u (a ++ NL :: r) = Some (n, k) -> n <= length a.
Print Assumptions C12_lex_token_local.

(* PlainEnglish::parse never panics, and for P ending in a newline and D not starting with one the tokens
   of P ++ D are the tokens of P followed by the tokens of D moved by |P| (no quote premise needed here) *)
Theorem C12_lex_split : forall u,
  u_whitespace u NL = true -> u_numeric u NL = false -> u_alphabetic u NL = false -> u_lingual u NL = false ->
  forall P D : text, ends_nl P -> no_leading_nl D ->
    exists tp td,
      plain_parse u P = Ok tp /\ plain_parse u D = Ok td /\
      plain_parse u (P ++ D) = Ok (tp ++ map (shift_token (length P)) td).
Proof. exact plain_parse_split. Qed.
Check C12_lex_split : forall u,
  u_whitespace u NL = true -> u_numeric u NL = false -> u_alphabetic u NL = false -> u_lingual u NL = false ->
  forall P D : text, ends_nl P -> no_leading_nl D ->
    exists tp td,
      plain_parse u P = Ok tp /\ plain_parse u D = Ok td /\
      plain_parse u (P ++ D) = Ok (tp ++ map (shift_token (length P)) td).
Print Assumptions C12_lex_split.

(* ---------- the passes of Document::parse, one by one (phase 3) ---------- *)
(* on every tiling the three cursor / state-machine passes compute structurally recursive functions of the
   token list (C02 proved the RELATION Grouped; these are equations, hence deterministic and splittable) *)
Theorem C12_passes_functional : forall a b ts, Tiling a b ts ->
  condense_spaces ts = Ok (sp_spec ts) /\ condense_newlines ts = Ok (nl_spec ts) /\
  condense_dotted_initialisms ts = Ok (di_go None ts).
Proof. exact (fun a b ts H => conj (condense_spaces_fun a b ts H) (conj (condense_newlines_fun a b ts H) (condense_dotted_initialisms_fun a b ts H))). Qed.
Check C12_passes_functional : forall a b ts, Tiling a b ts ->
  condense_spaces ts = Ok (sp_spec ts) /\ condense_newlines ts = Ok (nl_spec ts) /\
  condense_dotted_initialisms ts = Ok (di_go None ts).
Print Assumptions C12_passes_functional.

Theorem C12_suffix_functional : forall src ts, Tiling 0 (length src) ts ->
  condense_number_suffixes src ts = Ok (sfx_spec src ts).
Proof. exact condense_number_suffixes_fun. Qed.
Check C12_suffix_functional : forall src ts, Tiling 0 (length src) ts ->
  condense_number_suffixes src ts = Ok (sfx_spec src ts).
Print Assumptions C12_suffix_functional.

(* condense_spaces splits behind A when NEITHER OF THE LAST TWO tokens of A is a Space (sp_closed): after a
   merge the cursor is incremented twice, so the two tokens behind a merged child are passed over unread —
   a Space,Space pair among the last three tokens of A swallows the first token(s) of B
   (C12_condense_spaces_needs_closed).  P ending in terminator + newline run gives sp_closed (C12_raw_ends). *)
Theorem C12_condense_spaces_split : forall A B k,
  sp_closed A -> sp_spec (A ++ map (shift_tk k) B) = sp_spec A ++ map (shift_tk k) (sp_spec B).
Proof. exact (fun A B k H => eq_trans (sp_spec_split A _ H) (f_equal (app (sp_spec A)) (sp_spec_moves k B))). Qed.
Check C12_condense_spaces_split : forall A B k,
  sp_closed A -> sp_spec (A ++ map (shift_tk k) B) = sp_spec A ++ map (shift_tk k) (sp_spec B).
Print Assumptions C12_condense_spaces_split.

(* condense_newlines: no condition on A; B must not start with a Newline token *)
Theorem C12_condense_newlines_split : forall A B k,
  head_not_newline B -> nl_spec (A ++ map (shift_tk k) B) = nl_spec A ++ map (shift_tk k) (nl_spec B).
Proof. exact (fun A B k H => eq_trans (nl_spec_app A _ (head_nn_shift k B H)) (f_equal (app (nl_spec A)) (nl_spec_shift k B))). Qed.
Check C12_condense_newlines_split : forall A B k,
  head_not_newline B -> nl_spec (A ++ map (shift_tk k) B) = nl_spec A ++ map (shift_tk k) (nl_spec B).
Print Assumptions C12_condense_newlines_split.

(* condense_number_suffixes over the glued TEXT: the last token of A is not a Number, A lies inside P *)
Theorem C12_condense_number_suffixes_split : forall (P D : text) A B,
  sfx_closed A -> Forall (fun t => tend t <= length P) A ->
  sfx_spec (P ++ D) (A ++ map (shift_tk (length P)) B) = sfx_spec P A ++ map (shift_tk (length P)) (sfx_spec D B).
Proof. exact sfx_spec_glue. Qed.
Check C12_condense_number_suffixes_split : forall (P D : text) A B,
  sfx_closed A -> Forall (fun t => tend t <= length P) A ->
  sfx_spec (P ++ D) (A ++ map (shift_tk (length P)) B) = sfx_spec P A ++ map (shift_tk (length P)) (sfx_spec D B).
Print Assumptions C12_condense_number_suffixes_split.

(* condense_pattern for ANY matcher: no match starting in A looks into B, the matcher does not notice the move *)
Theorem C12_condense_pattern_split : forall (m mA mB : list token -> res nat) edit k A B,
  (forall p s, A = p ++ s -> s <> [] -> m (s ++ map (shift_tk k) B) = mA s) ->
  (forall s, m (map (shift_tk k) s) = mB s) ->
  matcher_ok mA A -> monotone_ends mA A ->
  forall A' B', condense_pattern mA edit A = Ok A' -> condense_pattern mB edit B = Ok B' ->
    condense_pattern m edit (A ++ map (shift_tk k) B) = Ok (A' ++ map (shift_tk k) B').
Proof. exact condense_pattern_split. Qed.
Check C12_condense_pattern_split : forall (m mA mB : list token -> res nat) edit k A B,
  (forall p s, A = p ++ s -> s <> [] -> m (s ++ map (shift_tk k) B) = mA s) ->
  (forall s, m (map (shift_tk k) s) = mB s) ->
  matcher_ok mA A -> monotone_ends mA A ->
  forall A' B', condense_pattern mA edit A = Ok A' -> condense_pattern mB edit B = Ok B' ->
    condense_pattern m edit (A ++ map (shift_tk k) B) = Ok (A' ++ map (shift_tk k) B').
Print Assumptions C12_condense_pattern_split.

(* its first premise for the three fixed matchers: A ends in a ParagraphBreak *)
Theorem C12_patterns_local : forall (P D : text) A B', ends_break A ->
  (forall p s, A = p ++ s -> s <> [] -> contraction_matches (P ++ D) (s ++ B') = contraction_matches P s) /\
  (forall p s, A = p ++ s -> s <> [] -> ellipsis_matches (P ++ D) (s ++ B') = ellipsis_matches P s) /\
  (Tiling 0 (length P) A -> Forall (CondPatterns3.tok_ok (P ++ D)) B' ->
   forall p s, A = p ++ s -> s <> [] -> latin_matches (P ++ D) (s ++ B') = latin_matches P s).
Proof. exact patterns_local. Qed.
Check C12_patterns_local : forall (P D : text) A B', ends_break A ->
  (forall p s, A = p ++ s -> s <> [] -> contraction_matches (P ++ D) (s ++ B') = contraction_matches P s) /\
  (forall p s, A = p ++ s -> s <> [] -> ellipsis_matches (P ++ D) (s ++ B') = ellipsis_matches P s) /\
  (Tiling 0 (length P) A -> Forall (CondPatterns3.tok_ok (P ++ D)) B' ->
   forall p s, A = p ++ s -> s <> [] -> latin_matches (P ++ D) (s ++ B') = latin_matches P s).
Print Assumptions C12_patterns_local.

(* condense_dotted_initialisms: A ends in a ParagraphBreak *)
Theorem C12_condense_initialisms_split : forall A B k, ends_break A ->
  di_go None (A ++ map (shift_tk k) B) = di_go None A ++ map (shift_tk k) (di_go None B).
Proof. exact (fun A B k H => eq_trans (di_spec_split A _ H) (f_equal (app (di_go None A)) (di_spec_moves k B))). Qed.
Check C12_condense_initialisms_split : forall A B k, ends_break A ->
  di_go None (A ++ map (shift_tk k) B) = di_go None A ++ map (shift_tk k) (di_go None B).
Print Assumptions C12_condense_initialisms_split.

(* match_quotes: no Quote token in A (the premise of the property), no twin yet in B *)
Theorem C12_match_quotes_split : forall k A B B2,
  quote_free_toks A -> NoTwins B -> match_quotes B = Ok B2 ->
  match_quotes (A ++ map (shift_tk k) B) = Ok (A ++ map (shift_tk2 k (length A)) B2).
Proof. exact match_quotes_split. Qed.
Check C12_match_quotes_split : forall k A B B2,
  quote_free_toks A -> NoTwins B -> match_quotes B = Ok B2 ->
  match_quotes (A ++ map (shift_tk k) B) = Ok (A ++ map (shift_tk2 k (length A)) B2).
Print Assumptions C12_match_quotes_split.

(* the lexer side of the premises: the raw tokens of P = P0 ++ [terminator; newline; newline] end with a token
   that is not a Space followed by ONE Newline(m), m >= 2 *)
Theorem C12_raw_ends : forall u,
  u_whitespace u NL = true -> u_numeric u NL = false -> u_alphabetic u NL = false -> u_lingual u NL = false ->
  forall P tp, c12_premise P -> plain_parse u P = Ok tp ->
    exists tp0 x nl m, tp = tp0 ++ [x; nl] /\ is_space_kind (tkind_of x) = false /\
                       tkind_of nl = Lexer.KNewline m /\ 2 <= m.
Proof. exact raw_ends. Qed.
Check C12_raw_ends : forall u,
  u_whitespace u NL = true -> u_numeric u NL = false -> u_alphabetic u NL = false -> u_lingual u NL = false ->
  forall P tp, c12_premise P -> plain_parse u P = Ok tp ->
    exists tp0 x nl m, tp = tp0 ++ [x; nl] /\ is_space_kind (tkind_of x) = false /\
                       tkind_of nl = Lexer.KNewline m /\ 2 <= m.
Print Assumptions C12_raw_ends.

(* all nine passes together: condense_split, formerly a hypothesis, holds *)
Theorem C12_condense_split : forall u,
  u_whitespace u NL = true -> u_numeric u NL = false -> u_alphabetic u NL = false -> u_lingual u NL = false ->
  condense_split u.
Proof. exact condense_split_holds. Qed.
Check C12_condense_split : forall u,
  u_whitespace u NL = true -> u_numeric u NL = false -> u_alphabetic u NL = false -> u_lingual u NL = false ->
  condense_split u.
Print Assumptions C12_condense_split.

(* H_lex_split for Document::new_plain_english (lexer + passes): a theorem *)
Theorem C12_doc_tokens_split : forall u,
  u_whitespace u NL = true -> u_numeric u NL = false -> u_alphabetic u NL = false -> u_lingual u NL = false ->
  forall P D, c12_premise P -> no_leading_nl D ->
    doc_tokens u (P ++ D)
    = doc_tokens u P ++ map (shift_tok (length P) (length (doc_tokens u P))) (doc_tokens u D) /\
    ends_in_break (doc_tokens u P) /\ in_bounds (length P) (doc_tokens u P).
Proof. exact doc_tokens_split_holds. Qed.
Check C12_doc_tokens_split : forall u,
  u_whitespace u NL = true -> u_numeric u NL = false -> u_alphabetic u NL = false -> u_lingual u NL = false ->
  forall P D, c12_premise P -> no_leading_nl D ->
    doc_tokens u (P ++ D)
    = doc_tokens u P ++ map (shift_tok (length P) (length (doc_tokens u P))) (doc_tokens u D) /\
    ends_in_break (doc_tokens u P) /\ in_bounds (length P) (doc_tokens u P).
Print Assumptions C12_doc_tokens_split.

(* the property for the real lexer + condense model: what remains assumed is the locality of the struct
   rules alone (condense_split is discharged) *)
Theorem C12_main_lexer_partial : forall u,
  u_whitespace u NL = true -> u_numeric u NL = false -> u_alphabetic u NL = false -> u_lingual u NL = false ->
  forall chunk_fn rules, Forall para_local rules ->
  forall P D, c12_premise P -> no_leading_nl D ->
    Permutation (lints (doc_tokens u) chunk_fn rules (P ++ D))
                (lints (doc_tokens u) chunk_fn rules P
                 ++ map (shift_lint (length P)) (lints (doc_tokens u) chunk_fn rules D)).
Proof. exact main_lexer_rules. Qed.
Check C12_main_lexer_partial : forall u,
  u_whitespace u NL = true -> u_numeric u NL = false -> u_alphabetic u NL = false -> u_lingual u NL = false ->
  forall chunk_fn rules, Forall para_local rules ->
  forall P D, c12_premise P -> no_leading_nl D ->
    Permutation (lints (doc_tokens u) chunk_fn rules (P ++ D))
                (lints (doc_tokens u) chunk_fn rules P
                 ++ map (shift_lint (length P)) (lints (doc_tokens u) chunk_fn rules D)).
Print Assumptions C12_main_lexer_partial.

(* ---------- the struct rules by the shape of their bodies (generated table, phase 3) ---------- *)
(* a rule that is an instance of the schema its shape names is paragraph-local *)
Theorem C12_shape_local : forall s mk g0, shape_schema s = Some mk -> para_local (mk g0).
Proof. exact shape_local. Qed.
Check C12_shape_local : forall s mk g0, shape_schema s = Some mk -> para_local (mk g0).
Print Assumptions C12_shape_local.

(* of the struct rules of LintGroup::new_curated (table regenerated from linting/*.rs on every run) exactly the ten
   named in unclassified_expected have a body whose shape denotes no proved schema (index neighbourhoods,
   tuple windows, a loop over all tokens, merge_linters!, a document-wide remove_overlaps); a PatternLinter
   registered as a struct rule runs the blanket impl, whose shape is IterChunks *)
Theorem C12_struct_rules_classified :
  unclassified_rules = unclassified_expected /\
  resolve ViaPatternLinter = IterChunks /\
  60 <= length (filter classified struct_rules) /\
  length struct_rules = length (filter classified struct_rules) + length unclassified_expected.
Proof. exact struct_rules_classified. Qed.
Check C12_struct_rules_classified :
  unclassified_rules = unclassified_expected /\
  resolve ViaPatternLinter = IterChunks /\
  60 <= length (filter classified struct_rules) /\
  length struct_rules = length (filter classified struct_rules) + length unclassified_expected.
Print Assumptions C12_struct_rules_classified.

Theorem C12_classified_rules_local :
  Forall (fun r => classified r = true ->
                   exists mk, shape_schema (resolve (row_shape r)) = Some mk /\ forall g0, para_local (mk g0))
         struct_rules.
Proof. exact classified_rules_local. Qed.
Check C12_classified_rules_local :
  Forall (fun r => classified r = true ->
                   exists mk, shape_schema (resolve (row_shape r)) = Some mk /\ forall g0, para_local (mk g0))
         struct_rules.
Print Assumptions C12_classified_rules_local.


(* ---------- phase 4: the document-wide remove_overlaps shapes, and the final theorem ---------- *)
(* merge_linters! = remove_overlaps over the union of the sub-rules' lints: paragraph-local when every sub-rule is, and
   every lint a sub-rule reports for the first part starts before |P| and ends at or before |P| (rule_inside; the
   strictness is needed: C12_remove_overlaps_needs_strict) *)
Theorem C12_merge_local : forall subs,
  Forall para_local subs -> Forall rule_inside subs -> para_local (merge_rule subs).
Proof. exact merge_local. Qed.
Check C12_merge_local : forall subs,
  Forall para_local subs -> Forall rule_inside subs -> para_local (merge_rule subs).
Print Assumptions C12_merge_local.

(* CurrencyPlacement's shape: one rule followed by remove_overlaps over the document's lints *)
Theorem C12_then_remove_overlaps_local : forall r,
  para_local r -> rule_inside r -> para_local (then_remove_overlaps r).
Proof. exact then_remove_overlaps_local. Qed.
Check C12_then_remove_overlaps_local : forall r,
  para_local r -> rule_inside r -> para_local (then_remove_overlaps r).
Print Assumptions C12_then_remove_overlaps_local.

(* an iterator-schema instance reports inside the first part when its per-slice body reports inside the slice *)
Theorem C12_schema_inside : forall p g0, g0_inside g0 -> rule_inside (schema_rule p g0).
Proof. exact schema_inside. Qed.
Check C12_schema_inside : forall p g0, g0_inside g0 -> rule_inside (schema_rule p g0).
Print Assumptions C12_schema_inside.

(* ---------- phase 5: UnclosedQuotes (exact body) and the kind-guarded token windows ---------- *)
(* UnclosedQuotes as written (one lint, the token's own span, for every Quote token whose twin_loc is None) splits at
   ANY cut of the token list, for any move of the second part (spans + n, twins + k) and whatever the sources are: the
   rule reads of a quote only WHETHER it has a twin.  So the rule needs no premise; the no-quote premise of the property
   is consumed by match_quotes alone (C12_match_quotes_split: P's side has no Quote token, hence the twins of D's
   tokens in Document(P ++ D) are D's own twins + |tokens(P)|, set exactly where they are set in Document(D));
   C12_unclosed_quotes_needs_premise shows what happens to this very rule without it. *)
Theorem C12_unclosed_quotes_local :
  para_local unclosed_quotes /\
  (forall A B n k s1 s2 s3,
     unclosed_quotes (A ++ map (shift_tok n k) B) s1 = unclosed_quotes A s2 ++ map (shift_lint n) (unclosed_quotes B s3)) /\
  (forall ts src l, In l (unclosed_quotes ts src) <->
                    exists t, In t ts /\ ParaSplit.tkind t = KQuote None /\ l = mklint (ParaSplit.tspan t) 255).
Proof. exact (conj unclosed_quotes_local (conj unclosed_quotes_split unclosed_quotes_spec)). Qed.
Check C12_unclosed_quotes_local :
  para_local unclosed_quotes /\
  (forall A B n k s1 s2 s3,
     unclosed_quotes (A ++ map (shift_tok n k) B) s1 = unclosed_quotes A s2 ++ map (shift_lint n) (unclosed_quotes B s3)) /\
  (forall ts src l, In l (unclosed_quotes ts src) <->
                    exists t, In t ts /\ ParaSplit.tkind t = KQuote None /\ l = mklint (ParaSplit.tspan t) 255).
Print Assumptions C12_unclosed_quotes_local.

(* a loop over ALL windows of |g| adjacent tokens whose body reports nothing unless every position passes its kind guard
   (Word / Space-or-Newline) is, for ANY body h, the window rule that skips windows containing a ParagraphBreak — the
   guard does the skipping — and therefore paragraph-local (MergeWords, InflectedVerbAfterTo, AdjectiveOfA) *)
Theorem C12_guarded_windows_local : forall g h,
  (forall ts src, guarded_rule g h ts src = window_rule (length g) (guarded_g0 g h) ts src) /\
  (forall c src, has_break c = true -> lift (guarded_g0 g h) c src = []) /\
  (g <> [] -> para_local (guarded_rule g h)).
Proof. exact (fun g h => conj (guarded_is_window g h) (conj (guarded_silent_across_break g h) (guarded_local g h))). Qed.
Check C12_guarded_windows_local : forall g h,
  (forall ts src, guarded_rule g h ts src = window_rule (length g) (guarded_g0 g h) ts src) /\
  (forall c src, has_break c = true -> lift (guarded_g0 g h) c src = []) /\
  (g <> [] -> para_local (guarded_rule g h)).
Print Assumptions C12_guarded_windows_local.

(* the table side (regenerated every run): the guards read from the three bodies, and what the rows of the four rules
   that left the residue denote in curated_rules; CommaFixes denotes nothing *)
Theorem C12_windows_pinned : forall g0,
  window_guards = window_guards_expected /\
  rule_of g0 "UnclosedQuotes"%string = Some unclosed_quotes /\
  rule_of g0 "MergeWords"%string = Some (guarded_rule [PWord; PWhitespace; PWord] (g0 "MergeWords"%string)) /\
  rule_of g0 "InflectedVerbAfterTo"%string = Some (guarded_rule [PWord; PWhitespace; PWord] (g0 "InflectedVerbAfterTo"%string)) /\
  rule_of g0 "AdjectiveOfA"%string
  = Some (guarded_rule [PWord; PWhitespace; PWord; PWhitespace; PWord] (g0 "AdjectiveOfA"%string)) /\
  rule_of g0 "CommaFixes"%string = None.
Proof. exact windows_pinned. Qed.
Check C12_windows_pinned : forall g0,
  window_guards = window_guards_expected /\
  rule_of g0 "UnclosedQuotes"%string = Some unclosed_quotes /\
  rule_of g0 "MergeWords"%string = Some (guarded_rule [PWord; PWhitespace; PWord] (g0 "MergeWords"%string)) /\
  rule_of g0 "InflectedVerbAfterTo"%string = Some (guarded_rule [PWord; PWhitespace; PWord] (g0 "InflectedVerbAfterTo"%string)) /\
  rule_of g0 "AdjectiveOfA"%string
  = Some (guarded_rule [PWord; PWhitespace; PWord; PWhitespace; PWord] (g0 "AdjectiveOfA"%string)) /\
  rule_of g0 "CommaFixes"%string = None.
Print Assumptions C12_windows_pinned.

(* the table side (regenerated every run): exactly ONE struct rule (CommaFixes; five before phase 5) is outside every
   proved shape; exactly ten per-slice bodies run under a document-wide remove_overlaps; the rest (73) are covered *)
Theorem C12_residue_pinned :
  residue = residue_expected /\ ro_bodies = ro_bodies_expected /\
  length (filter covered struct_rules) + length residue_expected = length struct_rules.
Proof. exact residue_pinned. Qed.
Check C12_residue_pinned :
  residue = residue_expected /\ ro_bodies = ro_bodies_expected /\
  length (filter covered struct_rules) + length residue_expected = length struct_rules.
Print Assumptions C12_residue_pinned.

(* THE PROPERTY with H_rules_local reduced to its residue.  The struct rules are the 74 rows of the generated table,
   each read as the instance of the shape the table gives it, for ARBITRARY per-slice bodies g0 (by rule / sub-rule
   name); the pattern rules are an ARBITRARY chunk function.  Assumed: the four facts about the newline character;
   para_local for the rules of residue_expected (phase 5: CommaFixes alone — see C12_main_final; UnclosedQuotes is its
   exact body, AdjectiveOfA / MergeWords / InflectedVerbAfterTo are guarded window rules with arbitrary bodies);
   g0_inside for the ten bodies of ro_bodies_expected.  Still `_partial` in spirit for exactly
   these reasons and because D must not start with a newline. *)
Theorem C12_main : forall u,
  u_whitespace u NL = true -> u_numeric u NL = false -> u_alphabetic u NL = false -> u_lingual u NL = false ->
  forall chunk_fn (g0 : String.string -> body) (other : String.string -> rule),
  (forall name, In name residue_expected -> para_local (other name)) ->
  (forall b, In b ro_bodies_expected -> g0_inside (g0 b)) ->
  forall P D, c12_premise P -> no_leading_nl D ->
    Permutation (lints (doc_tokens u) chunk_fn (curated_rules g0 other) (P ++ D))
                (lints (doc_tokens u) chunk_fn (curated_rules g0 other) P
                 ++ map (shift_lint (length P)) (lints (doc_tokens u) chunk_fn (curated_rules g0 other) D)).
Proof. exact main. Qed.
Check C12_main : forall u,
  u_whitespace u NL = true -> u_numeric u NL = false -> u_alphabetic u NL = false -> u_lingual u NL = false ->
  forall chunk_fn (g0 : String.string -> body) (other : String.string -> rule),
  (forall name, In name residue_expected -> para_local (other name)) ->
  (forall b, In b ro_bodies_expected -> g0_inside (g0 b)) ->
  forall P D, c12_premise P -> no_leading_nl D ->
    Permutation (lints (doc_tokens u) chunk_fn (curated_rules g0 other) (P ++ D))
                (lints (doc_tokens u) chunk_fn (curated_rules g0 other) P
                 ++ map (shift_lint (length P)) (lints (doc_tokens u) chunk_fn (curated_rules g0 other) D)).
Print Assumptions C12_main.

(* C12_main with the residue spelled out: the locality of ONE rule (CommaFixes, get_token(ci - 2 .. ci + 2) with optional
   neighbours), lints-inside-the-slice of the ten bodies under remove_overlaps, four facts about U+000A *)
Theorem C12_main_final : forall u,
  u_whitespace u NL = true -> u_numeric u NL = false -> u_alphabetic u NL = false -> u_lingual u NL = false ->
  forall chunk_fn (g0 : String.string -> body) (other : String.string -> rule),
  para_local (other "CommaFixes"%string) ->
  (forall b, In b ro_bodies_expected -> g0_inside (g0 b)) ->
  forall P D, c12_premise P -> no_leading_nl D ->
    Permutation (lints (doc_tokens u) chunk_fn (curated_rules g0 other) (P ++ D))
                (lints (doc_tokens u) chunk_fn (curated_rules g0 other) P
                 ++ map (shift_lint (length P)) (lints (doc_tokens u) chunk_fn (curated_rules g0 other) D)).
Proof. exact main_final. Qed.
Check C12_main_final : forall u,
  u_whitespace u NL = true -> u_numeric u NL = false -> u_alphabetic u NL = false -> u_lingual u NL = false ->
  forall chunk_fn (g0 : String.string -> body) (other : String.string -> rule),
  para_local (other "CommaFixes"%string) ->
  (forall b, In b ro_bodies_expected -> g0_inside (g0 b)) ->
  forall P D, c12_premise P -> no_leading_nl D ->
    Permutation (lints (doc_tokens u) chunk_fn (curated_rules g0 other) (P ++ D))
                (lints (doc_tokens u) chunk_fn (curated_rules g0 other) P
                 ++ map (shift_lint (length P)) (lints (doc_tokens u) chunk_fn (curated_rules g0 other) D)).
Print Assumptions C12_main_final.

(* ---------- phase 6: CommaFixes, the last struct rule outside every proved shape ---------- *)
(* Model/C12Comma.comma_fixes = linting/comma_fixes.rs: for every comma token, its four OPTIONAL neighbours
   get_token(ci - 2 .. ci + 2) enter a 10-arm match only through their VIEW (Word / Space / Unlintable / anything else or
   absent); the arm table cf_arms is decoded from Tables_c12rules.comma_arms_raw, which tools/tables/c12rules.py reads from
   the source on every run.  Three facts about the table, recomputed over all views on every run: no arm looks at
   toks.4 unless toks.3 is a Space, none at toks.0 unless toks.1 is a Space, and an arm whose span mentions toks.1
   requires toks.1 to be a Space. *)
Theorem C12_comma_arms_facts : (forall v0 v1 c v3 v4 v4', v3 <> VSpace -> run_arms cf_arms v0 v1 c v3 v4 = run_arms cf_arms v0 v1 c v3 v4') /\
  (forall v0 v0' v1 c v3 v4, v1 <> VSpace -> run_arms cf_arms v0 v1 c v3 v4 = run_arms cf_arms v0' v1 c v3 v4) /\
  (forall v0 v1 c v3 v4 w id, v1 <> VSpace -> run_arms cf_arms v0 v1 c v3 v4 = Some (w, id) -> w = SComma).
Proof. exact (conj arms_v4_irrel (conj arms_v0_irrel arms_span_comma)). Qed.
Check C12_comma_arms_facts : (forall v0 v1 c v3 v4 v4', v3 <> VSpace -> run_arms cf_arms v0 v1 c v3 v4 = run_arms cf_arms v0 v1 c v3 v4') /\
  (forall v0 v0' v1 c v3 v4, v1 <> VSpace -> run_arms cf_arms v0 v1 c v3 v4 = run_arms cf_arms v0' v1 c v3 v4) /\
  (forall v0 v1 c v3 v4 w id, v1 <> VSpace -> run_arms cf_arms v0 v1 c v3 v4 = Some (w, id) -> w = SComma).
Print Assumptions C12_comma_arms_facts.

(* CommaFixes is paragraph-local, for every Unlintable test that moving a token does not change (ParaSplit.kind keeps
   Unlintable inside KOther; the test is a parameter of the model).  Reason: an absent neighbour, a ParagraphBreak
   neighbour and whatever lies behind a ParagraphBreak all look alike to the arms. *)
Theorem C12_comma_fixes_local : forall unl : ParaSplit.tok -> bool,
  (forall n k t, unl (shift_tok n k t) = unl t) -> para_local (comma_fixes unl).
Proof. exact comma_fixes_local. Qed.
Check C12_comma_fixes_local : forall unl : ParaSplit.tok -> bool,
  (forall n k t, unl (shift_tok n k t) = unl t) -> para_local (comma_fixes unl).
Print Assumptions C12_comma_fixes_local.

(* the loop written with token indices and get_token, as in the source, is the structural loop the proof uses *)
Theorem C12_comma_fixes_idx_eq : forall unl ts src, comma_fixes_idx unl ts src = comma_fixes unl ts src.
Proof. exact comma_fixes_idx_eq. Qed.
Check C12_comma_fixes_idx_eq : forall unl ts src, comma_fixes_idx unl ts src = comma_fixes unl ts src.
Print Assumptions C12_comma_fixes_idx_eq.

(* the table side (recomputed on every run): the arms, the row, and that the CommaFixes row of the rule list below IS the
   modelled body — the only row C12Main.curated_rules takes from `other` *)
Theorem C12_comma_pinned : forall (unl : ParaSplit.tok -> bool) (g0 : String.string -> body),
  cf_arms = cf_arms_expected /\
  option_map row_shape (row_of "CommaFixes") = Some (Neighbourhood 2 2) /\
  residue = ["CommaFixes"%string] /\
  length (curated_rules_all unl g0) = 74 /\
  option_map row_name (nth_error struct_rules (row_index "CommaFixes" struct_rules)) = Some "CommaFixes"%string /\
  nth_error (curated_rules_all unl g0) (row_index "CommaFixes" struct_rules) = Some (comma_fixes unl).
Proof. exact comma_pinned. Qed.
Check C12_comma_pinned : forall (unl : ParaSplit.tok -> bool) (g0 : String.string -> body),
  cf_arms = cf_arms_expected /\
  option_map row_shape (row_of "CommaFixes") = Some (Neighbourhood 2 2) /\
  residue = ["CommaFixes"%string] /\
  length (curated_rules_all unl g0) = 74 /\
  option_map row_name (nth_error struct_rules (row_index "CommaFixes" struct_rules)) = Some "CommaFixes"%string /\
  nth_error (curated_rules_all unl g0) (row_index "CommaFixes" struct_rules) = Some (comma_fixes unl).
Print Assumptions C12_comma_pinned.

(* CommaFixes::lint never panics when every comma token covers at least one character of the source and adjacent tokens
   are in order: with get_content / .first().unwrap() / toks.1.unwrap() / Span::new as checked operations the loop
   returns what the unchecked model (the one proved local) computes *)
Theorem C12_comma_fixes_total : forall (unl : ParaSplit.tok -> bool) ts src,
  Forall (comma_ok src) ts -> ordered None ts -> comma_fixes_chk unl ts src = Ok (comma_fixes unl ts src).
Proof. exact comma_fixes_total. Qed.
Check C12_comma_fixes_total : forall (unl : ParaSplit.tok -> bool) ts src,
  Forall (comma_ok src) ts -> ordered None ts -> comma_fixes_chk unl ts src = Ok (comma_fixes unl ts src).
Print Assumptions C12_comma_fixes_total.

(* THE PROPERTY with NO locality hypothesis on any struct rule: all 74 rows of the generated table denote either an
   instance of a proved shape (arbitrary per-slice bodies), UnclosedQuotes' / CommaFixes' modelled body.  What is left:
   lints-inside-the-slice of the ten bodies under remove_overlaps, four facts about U+000A, and that the Unlintable test
   does not depend on where a token stands. *)
Theorem C12_main_complete : forall u,
  u_whitespace u NL = true -> u_numeric u NL = false -> u_alphabetic u NL = false -> u_lingual u NL = false ->
  forall (unl : ParaSplit.tok -> bool), (forall n k t, unl (shift_tok n k t) = unl t) ->
  forall chunk_fn (g0 : String.string -> body),
  (forall b, In b ro_bodies_expected -> g0_inside (g0 b)) ->
  forall P D, c12_premise P -> no_leading_nl D ->
    Permutation (lints (doc_tokens u) chunk_fn (curated_rules_all unl g0) (P ++ D))
                (lints (doc_tokens u) chunk_fn (curated_rules_all unl g0) P
                 ++ map (shift_lint (length P)) (lints (doc_tokens u) chunk_fn (curated_rules_all unl g0) D)).
Proof. exact main_complete. Qed.
Check C12_main_complete : forall u,
  u_whitespace u NL = true -> u_numeric u NL = false -> u_alphabetic u NL = false -> u_lingual u NL = false ->
  forall (unl : ParaSplit.tok -> bool), (forall n k t, unl (shift_tok n k t) = unl t) ->
  forall chunk_fn (g0 : String.string -> body),
  (forall b, In b ro_bodies_expected -> g0_inside (g0 b)) ->
  forall P D, c12_premise P -> no_leading_nl D ->
    Permutation (lints (doc_tokens u) chunk_fn (curated_rules_all unl g0) (P ++ D))
                (lints (doc_tokens u) chunk_fn (curated_rules_all unl g0) P
                 ++ map (shift_lint (length P)) (lints (doc_tokens u) chunk_fn (curated_rules_all unl g0) D)).
Print Assumptions C12_main_complete.

(* ---------- phase 7: the token invariant under the lints-inside-the-slice condition; CurrencyPlacement's body ---------- *)
(* the tokens of EVERY plain-English Document cover >= 1 character each and end inside the text (from C02's tiling theorem;
   no hypothesis on the Unicode record) *)
Theorem C12_doc_tokens_wf : forall u s, toks_wf (length s) (doc_tokens u s).
Proof. exact doc_tokens_wf. Qed.
Check C12_doc_tokens_wf : forall u s, toks_wf (length s) (doc_tokens u s).
Print Assumptions C12_doc_tokens_wf.

(* on well-formed token lists every (slice, characters) pair `lift` hands to a per-slice body is well-formed: restricting
   the body to well-formed pairs (guard_wf) changes no iterator-schema instance *)
Theorem C12_schema_guard_eq : forall p g0 ts src,
  toks_wf (length src) ts -> schema_rule p (guard_wf g0) ts src = schema_rule p g0 ts src.
Proof. exact schema_guard_eq. Qed.
Check C12_schema_guard_eq : forall p g0 ts src,
  toks_wf (length src) ts -> schema_rule p (guard_wf g0) ts src = schema_rule p g0 ts src.
Print Assumptions C12_schema_guard_eq.

(* C12_main_complete with condition (b) WEAKENED for all ten bodies: lints inside the slice are demanded only for slices
   whose tokens are non-empty and lie inside the slice's characters (g0_inside_wf) — the form a faithful body satisfies *)
Theorem C12_main_wf : forall u,
  u_whitespace u NL = true -> u_numeric u NL = false -> u_alphabetic u NL = false -> u_lingual u NL = false ->
  forall (unl : ParaSplit.tok -> bool), (forall n k t, unl (shift_tok n k t) = unl t) ->
  forall chunk_fn (g0 : String.string -> body),
  (forall b, In b ro_bodies_expected -> g0_inside_wf (g0 b)) ->
  forall P D, c12_premise P -> no_leading_nl D ->
    Permutation (lints (doc_tokens u) chunk_fn (curated_rules_all unl g0) (P ++ D))
                (lints (doc_tokens u) chunk_fn (curated_rules_all unl g0) P
                 ++ map (shift_lint (length P)) (lints (doc_tokens u) chunk_fn (curated_rules_all unl g0) D)).
Proof. exact main_wf. Qed.
Check C12_main_wf : forall u,
  u_whitespace u NL = true -> u_numeric u NL = false -> u_alphabetic u NL = false -> u_lingual u NL = false ->
  forall (unl : ParaSplit.tok -> bool), (forall n k t, unl (shift_tok n k t) = unl t) ->
  forall chunk_fn (g0 : String.string -> body),
  (forall b, In b ro_bodies_expected -> g0_inside_wf (g0 b)) ->
  forall P D, c12_premise P -> no_leading_nl D ->
    Permutation (lints (doc_tokens u) chunk_fn (curated_rules_all unl g0) (P ++ D))
                (lints (doc_tokens u) chunk_fn (curated_rules_all unl g0) P
                 ++ map (shift_lint (length P)) (lints (doc_tokens u) chunk_fn (curated_rules_all unl g0) D)).
Print Assumptions C12_main_wf.

(* CurrencyPlacement's per-chunk body (C13's three generators on the slice's tokens; ANY currency test, ANY verdict)
   reports inside every well-formed slice; the unrestricted demand is false for it (C12_currency_needs_wf) *)
Theorem C12_currency_inside : forall cur wrong, g0_inside_wf (cp_body cur wrong).
Proof. exact cp_body_inside_wf. Qed.
Check C12_currency_inside : forall cur wrong, g0_inside_wf (cp_body cur wrong).
Print Assumptions C12_currency_inside.

(* the CurrencyPlacement row of the rule list denotes remove_overlaps over the chunk schema of the modelled body *)
Theorem C12_currency_pinned : forall unl cur wrong g0,
  (ro_bodies_expected = (firstn 7 ro_bodies_left ++ ["CurrencyPlacement"%string] ++ skipn 7 ro_bodies_left)%list) /\
  (rule_of (with_currency cur wrong g0) "CurrencyPlacement"%string
   = Some (then_remove_overlaps (schema_rule is_chunk_terminator (cp_body cur wrong)))) /\
  (nth_error (curated_rules_all unl (with_currency cur wrong g0)) (row_index "CurrencyPlacement"%string struct_rules)
   = Some (then_remove_overlaps (schema_rule is_chunk_terminator (cp_body cur wrong)))).
Proof. exact currency_pinned. Qed.
Check C12_currency_pinned : forall unl cur wrong g0,
  (ro_bodies_expected = (firstn 7 ro_bodies_left ++ ["CurrencyPlacement"%string] ++ skipn 7 ro_bodies_left)%list) /\
  (rule_of (with_currency cur wrong g0) "CurrencyPlacement"%string
   = Some (then_remove_overlaps (schema_rule is_chunk_terminator (cp_body cur wrong)))) /\
  (nth_error (curated_rules_all unl (with_currency cur wrong g0)) (row_index "CurrencyPlacement"%string struct_rules)
   = Some (then_remove_overlaps (schema_rule is_chunk_terminator (cp_body cur wrong)))).
Print Assumptions C12_currency_pinned.

(* the property with CurrencyPlacement modelled: the condition is left for NINE bodies (the sub-rules of the four
   merge_linters! rules), in the weakened form *)
Theorem C12_main_currency : forall u,
  u_whitespace u NL = true -> u_numeric u NL = false -> u_alphabetic u NL = false -> u_lingual u NL = false ->
  forall (unl : ParaSplit.tok -> bool), (forall n k t, unl (shift_tok n k t) = unl t) ->
  forall chunk_fn cur wrong (g0 : String.string -> body),
  (forall b, In b ro_bodies_left -> g0_inside_wf (g0 b)) ->
  forall P D, c12_premise P -> no_leading_nl D ->
    let rules := curated_rules_all unl (with_currency cur wrong g0) in
    Permutation (lints (doc_tokens u) chunk_fn rules (P ++ D))
                (lints (doc_tokens u) chunk_fn rules P
                 ++ map (shift_lint (length P)) (lints (doc_tokens u) chunk_fn rules D)).
Proof. exact main_currency. Qed.
Check C12_main_currency : forall u,
  u_whitespace u NL = true -> u_numeric u NL = false -> u_alphabetic u NL = false -> u_lingual u NL = false ->
  forall (unl : ParaSplit.tok -> bool), (forall n k t, unl (shift_tok n k t) = unl t) ->
  forall chunk_fn cur wrong (g0 : String.string -> body),
  (forall b, In b ro_bodies_left -> g0_inside_wf (g0 b)) ->
  forall P D, c12_premise P -> no_leading_nl D ->
    let rules := curated_rules_all unl (with_currency cur wrong g0) in
    Permutation (lints (doc_tokens u) chunk_fn rules (P ++ D))
                (lints (doc_tokens u) chunk_fn rules P
                 ++ map (shift_lint (length P)) (lints (doc_tokens u) chunk_fn rules D)).
Print Assumptions C12_main_currency.

(* the blanket PatternLinter body (run_on_chunk: cursor loop, ANY pattern, ANY match_to_lint that takes its span from one
   matched token or from the hull of a sub-slice of the match) reports inside every well-formed slice *)
Theorem C12_pattern_body_inside : forall matches report, g0_inside_wf (pat_body matches report).
Proof. exact pat_body_inside_wf. Qed.
Check C12_pattern_body_inside : forall matches report, g0_inside_wf (pat_body matches report).
Print Assumptions C12_pattern_body_inside.

(* the table side (recomputed on every run): the nine sub-rules with the place their lint span comes from; the merged rows
   denote remove_overlaps over the chunk schemas of the modelled bodies; all ten remove_overlaps bodies are modelled *)
Theorem C12_bodies_pinned : forall unl cur wrong matches report g0,
  (map (fun e => (fst e, decode_sel (snd e))) match_span_raw = match_span_expected) /\
  (map fst match_span_raw = ro_bodies_left) /\
  (rule_of (all_bodies cur wrong matches report g0) "HopHope"%string
   = Some (merge_rule [schema_rule is_chunk_terminator (pat_body (matches "ToHop"%string) (report "ToHop"%string));
                       schema_rule is_chunk_terminator (pat_body (matches "ToHope"%string) (report "ToHope"%string))])) /\
  (rule_of (all_bodies cur wrong matches report g0) "CurrencyPlacement"%string
   = Some (then_remove_overlaps (schema_rule is_chunk_terminator (cp_body cur wrong)))) /\
  (length (curated_rules_all unl (all_bodies cur wrong matches report g0)) = 74) /\
  (forallb (fun b => orb (String.eqb b "CurrencyPlacement"%string) (existsb (String.eqb b) ro_bodies_left)) ro_bodies_expected = true).
Proof. exact bodies_pinned. Qed.
Check C12_bodies_pinned : forall unl cur wrong matches report g0,
  (map (fun e => (fst e, decode_sel (snd e))) match_span_raw = match_span_expected) /\
  (map fst match_span_raw = ro_bodies_left) /\
  (rule_of (all_bodies cur wrong matches report g0) "HopHope"%string
   = Some (merge_rule [schema_rule is_chunk_terminator (pat_body (matches "ToHop"%string) (report "ToHop"%string));
                       schema_rule is_chunk_terminator (pat_body (matches "ToHope"%string) (report "ToHope"%string))])) /\
  (rule_of (all_bodies cur wrong matches report g0) "CurrencyPlacement"%string
   = Some (then_remove_overlaps (schema_rule is_chunk_terminator (cp_body cur wrong)))) /\
  (length (curated_rules_all unl (all_bodies cur wrong matches report g0)) = 74) /\
  (forallb (fun b => orb (String.eqb b "CurrencyPlacement"%string) (existsb (String.eqb b) ro_bodies_left)) ro_bodies_expected = true).
Print Assumptions C12_bodies_pinned.

(* the property with ALL TEN remove_overlaps bodies modelled (CurrencyPlacement + the blanket impl, arbitrary pattern and
   match_to_lint per sub-rule): NO lints-inside-the-slice hypothesis is left *)
Theorem C12_main_bodies : forall u,
  u_whitespace u NL = true -> u_numeric u NL = false -> u_alphabetic u NL = false -> u_lingual u NL = false ->
  forall (unl : ParaSplit.tok -> bool), (forall n k t, unl (shift_tok n k t) = unl t) ->
  forall chunk_fn cur wrong matches report (g0 : String.string -> body),
  forall P D, c12_premise P -> no_leading_nl D ->
    let rules := curated_rules_all unl (all_bodies cur wrong matches report g0) in
    Permutation (lints (doc_tokens u) chunk_fn rules (P ++ D))
                (lints (doc_tokens u) chunk_fn rules P
                 ++ map (shift_lint (length P)) (lints (doc_tokens u) chunk_fn rules D)).
Proof. exact main_bodies. Qed.
Check C12_main_bodies : forall u,
  u_whitespace u NL = true -> u_numeric u NL = false -> u_alphabetic u NL = false -> u_lingual u NL = false ->
  forall (unl : ParaSplit.tok -> bool), (forall n k t, unl (shift_tok n k t) = unl t) ->
  forall chunk_fn cur wrong matches report (g0 : String.string -> body),
  forall P D, c12_premise P -> no_leading_nl D ->
    let rules := curated_rules_all unl (all_bodies cur wrong matches report g0) in
    Permutation (lints (doc_tokens u) chunk_fn rules (P ++ D))
                (lints (doc_tokens u) chunk_fn rules P
                 ++ map (shift_lint (length P)) (lints (doc_tokens u) chunk_fn rules D)).
Print Assumptions C12_main_bodies.

(* ---------- non-vacuity ---------- *)

(* ---------- one rule body: LongSentences as repaired by 1bab09f (finding FC12a) ---------- *)
(* the rule never panics (slice, span().unwrap(), Span::new are checked operations of the model) *)
Theorem C12_long_sentences_total : forall ts, exists l, long_sentences ts = Ok l.
Proof. exact long_sentences_total. Qed.
Check C12_long_sentences_total : forall ts, exists l, long_sentences ts = Ok l.
Print Assumptions C12_long_sentences_total.

(* its lints do not depend on a whitespace token in front of the token list — the leading Newline token that
   Document(D) has and Document(P++D) lacks when D starts with a newline (there it belongs to P's break) *)
Theorem C12_long_sentences_leading_ws : forall w B,
  is_ws_kind (tkind w) = true -> long_sentences (w :: B) = long_sentences B.
Proof. exact long_sentences_leading_ws. Qed.
Check C12_long_sentences_leading_ws : forall w B,
  is_ws_kind (tkind w) = true -> long_sentences (w :: B) = long_sentences B.
Print Assumptions C12_long_sentences_leading_ws.

(* "Hi, yo. <break> So? No" : kinds W , S W . B W ? S W with spans tiling 0..17 *)
Definition ex_A : list tok :=
  [mktok (mkspan 0 2) KWord; mktok (mkspan 2 3) KComma; mktok (mkspan 3 4) KSpace; mktok (mkspan 4 6) KWord;
   mktok (mkspan 6 7) KPeriod; mktok (mkspan 7 9) KBreak].
Definition ex_B : list tok :=
  [mktok (mkspan 0 2) KWord; mktok (mkspan 2 3) KQuestion; mktok (mkspan 3 4) KSpace; mktok (mkspan 4 6) (KQuote (Some 0))].

Example C12_iter_nonvacuous :
  ends_in_break ex_A /\ ex_B <> [] /\
  map (@length tok) (iter_chunks (ex_A ++ map (shift_tok 9 6) ex_B)) = [2; 3; 1; 2; 2] /\
  map (@length tok) (iter_sentences (ex_A ++ map (shift_tok 9 6) ex_B)) = [5; 1; 2; 2] /\
  map (@length tok) (iter_paragraphs (ex_A ++ map (shift_tok 9 6) ex_B)) = [6; 4] /\
  map tkind (map (shift_tok 9 6) ex_B) = [KWord; KQuestion; KSpace; KQuote (Some 6)].
Proof.
  split; [exists (firstn 5 ex_A), (mktok (mkspan 7 9) KBreak); split; reflexivity|].
  split; [discriminate|]. repeat split; vm_compute; reflexivity.
Qed.

(* the side condition of the split is needed: without a terminator at the end of A the chunk straddles *)
Example C12_iter_split_needs_terminator :
  let A := [mktok (mkspan 0 2) KWord] in let B := [mktok (mkspan 2 4) KWord] in
  iter_chunks (A ++ B) = [A ++ B] /\ iter_chunks A ++ iter_chunks B = [A; B].
Proof. split; vm_compute; reflexivity. Qed.

(* the hypotheses of C12_main_partial are satisfiable together: a character-level lexer (newline = break),
   a sentence-schema rule and a window rule, a chunk function reporting every word *)
Example C12_main_hyps_satisfiable :
  let rules := [schema_rule is_sentence_terminator sentence_g0; window_rule 2 word_chunk_fn] in
  (forall P D, toy_premise P -> no_leading_newline D ->
     toy_tokens (P ++ D) = toy_tokens P ++ map (shift_tok (length P) (length (toy_tokens P))) (toy_tokens D)) /\
  (forall P, toy_premise P -> ends_in_break (toy_tokens P) /\ in_bounds (length P) (toy_tokens P)) /\
  Forall para_local rules /\
  toy_premise [72; 105; 46; 10]%N /\
  map (fun l => (lstart l, lend l, lid l)) (lints toy_tokens word_chunk_fn rules ([72; 105; 46; 10] ++ [79; 107; 44; 32; 97])%N)
  = [(0, 3, 3); (3, 4, 1); (4, 9, 5); (0, 1, 1); (1, 2, 1); (1, 2, 1); (4, 5, 1); (5, 6, 1); (5, 6, 1); (8, 9, 1);
     (0, 1, 1); (1, 2, 1); (4, 5, 1); (5, 6, 1); (8, 9, 1)].
Proof.
  cbv zeta. split; [intros P D _ _; apply toy_split|]. split; [exact toy_P_tokens|].
  split; [repeat constructor; [apply schema_local|apply window_local; lia]|].
  split; [exists [72; 105]%N; reflexivity|vm_compute; reflexivity].
Qed.

(* an ASCII-only instance of the Unicode record: the four facts about the newline hold, and on
   P = <It's $5. e.g.> + blank line, D = <x@y.z 7th> + a quoted q, the lexer and the passes of Document::parse
   split as stated *)
Definition ascii_uni : uni :=
  mkuni (fun c => mem_n c [9; 10; 11; 12; 13; 32]%N) is_ascii_digit is_ascii_alphabetic is_ascii_alphabetic.
Definition ex_P : text := [73; 116; 39; 115; 32; 36; 53; 46; 32; 101; 46; 103; 46; 10; 10]%N.
Definition ex_D : text := [120; 64; 121; 46; 122; 32; 55; 116; 104; 32; 34; 113; 34]%N.

Example C12_lex_split_nonvacuous :
  u_whitespace ascii_uni NL = true /\ u_numeric ascii_uni NL = false /\
  u_alphabetic ascii_uni NL = false /\ u_lingual ascii_uni NL = false /\
  ends_nl ex_P /\ no_leading_nl ex_D /\ c12_premise ex_P /\
  (exists tp td A B,
     plain_parse ascii_uni ex_P = Ok tp /\ plain_parse ascii_uni ex_D = Ok td /\
     length tp = 13 /\ length td = 8 /\
     plain_parse ascii_uni (ex_P ++ ex_D) = Ok (tp ++ map (shift_token (length ex_P)) td) /\
     document_passes ex_P tp = Ok A /\ document_passes ex_D td = Ok B /\ length A = 8 /\ length B = 7 /\
     document_passes (ex_P ++ ex_D) (tp ++ map (shift_token (length ex_P)) td)
       = Ok (A ++ map (shift_token2 (length ex_P) (length A)) B) /\
     ends_in_break (map to_ps A) /\ in_bounds (length ex_P) (map to_ps A)).
Proof.
  repeat (split; [reflexivity|]).
  split; [right; exists (firstn 14 ex_P); reflexivity|].
  split; [cbn; discriminate|].
  split; [split; [repeat constructor|exists (firstn 12 ex_P), 46%N; split; [reflexivity|now left]]|].
  eexists. eexists. eexists. eexists.
  split; [vm_compute; reflexivity|]. split; [vm_compute; reflexivity|].
  split; [reflexivity|]. split; [reflexivity|].
  split; [vm_compute; reflexivity|].
  split; [vm_compute; reflexivity|]. split; [vm_compute; reflexivity|].
  split; [reflexivity|]. split; [reflexivity|].
  split; [vm_compute; reflexivity|].
  split.
  - match goal with |- ends_in_break ?l =>
      let l' := eval vm_compute in l in
      exists (removelast l'), (last l' (ParaSplit.mktok (mkspan 0 0) KOther)) end.
    split; vm_compute; reflexivity.
  - vm_compute. repeat constructor.
Qed.

(* the quote-free premise is needed (quote pairing is positional over the whole document): with one double
   quote in P (a quote, the letter a, a period, a blank line) the two quotes of D (quote b quote) pair up
   differently behind P than alone, and the quote of P gets a twin *)
Example C12_quote_premise_needed :
  let P := [34; 97; 46; 10; 10]%N in let D := [34; 98; 34]%N in
  ~ quote_free P /\
  map ParaSplit.tkind (doc_tokens ascii_uni P) = [KQuote None; ParaSplit.KWord; KPeriod; KBreak] /\
  map ParaSplit.tkind (doc_tokens ascii_uni D) = [KQuote (Some 2); ParaSplit.KWord; KQuote (Some 0)] /\
  map ParaSplit.tkind (doc_tokens ascii_uni (P ++ D))
  = [KQuote (Some 4); ParaSplit.KWord; KPeriod; KBreak; KQuote (Some 0); ParaSplit.KWord; KQuote None].
Proof.
  cbv zeta. split; [intros H; inversion H; discriminate|]. repeat split; vm_compute; reflexivity.
Qed.

(* HISTORY (FC12a, repaired by 1bab09f): the old LongSentences reported the hull of the whole sentence, so a
   leading Newline token moved the start of the lint (41 one-character words behind a newline token); the
   repaired rule answers 1..42 with and without it — also the non-vacuity example of the two theorems above *)
Example C12_long_sentences_old_refuted :
  long_sentence_old (nl_tok :: words41 1) = Ok [mkspan 0 42] /\
  long_sentence_old (words41 1) = Ok [mkspan 1 42] /\
  long_sentence (nl_tok :: words41 1) = Ok [mkspan 1 42] /\
  long_sentence (words41 1) = Ok [mkspan 1 42].
Proof. exact long_sentence_old_depends_on_leading_ws. Qed.

(* the boundary conditions of the two cursor passes are needed (computed on the pass itself):
   Space Space Newline | Space Space : glued, the second pair is NOT merged; alone it is *)
Example C12_condense_spaces_needs_closed :
  let sp i := Lexer.mktok (mkspan i (i + 1)) (Lexer.KSpace 1) in
  let A := [sp 0; sp 1; Lexer.mktok (mkspan 2 3) (Lexer.KNewline 1)] in
  let B := [sp 3; sp 4] in
  condense_spaces (A ++ B) = Ok [Lexer.mktok (mkspan 0 2) (Lexer.KSpace 2); Lexer.mktok (mkspan 2 3) (Lexer.KNewline 1); sp 3; sp 4] /\
  condense_spaces A = Ok [Lexer.mktok (mkspan 0 2) (Lexer.KSpace 2); Lexer.mktok (mkspan 2 3) (Lexer.KNewline 1)] /\
  condense_spaces B = Ok [Lexer.mktok (mkspan 3 5) (Lexer.KSpace 2)].
Proof. exact sp_spec_app_needs_closed. Qed.

Example C12_condense_newlines_needs_head :
  let nl i := Lexer.mktok (mkspan i (i + 1)) (Lexer.KNewline 1) in
  condense_newlines ([nl 0] ++ [nl 1]) = Ok [Lexer.mktok (mkspan 0 2) (Lexer.KNewline 2)] /\
  condense_newlines [nl 0] = Ok [nl 0] /\ condense_newlines [nl 1] = Ok [nl 1].
Proof. exact nl_spec_app_needs_head. Qed.

(* non-vacuity of C12_doc_tokens_split / C12_condense_split: the ASCII instance, P = <It's $5. e.g.> + blank line,
   D = <x@y.z 7th "q"> : 8 + 7 document tokens, the quote twins of D (4, 6) become (12, 14) *)
Example C12_doc_tokens_split_nonvacuous :
  c12_premise ex_P /\ no_leading_nl ex_D /\
  length (doc_tokens ascii_uni ex_P) = 8 /\ length (doc_tokens ascii_uni ex_D) = 7 /\
  doc_tokens ascii_uni (ex_P ++ ex_D)
  = doc_tokens ascii_uni ex_P ++ map (shift_tok (length ex_P) 8) (doc_tokens ascii_uni ex_D) /\
  map ParaSplit.tkind (doc_tokens ascii_uni (ex_P ++ ex_D))
  = [ParaSplit.KWord; ParaSplit.KSpace; ParaSplit.KPunct; ParaSplit.KNumber; KPeriod; ParaSplit.KSpace; ParaSplit.KWord; KBreak;
     KOther; ParaSplit.KSpace; ParaSplit.KNumber; ParaSplit.KSpace; KQuote (Some 14); ParaSplit.KWord; KQuote (Some 12)].
Proof.
  split; [split; [repeat constructor|exists (firstn 12 ex_P), 46%N; split; [reflexivity|now left]]|].
  split; [cbn; discriminate|]. repeat split; vm_compute; reflexivity.
Qed.

(* non-vacuity of the rule table: LongSentences (the modelled rule body) is a sentence-schema rule, SpellCheck a
   one-token window rule, a MapPhraseLinter registered as a struct rule a chunk-schema rule *)
Example C12_rule_shapes_nonvacuous : incl rule_rows_example struct_rules /\ length struct_rules = 74.
Proof. exact rule_shapes_example. Qed.

(* `start < |P|` in rule_inside is needed: the sort key is (start, MAX - end), so an EMPTY lint 2..2 of the first part
   sorts behind the lint 2..3 of the second part and is dropped; alone both are kept *)
Example C12_remove_overlaps_needs_strict :
  let a := mklint (mkspan 2 2) 0 in let b := mklint (mkspan 0 1) 1 in
  remove_overlaps ([a] ++ map (shift_lint 2) [b]) = [shift_lint 2 b] /\
  remove_overlaps [a] ++ map (shift_lint 2) (remove_overlaps [b]) = [a; shift_lint 2 b].
Proof. exact ro_needs_strict. Qed.

(* the hypotheses of C12_main are satisfiable: bodies reporting the first character and the whole of every slice are
   inside; a one-token window rule for the residue name (CommaFixes); 74 rules; a merged rule over two such bodies really drops
   overlapping lints (8 collected, 2 kept) *)
Example C12_main_final_hyps_satisfiable :
  (forall name, In name residue_expected -> para_local (ex_other name)) /\
  (forall b, In b ro_bodies_expected -> g0_inside (ex_g0 b)) /\
  length (curated_rules ex_g0 ex_other) = 74 /\
  (let ts := [ParaSplit.mktok (mkspan 0 2) ParaSplit.KWord; ParaSplit.mktok (mkspan 2 3) KComma;
              ParaSplit.mktok (mkspan 3 4) ParaSplit.KSpace; ParaSplit.mktok (mkspan 4 6) ParaSplit.KWord] in
   let src := [72; 105; 44; 32; 121; 111]%N in
   map (fun l => (lstart l, lend l))
       (merge_rule ex_merge_subs ts src)
   = [(0, 3); (3, 6)] /\
   length (flat_map (fun r => r ts src) ex_merge_subs) = 8).
Proof. exact main_hyps_satisfiable. Qed.

(* non-vacuity of the guarded windows (`ab cd.` BREAK `ef` NEWLINE `gh`): the guard passes once on each side and on none of
   the windows containing the break; glued = separately + shifted (6 windows looked at) *)
Example C12_guarded_windows_nonvacuous :
  let r := guarded_rule [PWord; PWhitespace; PWord] whole_window in
  let spans := map (fun l => (lstart l, lend l)) in
  spans (r gw_A gw_P) = [(0, 5)] /\ spans (r gw_B gw_D) = [(0, 5)] /\
  spans (r (gw_A ++ map (shift_tok 8 5) gw_B) (gw_P ++ gw_D)) = [(0, 5); (8, 13)] /\
  length (windows 3 (gw_A ++ map (shift_tok 8 5) gw_B)) = 6.
Proof. exact guarded_example. Qed.

(* what the no-quote premise buys, seen through UnclosedQuotes itself (the texts of C12_quote_premise_needed: P = quote a
   period blank line, D = quote b quote): alone P has one unclosed quote (0..1) and D none; together P's quote is paired
   with D's first and D's LAST quote is reported (7..8) — a lint of P hidden and a lint of D created by gluing.  The rule
   is local on tokens (C12_unclosed_quotes_local); the tokens are not tokens(P) ++ shift tokens(D). *)
Example C12_unclosed_quotes_needs_premise :
  let P := [34; 97; 46; 10; 10]%N in let D := [34; 98; 34]%N in
  let spans := map (fun l => (lstart l, lend l)) in
  ~ quote_free P /\
  spans (unclosed_quotes (doc_tokens ascii_uni P) P) = [(0, 1)] /\
  spans (unclosed_quotes (doc_tokens ascii_uni D) D) = [] /\
  spans (unclosed_quotes (doc_tokens ascii_uni (P ++ D)) (P ++ D)) = [(7, 8)].
Proof.
  cbv zeta. split; [intros H; inversion H; discriminate|]. repeat split; vm_compute; reflexivity.
Qed.

(* non-vacuity of C12_comma_fixes_local: `a ,b.` BREAK | `,c 、 d` — one finding per side (1..3 space before + none after;
   2..4 space before an Asian comma), none for the comma that opens the second part, neither alone (toks.1 absent) nor
   glued (toks.1 is the ParagraphBreak); glued = separately + shifted.  And the Unlintable parameter matters: a KOther
   neighbour silences an Asian comma exactly when the test says Unlintable. *)
Example C12_comma_fixes_nonvacuous :
  let out := map (fun l => (lstart l, lend l, lid l)) in
  (forall n k t, cx_unl (shift_tok n k t) = cx_unl t) /\
  out (comma_fixes cx_unl cx_A cx_P) = [(1, 3, 21)] /\ out (comma_fixes cx_unl cx_B cx_D) = [(2, 4, 11)] /\
  out (comma_fixes cx_unl (cx_A ++ map (shift_tok 7 6) cx_B) (cx_P ++ cx_D)) = [(1, 3, 21); (9, 11, 11)] /\
  out (comma_fixes cx_unl [ParaSplit.mktok (mkspan 0 1) ParaSplit.KOther; ParaSplit.mktok (mkspan 1 2) KComma] [33457; 12289]%N) = [] /\
  out (comma_fixes (fun _ => false) [ParaSplit.mktok (mkspan 0 1) ParaSplit.KOther; ParaSplit.mktok (mkspan 1 2) KComma] [33457; 12289]%N) = [(1, 2, 10)].
Proof. exact comma_example. Qed.

(* both premises of C12_comma_fixes_total are needed (a zero-width comma token: .first().unwrap() on an empty slice; a
   Space lying behind the comma: Span::new), and they are satisfiable with a finding *)
Example C12_comma_total_needs_premises :
  comma_fixes_chk (fun _ => false) [ParaSplit.mktok (mkspan 1 1) KComma] [97; 44]%N = Panic PUnwrap /\
  comma_fixes_chk (fun _ => false)
    [ParaSplit.mktok (mkspan 0 1) ParaSplit.KWord; ParaSplit.mktok (mkspan 3 4) ParaSplit.KSpace;
     ParaSplit.mktok (mkspan 1 2) KComma; ParaSplit.mktok (mkspan 2 3) ParaSplit.KWord] [97; 44; 98; 32]%N
  = Panic PSpanOrder /\
  comma_fixes_chk (fun _ => false)
    [ParaSplit.mktok (mkspan 0 1) ParaSplit.KWord; ParaSplit.mktok (mkspan 1 2) ParaSplit.KSpace;
     ParaSplit.mktok (mkspan 2 3) KComma; ParaSplit.mktok (mkspan 3 4) ParaSplit.KWord] [97; 32; 44; 98]%N
  = Ok [mklint (mkspan 1 3) 21].
Proof. exact comma_total_needs. Qed.

(* non-vacuity of phase 7: `It cost 5 $ 5 more.` blank line | `A 7$, $7 b` through the lexer + Document::parse model: P's
   chunk yields two overlapping candidates, remove_overlaps keeps 8..11; D yields 2..4 and 6..8; glued = separately + 21;
   every slice handed to the body is a well-formed pair and the guarded body answers the same *)
Example C12_currency_nonvacuous :
  let body := cp_body ex_cur ex_wrong in
  let R := then_remove_overlaps (schema_rule is_chunk_terminator body) in
  let Rg := then_remove_overlaps (schema_rule is_chunk_terminator (guard_wf body)) in
  let spans := map (fun l => (lstart l, lend l)) in
  let doc := doc_tokens c12_ascii_uni in
  g0_inside_wf body /\
  spans (schema_rule is_chunk_terminator body (doc ex_cp_P) ex_cp_P) = [(8, 11); (10, 13)] /\
  spans (R (doc ex_cp_P) ex_cp_P) = [(8, 11)] /\
  spans (R (doc ex_cp_D) ex_cp_D) = [(2, 4); (6, 8)] /\
  spans (R (doc (ex_cp_P ++ ex_cp_D)) (ex_cp_P ++ ex_cp_D)) = [(8, 11); (23, 25); (27, 29)] /\
  Rg (doc (ex_cp_P ++ ex_cp_D)) (ex_cp_P ++ ex_cp_D) = R (doc (ex_cp_P ++ ex_cp_D)) (ex_cp_P ++ ex_cp_D) /\
  forallb (fun c => match hull c with
                    | Some sp => wf_pairb (rel_chunk (sstart sp) c) (slice (ex_cp_P ++ ex_cp_D) (sstart sp) (send sp))
                    | None => false
                    end) (iter_chunks (doc (ex_cp_P ++ ex_cp_D))) = true.
Proof. exact currency_example. Qed.

(* the unrestricted g0_inside is FALSE for the faithful body: `5$` as two zero-width tokens at the end of a one-character
   slice reports 1..1 (start < 1 fails) — a pair `lift` never produces on Document tokens *)
Example C12_currency_needs_wf :
  let cur (t : ParaSplit.tok) (_ : text) := true in let wrong (_ : text) (_ _ : nat) := true in
  cp_body cur wrong [ParaSplit.mktok (mkspan 1 1) ParaSplit.KNumber; ParaSplit.mktok (mkspan 1 1) ParaSplit.KPunct] [53%N]
  = [mklint (mkspan 1 1) 63] /\
  ~ g0_inside (cp_body cur wrong).
Proof. exact cp_body_needs_wf. Qed.

(* non-vacuity of the blanket body on a Document: `to hope on it.` blank line, pattern = a word and the two tokens behind it *)
Example C12_pattern_body_nonvacuous :
  let spans := map (fun l => (lstart l, lend l)) in
  let doc := doc_tokens c12_ascii_uni ex_pat_P in
  let b1 := pat_body ex_matches (fun _ _ => Some (SelTok 2, 7)) in
  let b2 := pat_body ex_matches (fun _ _ => Some (SelHull 0 None, 7)) in
  g0_inside_wf b1 /\ g0_inside_wf b2 /\
  spans (schema_rule is_chunk_terminator b1 doc ex_pat_P) = [(3, 7); (11, 13)] /\
  spans (schema_rule is_chunk_terminator b2 doc ex_pat_P) = [(0, 7); (8, 13)] /\
  schema_rule is_chunk_terminator (guard_wf b2) doc ex_pat_P = schema_rule is_chunk_terminator b2 doc ex_pat_P.
Proof. exact pattern_example. Qed.
