(* C11 — Rule switches do exactly what they say.
   This file pins the statements; it contains nothing but `exact`.

   Reading guide.  `lint_group` is LintGroup::lint as written (miss path of the chunk cache; the hit path is
   C05's theorem).  `lint_tagged` is the same computation with every lint tagged by the name of the rule
   that produced it and without the pull_by/push_by re-basing; `lint_spec = map snd lint_tagged`.
   C11_decompose says the two coincide whenever pattern lints lie at or after the start of their chunk
   (`rel_ok`; C03_rebase_in_bounds), and C11_rebase_panics says what happens otherwise.  A `group` carries
   the configuration and the two rule maps; `g_with_cfg g c` swaps the configuration. *)
From Coq Require Import List Arith NArith Bool Permutation Lia.
Require Import Base Tables_rules.
Require Import LintGroupCfg LintGroupCfgProofs LintGroupCfgJson C11History.
Require Import C11Curated C11CuratedProofs C11Cache C11CacheProofs C11ChunkKey C11ChunkKeyProofs.
Require Cache CacheProofs.
Require Import C11JsonValue Tables_c11routes C11JsonValueProofs.
Import ListNotations.

(* ---- the dispatch ---- *)

(* lint(cfg, doc) = the struct rules in key order, each gated by is_rule_enabled, followed, chunk by chunk,
   by the pattern rules in key order, each gated by is_rule_enabled; never a panic, nothing else applied
   (in particular NOT remove_overlaps) *)
Theorem C11_decompose : forall (body doc chunk srule prule : Type)
    (chunks : doc -> list chunk) (chunk_start : chunk -> option nat)
    (run_struct : srule -> doc -> list (glint body)) (run_pat : prule -> doc -> chunk -> list (glint body))
    (g : group srule prule) (d : doc),
  rel_ok chunks chunk_start run_pat g d ->
  lint_group chunks chunk_start run_struct run_pat g d = Ok (lint_spec chunks chunk_start run_struct run_pat g d) /\
  lint_spec chunks chunk_start run_struct run_pat g d
  = flat_map (fun e => if is_rule_enabled (g_cfg g) (fst e) then run_struct (snd e) d else []) (g_linters g)
    ++ flat_map (fun ch => match chunk_start ch with
                           | None => []
                           | Some _ => flat_map (fun e => if is_rule_enabled (g_cfg g) (fst e) then run_pat (snd e) d ch else [])
                                                (g_patterns g)
                           end) (chunks d).
Proof. exact (fun body doc chunk srule prule chunks chunk_start run_struct run_pat g d H =>
  conj (lint_group_ok body doc chunk srule prule chunks chunk_start run_struct run_pat g d H)
       (lint_spec_formula body doc chunk srule prule chunks chunk_start run_struct run_pat g d)). Qed.
Check C11_decompose : forall (body doc chunk srule prule : Type)
    (chunks : doc -> list chunk) (chunk_start : chunk -> option nat)
    (run_struct : srule -> doc -> list (glint body)) (run_pat : prule -> doc -> chunk -> list (glint body))
    (g : group srule prule) (d : doc),
  rel_ok chunks chunk_start run_pat g d ->
  lint_group chunks chunk_start run_struct run_pat g d = Ok (lint_spec chunks chunk_start run_struct run_pat g d) /\
  lint_spec chunks chunk_start run_struct run_pat g d
  = flat_map (fun e => if is_rule_enabled (g_cfg g) (fst e) then run_struct (snd e) d else []) (g_linters g)
    ++ flat_map (fun ch => match chunk_start ch with
                           | None => []
                           | Some _ => flat_map (fun e => if is_rule_enabled (g_cfg g) (fst e) then run_pat (snd e) d ch else [])
                                                (g_patterns g)
                           end) (chunks d).
Print Assumptions C11_decompose.

(* the premise of C11_decompose is sharp: an ENABLED pattern rule that reports a lint before the start of
   its chunk makes lint panic (usize underflow in pull_by, debug builds) — so enabling such a rule would
   change every other rule's output; a disabled one is harmless *)
Theorem C11_rebase_panics : forall (body doc chunk srule prule : Type)
    (chunks : doc -> list chunk) (chunk_start : chunk -> option nat)
    (run_struct : srule -> doc -> list (glint body)) (run_pat : prule -> doc -> chunk -> list (glint body))
    (g : group srule prule) (d : doc) e ch st l,
  In e (g_patterns g) -> is_rule_enabled (g_cfg g) (fst e) = true -> In ch (chunks d) -> chunk_start ch = Some st ->
  In l (run_pat (snd e) d ch) -> (sstart (gl_span l) < st \/ send (gl_span l) < st) ->
  lint_group chunks chunk_start run_struct run_pat g d = Panic PUnderflow.
Proof. exact lint_group_panics. Qed.
Check C11_rebase_panics : forall (body doc chunk srule prule : Type)
    (chunks : doc -> list chunk) (chunk_start : chunk -> option nat)
    (run_struct : srule -> doc -> list (glint body)) (run_pat : prule -> doc -> chunk -> list (glint body))
    (g : group srule prule) (d : doc) e ch st l,
  In e (g_patterns g) -> is_rule_enabled (g_cfg g) (fst e) = true -> In ch (chunks d) -> chunk_start ch = Some st ->
  In l (run_pat (snd e) d ch) -> (sstart (gl_span l) < st \/ send (gl_span l) < st) ->
  lint_group chunks chunk_start run_struct run_pat g d = Panic PUnderflow.
Print Assumptions C11_rebase_panics.

(* a rule that is switched off contributes no lints: every lint of the result was produced by a registered
   rule whose switch is on, run on this document (resp. on one of its non-empty chunks) *)
Theorem C11_disabled_silent : forall (body doc chunk srule prule : Type)
    (chunks : doc -> list chunk) (chunk_start : chunk -> option nat)
    (run_struct : srule -> doc -> list (glint body)) (run_pat : prule -> doc -> chunk -> list (glint body))
    (g : group srule prule) (d : doc) r l,
  In (r, l) (lint_tagged chunks chunk_start run_struct run_pat g d) ->
  is_rule_enabled (g_cfg g) r = true /\
  ((exists rule, In (r, rule) (g_linters g) /\ In l (run_struct rule d)) \/
   (exists rule ch, In (r, rule) (g_patterns g) /\ In ch (chunks d) /\ chunk_start ch <> None /\ In l (run_pat rule d ch))).
Proof. exact lint_tagged_provenance. Qed.
Check C11_disabled_silent : forall (body doc chunk srule prule : Type)
    (chunks : doc -> list chunk) (chunk_start : chunk -> option nat)
    (run_struct : srule -> doc -> list (glint body)) (run_pat : prule -> doc -> chunk -> list (glint body))
    (g : group srule prule) (d : doc) r l,
  In (r, l) (lint_tagged chunks chunk_start run_struct run_pat g d) ->
  is_rule_enabled (g_cfg g) r = true /\
  ((exists rule, In (r, rule) (g_linters g) /\ In l (run_struct rule d)) \/
   (exists rule ch, In (r, rule) (g_patterns g) /\ In ch (chunks d) /\ chunk_start ch <> None /\ In l (run_pat rule d ch))).
Print Assumptions C11_disabled_silent.

(* as multisets, lint(cfg) is the union over the switches that are on of lint(only that switch).
   `switches g` lists each registered name once, even a name registered in BOTH maps (today: Intact) *)
Theorem C11_union : forall (body doc chunk srule prule : Type)
    (chunks : doc -> list chunk) (chunk_start : chunk -> option nat)
    (run_struct : srule -> doc -> list (glint body)) (run_pat : prule -> doc -> chunk -> list (glint body))
    (g : group srule prule) (d : doc),
  Permutation (lint_spec chunks chunk_start run_struct run_pat g d)
              (flat_map (fun r => lint_spec chunks chunk_start run_struct run_pat (g_with_cfg g (only r)) d)
                        (enabled_switches g)).
Proof. exact lint_spec_union. Qed.
Check C11_union : forall (body doc chunk srule prule : Type)
    (chunks : doc -> list chunk) (chunk_start : chunk -> option nat)
    (run_struct : srule -> doc -> list (glint body)) (run_pat : prule -> doc -> chunk -> list (glint body))
    (g : group srule prule) (d : doc),
  Permutation (lint_spec chunks chunk_start run_struct run_pat g d)
              (flat_map (fun r => lint_spec chunks chunk_start run_struct run_pat (g_with_cfg g (only r)) d)
                        (enabled_switches g)).
Print Assumptions C11_union.

(* any split of the enabled set into two configurations *)
Theorem C11_partition : forall (body doc chunk srule prule : Type)
    (chunks : doc -> list chunk) (chunk_start : chunk -> option nat)
    (run_struct : srule -> doc -> list (glint body)) (run_pat : prule -> doc -> chunk -> list (glint body))
    (g : group srule prule) (c c1 c2 : config) (d : doc),
  (forall k, In k (g_iter_keys g) ->
     is_rule_enabled c k = is_rule_enabled c1 k || is_rule_enabled c2 k /\
     is_rule_enabled c1 k && is_rule_enabled c2 k = false) ->
  Permutation (lint_tagged chunks chunk_start run_struct run_pat (g_with_cfg g c) d)
              (lint_tagged chunks chunk_start run_struct run_pat (g_with_cfg g c1) d
               ++ lint_tagged chunks chunk_start run_struct run_pat (g_with_cfg g c2) d).
Proof. exact lint_tagged_partition. Qed.
Check C11_partition : forall (body doc chunk srule prule : Type)
    (chunks : doc -> list chunk) (chunk_start : chunk -> option nat)
    (run_struct : srule -> doc -> list (glint body)) (run_pat : prule -> doc -> chunk -> list (glint body))
    (g : group srule prule) (c c1 c2 : config) (d : doc),
  (forall k, In k (g_iter_keys g) ->
     is_rule_enabled c k = is_rule_enabled c1 k || is_rule_enabled c2 k /\
     is_rule_enabled c1 k && is_rule_enabled c2 k = false) ->
  Permutation (lint_tagged chunks chunk_start run_struct run_pat (g_with_cfg g c) d)
              (lint_tagged chunks chunk_start run_struct run_pat (g_with_cfg g c1) d
               ++ lint_tagged chunks chunk_start run_struct run_pat (g_with_cfg g c2) d).
Print Assumptions C11_partition.

(* toggling r never changes another rule's output: two configurations that agree on every switch but r
   give the same lints — same values, same order — once r's own lints are removed; r's own lints, when it
   is on, are exactly what `only r` gives; when it is off there are none *)
Theorem C11_toggle_local : forall (body doc chunk srule prule : Type)
    (chunks : doc -> list chunk) (chunk_start : chunk -> option nat)
    (run_struct : srule -> doc -> list (glint body)) (run_pat : prule -> doc -> chunk -> list (glint body))
    (g : group srule prule) (c1 c2 : config) (d : doc) (r : key),
  (forall k, k <> r -> is_rule_enabled c1 k = is_rule_enabled c2 k) ->
  filter (not_tag body r) (lint_tagged chunks chunk_start run_struct run_pat (g_with_cfg g c1) d)
  = filter (not_tag body r) (lint_tagged chunks chunk_start run_struct run_pat (g_with_cfg g c2) d) /\
  (is_rule_enabled c1 r = true ->
     filter (is_tag body r) (lint_tagged chunks chunk_start run_struct run_pat (g_with_cfg g c1) d)
     = lint_tagged chunks chunk_start run_struct run_pat (g_with_cfg g (only r)) d) /\
  (is_rule_enabled c1 r = false ->
     filter (is_tag body r) (lint_tagged chunks chunk_start run_struct run_pat (g_with_cfg g c1) d) = []).
Proof. exact (fun body doc chunk srule prule chunks chunk_start run_struct run_pat g c1 c2 d r H =>
  conj (toggle_others_unchanged body doc chunk srule prule chunks chunk_start run_struct run_pat g c1 c2 d r H)
  (conj (toggle_self body doc chunk srule prule chunks chunk_start run_struct run_pat g c1 d r)
        (toggle_off_self body doc chunk srule prule chunks chunk_start run_struct run_pat g c1 d r))). Qed.
Check C11_toggle_local : forall (body doc chunk srule prule : Type)
    (chunks : doc -> list chunk) (chunk_start : chunk -> option nat)
    (run_struct : srule -> doc -> list (glint body)) (run_pat : prule -> doc -> chunk -> list (glint body))
    (g : group srule prule) (c1 c2 : config) (d : doc) (r : key),
  (forall k, k <> r -> is_rule_enabled c1 k = is_rule_enabled c2 k) ->
  filter (not_tag body r) (lint_tagged chunks chunk_start run_struct run_pat (g_with_cfg g c1) d)
  = filter (not_tag body r) (lint_tagged chunks chunk_start run_struct run_pat (g_with_cfg g c2) d) /\
  (is_rule_enabled c1 r = true ->
     filter (is_tag body r) (lint_tagged chunks chunk_start run_struct run_pat (g_with_cfg g c1) d)
     = lint_tagged chunks chunk_start run_struct run_pat (g_with_cfg g (only r)) d) /\
  (is_rule_enabled c1 r = false ->
     filter (is_tag body r) (lint_tagged chunks chunk_start run_struct run_pat (g_with_cfg g c1) d) = []).
Print Assumptions C11_toggle_local.

(* unknown rule names are harmless: lint sees the configuration only through is_rule_enabled on the
   registered names — so setting, unsetting or nulling any other key changes nothing (panics included) *)
Theorem C11_unknown_harmless : forall (body doc chunk srule prule : Type)
    (chunks : doc -> list chunk) (chunk_start : chunk -> option nat)
    (run_struct : srule -> doc -> list (glint body)) (run_pat : prule -> doc -> chunk -> list (glint body))
    (g : group srule prule) (c1 c2 : config) (d : doc),
  (forall k, In k (g_iter_keys g) -> is_rule_enabled c1 k = is_rule_enabled c2 k) ->
  lint_group chunks chunk_start run_struct run_pat (g_with_cfg g c1) d
  = lint_group chunks chunk_start run_struct run_pat (g_with_cfg g c2) d.
Proof. exact lint_group_ext. Qed.
Check C11_unknown_harmless : forall (body doc chunk srule prule : Type)
    (chunks : doc -> list chunk) (chunk_start : chunk -> option nat)
    (run_struct : srule -> doc -> list (glint body)) (run_pat : prule -> doc -> chunk -> list (glint body))
    (g : group srule prule) (c1 c2 : config) (d : doc),
  (forall k, In k (g_iter_keys g) -> is_rule_enabled c1 k = is_rule_enabled c2 k) ->
  lint_group chunks chunk_start run_struct run_pat (g_with_cfg g c1) d
  = lint_group chunks chunk_start run_struct run_pat (g_with_cfg g c2) d.
Print Assumptions C11_unknown_harmless.

(* ... instantiated: a key that names no rule can be set to anything, or removed *)
Theorem C11_unknown_key_ops : forall (c : config) (u k : key) (b : bool), wf c -> k <> u ->
  is_rule_enabled (set_rule_enabled u b c) k = is_rule_enabled c k /\
  is_rule_enabled (unset_rule_enabled u c) k = is_rule_enabled c k /\
  is_rule_enabled (set_rule_enabled_if_unset u b c) k = is_rule_enabled c k.
Proof. exact unknown_key_ops. Qed.
Check C11_unknown_key_ops : forall (c : config) (u k : key) (b : bool), wf c -> k <> u ->
  is_rule_enabled (set_rule_enabled u b c) k = is_rule_enabled c k /\
  is_rule_enabled (unset_rule_enabled u c) k = is_rule_enabled c k /\
  is_rule_enabled (set_rule_enabled_if_unset u b c) k = is_rule_enabled c k.
Print Assumptions C11_unknown_key_ops.

(* the save / fill_with_curated / lint / restore sequence of harper-ls and harper-wasm leaves the stored
   configuration (and the rule maps) untouched and lints under the overlaid configuration *)
Theorem C11_temp_overlay_restores : forall (body doc chunk srule prule : Type)
    (chunks : doc -> list chunk) (chunk_start : chunk -> option nat)
    (run_struct : srule -> doc -> list (glint body)) (run_pat : prule -> doc -> chunk -> list (glint body))
    (cur : config) (g : group srule prule) (d : doc),
  lint_with_curated_overlay chunks chunk_start run_struct run_pat cur g d
  = (g, lint_group chunks chunk_start run_struct run_pat (g_with_cfg g (fill_with_curated cur (g_cfg g))) d).
Proof. exact overlay_restores. Qed.
Check C11_temp_overlay_restores : forall (body doc chunk srule prule : Type)
    (chunks : doc -> list chunk) (chunk_start : chunk -> option nat)
    (run_struct : srule -> doc -> list (glint body)) (run_pat : prule -> doc -> chunk -> list (glint body))
    (cur : config) (g : group srule prule) (d : doc),
  lint_with_curated_overlay chunks chunk_start run_struct run_pat cur g d
  = (g, lint_group chunks chunk_start run_struct run_pat (g_with_cfg g (fill_with_curated cur (g_cfg g))) d).
Print Assumptions C11_temp_overlay_restores.

(* ---- the configuration algebra ---- *)

(* every operation keeps the BTreeMap invariant (so `wf` premises below are satisfiable along any history) *)
Theorem C11_ops_preserve_wf : forall (c o : config) (k : key) (b : bool), wf c ->
  wf (set_rule_enabled k b c) /\ wf (unset_rule_enabled k c) /\ wf (set_rule_enabled_if_unset k b c) /\
  wf (clear c) /\ wf (fst (merge_from c o)) /\ (wf o -> wf (snd (merge_from c o))) /\ wf (fill_with_curated c o).
Proof. exact ops_preserve_wf. Qed.
Check C11_ops_preserve_wf : forall (c o : config) (k : key) (b : bool), wf c ->
  wf (set_rule_enabled k b c) /\ wf (unset_rule_enabled k c) /\ wf (set_rule_enabled_if_unset k b c) /\
  wf (clear c) /\ wf (fst (merge_from c o)) /\ (wf o -> wf (snd (merge_from c o))) /\ wf (fill_with_curated c o).
Print Assumptions C11_ops_preserve_wf.

(* what each operation does to a lookup *)
Theorem C11_ops_spec : forall (c : config) (k k' : key) (b : bool), wf c ->
  get k' (set_rule_enabled k b c) = (if keqb k' k then Some (Some b) else get k' c) /\
  get k' (unset_rule_enabled k c) = (if keqb k' k then None else get k' c) /\
  get k' (set_rule_enabled_if_unset k b c)
    = (if keqb k' k then match get k c with Some v => Some v | None => Some (Some b) end else get k' c) /\
  get k' (clear c) = match get k' c with Some _ => Some None | None => None end /\
  is_rule_enabled (clear c) k' = false.
Proof. exact ops_spec. Qed.
Check C11_ops_spec : forall (c : config) (k k' : key) (b : bool), wf c ->
  get k' (set_rule_enabled k b c) = (if keqb k' k then Some (Some b) else get k' c) /\
  get k' (unset_rule_enabled k c) = (if keqb k' k then None else get k' c) /\
  get k' (set_rule_enabled_if_unset k b c)
    = (if keqb k' k then match get k c with Some v => Some v | None => Some (Some b) end else get k' c) /\
  get k' (clear c) = match get k' c with Some _ => Some None | None => None end /\
  is_rule_enabled (clear c) k' = false.
Print Assumptions C11_ops_spec.

(* merge_from is right-biased on explicit values, skips None, is idempotent, leaves the source cleared (keys
   kept, all values None), and a cleared source merges as nothing *)
Theorem C11_merge : forall (a b : config) (k : key), wf a -> wf b ->
  get k (fst (merge_from a b)) = match get k b with Some (Some v) => Some (Some v) | _ => get k a end /\
  snd (merge_from a b) = clear b /\
  fst (merge_from a a) = a /\
  fst (merge_from (fst (merge_from a b)) b) = fst (merge_from a b) /\
  fst (merge_from (fst (merge_from a b)) (snd (merge_from a b))) = fst (merge_from a b).
Proof. exact merge_spec. Qed.
Check C11_merge : forall (a b : config) (k : key), wf a -> wf b ->
  get k (fst (merge_from a b)) = match get k b with Some (Some v) => Some (Some v) | _ => get k a end /\
  snd (merge_from a b) = clear b /\
  fst (merge_from a a) = a /\
  fst (merge_from (fst (merge_from a b)) b) = fst (merge_from a b) /\
  fst (merge_from (fst (merge_from a b)) (snd (merge_from a b))) = fst (merge_from a b).
Print Assumptions C11_merge.

(* explicit choices win in every merge order: after merging c1 .. cn into base, a key holds the value of
   the LAST ci that sets it explicitly, else what base held *)
Theorem C11_merge_last_wins : forall (base : config) (cs : list config) (k : key), Forall wf cs ->
  get k (merge_seq base cs) = match last_explicit k cs with Some v => Some (Some v) | None => get k base end.
Proof. exact get_merge_seq. Qed.
Check C11_merge_last_wins : forall (base : config) (cs : list config) (k : key), Forall wf cs ->
  get k (merge_seq base cs) = match last_explicit k cs with Some v => Some (Some v) | None => get k base end.
Print Assumptions C11_merge_last_wins.

(* fill_with_curated: an explicit user choice wins; a key the user left out or set to null takes the
   curated value; idempotent.  Second part: over the GENERATED rule table — every rule of new_curated takes
   its real default *)
Theorem C11_overlay : forall (cur u : config) (k : key), wf cur -> wf u ->
  get k (fill_with_curated cur u) = match get k u with Some (Some v) => Some (Some v) | _ => get k cur end /\
  fill_with_curated cur (fill_with_curated cur u) = fill_with_curated cur u.
Proof. exact (fun cur u k Hc Hu => conj (get_fill cur u k Hu) (fill_idem cur u Hc Hu)). Qed.
Check C11_overlay : forall (cur u : config) (k : key), wf cur -> wf u ->
  get k (fill_with_curated cur u) = match get k u with Some (Some v) => Some (Some v) | _ => get k cur end /\
  fill_with_curated cur (fill_with_curated cur u) = fill_with_curated cur u.
Print Assumptions C11_overlay.

Theorem C11_overlay_curated : forall (u : config) (k : key) (dflt : bool), wf u ->
  In (k, dflt) (curated_struct_rules ++ curated_pattern_rules) ->
  is_rule_enabled (fill_with_curated curated_cfg u) k = match get k u with Some (Some b) => b | _ => dflt end.
Proof. exact overlay_curated. Qed.
Check C11_overlay_curated : forall (u : config) (k : key) (dflt : bool), wf u ->
  In (k, dflt) (curated_struct_rules ++ curated_pattern_rules) ->
  is_rule_enabled (fill_with_curated curated_cfg u) k = match get k u with Some (Some b) => b | _ => dflt end.
Print Assumptions C11_overlay_curated.

(* harper-wasm keeps ONE configuration for the life of the Linter: it starts as clear(curated); every
   set_lint_config_from_json/_object clears it and merges the given object into it (wasm_set_config, code since
   b67a243); lint overlays the curated defaults.  After ANY history us ++ [u] of settings objects: (1) the
   overlaid configuration lint runs under is exactly that of the last object alone; (2) so a switch is u's
   explicit choice, else the curated value — a null or absent entry takes an earlier choice back; (3) a Linter
   never configured lints under the curated configuration; (4) set(get()) is the identity; (5) the stored
   configuration keeps listing every curated rule *)
Theorem C11_wasm_history : forall (cur : config) (us : list config) (u : config) (k : key),
  wf cur -> Forall wf us -> wf u ->
  fill_with_curated cur (wasm_seq (clear cur) (us ++ [u])) = fill_with_curated cur u /\
  (get k (fill_with_curated cur (wasm_seq (clear cur) (us ++ [u])))
    = match get k u with Some (Some v) => Some (Some v) | _ => get k cur end) /\
  fill_with_curated cur (wasm_seq (clear cur) []) = cur /\
  fst (wasm_set_config (wasm_seq (clear cur) us) (wasm_seq (clear cur) us)) = wasm_seq (clear cur) us /\
  (contains_key k cur = true -> contains_key k (wasm_seq (clear cur) (us ++ [u])) = true).
Proof. exact wasm_history_spec. Qed.
Check C11_wasm_history : forall (cur : config) (us : list config) (u : config) (k : key),
  wf cur -> Forall wf us -> wf u ->
  fill_with_curated cur (wasm_seq (clear cur) (us ++ [u])) = fill_with_curated cur u /\
  (get k (fill_with_curated cur (wasm_seq (clear cur) (us ++ [u])))
    = match get k u with Some (Some v) => Some (Some v) | _ => get k cur end) /\
  fill_with_curated cur (wasm_seq (clear cur) []) = cur /\
  fst (wasm_set_config (wasm_seq (clear cur) us) (wasm_seq (clear cur) us)) = wasm_seq (clear cur) us /\
  (contains_key k cur = true -> contains_key k (wasm_seq (clear cur) (us ++ [u])) = true).
Print Assumptions C11_wasm_history.

(* ... over the GENERATED rule table: every real rule is what the LAST settings object says, else its real
   default.  This is the statement finding FC11a refuted before the fix *)
Theorem C11_wasm_history_curated : forall (us : list config) (u : config) (k : key) (dflt : bool), wf u ->
  In (k, dflt) (curated_struct_rules ++ curated_pattern_rules) ->
  is_rule_enabled (fill_with_curated curated_cfg (wasm_seq (clear curated_cfg) (us ++ [u]))) k
  = match get k u with Some (Some b) => b | _ => dflt end.
Proof. exact wasm_history_curated. Qed.
Check C11_wasm_history_curated : forall (us : list config) (u : config) (k : key) (dflt : bool), wf u ->
  In (k, dflt) (curated_struct_rules ++ curated_pattern_rules) ->
  is_rule_enabled (fill_with_curated curated_cfg (wasm_seq (clear curated_cfg) (us ++ [u]))) k
  = match get k u with Some (Some b) => b | _ => dflt end.
Print Assumptions C11_wasm_history_curated.

(* HISTORY, not the current code (History/C11History.v): before b67a243 the Linter merged without clearing
   (wasm_seq_old): SpellCheck switched off by u1 and left null by u2 stayed off — finding FC11a, fixed; the
   same history under the current model gives the curated default *)
Theorem C11_wasm_null_reset_old_refuted :
  exists (u1 u2 : config) (k : key),
    wf u1 /\ wf u2 /\ get k u2 = Some None /\
    is_rule_enabled (fill_with_curated curated_cfg u2) k = true /\
    is_rule_enabled (fill_with_curated curated_cfg (wasm_seq_old (clear curated_cfg) [u1; u2])) k = false /\
    is_rule_enabled (fill_with_curated curated_cfg (wasm_seq (clear curated_cfg) [u1; u2])) k = true.
Proof. exact wasm_null_reset_old_refuted. Qed.
Check C11_wasm_null_reset_old_refuted :
  exists (u1 u2 : config) (k : key),
    wf u1 /\ wf u2 /\ get k u2 = Some None /\
    is_rule_enabled (fill_with_curated curated_cfg u2) k = true /\
    is_rule_enabled (fill_with_curated curated_cfg (wasm_seq_old (clear curated_cfg) [u1; u2])) k = false /\
    is_rule_enabled (fill_with_curated curated_cfg (wasm_seq (clear curated_cfg) [u1; u2])) k = true.
Print Assumptions C11_wasm_null_reset_old_refuted.

(* the generated table is what the theorems assume of it: both rule maps and the curated config are
   BTreeMaps, every curated value is explicit, a name listed in both maps carries one default, every
   config key is a registered name, and no rule name contains U+0000/U+0001 *)
Theorem C11_curated_table_ok : table_ok = true.
Proof. exact table_ok_true. Qed.
Check C11_curated_table_ok : table_ok = true.
Print Assumptions C11_curated_table_ok.

(* LintGroup::new_curated as the statements it executes.  Tables_rules.v carries the statement sequences of
   new_curated and of the three lint_group() functions it merges (transliterated from the sources, macros
   expanded); Model/C11Curated.v executes them with g_add / g_add_pattern / g_merge_from / g_set_all_rules_to /
   set_rule_enabled (new_curated_model; program_cfg = its configuration, program_names = its iter_keys()).
   (1) the execution yields exactly the rule tables and the configuration all theorems above are stated over
   (so the translator's own simulation is a checked witness, no longer trusted); (2) every registered rule has
   exactly one curated default, an explicit one; (3) the keys of new_curated's configuration are exactly the
   registered names; (4) fill_with_curated assigns exactly those: a registered name gets the user's explicit choice
   else its default, any other key only what the user said explicitly; (5) the proper-noun sub-group, which the
   code fills in HashMap iteration order, merges to the same group in EVERY order (adds = add_pattern_linter) *)
Theorem C11_new_curated_program :
  (program_cfg = curated_cfg /\
   map fst (g_linters new_curated_model) = map fst curated_struct_rules /\
   map fst (g_patterns new_curated_model) = map fst curated_pattern_rules /\
   program_names = curated_names) /\
  (forall k, In k program_names ->
     exists b, get k program_cfg = Some (Some b) /\ forall v, get k program_cfg = Some v -> v = Some b) /\
  (forall k, contains_key k program_cfg = true <-> In k program_names) /\
  (forall (u : config) k, wf u ->
     (In k program_names -> exists dflt, get k program_cfg = Some (Some dflt) /\
        is_rule_enabled (fill_with_curated program_cfg u) k = match get k u with Some (Some b) => b | _ => dflt end) /\
     (~ In k program_names ->
        get k (fill_with_curated program_cfg u) = match get k u with Some (Some b) => Some (Some b) | _ => None end)) /\
  (forall (ns' : list key) (g : ugroup), Permutation proper_names ns' ->
     run_tstmt g (TMerge (adds ns' ++ [RSetAll (Some true)]))
     = run_tstmt g (TMerge curated_sub_proper_noun_capitalization_linters)).
Proof. exact new_curated_program. Qed.
Check C11_new_curated_program :
  (program_cfg = curated_cfg /\
   map fst (g_linters new_curated_model) = map fst curated_struct_rules /\
   map fst (g_patterns new_curated_model) = map fst curated_pattern_rules /\
   program_names = curated_names) /\
  (forall k, In k program_names ->
     exists b, get k program_cfg = Some (Some b) /\ forall v, get k program_cfg = Some v -> v = Some b) /\
  (forall k, contains_key k program_cfg = true <-> In k program_names) /\
  (forall (u : config) k, wf u ->
     (In k program_names -> exists dflt, get k program_cfg = Some (Some dflt) /\
        is_rule_enabled (fill_with_curated program_cfg u) k = match get k u with Some (Some b) => b | _ => dflt end) /\
     (~ In k program_names ->
        get k (fill_with_curated program_cfg u) = match get k u with Some (Some b) => Some (Some b) | _ => None end)) /\
  (forall (ns' : list key) (g : ugroup), Permutation proper_names ns' ->
     run_tstmt g (TMerge (adds ns' ++ [RSetAll (Some true)]))
     = run_tstmt g (TMerge curated_sub_proper_noun_capitalization_linters)).
Print Assumptions C11_new_curated_program.

(* ---- the dispatch WITH the chunk cache, on a long-lived LintGroup (joint statement with C05) ---- *)

(* Model/C11Cache.v is LintGroup::lint with chunk_pattern_cache: key = (chunk_key d ch, cfg_hash config) where chunk_key
   stands for (chunk characters, token hash); get -> clone on a hit; on a miss the enabled pattern rules, pull_by, put;
   push_by for both.  The LRU may lose ANY entries before ANY lookup (evs: one keep-predicate per chunk of every
   lint call), the rule maps are fixed, the configuration is replaced at will (HSetCfg).  Hypotheses, as in
   C05_refinement: the configuration hash is injective on the configurations the history uses (hash_inj_on), and the
   chunk component of the key determines what each pattern rule reports relative to the chunk start (rel_fun_on:
   C05's rule_fun + token-hash injectivity).  Then on EVERY history from an empty cache, any two lint calls i, j
   of a document d under configurations that agree on every switch but r answer exactly the cache-free
   specification, and, r's own lints removed, the same lints in the same order: toggling r never changes the lints
   of any r' <> r, warm cache or not, whatever was evicted in between.  (rel_ok d: no pattern lint of d before its
   chunk start — C03; without it both calls panic alike, see run_hist_spec.) *)
Theorem C11_toggle_warm_cache : forall (body doc chunk srule prule : Type) (chunks : doc -> list chunk) (chunk_start : chunk -> option nat)
    (run_struct : srule -> doc -> list (glint body)) (run_pat : prule -> doc -> chunk -> list (glint body))
    (CK HK : Type) (ck_eqb : CK -> CK -> bool) (hk_eqb : HK -> HK -> bool) (chunk_key : doc -> chunk -> CK)
    (cfg_hash : config -> HK),
  (forall a b : CK, ck_eqb a b = true -> a = b) ->
  (forall a b : HK, hk_eqb a b = true -> a = b) ->
  forall (g : group srule prule) (P : config -> Prop) (D : doc -> Prop),
  hash_inj_on HK cfg_hash P ->
  rel_fun_on body doc chunk srule prule chunks chunk_start run_pat CK chunk_key g D ->
  forall (h : list (hop doc CK HK)) (cfg0 : config) (i j : nat) (ci cj : config) (d : doc) (r : key),
  (forall c' : config, In (HSetCfg c') h -> P c') -> P cfg0 ->
  (forall (d0 : doc) (evs : list (ckey CK HK -> bool)), In (HLint d0 evs) h -> D d0) ->
  nth_error (trace doc CK HK h cfg0) i = Some (ci, d) ->
  nth_error (trace doc CK HK h cfg0) j = Some (cj, d) ->
  (forall k : key, k <> r -> is_rule_enabled ci k = is_rule_enabled cj k) ->
  rel_ok chunks chunk_start run_pat g d ->
  nth_error (run_hist body doc chunk srule prule chunks chunk_start run_struct run_pat CK HK ck_eqb hk_eqb chunk_key cfg_hash
               g h cfg0 []) i
    = Some (Ok (map snd (lint_tagged chunks chunk_start run_struct run_pat (g_with_cfg g ci) d))) /\
  nth_error (run_hist body doc chunk srule prule chunks chunk_start run_struct run_pat CK HK ck_eqb hk_eqb chunk_key cfg_hash
               g h cfg0 []) j
    = Some (Ok (map snd (lint_tagged chunks chunk_start run_struct run_pat (g_with_cfg g cj) d))) /\
  filter (not_tag body r) (lint_tagged chunks chunk_start run_struct run_pat (g_with_cfg g ci) d) =
  filter (not_tag body r) (lint_tagged chunks chunk_start run_struct run_pat (g_with_cfg g cj) d).
Proof. exact toggle_warm. Qed.
Check C11_toggle_warm_cache : forall (body doc chunk srule prule : Type) (chunks : doc -> list chunk) (chunk_start : chunk -> option nat)
    (run_struct : srule -> doc -> list (glint body)) (run_pat : prule -> doc -> chunk -> list (glint body))
    (CK HK : Type) (ck_eqb : CK -> CK -> bool) (hk_eqb : HK -> HK -> bool) (chunk_key : doc -> chunk -> CK)
    (cfg_hash : config -> HK),
  (forall a b : CK, ck_eqb a b = true -> a = b) ->
  (forall a b : HK, hk_eqb a b = true -> a = b) ->
  forall (g : group srule prule) (P : config -> Prop) (D : doc -> Prop),
  hash_inj_on HK cfg_hash P ->
  rel_fun_on body doc chunk srule prule chunks chunk_start run_pat CK chunk_key g D ->
  forall (h : list (hop doc CK HK)) (cfg0 : config) (i j : nat) (ci cj : config) (d : doc) (r : key),
  (forall c' : config, In (HSetCfg c') h -> P c') -> P cfg0 ->
  (forall (d0 : doc) (evs : list (ckey CK HK -> bool)), In (HLint d0 evs) h -> D d0) ->
  nth_error (trace doc CK HK h cfg0) i = Some (ci, d) ->
  nth_error (trace doc CK HK h cfg0) j = Some (cj, d) ->
  (forall k : key, k <> r -> is_rule_enabled ci k = is_rule_enabled cj k) ->
  rel_ok chunks chunk_start run_pat g d ->
  nth_error (run_hist body doc chunk srule prule chunks chunk_start run_struct run_pat CK HK ck_eqb hk_eqb chunk_key cfg_hash
               g h cfg0 []) i
    = Some (Ok (map snd (lint_tagged chunks chunk_start run_struct run_pat (g_with_cfg g ci) d))) /\
  nth_error (run_hist body doc chunk srule prule chunks chunk_start run_struct run_pat CK HK ck_eqb hk_eqb chunk_key cfg_hash
               g h cfg0 []) j
    = Some (Ok (map snd (lint_tagged chunks chunk_start run_struct run_pat (g_with_cfg g cj) d))) /\
  filter (not_tag body r) (lint_tagged chunks chunk_start run_struct run_pat (g_with_cfg g ci) d) =
  filter (not_tag body r) (lint_tagged chunks chunk_start run_struct run_pat (g_with_cfg g cj) d).
Print Assumptions C11_toggle_warm_cache.

(* ... with a hasher that separates sequences of Hasher::write calls (hash_calls, the model of impl Hash; injective
   by C11_hash_separates) nothing is assumed about the hash: this is the instance the correspondence runs *)
Theorem C11_toggle_warm_cache_calls : forall (body doc chunk srule prule : Type) (chunks : doc -> list chunk) (chunk_start : chunk -> option nat)
    (run_struct : srule -> doc -> list (glint body)) (run_pat : prule -> doc -> chunk -> list (glint body))
    (CK : Type) (ck_eqb : CK -> CK -> bool) (chunk_key : doc -> chunk -> CK)
    (g : group srule prule) (D : doc -> Prop) (h : list (hop doc CK (list (list N)))) (cfg0 : config) (i j : nat)
    (ci cj : config) (d : doc) (r : key),
  (forall a b : CK, ck_eqb a b = true -> a = b) ->
  rel_fun_on body doc chunk srule prule chunks chunk_start run_pat CK chunk_key g D ->
  (forall d0 evs, In (HLint d0 evs) h -> D d0) ->
  nth_error (trace doc CK (list (list N)) h cfg0) i = Some (ci, d) ->
  nth_error (trace doc CK (list (list N)) h cfg0) j = Some (cj, d) ->
  (forall k : key, k <> r -> is_rule_enabled ci k = is_rule_enabled cj k) ->
  rel_ok chunks chunk_start run_pat g d ->
  nth_error (run_hist body doc chunk srule prule chunks chunk_start run_struct run_pat CK (list (list N)) ck_eqb hk_eqb_calls chunk_key hash_calls
               g h cfg0 []) i
    = Some (Ok (map snd (lint_tagged chunks chunk_start run_struct run_pat (g_with_cfg g ci) d))) /\
  nth_error (run_hist body doc chunk srule prule chunks chunk_start run_struct run_pat CK (list (list N)) ck_eqb hk_eqb_calls chunk_key hash_calls
               g h cfg0 []) j
    = Some (Ok (map snd (lint_tagged chunks chunk_start run_struct run_pat (g_with_cfg g cj) d))) /\
  filter (not_tag body r) (lint_tagged chunks chunk_start run_struct run_pat (g_with_cfg g ci) d) =
  filter (not_tag body r) (lint_tagged chunks chunk_start run_struct run_pat (g_with_cfg g cj) d).
Proof. exact toggle_warm_calls. Qed.
Check C11_toggle_warm_cache_calls : forall (body doc chunk srule prule : Type) (chunks : doc -> list chunk) (chunk_start : chunk -> option nat)
    (run_struct : srule -> doc -> list (glint body)) (run_pat : prule -> doc -> chunk -> list (glint body))
    (CK : Type) (ck_eqb : CK -> CK -> bool) (chunk_key : doc -> chunk -> CK)
    (g : group srule prule) (D : doc -> Prop) (h : list (hop doc CK (list (list N)))) (cfg0 : config) (i j : nat)
    (ci cj : config) (d : doc) (r : key),
  (forall a b : CK, ck_eqb a b = true -> a = b) ->
  rel_fun_on body doc chunk srule prule chunks chunk_start run_pat CK chunk_key g D ->
  (forall d0 evs, In (HLint d0 evs) h -> D d0) ->
  nth_error (trace doc CK (list (list N)) h cfg0) i = Some (ci, d) ->
  nth_error (trace doc CK (list (list N)) h cfg0) j = Some (cj, d) ->
  (forall k : key, k <> r -> is_rule_enabled ci k = is_rule_enabled cj k) ->
  rel_ok chunks chunk_start run_pat g d ->
  nth_error (run_hist body doc chunk srule prule chunks chunk_start run_struct run_pat CK (list (list N)) ck_eqb hk_eqb_calls chunk_key hash_calls
               g h cfg0 []) i
    = Some (Ok (map snd (lint_tagged chunks chunk_start run_struct run_pat (g_with_cfg g ci) d))) /\
  nth_error (run_hist body doc chunk srule prule chunks chunk_start run_struct run_pat CK (list (list N)) ck_eqb hk_eqb_calls chunk_key hash_calls
               g h cfg0 []) j
    = Some (Ok (map snd (lint_tagged chunks chunk_start run_struct run_pat (g_with_cfg g cj) d))) /\
  filter (not_tag body r) (lint_tagged chunks chunk_start run_struct run_pat (g_with_cfg g ci) d) =
  filter (not_tag body r) (lint_tagged chunks chunk_start run_struct run_pat (g_with_cfg g cj) d).
Print Assumptions C11_toggle_warm_cache_calls.

(* a configuration survives a JSON round trip unchanged — ALL keys (any byte string, control characters,
   quotes and backslashes included), all three values *)
Theorem C11_json_roundtrip : forall c : config, wf c -> parse_cfg (print_cfg c) = Some c.
Proof. exact json_roundtrip. Qed.
Check C11_json_roundtrip : forall c : config, wf c -> parse_cfg (print_cfg c) = Some c.
Print Assumptions C11_json_roundtrip.

(* the config component of the cache key.  As a sequence of Hasher::write calls it determines the
   configuration; as a flat byte stream (a Hasher may ignore call boundaries) it does so for keys without
   the bytes 0x00/0x01 — all registered rule names (C11_curated_table_ok) — and NOT in general: the impl
   writes key bytes without length or terminator *)
Theorem C11_hash_separates : forall c1 c2 : config,
  (hash_calls c1 = hash_calls c2 -> c1 = c2) /\
  (cfg_clean c1 = true -> cfg_clean c2 = true -> hash_bytes c1 = hash_bytes c2 -> c1 = c2).
Proof. exact (fun c1 c2 => conj (hash_calls_inj c1 c2) (hash_bytes_inj_clean c1 c2)). Qed.
Check C11_hash_separates : forall c1 c2 : config,
  (hash_calls c1 = hash_calls c2 -> c1 = c2) /\
  (cfg_clean c1 = true -> cfg_clean c2 = true -> hash_bytes c1 = hash_bytes c2 -> c1 = c2).
Print Assumptions C11_hash_separates.

Theorem C11_hash_stream_refuted : exists c1 c2 : config,
  wf c1 /\ wf c2 /\ c1 <> c2 /\ hash_bytes c1 = hash_bytes c2 /\
  is_rule_enabled c1 [98%N] = true /\ is_rule_enabled c2 [98%N] = false.
Proof. exact (ex_intro _ hash_witness_1 (ex_intro _ hash_witness_2 hash_bytes_ambiguous)). Qed.
Check C11_hash_stream_refuted : exists c1 c2 : config,
  wf c1 /\ wf c2 /\ c1 <> c2 /\ hash_bytes c1 = hash_bytes c2 /\
  is_rule_enabled c1 [98%N] = true /\ is_rule_enabled c2 [98%N] = false.
Print Assumptions C11_hash_stream_refuted.

(* LintGroup::add / add_pattern_linter keep the two rule maps disjoint; LintGroup::merge_from does not
   (BTreeMap::extend, no contains_key test): one switch can drive a struct rule and a pattern rule *)
Theorem C11_one_switch_two_rules : exists (g o : group nat nat) (k : key),
  g_contains_key o k = true /\
  contains_key k (g_linters (fst (g_merge_from g o))) = true /\
  contains_key k (g_patterns (fst (g_merge_from g o))) = true.
Proof. exact one_switch_two_rules. Qed.
Check C11_one_switch_two_rules : exists (g o : group nat nat) (k : key),
  g_contains_key o k = true /\
  contains_key k (g_linters (fst (g_merge_from g o))) = true /\
  contains_key k (g_patterns (fst (g_merge_from g o))) = true.
Print Assumptions C11_one_switch_two_rules.

(* ---- non-vacuity ---- *)
Definition ex_key (s : list nat) : key := map N.of_nat s.
Definition ex_g : group (list (glint nat)) (list (list (glint nat))) :=
  mkgroup [(ex_key [65], Some true); (ex_key [66], Some false); (ex_key [67], None); (ex_key [90], Some true)]
          [(ex_key [65], [mkglint (mkspan 0 3) 1]); (ex_key [66], [mkglint (mkspan 1 2) 2])]
          [(ex_key [65], [[mkglint (mkspan 0 1) 3]; [mkglint (mkspan 6 8) 4]]);
           (ex_key [67], [[]; [mkglint (mkspan 5 6) 5]])].
Definition ex_chunks : list (nat * option nat) := [(0, Some 0); (1, Some 5); (2, None)].
(* rel_ok holds, the name A is in both maps, B is off, C is null, Z is unknown; lint = A's struct lint,
   then A's two pattern lints; and enabling C would put a lint before its chunk start? no: 5 >= 5 *)
Example C11_nonvacuous :
  rel_ok (fun d : list (nat * option nat) => d) snd d_run_pat ex_g ex_chunks /\
  lint_group (fun d : list (nat * option nat) => d) snd d_run_struct d_run_pat ex_g ex_chunks
  = Ok [mkglint (mkspan 0 3) 1; mkglint (mkspan 0 1) 3; mkglint (mkspan 6 8) 4] /\
  enabled_switches ex_g = [ex_key [65]] /\
  wf (g_cfg ex_g) /\
  parse_cfg (print_cfg (g_cfg ex_g)) = Some (g_cfg ex_g).
Proof.
  split.
  - intros e ch st l He Hch Hst Hl. cbn in He, Hch.
    destruct He as [<-|[<-|[]]]; destruct Hch as [<-|[<-|[<-|[]]]]; cbn in Hst; try discriminate;
      injection Hst as <-; cbn in Hl; repeat (destruct Hl as [<-|Hl]; [cbn; lia|]); destruct Hl.
  - repeat split; vm_compute; reflexivity.
Qed.
(* C11_wasm_history on a non-trivial history over the real table: SpellCheck off + an unknown key on, then
   SpellCheck null, then an object that does not mention it: on again (default), the stored configuration still
   lists it (null) and the unknown key (null); an explicit off in the last object is obeyed *)
Example C11_wasm_nonvacuous :
  let u1 := [(k_SpellCheck, Some false); (ex_key [90], Some true)] in
  let u2 := [(k_SpellCheck, None)] in
  let u3 := [(ex_key [90], Some false)] in
  wf u1 /\ wf u2 /\ wf u3 /\
  is_rule_enabled (fill_with_curated curated_cfg (wasm_seq (clear curated_cfg) [u1])) k_SpellCheck = false /\
  is_rule_enabled (fill_with_curated curated_cfg (wasm_seq (clear curated_cfg) [u1; u2])) k_SpellCheck = true /\
  is_rule_enabled (fill_with_curated curated_cfg (wasm_seq (clear curated_cfg) [u1; u2; u3])) k_SpellCheck = true /\
  get k_SpellCheck (wasm_seq (clear curated_cfg) [u1; u2; u3]) = Some None /\
  get (ex_key [90]) (wasm_seq (clear curated_cfg) [u1; u2]) = Some None /\
  is_rule_enabled (fill_with_curated curated_cfg (wasm_seq (clear curated_cfg) [u2; u3; u1])) k_SpellCheck = false.
Proof. cbv zeta. repeat split; vm_compute; reflexivity. Qed.
(* the premise of C11_rebase_panics is satisfiable: the same group with C switched on and C's second-chunk
   lint moved before the chunk start *)
Example C11_panic_nonvacuous :
  lint_group (fun d : list (nat * option nat) => d) snd d_run_struct d_run_pat
    (mkgroup [(ex_key [67], Some true)] [] [(ex_key [67], [[]; [mkglint (mkspan 4 6) 5]])]) ex_chunks
  = Panic PUnderflow.
Proof. vm_compute. reflexivity. Qed.
(* the JSON parser accepts more than the printer emits: whitespace, \u escapes incl. a surrogate pair,
   \/ , a duplicate key (the later value wins) *)
Example C11_json_parser_nonvacuous :
  parse_cfg (map N.of_nat [32; 123; 34; 92; 117; 48; 48; 52; 49; 34; 32; 58; 32; 116; 114; 117; 101; 44; 10;
                           34; 65; 34; 58; 110; 117; 108; 108; 44;
                           34; 92; 117; 68; 56; 51; 68; 92; 117; 100; 101; 48; 48; 92; 47; 34; 58; 102; 97; 108; 115; 101; 125; 32])
  = Some [(ex_key [65], None); (ex_key [240; 159; 152; 128; 47], Some false)].
Proof. vm_compute. reflexivity. Qed.
(* C11_new_curated_program is about something: SpellCheck is registered (default on), SpelledNumbers defaults to
   off, Intact ends up in BOTH maps, "Zed" is no rule and fill leaves it absent, an explicit user "off" wins; the
   proper-noun group has more than one rule and its statements in reverse order build the same group *)
Example C11_new_curated_program_nonvacuous :
  In k_SpellCheck program_names /\ get k_SpellCheck program_cfg = Some (Some true) /\
  get (ex_key [83; 112; 101; 108; 108; 101; 100; 78; 117; 109; 98; 101; 114; 115]) program_cfg = Some (Some false) /\
  contains_key (ex_key [73; 110; 116; 97; 99; 116]) (g_linters new_curated_model) = true /\
  contains_key (ex_key [73; 110; 116; 97; 99; 116]) (g_patterns new_curated_model) = true /\
  get (ex_key [90; 101; 100]) (fill_with_curated program_cfg [(k_SpellCheck, Some false)]) = None /\
  is_rule_enabled (fill_with_curated program_cfg [(k_SpellCheck, Some false)]) k_SpellCheck = false /\
  2 <= length proper_names /\ rev proper_names <> proper_names /\
  run_sub (adds (rev proper_names) ++ [RSetAll (Some true)]) = run_sub curated_sub_proper_noun_capitalization_linters.
Proof.
  split; [apply (proj1 (existsb_keqb k_SpellCheck program_names)); vm_compute; reflexivity|].
  split; [vm_compute; reflexivity|]. split; [vm_compute; reflexivity|]. split; [vm_compute; reflexivity|].
  split; [vm_compute; reflexivity|]. split; [vm_compute; reflexivity|]. split; [vm_compute; reflexivity|].
  split; [apply Nat.leb_le; vm_compute; reflexivity|]. split; [vm_compute; discriminate|]. vm_compute; reflexivity.
Qed.
(* C11_toggle_warm_cache(_calls) on data: two documents; the chunk with key id 7 occurs in document 0 at offset 0 and in document 1 at offset 4; struct rule A,
   pattern rule B (same lint relative to the chunk start in both places).  History: lint d0; A off; lint d1 (chunk 7 is a
   HIT from d0's entry); A on; lint d1 with everything evicted before its second chunk; lint d1 (all hits).  The
   hypotheses hold, the outputs are computed: B's lint (5,6) is the same in steps 1, 2, 3; A's comes and goes *)
Definition exh_d0 : hdoc := (0, [(0, Some 0, 7)]).
Definition exh_d1 : hdoc := (1, [(0, Some 0, 8); (1, Some 4, 7)]).
Definition exh_g : hgroup :=
  h_build [AStruct (ex_key [65]) [[mkglint (mkspan 0 1) 1]; [mkglint (mkspan 2 3) 1]];
           APattern (ex_key [66]) [[[mkglint (mkspan 1 2) 2]]; [[]; [mkglint (mkspan 5 6) 2]]]].
Definition exh_on : config := [(ex_key [65], Some true); (ex_key [66], Some true)].
Definition exh_off : config := [(ex_key [65], Some false); (ex_key [66], Some true)].
Definition exh_h : list (hop hdoc nat (list (list N))) :=
  [HLint exh_d0 []; HSetCfg exh_off; HLint exh_d1 []; HSetCfg exh_on; HLint exh_d1 [fun _ => true; fun _ => false]; HLint exh_d1 []].
Example C11_toggle_warm_nonvacuous :
  rel_fun_on nat hdoc hchunk hsrule hprule h_chunks h_start h_run_pat nat h_key exh_g (fun d => In d [exh_d0; exh_d1]) /\
  rel_ok h_chunks h_start h_run_pat exh_g exh_d1 /\
  trace hdoc nat (list (list N)) exh_h exh_on = [(exh_on, exh_d0); (exh_off, exh_d1); (exh_on, exh_d1); (exh_on, exh_d1)] /\
  run_hist nat hdoc hchunk hsrule hprule h_chunks h_start h_run_struct h_run_pat nat (list (list N)) Nat.eqb hk_eqb_calls
    h_key hash_calls exh_g exh_h exh_on []
  = [Ok [mkglint (mkspan 0 1) 1; mkglint (mkspan 1 2) 2];
     Ok [mkglint (mkspan 5 6) 2];
     Ok [mkglint (mkspan 2 3) 1; mkglint (mkspan 5 6) 2];
     Ok [mkglint (mkspan 2 3) 1; mkglint (mkspan 5 6) 2]].
Proof.
  split; [|split; [|split]].
  - intros d d' ch ch' st st' e Dd Dd' Hc Hc' Hk Hs Hs' He.
    cbn in He. destruct He as [<-|[]].
    destruct Dd as [<-|[<-|[]]]; destruct Dd' as [<-|[<-|[]]]; cbn in Hc, Hc';
      repeat (destruct Hc as [<-|Hc]; [|try contradiction]); repeat (destruct Hc' as [<-|Hc']; [|try contradiction]);
      cbn in Hk, Hs, Hs'; try discriminate; injection Hs as <-; injection Hs' as <-; vm_compute; reflexivity.
  - intros e ch st l He Hch Hst Hl. cbn in He. destruct He as [<-|[]]. cbn in Hch.
    destruct Hch as [<-|[<-|[]]]; cbn in Hst; injection Hst as <-; cbn in Hl; repeat (destruct Hl as [<-|Hl]; [cbn; lia|]); destruct Hl.
  - vm_compute. reflexivity.
  - vm_compute. reflexivity.
Qed.

(* ================================================================================================ *)
(* phase 4: the OTHER serialisation routes — harper-ls Config::from_lsp_config (serde_json::Value)   *)
(* and the two harper-wasm setters (Model/C11JsonValue.v, Tables_c11routes.v)                        *)
(* ================================================================================================ *)
(* `nf` is serde_json's f64 range check on a grammatical number literal (third-party floating point): a
   parameter WITHOUT hypothesis — everything below holds for every instance. *)

(* whatever serde_json::from_str::<LintGroupConfig> accepts, from_str::<Value> followed by from_value (the route
   of Config::from_lsp_config) accepts too, and yields the SAME configuration; hence the two routes never
   disagree on a text both accept *)
Theorem C11_value_route_of_typed : forall (nf : list N -> bool) (s : list N) (c : config),
  parse_cfg s = Some c ->
  value_text_route nf s = Some c /\ (forall c2, value_text_route nf s = Some c2 -> c = c2).
Proof. exact (fun nf s c H => conj (value_route_of_typed nf s c H) (fun c2 => routes_agree nf s c c2 H)). Qed.
Check C11_value_route_of_typed : forall (nf : list N -> bool) (s : list N) (c : config),
  parse_cfg s = Some c ->
  value_text_route nf s = Some c /\ (forall c2, value_text_route nf s = Some c2 -> c = c2).
Print Assumptions C11_value_route_of_typed.

(* the converse fails: {"b":-0,"b":true} is refused by the typed parser and accepted by the Value route
   (serde_json::Map::insert drops the earlier duplicate before its type is looked at) *)
Theorem C11_value_route_converse_refuted :
  parse_cfg lenient_text = None /\
  value_text_route (fun _ => true) lenient_text = Some [([98%N], Some true)].
Proof. exact value_route_more_lenient. Qed.
Check C11_value_route_converse_refuted :
  parse_cfg lenient_text = None /\
  value_text_route (fun _ => true) lenient_text = Some [([98%N], Some true)].
Print Assumptions C11_value_route_converse_refuted.

(* a configuration survives the print / Value-route round trip unchanged (ALL keys), as a text and as a Value *)
Theorem C11_value_route_roundtrip : forall (nf : list N -> bool) (c : config), wf c ->
  value_text_route nf (print_cfg c) = Some c /\ from_value (cfg_value c) = Some c.
Proof. exact (fun nf c Hw => conj (value_route_roundtrip nf c Hw) (from_value_cfg_value c Hw)). Qed.
Check C11_value_route_roundtrip : forall (nf : list N -> bool) (c : config), wf c ->
  value_text_route nf (print_cfg c) = Some c /\ from_value (cfg_value c) = Some c.
Print Assumptions C11_value_route_roundtrip.

(* serde_json::from_value::<LintGroupConfig>, exactly: a Value is accepted iff it is an object ALL of whose values
   are null / true / false (any keys — unknown rule names are kept, never dropped); the result is the object itself
   (null -> unset); a number, string, array or object as a value, or a non-object, is REJECTED, never ignored *)
Theorem C11_from_value_exact :
  (forall v : jvalue, from_value v =
     match v with
     | JObj m => if forallb (fun e => is_leaf (snd e)) m then Some (extend [] (unlift m)) else None
     | _ => None
     end) /\
  (forall (m : list (key * jvalue)) (c : config), wf m -> from_value (JObj m) = Some c ->
     c = unlift m /\ forall k, get k c = match get k m with Some v => Some (opt_of_value v) | None => None end) /\
  (forall (m : list (key * jvalue)) e, In e m -> is_leaf (snd e) = false -> from_value (JObj m) = None).
Proof. exact (conj from_value_exact (conj from_value_sorted from_value_rejects)). Qed.
Check C11_from_value_exact :
  (forall v : jvalue, from_value v =
     match v with
     | JObj m => if forallb (fun e => is_leaf (snd e)) m then Some (extend [] (unlift m)) else None
     | _ => None
     end) /\
  (forall (m : list (key * jvalue)) (c : config), wf m -> from_value (JObj m) = Some c ->
     c = unlift m /\ forall k, get k c = match get k m with Some v => Some (opt_of_value v) | None => None end) /\
  (forall (m : list (key * jvalue)) e, In e m -> is_leaf (snd e) = false -> from_value (JObj m) = None).
Print Assumptions C11_from_value_exact.

(* Config::from_lsp_config over the key list GENERATED from config.rs: {"harper-ls":{"linters": Value of c}} configures
   exactly c; a member of the "harper-ls" object whose key from_lsp_config does not read changes nothing; a value in
   "linters" that is neither a boolean nor null makes from_lsp_config fail (harper-ls then keeps its previous Config) *)
Theorem C11_lsp_settings :
  (forall c : config, wf c -> lsp_lint_config lsp_other_keys (settings_of [(k_linters, cfg_value c)]) = LCfg c) /\
  (forall (h : list (key * jvalue)) k v, ~ In k lsp_config_keys ->
     lsp_lint_config lsp_other_keys (settings_of (insert k v h)) = lsp_lint_config lsp_other_keys (settings_of h)) /\
  (forall (m : list (key * jvalue)) e, In e m -> is_leaf (snd e) = false ->
     lsp_lint_config lsp_other_keys (settings_of [(k_linters, JObj m)]) = LBail).
Proof. exact (conj lsp_linters_value (conj lsp_unknown_key_ignored lsp_rejects_non_boolean)). Qed.
Check C11_lsp_settings :
  (forall c : config, wf c -> lsp_lint_config lsp_other_keys (settings_of [(k_linters, cfg_value c)]) = LCfg c) /\
  (forall (h : list (key * jvalue)) k v, ~ In k lsp_config_keys ->
     lsp_lint_config lsp_other_keys (settings_of (insert k v h)) = lsp_lint_config lsp_other_keys (settings_of h)) /\
  (forall (m : list (key * jvalue)) e, In e m -> is_leaf (snd e) = false ->
     lsp_lint_config lsp_other_keys (settings_of [(k_linters, JObj m)]) = LBail).
Print Assumptions C11_lsp_settings.

(* harper-wasm: the bodies of set_lint_config_from_json AND set_lint_config_from_object, statement by statement as
   generated from lib.rs, both compute wasm_set_config (clear, then merge_from) — the function C11_wasm_history is about.
   set_lint_config_from_object cannot be executed natively (serde_wasm_bindgen); this obligation fails to compile when
   either body changes (e.g. the clear() is dropped again) *)
Theorem C11_wasm_routes_are_set : forall stored parsed : config,
  run_wbody wasm_set_from_json_body stored None parsed = Some (wasm_set_config stored parsed) /\
  run_wbody wasm_set_from_object_body stored None parsed = Some (wasm_set_config stored parsed) /\
  wbody_parser wasm_set_from_json_body = Some WFromJsonStr /\
  wbody_parser wasm_set_from_object_body = Some WFromJsObject.
Proof. exact wasm_routes_are_set. Qed.
Check C11_wasm_routes_are_set : forall stored parsed : config,
  run_wbody wasm_set_from_json_body stored None parsed = Some (wasm_set_config stored parsed) /\
  run_wbody wasm_set_from_object_body stored None parsed = Some (wasm_set_config stored parsed) /\
  wbody_parser wasm_set_from_json_body = Some WFromJsonStr /\
  wbody_parser wasm_set_from_object_body = Some WFromJsObject.
Print Assumptions C11_wasm_routes_are_set.

(* the fuel of the Value parser (2·|text|+2) is never the reason for a refusal: every larger fuel gives the same
   Value or the same refusal — so `None` always means serde_json refuses the TEXT (syntax, number out of range,
   nesting deeper than 127) *)
Theorem C11_value_parser_fuel_stable : forall (nf : list N -> bool) (s : list N) (f : nat),
  json_fuel s <= f -> pval nf f 128 s = pval nf (json_fuel s) 128 s.
Proof. exact parse_json_fuel_stable. Qed.
Check C11_value_parser_fuel_stable : forall (nf : list N -> bool) (s : list N) (f : nat),
  json_fuel s <= f -> pval nf f 128 s = pval nf (json_fuel s) 128 s.
Print Assumptions C11_value_parser_fuel_stable.

(* non-vacuity: a text with whitespace, \u escapes in both hex cases and a duplicate key is accepted by the typed
   parser (the hypothesis of C11_value_route_of_typed) and by the Value route; complete settings texts through
   from_str::<Value> + from_lsp_config: unknown member with numbers / nesting ignored, duplicate rule key (later wins),
   another known key (outside the model), a number as a rule value (bail), no "linters" (default), a trailing comma *)
Definition ex_typed_text : list N := (*  { "aé" : true ,\n"b":null, "aé":false }  *)
  [32; 123; 32; 34; 97; 92; 117; 48; 48; 101; 57; 34; 32; 58; 32; 116; 114; 117; 101; 32; 44; 10; 34; 98; 34; 58; 110; 117; 108; 108; 44; 32; 34; 97; 92; 117; 48; 48; 69; 57; 34; 58; 102; 97; 108; 115; 101; 32; 125; 32]%N.
Definition ex_settings_ok : list N := (* {"harper-ls":{"foo":[1,{"a":-2.5e3}],"linters":{"SpellCheck":false, "xA":null,"SpellCheck":true}}} *)
  [123; 34; 104; 97; 114; 112; 101; 114; 45; 108; 115; 34; 58; 123; 34; 102; 111; 111; 34; 58; 91; 49; 44; 123; 34; 97; 34; 58; 45; 50; 46; 53; 101; 51; 125; 93; 44; 34; 108; 105; 110; 116; 101; 114; 115; 34; 58; 123; 34; 83; 112; 101; 108; 108; 67; 104; 101; 99; 107; 34; 58; 102; 97; 108; 115; 101; 44; 32; 34; 120; 92; 117; 48; 48; 52; 49; 34; 58; 110; 117; 108; 108; 44; 34; 83; 112; 101; 108; 108; 67; 104; 101; 99; 107; 34; 58; 116; 114; 117; 101; 125; 125; 125]%N.
Definition ex_settings_other : list N := (* {"harper-ls":{"dialect":"British","linters":{}}} *)
  [123; 34; 104; 97; 114; 112; 101; 114; 45; 108; 115; 34; 58; 123; 34; 100; 105; 97; 108; 101; 99; 116; 34; 58; 34; 66; 114; 105; 116; 105; 115; 104; 34; 44; 34; 108; 105; 110; 116; 101; 114; 115; 34; 58; 123; 125; 125; 125]%N.
Definition ex_settings_num : list N := (* {"harper-ls":{"linters":{"SpellCheck":1}}} *)
  [123; 34; 104; 97; 114; 112; 101; 114; 45; 108; 115; 34; 58; 123; 34; 108; 105; 110; 116; 101; 114; 115; 34; 58; 123; 34; 83; 112; 101; 108; 108; 67; 104; 101; 99; 107; 34; 58; 49; 125; 125; 125]%N.
Definition ex_settings_none : list N := (*  {"harper-ls":{"Linters":{"a":true}},"x":null}  *)
  [32; 123; 34; 104; 97; 114; 112; 101; 114; 45; 108; 115; 34; 58; 123; 34; 76; 105; 110; 116; 101; 114; 115; 34; 58; 123; 34; 97; 34; 58; 116; 114; 117; 101; 125; 125; 44; 34; 120; 34; 58; 110; 117; 108; 108; 125; 32]%N.
Definition ex_settings_bad : list N := (* {"harper-ls":{"linters":{"a":true,}}} *)
  [123; 34; 104; 97; 114; 112; 101; 114; 45; 108; 115; 34; 58; 123; 34; 108; 105; 110; 116; 101; 114; 115; 34; 58; 123; 34; 97; 34; 58; 116; 114; 117; 101; 44; 125; 125; 125]%N.
Definition ex_k_spell : key := [83; 112; 101; 108; 108; 67; 104; 101; 99; 107]%N.
Example C11_value_route_nonvacuous :
  parse_cfg ex_typed_text = Some [([97; 195; 169]%N, Some false); ([98]%N, None)] /\
  value_text_route (fun _ => true) ex_typed_text = Some [([97; 195; 169]%N, Some false); ([98]%N, None)] /\
  lsp_text_route (fun _ => true) lsp_other_keys ex_settings_ok = Some (LCfg [(ex_k_spell, Some true); ([120; 65]%N, None)]) /\
  lsp_text_route (fun _ => true) lsp_other_keys ex_settings_other = Some LOther /\
  lsp_text_route (fun _ => true) lsp_other_keys ex_settings_num = Some LBail /\
  lsp_text_route (fun _ => true) lsp_other_keys ex_settings_none = Some (LCfg []) /\
  lsp_text_route (fun _ => true) lsp_other_keys ex_settings_bad = None /\
  ~ In [102; 111; 111]%N lsp_config_keys /\
  from_value (JObj [([97]%N, JBool true); ([98]%N, JNum)]) = None /\
  from_value (JArr []) = None /\
  run_wbody [WParse WFromJsObject; WMerge; WOk] [(ex_k_spell, Some false)] None [(ex_k_spell, None)]
    <> Some (wasm_set_config [(ex_k_spell, Some false)] [(ex_k_spell, None)]).
Proof.
  repeat split; try (vm_compute; reflexivity).
  - vm_compute. intuition discriminate.
  - vm_compute. discriminate.
Qed.

(* ================================================================================================ *)
(* phase 5: the chunk component of the cache key made concrete (Model/C11ChunkKey.v over C05's       *)
(* Model/Cache.v): characters of the chunk's hull + hash of its tokens relative to the chunk start  *)
(* ================================================================================================ *)
(* A document is C05's `Cache.doc kind` (chunks of iter_chunks() with hull start, characters, tokens); a pattern rule
   is a function (chunk characters, relative tokens) -> chunk-relative lints, reported pushed by the chunk start
   (C05's pattern_rel, per rule).  Then BOTH dispatch hypotheses of C11_toggle_warm_cache are theorems: rel_fun_on
   follows from C05's token-hash hypothesis (`tok_hash_ok` = CacheProofs.tok_hash_inj_on over the chunks of the
   documents the history lints), rel_ok holds by construction.  What remains: the two hash hypotheses of C05. *)
Theorem C11_toggle_warm_cache_tokens : forall (body kind srule HK : Type) (tok_hash : list (Cache.tok kind) -> N)
    (run_struct : srule -> kdoc kind -> list (glint body)) (hk_eqb : HK -> HK -> bool) (cfg_hash : config -> HK)
    (g : group srule (kprule body kind)) (P : config -> Prop)
    (h : list (hop (kdoc kind) (text * N) HK)) (cfg0 : config) (i j : nat) (ci cj : config) (d : kdoc kind) (r : key),
  (forall a b : HK, hk_eqb a b = true -> a = b) ->
  hash_inj_on HK cfg_hash P ->
  CacheProofs.tok_hash_inj_on unit kind tok_hash (flat_map (Cache.doc_triples unit kind tt) (hist_docs h)) ->
  (forall c', In (HSetCfg c') h -> P c') -> P cfg0 ->
  nth_error (trace (kdoc kind) (text * N) HK h cfg0) i = Some (ci, d) ->
  nth_error (trace (kdoc kind) (text * N) HK h cfg0) j = Some (cj, d) ->
  (forall k : key, k <> r -> is_rule_enabled ci k = is_rule_enabled cj k) ->
  let out := run_hist body (kdoc kind) (kchunk kind) srule (kprule body kind) k_chunks k_start run_struct k_run_pat
               (text * N) HK kk_eqb hk_eqb (k_key tok_hash) cfg_hash g h cfg0 [] in
  nth_error out i = Some (Ok (map snd (lint_tagged k_chunks k_start run_struct k_run_pat (g_with_cfg g ci) d))) /\
  nth_error out j = Some (Ok (map snd (lint_tagged k_chunks k_start run_struct k_run_pat (g_with_cfg g cj) d))) /\
  filter (not_tag body r) (lint_tagged k_chunks k_start run_struct k_run_pat (g_with_cfg g ci) d) =
  filter (not_tag body r) (lint_tagged k_chunks k_start run_struct k_run_pat (g_with_cfg g cj) d).
Proof. exact toggle_warm_tokens. Qed.
Check C11_toggle_warm_cache_tokens : forall (body kind srule HK : Type) (tok_hash : list (Cache.tok kind) -> N)
    (run_struct : srule -> kdoc kind -> list (glint body)) (hk_eqb : HK -> HK -> bool) (cfg_hash : config -> HK)
    (g : group srule (kprule body kind)) (P : config -> Prop)
    (h : list (hop (kdoc kind) (text * N) HK)) (cfg0 : config) (i j : nat) (ci cj : config) (d : kdoc kind) (r : key),
  (forall a b : HK, hk_eqb a b = true -> a = b) ->
  hash_inj_on HK cfg_hash P ->
  CacheProofs.tok_hash_inj_on unit kind tok_hash (flat_map (Cache.doc_triples unit kind tt) (hist_docs h)) ->
  (forall c', In (HSetCfg c') h -> P c') -> P cfg0 ->
  nth_error (trace (kdoc kind) (text * N) HK h cfg0) i = Some (ci, d) ->
  nth_error (trace (kdoc kind) (text * N) HK h cfg0) j = Some (cj, d) ->
  (forall k : key, k <> r -> is_rule_enabled ci k = is_rule_enabled cj k) ->
  let out := run_hist body (kdoc kind) (kchunk kind) srule (kprule body kind) k_chunks k_start run_struct k_run_pat
               (text * N) HK kk_eqb hk_eqb (k_key tok_hash) cfg_hash g h cfg0 [] in
  nth_error out i = Some (Ok (map snd (lint_tagged k_chunks k_start run_struct k_run_pat (g_with_cfg g ci) d))) /\
  nth_error out j = Some (Ok (map snd (lint_tagged k_chunks k_start run_struct k_run_pat (g_with_cfg g cj) d))) /\
  filter (not_tag body r) (lint_tagged k_chunks k_start run_struct k_run_pat (g_with_cfg g ci) d) =
  filter (not_tag body r) (lint_tagged k_chunks k_start run_struct k_run_pat (g_with_cfg g cj) d).
Print Assumptions C11_toggle_warm_cache_tokens.

(* ... with the write-call hasher (hash_calls) the token hash is the ONLY hypothesis left: the instance stream Q runs *)
Theorem C11_toggle_warm_cache_tokens_calls : forall (body kind srule : Type) (tok_hash : list (Cache.tok kind) -> N)
    (run_struct : srule -> kdoc kind -> list (glint body)) (g : group srule (kprule body kind))
    (h : list (hop (kdoc kind) (text * N) (list (list N)))) (cfg0 : config) (i j : nat) (ci cj : config)
    (d : kdoc kind) (r : key),
  CacheProofs.tok_hash_inj_on unit kind tok_hash (flat_map (Cache.doc_triples unit kind tt) (hist_docs h)) ->
  nth_error (trace (kdoc kind) (text * N) (list (list N)) h cfg0) i = Some (ci, d) ->
  nth_error (trace (kdoc kind) (text * N) (list (list N)) h cfg0) j = Some (cj, d) ->
  (forall k : key, k <> r -> is_rule_enabled ci k = is_rule_enabled cj k) ->
  let out := run_hist body (kdoc kind) (kchunk kind) srule (kprule body kind) k_chunks k_start run_struct k_run_pat
               (text * N) (list (list N)) kk_eqb hk_eqb_calls (k_key tok_hash) hash_calls g h cfg0 [] in
  nth_error out i = Some (Ok (map snd (lint_tagged k_chunks k_start run_struct k_run_pat (g_with_cfg g ci) d))) /\
  nth_error out j = Some (Ok (map snd (lint_tagged k_chunks k_start run_struct k_run_pat (g_with_cfg g cj) d))) /\
  filter (not_tag body r) (lint_tagged k_chunks k_start run_struct k_run_pat (g_with_cfg g ci) d) =
  filter (not_tag body r) (lint_tagged k_chunks k_start run_struct k_run_pat (g_with_cfg g cj) d).
Proof. exact toggle_warm_tokens_calls. Qed.
Check C11_toggle_warm_cache_tokens_calls : forall (body kind srule : Type) (tok_hash : list (Cache.tok kind) -> N)
    (run_struct : srule -> kdoc kind -> list (glint body)) (g : group srule (kprule body kind))
    (h : list (hop (kdoc kind) (text * N) (list (list N)))) (cfg0 : config) (i j : nat) (ci cj : config)
    (d : kdoc kind) (r : key),
  CacheProofs.tok_hash_inj_on unit kind tok_hash (flat_map (Cache.doc_triples unit kind tt) (hist_docs h)) ->
  nth_error (trace (kdoc kind) (text * N) (list (list N)) h cfg0) i = Some (ci, d) ->
  nth_error (trace (kdoc kind) (text * N) (list (list N)) h cfg0) j = Some (cj, d) ->
  (forall k : key, k <> r -> is_rule_enabled ci k = is_rule_enabled cj k) ->
  let out := run_hist body (kdoc kind) (kchunk kind) srule (kprule body kind) k_chunks k_start run_struct k_run_pat
               (text * N) (list (list N)) kk_eqb hk_eqb_calls (k_key tok_hash) hash_calls g h cfg0 [] in
  nth_error out i = Some (Ok (map snd (lint_tagged k_chunks k_start run_struct k_run_pat (g_with_cfg g ci) d))) /\
  nth_error out j = Some (Ok (map snd (lint_tagged k_chunks k_start run_struct k_run_pat (g_with_cfg g cj) d))) /\
  filter (not_tag body r) (lint_tagged k_chunks k_start run_struct k_run_pat (g_with_cfg g ci) d) =
  filter (not_tag body r) (lint_tagged k_chunks k_start run_struct k_run_pat (g_with_cfg g cj) d).
Print Assumptions C11_toggle_warm_cache_tokens_calls.

(* the key the CODE computes (two checked usize subtractions per token feed the token hash) is the model's total key on
   every chunk of every document LintGroup::lint can build (Cache.doc_of: hull = min/max over the token ends): the key
   computation never panics; and in this instance no pattern lint lies before its chunk start (rel_ok) *)
Theorem C11_chunk_key_total : forall (body kind srule : Type) (tok_hash : list (Cache.tok kind) -> N)
    (g : group srule (kprule body kind)) (src : text) (chunks : list (list (Cache.tok kind))) (miss : list (span * text))
    (rest : N) (d : kdoc kind),
  Cache.doc_of src chunks miss rest = Ok d ->
  (forall oc, In oc (k_chunks d) -> k_key_checked tok_hash oc = Ok (k_key tok_hash d oc)) /\
  rel_ok k_chunks k_start k_run_pat g d.
Proof. exact (fun body kind srule tok_hash g src chunks miss rest d H =>
  conj (fun oc Hin => k_key_checked_doc_of kind tok_hash src chunks miss rest d oc H Hin) (k_rel_ok body kind srule g d)). Qed.
Check C11_chunk_key_total : forall (body kind srule : Type) (tok_hash : list (Cache.tok kind) -> N)
    (g : group srule (kprule body kind)) (src : text) (chunks : list (list (Cache.tok kind))) (miss : list (span * text))
    (rest : N) (d : kdoc kind),
  Cache.doc_of src chunks miss rest = Ok d ->
  (forall oc, In oc (k_chunks d) -> k_key_checked tok_hash oc = Ok (k_key tok_hash d oc)) /\
  rel_ok k_chunks k_start k_run_pat g d.
Print Assumptions C11_chunk_key_total.

(* on data: "ab cd, ab" (chunks `ab cd,` and ` ab`) and "x, ab" (chunks `x,`, an EMPTY token slice, ` ab`): the chunk
   ` ab` = [space (0,1); word (1,3)] relative, sits at offset 6 in document 0 and at offset 2 in document 1.  Kinds: 1 word
   (odd), 2 space, 4 comma.  Struct rule A, pattern rule B = word_rule "ab".  History: lint d0; A off; lint d1 (its ` ab` is a
   HIT from d0's entry, re-based to 3..5); A on; lint d1 with everything evicted before its last chunk; lint d1 *)
Definition exq_hash (ts : list (Cache.tok N)) : N :=
  fold_left (fun h t => (h * 1000 + fst t * 100 + N.of_nat (sstart (snd t)) * 10 + N.of_nat (send (snd t)))%N) ts 7%N.
Definition exq_tok (k : N) (a b : nat) : Cache.tok N := (k, mkspan a b).
Definition exq_srcs : list (text * list (list (Cache.tok N))) :=
  [([97; 98; 32; 99; 100; 44; 32; 97; 98]%N,
    [[exq_tok 1 0 2; exq_tok 2 2 3; exq_tok 1 3 5; exq_tok 4 5 6]; [exq_tok 2 6 7; exq_tok 1 7 9]]);
   ([120; 44; 32; 97; 98]%N,
    [[exq_tok 1 0 1; exq_tok 4 1 2]; []; [exq_tok 2 2 3; exq_tok 1 3 5]])].
Definition exq_docs : list (kdoc N) := match q_docs 0 exq_srcs with Ok l => l | Panic _ => [] end.
Definition exq_d0 : kdoc N := nth 0 exq_docs (Cache.mkdoc [] [] 0%N).
Definition exq_d1 : kdoc N := nth 1 exq_docs (Cache.mkdoc [] [] 0%N).
Definition exq_g : qgroup :=
  q_build [QStruct (ex_key [65]) [[mkglint (mkspan 0 1) 1]; [mkglint (mkspan 0 1) 1]]; QPattern (ex_key [66]) [97; 98]%N 2].
Definition exq_h : list (hop (kdoc N) (text * N) (list (list N))) :=
  [HLint exq_d0 []; HSetCfg exh_off; HLint exq_d1 []; HSetCfg exh_on;
   HLint exq_d1 [fun _ => true; fun _ => true; fun _ => false]; HLint exq_d1 []].
Example C11_toggle_warm_tokens_nonvacuous :
  q_docs 0 exq_srcs = Ok [exq_d0; exq_d1] /\
  map k_start (k_chunks exq_d1) = [Some 0; None; Some 2] /\
  k_key exq_hash exq_d0 (nth 1 (k_chunks exq_d0) None) = k_key exq_hash exq_d1 (nth 2 (k_chunks exq_d1) None) /\
  CacheProofs.tok_hash_inj_on unit N exq_hash (flat_map (Cache.doc_triples unit N tt) (hist_docs exq_h)) /\
  trace (kdoc N) (text * N) (list (list N)) exq_h exh_on = [(exh_on, exq_d0); (exh_off, exq_d1); (exh_on, exq_d1); (exh_on, exq_d1)] /\
  run_hist nat (kdoc N) (kchunk N) qsrule (kprule nat N) k_chunks k_start q_run_struct k_run_pat (text * N) (list (list N))
    kk_eqb hk_eqb_calls (k_key exq_hash) hash_calls exq_g exq_h exh_on []
  = [Ok [mkglint (mkspan 0 1) 1; mkglint (mkspan 0 2) 2; mkglint (mkspan 7 9) 2];
     Ok [mkglint (mkspan 3 5) 2];
     Ok [mkglint (mkspan 0 1) 1; mkglint (mkspan 3 5) 2];
     Ok [mkglint (mkspan 0 1) 1; mkglint (mkspan 3 5) 2]] /\
  map (fun x => snd (fst x)) (q_run exq_hash exq_g exq_docs [SLint 0; SLint 1] exh_on [])
  = [[([97; 98; 32; 99; 100; 44]%N, exq_hash [exq_tok 1 0 2; exq_tok 2 2 3; exq_tok 1 3 5; exq_tok 4 5 6]);
      ([32; 97; 98]%N, exq_hash [exq_tok 2 0 1; exq_tok 1 1 3])];
     [([120; 44]%N, exq_hash [exq_tok 1 0 1; exq_tok 4 1 2])]].
Proof.
  split; [vm_compute; reflexivity|]. split; [vm_compute; reflexivity|]. split; [vm_compute; reflexivity|].
  split; [|split; [vm_compute; reflexivity|split; vm_compute; reflexivity]].
  intros x y Hx Hy. vm_compute in Hx, Hy.
  repeat (destruct Hx as [<-|Hx]; [|try contradiction]);
    repeat (destruct Hy as [<-|Hy]; [|try contradiction]); vm_compute; intros E; try reflexivity; discriminate E.
Qed.

(* the token-hash hypothesis of C11_toggle_warm_cache_tokens is SHARP inside C11's dispatch: if the token hash collides on
   two token sequences over the same characters on which the enabled pattern rules report different lints, then on the
   history [lint d1; lint d2] (one chunk each, at offset 0) the long-lived group answers d2 with d1's pattern lints, which
   is not what the cache-free lint answers (C05_needs_tok_hash, restated for the gated per-rule dispatch) *)
Theorem C11_tokens_need_tok_hash : forall (body kind srule HK : Type) (tok_hash : list (Cache.tok kind) -> N)
    (run_struct : srule -> kdoc kind -> list (glint body)) (hk_eqb : HK -> HK -> bool) (cfg_hash : config -> HK)
    (g : group srule (kprule body kind)) (cfg : config) (chars : text) (t1 t2 : list (Cache.tok kind)),
  (forall a, hk_eqb a a = true) ->
  tok_hash t1 = tok_hash t2 ->
  let F := fun t => flat_map (fun e => if is_rule_enabled cfg (fst e) then snd e chars t else []) (g_patterns g) in
  F t1 <> F t2 ->
  let d1 := Cache.mkdoc [Some (Cache.mkchunk 0 chars t1)] [] 0%N in
  let d2 := Cache.mkdoc [Some (Cache.mkchunk 0 chars t2)] [] 0%N in
  let gc := g_with_cfg g cfg in
  run_hist body (kdoc kind) (kchunk kind) srule (kprule body kind) k_chunks k_start run_struct k_run_pat
    (text * N) HK kk_eqb hk_eqb (k_key tok_hash) cfg_hash g [HLint d1 []; HLint d2 []] cfg []
  = [Ok (struct_part run_struct gc d1 ++ F t1); Ok (struct_part run_struct gc d2 ++ F t1)] /\
  lint_group k_chunks k_start run_struct k_run_pat gc d2 = Ok (struct_part run_struct gc d2 ++ F t2) /\
  struct_part run_struct gc d2 ++ F t1 <> struct_part run_struct gc d2 ++ F t2.
Proof. exact tokens_need_tok_hash. Qed.
Check C11_tokens_need_tok_hash : forall (body kind srule HK : Type) (tok_hash : list (Cache.tok kind) -> N)
    (run_struct : srule -> kdoc kind -> list (glint body)) (hk_eqb : HK -> HK -> bool) (cfg_hash : config -> HK)
    (g : group srule (kprule body kind)) (cfg : config) (chars : text) (t1 t2 : list (Cache.tok kind)),
  (forall a, hk_eqb a a = true) ->
  tok_hash t1 = tok_hash t2 ->
  let F := fun t => flat_map (fun e => if is_rule_enabled cfg (fst e) then snd e chars t else []) (g_patterns g) in
  F t1 <> F t2 ->
  let d1 := Cache.mkdoc [Some (Cache.mkchunk 0 chars t1)] [] 0%N in
  let d2 := Cache.mkdoc [Some (Cache.mkchunk 0 chars t2)] [] 0%N in
  let gc := g_with_cfg g cfg in
  run_hist body (kdoc kind) (kchunk kind) srule (kprule body kind) k_chunks k_start run_struct k_run_pat
    (text * N) HK kk_eqb hk_eqb (k_key tok_hash) cfg_hash g [HLint d1 []; HLint d2 []] cfg []
  = [Ok (struct_part run_struct gc d1 ++ F t1); Ok (struct_part run_struct gc d2 ++ F t1)] /\
  lint_group k_chunks k_start run_struct k_run_pat gc d2 = Ok (struct_part run_struct gc d2 ++ F t2) /\
  struct_part run_struct gc d2 ++ F t1 <> struct_part run_struct gc d2 ++ F t2.
Print Assumptions C11_tokens_need_tok_hash.

(* its hypotheses are satisfiable: take a token hash that only counts tokens; the characters `ab` once as one WORD token
   (kind 1) and once as one non-word token (kind 2) collide; word_rule "ab" reports the first and not the second; the warm
   group reports (0,2) for the second document as well, lint_group reports nothing *)
Example C11_tokens_need_tok_hash_nonvacuous :
  let th := fun ts : list (Cache.tok N) => N.of_nat (length ts) in
  let g := q_build [QPattern (ex_key [66]) [97; 98]%N 2] in
  let cfg := [(ex_key [66], Some true)] in
  let d1 := Cache.mkdoc [Some (Cache.mkchunk 0 [97; 98]%N [exq_tok 1 0 2])] [] 0%N in
  let d2 := Cache.mkdoc [Some (Cache.mkchunk 0 [97; 98]%N [exq_tok 2 0 2])] [] 0%N in
  th [exq_tok 1 0 2] = th [exq_tok 2 0 2] /\
  flat_map (fun e : key * kprule nat N => if is_rule_enabled cfg (fst e) then snd e [97; 98]%N [exq_tok 1 0 2] else []) (g_patterns g)
    <> flat_map (fun e : key * kprule nat N => if is_rule_enabled cfg (fst e) then snd e [97; 98]%N [exq_tok 2 0 2] else []) (g_patterns g) /\
  run_hist nat (kdoc N) (kchunk N) qsrule (kprule nat N) k_chunks k_start q_run_struct k_run_pat (text * N) (list (list N))
    kk_eqb hk_eqb_calls (k_key th) hash_calls g [HLint d1 []; HLint d2 []] cfg []
  = [Ok [mkglint (mkspan 0 2) 2]; Ok [mkglint (mkspan 0 2) 2]] /\
  lint_group k_chunks k_start q_run_struct k_run_pat (g_with_cfg g cfg) d2 = Ok [].
Proof.
  cbv zeta. split; [reflexivity|]. split; [vm_compute; discriminate|]. split; vm_compute; reflexivity.
Qed.
