(* C14 (second pinned file) — the edit theorems over the REAL re-pairing of quotation marks and over the modelled
   Document::new_plain_english.  Nothing but `exact`.  Kept apart from Properties/C14.v because C02's token vocabulary
   (Lexer.token: kinds with twin_loc, words without metadata) and C14's (Ignore.token: every hashed field) share
   constructor names; Model/C14Edit.v is the bridge (emb_kind / doc_of). *)
Require Import Base Tables_lexer Lexer Condense CondenseInv LexSplitProofs C12CondSpaces C02Quotes C14Edit C14Prepend C14Flat C14FlatPlain.
Require Ignore IgnoreProofs C14EditProofs.

(* match_quotes (C02's frozen model of Document::match_quotes), run on ANY token vector, and the dictionary, whatever
   metadata it attaches to words, change no context: the document after match_quotes under dictionary wm' and the
   vector it was given under dictionary wm give every lint the same context *)
Theorem C14_context_requoted :
  forall pcode ncode scode (wm wm' : token -> option N) src ts q l,
  match_quotes ts = Ok q ->
  Ignore.context l (doc_of pcode ncode scode wm' src q) = Ignore.context l (doc_of pcode ncode scode wm src ts).
Proof. exact context_requoted. Qed.
Check C14_context_requoted :
  forall pcode ncode scode (wm wm' : token -> option N) src ts q l,
  match_quotes ts = Ok q ->
  Ignore.context l (doc_of pcode ncode scode wm' src q) = Ignore.context l (doc_of pcode ncode scode wm src ts).
Print Assumptions C14_context_requoted.

(* THE EDIT THEOREM over real re-pairing, for arbitrary token vectors (no invariant of C02 is needed beyond the position
   bounds): before X ++ M ++ Y, after X' ++ M ++ Y'; the tokens of X, Y, X', Y' are unrelated (inserted, removed, quotation
   marks added or dropped — so match_quotes pairs the marks of M differently); match_quotes never panics on either
   vector; a lint whose windows lie in M (2 <= s, s <= |M|, e + 2 <= |M|) has the same context in both documents *)
Theorem C14_context_edit_requoted :
  forall pcode ncode scode (wm wm' : token -> option N) X TX X' TX' M TM Y TY Y' TY' l,
  lies_in (length M) TM ->
  ends_by (length X) TX -> ends_by (length X') TX' ->
  lies_behind (length M) (length (M ++ Y)) TY -> lies_behind (length M) (length (M ++ Y')) TY' ->
  2 <= sstart (Ignore.il_span l) -> sstart (Ignore.il_span l) <= length M -> send (Ignore.il_span l) + 2 <= length M ->
  exists q q',
    match_quotes (TX ++ map (shift_tk (length X)) (TM ++ TY)) = Ok q /\
    match_quotes (TX' ++ map (shift_tk (length X')) (TM ++ TY')) = Ok q' /\
    Ignore.context (Ignore.shift_lint (length X) l) (doc_of pcode ncode scode wm (X ++ M ++ Y) q)
    = Ignore.context (Ignore.shift_lint (length X') l) (doc_of pcode ncode scode wm' (X' ++ M ++ Y') q').
Proof. exact context_edit_requoted. Qed.
Check C14_context_edit_requoted :
  forall pcode ncode scode (wm wm' : token -> option N) X TX X' TX' M TM Y TY Y' TY' l,
  lies_in (length M) TM ->
  ends_by (length X) TX -> ends_by (length X') TX' ->
  lies_behind (length M) (length (M ++ Y)) TY -> lies_behind (length M) (length (M ++ Y')) TY' ->
  2 <= sstart (Ignore.il_span l) -> sstart (Ignore.il_span l) <= length M -> send (Ignore.il_span l) + 2 <= length M ->
  exists q q',
    match_quotes (TX ++ map (shift_tk (length X)) (TM ++ TY)) = Ok q /\
    match_quotes (TX' ++ map (shift_tk (length X')) (TM ++ TY')) = Ok q' /\
    Ignore.context (Ignore.shift_lint (length X) l) (doc_of pcode ncode scode wm (X ++ M ++ Y) q)
    = Ignore.context (Ignore.shift_lint (length X') l) (doc_of pcode ncode scode wm' (X' ++ M ++ Y') q').
Print Assumptions C14_context_edit_requoted.

(* reachability through the modelled Document::new_plain_english (lexer + the nine passes): a paragraph P — ending
   `. or ! or ?`, newline, newline; quotation marks ALLOWED — in front of a text D that does not start with a newline.  Both
   documents exist (no panic) and every lint of D that starts at least two characters into D has, moved by |P|, the
   context it had — under any two dictionaries.  Premises on u: what '\n' is for Rust's char methods (monitored) *)
Theorem C14_plain_prepend :
  forall u, u_whitespace u NL = true -> u_numeric u NL = false -> u_alphabetic u NL = false -> u_lingual u NL = false ->
  forall pcode ncode scode P D,
  ends_para P -> no_leading_nl D ->
  exists B AB,
    document_plain u D = Ok B /\ document_plain u (P ++ D) = Ok AB /\
    forall (wm wm' : token -> option N) l, 2 <= sstart (Ignore.il_span l) ->
      Ignore.context (Ignore.shift_lint (length P) l) (doc_of pcode ncode scode wm' (P ++ D) AB)
      = Ignore.context l (doc_of pcode ncode scode wm D B).
Proof. exact plain_prepend. Qed.
Check C14_plain_prepend :
  forall u, u_whitespace u NL = true -> u_numeric u NL = false -> u_alphabetic u NL = false -> u_lingual u NL = false ->
  forall pcode ncode scode P D,
  ends_para P -> no_leading_nl D ->
  exists B AB,
    document_plain u D = Ok B /\ document_plain u (P ++ D) = Ok AB /\
    forall (wm wm' : token -> option N) l, 2 <= sstart (Ignore.il_span l) ->
      Ignore.context (Ignore.shift_lint (length P) l) (doc_of pcode ncode scode wm' (P ++ D) AB)
      = Ignore.context l (doc_of pcode ncode scode wm D B).
Print Assumptions C14_plain_prepend.

(* hence: ignored in D, still ignored in P ++ D (any hash, any history in between) *)
Theorem C14_plain_prepend_stable :
  forall u, u_whitespace u NL = true -> u_numeric u NL = false -> u_alphabetic u NL = false -> u_lingual u NL = false ->
  forall pcode ncode scode P D,
  ends_para P -> no_leading_nl D ->
  exists B AB,
    document_plain u D = Ok B /\ document_plain u (P ++ D) = Ok AB /\
    forall (hash : Ignore.ctx -> N) (wm wm' : token -> option N) l s s1 hist s2, 2 <= sstart (Ignore.il_span l) ->
      Ignore.ignore_lint Ignore.context hash s l (doc_of pcode ncode scode wm D B) = Ok s1 ->
      Ignore.ignore_all Ignore.context hash s1 hist = Ok s2 ->
      Ignore.is_ignored Ignore.context hash s2 (Ignore.shift_lint (length P) l)
        (doc_of pcode ncode scode wm' (P ++ D) AB) = Ok true.
Proof. exact plain_prepend_stable. Qed.
Check C14_plain_prepend_stable :
  forall u, u_whitespace u NL = true -> u_numeric u NL = false -> u_alphabetic u NL = false -> u_lingual u NL = false ->
  forall pcode ncode scode P D,
  ends_para P -> no_leading_nl D ->
  exists B AB,
    document_plain u D = Ok B /\ document_plain u (P ++ D) = Ok AB /\
    forall (hash : Ignore.ctx -> N) (wm wm' : token -> option N) l s s1 hist s2, 2 <= sstart (Ignore.il_span l) ->
      Ignore.ignore_lint Ignore.context hash s l (doc_of pcode ncode scode wm D B) = Ok s1 ->
      Ignore.ignore_all Ignore.context hash s1 hist = Ok s2 ->
      Ignore.is_ignored Ignore.context hash s2 (Ignore.shift_lint (length P) l)
        (doc_of pcode ncode scode wm' (P ++ D) AB) = Ok true.
Print Assumptions C14_plain_prepend_stable.

(* non-vacuity: M = QxQ an problem with ONE quotation mark put in front (the partners of M's marks change), and the
   plain-English instance P = QHm.\n\n, D = QxQ an problem with the tokens the modelled parser produces *)
Example C14_edit_examples :
  (exists q q', match_quotes ([] ++ map (shift_tk 0) (ex_TM ++ [])) = Ok q /\
     match_quotes (ex_TX' ++ map (shift_tk (length ex_X')) (ex_TM ++ [])) = Ok q' /\
     nth_error q 2 = Some (mktok (mkspan 2 3) (KPunct (PQuote (Some 0)))) /\
     nth_error q' 4 = Some (mktok (mkspan 4 5) (KPunct (PQuote None)))) /\
  (ends_para ex_P /\ no_leading_nl ex_M /\
   exists B AB, document_plain LexerProofs.ascii_uni ex_M = Ok B /\ document_plain LexerProofs.ascii_uni (ex_P ++ ex_M) = Ok AB /\
     nth_error B 2 = Some (mktok (mkspan 2 3) (KPunct (PQuote (Some 0)))) /\
     nth_error AB 6 = Some (mktok (mkspan 8 9) (KPunct (PQuote None)))).
Proof.
  split.
  - destruct context_edit_requoted_example as (_ & _ & _ & _ & _ & _ & _ & H). exact H.
  - destruct plain_prepend_example as (H1 & H2 & _ & _ & _ & _ & B & AB & E1 & E2 & _ & E4 & _ & E6 & _).
    split; [exact H1|]. split; [exact H2|]. exists B, AB. repeat split; assumption.
Qed.

(* ---------- phase 4: lints of real plain-English documents that flag runs of tokens ----------
   the hull of any non-empty run `mid` of the tokens of the MODELLED Document::new_plain_english (any Unicode tables, any
   dictionary) is a span whose lint is token-aligned (C14_aligned_windows / C14_aligned_collision_needs apply) *)
Theorem C14_plain_lint_aligned :
  forall pcode ncode scode (wm : token -> option N) u src pre mid post,
  document_plain u src = Ok (pre ++ mid ++ post) -> mid <> [] ->
  exists s e, s < e /\ e <= length src /\
    forall l, Ignore.il_span l = mkspan s e ->
      aligned (doc_of pcode ncode scode wm src (pre ++ mid ++ post)) l
        (map (emb_tok pcode ncode scode wm) pre) (map (emb_tok pcode ncode scode wm) mid) (map (emb_tok pcode ncode scode wm) post).
Proof. exact plain_lint_aligned. Qed.
Check C14_plain_lint_aligned :
  forall pcode ncode scode (wm : token -> option N) u src pre mid post,
  document_plain u src = Ok (pre ++ mid ++ post) -> mid <> [] ->
  exists s e, s < e /\ e <= length src /\
    forall l, Ignore.il_span l = mkspan s e ->
      aligned (doc_of pcode ncode scode wm src (pre ++ mid ++ post)) l
        (map (emb_tok pcode ncode scode wm) pre) (map (emb_tok pcode ncode scode wm) mid) (map (emb_tok pcode ncode scode wm) post).
Print Assumptions C14_plain_lint_aligned.

(* so two lints that flag runs of tokens of plain-English documents (one document or two, any dictionaries) share a context
   while the property tells them apart ONLY at the edge of a text or next to a one-character token *)
Theorem C14_plain_collision_needs :
  forall pcode ncode scode (wm1 wm2 : token -> option N) u src1 pre1 mid1 post1 src2 pre2 mid2 post2,
  document_plain u src1 = Ok (pre1 ++ mid1 ++ post1) -> mid1 <> [] ->
  document_plain u src2 = Ok (pre2 ++ mid2 ++ post2) -> mid2 <> [] ->
  exists sp1 sp2, forall l1 l2 w1 w2,
    Ignore.il_span l1 = sp1 -> Ignore.il_span l2 = sp2 ->
    Ignore.nb_parts l1 (doc_of pcode ncode scode wm1 src1 (pre1 ++ mid1 ++ post1)) = Ok w1 ->
    Ignore.nb_parts l2 (doc_of pcode ncode scode wm2 src2 (pre2 ++ mid2 ++ post2)) = Ok w2 ->
    flat_of w1 = flat_of w2 -> w1 <> w2 ->
    at_edge (map (emb_tok pcode ncode scode wm1) pre1) (map (emb_tok pcode ncode scode wm1) post1) \/
    at_edge (map (emb_tok pcode ncode scode wm2) pre2) (map (emb_tok pcode ncode scode wm2) post2) \/
    one_char_border (map (emb_tok pcode ncode scode wm1) pre1) (map (emb_tok pcode ncode scode wm1) post1) \/
    one_char_border (map (emb_tok pcode ncode scode wm2) pre2) (map (emb_tok pcode ncode scode wm2) post2).
Proof. exact plain_collision_needs. Qed.
Check C14_plain_collision_needs :
  forall pcode ncode scode (wm1 wm2 : token -> option N) u src1 pre1 mid1 post1 src2 pre2 mid2 post2,
  document_plain u src1 = Ok (pre1 ++ mid1 ++ post1) -> mid1 <> [] ->
  document_plain u src2 = Ok (pre2 ++ mid2 ++ post2) -> mid2 <> [] ->
  exists sp1 sp2, forall l1 l2 w1 w2,
    Ignore.il_span l1 = sp1 -> Ignore.il_span l2 = sp2 ->
    Ignore.nb_parts l1 (doc_of pcode ncode scode wm1 src1 (pre1 ++ mid1 ++ post1)) = Ok w1 ->
    Ignore.nb_parts l2 (doc_of pcode ncode scode wm2 src2 (pre2 ++ mid2 ++ post2)) = Ok w2 ->
    flat_of w1 = flat_of w2 -> w1 <> w2 ->
    at_edge (map (emb_tok pcode ncode scode wm1) pre1) (map (emb_tok pcode ncode scode wm1) post1) \/
    at_edge (map (emb_tok pcode ncode scode wm2) pre2) (map (emb_tok pcode ncode scode wm2) post2) \/
    one_char_border (map (emb_tok pcode ncode scode wm1) pre1) (map (emb_tok pcode ncode scode wm1) post1) \/
    one_char_border (map (emb_tok pcode ncode scode wm2) pre2) (map (emb_tok pcode ncode scode wm2) post2).
Print Assumptions C14_plain_collision_needs.

(* non-vacuity: `ab cd` parsed by the modelled Document::new_plain_english is three tokens; the run made of the middle
   one (the space) satisfies the premises of C14_plain_lint_aligned / C14_plain_collision_needs *)
Example C14_plain_aligned_example :
  exists ts, document_plain ascii_uni [97; 98; 32; 99; 100]%N = Ok ts /\ length ts = 3 /\
    ts = firstn 1 ts ++ firstn 1 (skipn 1 ts) ++ skipn 2 ts /\ firstn 1 (skipn 1 ts) <> [].
Proof. eexists. split; [vm_compute; reflexivity|]. split; [reflexivity|]. split; [reflexivity|discriminate]. Qed.
