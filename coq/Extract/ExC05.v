(* extraction of the C05 executable models (Model/Cache.v, Model/C05Entry.v, Model/C05Lru.v, Model/C05Thread.v); ExtrOcamlBasic only *)
Require Extraction.
Require Import ExtrOcamlBasic.
Require Import Base Overlap Cache C05Entry C05Lru C05Thread.
Extraction Language OCaml.
Extraction "../ocaml/gen/c05_model.ml" drv_doc_of rel_toks run_lint_code run_set_cfg run_evict fresh mkdoc mkclint code_key_eqb
  drv_new drv_stored drv_wasm_set_cfg drv_wasm_sync drv_ls_rebuild drv_ignore drv_clear_ignored drv_evict drv_entry_lint drv_effective drv_lru_words
  drv_fuzzy_served drv_builders_init drv_ed.
