(* extraction of the C05 executable model (Model/Cache.v); ExtrOcamlBasic only *)
Require Extraction.
Require Import ExtrOcamlBasic.
Require Import Base Cache.
Extraction Language OCaml.
Extraction "../ocaml/gen/c05_model.ml" drv_doc_of rel_toks run_lint_code run_set_cfg run_evict fresh mkdoc mkclint code_key_eqb.
