(* extraction of the C10 run-time monitor model (what the strace oracle accepts); ExtrOcamlBasic only *)
Require Extraction.
Require Import ExtrOcamlBasic.
Require Import Base EffectsBase Effects.
Extraction Language OCaml.
Extraction "../ocaml/gen/c10_model.ml" run_judge mkcfg loopback_bytes.
