(* extraction of the C10 run-time monitor model (what the strace oracle accepts) and of the save-path model
   (where save_dict writes for a file / the user dictionary) and of the settings-to-paths model
   (EffectsConfig.parse_render: Config::from_lsp_config + try_resolve); ExtrOcamlBasic only *)
Require Extraction.
Require Import ExtrOcamlBasic.
Require Import Base EffectsBase Effects EffectsSave EffectsConfig C10Cli.
Extraction Language OCaml.
Extraction "../ocaml/gen/c10_model.ml" run_judge mkcfg loopback_bytes file_dict_plan user_dict_plan parse_render parse_monitor_filedir cli_lint_reads.
