(* extraction of the C19 executable models; ExtrOcamlBasic only *)
Require Extraction.
Require Import ExtrOcamlBasic.
Require Import Base JsonEscape Stats C19Record C19Concurrent C19Session.
Extraction Language OCaml.
Extraction "../ocaml/gen/c19_model.ml" run_ser_str run_de_str run_utf8_dec run_render run_lines run_sessions run_summarize run_record_line run_log_summary run_bufwriter_lens run_concurrent run_ls_history_src.
