(* extraction of the C14 executable model; ExtrOcamlBasic only *)
Require Extraction.
Require Import ExtrOcamlBasic.
Require Import Base Suggestion Ignore C14Bytes.
Extraction Language OCaml.
Extraction "../ocaml/gen/c14_model.ml" run_context_indices run_same_context context
  run_export run_import import_into render_num ctx_eqb ignore_lint is_ignored remove_ignored ig_append
  run_bytes default_hasher le64.   (* phase 5: the byte stream of the derived Hash + SipHash-1-3 (stream B) *)
(* phase 3: LintContext::from_lint over the MODELLED Document::new_plain_english (C02's Lexer.v / Condense.v + the
   embedding of Model/C14Edit.v).  A second, self-contained file: the driver wraps it in a module `E` (the two token
   vocabularies share constructor names). *)
Require Tables_lexer Lexer Condense C14Edit.
Extraction "../ocaml/gen/c14e_model.ml" C14Edit.run_plain_ascii C14Edit.run_plain_uni.
