(* extraction of the C14 executable model; ExtrOcamlBasic only *)
Require Extraction.
Require Import ExtrOcamlBasic.
Require Import Base Suggestion Ignore.
Extraction Language OCaml.
Extraction "../ocaml/gen/c14_model.ml" run_context_indices run_same_context context
  run_export run_import import_into render_num ctx_eqb ignore_lint is_ignored remove_ignored ig_append.
