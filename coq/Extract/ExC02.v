(* extraction of the C02 executable models (lexer + PlainEnglish + Document::parse passes + the wrapper parsers IsolateEnglish / CollapseIdentifiers); ExtrOcamlBasic only.
   The Unicode predicates are the fields of the record `uni` (constructor mkuni): the driver fills them from
   the range tables the harness dumps from Rust's own char methods. *)
Require Extraction.
Require Import ExtrOcamlBasic.
Require Import Base Overlap Mask Tables_lexer Lexer Condense C02Wrappers C02Markdown C02Inert.
Extraction Language OCaml.
Extraction "../ocaml/gen/c02_model.ml" mkuni lex_token plain_parse document_passes document_plain
  punct_from_char quote_chars punct_name currency_name suffix_name
  isolate_english collapse_identifiers dict_of document_plain_ie document_plain_ci
  encode markdown_parse document_markdown md_contractb md_doc_class.
