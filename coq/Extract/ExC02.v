(* extraction of the C02 executable models (lexer + PlainEnglish + Document::parse passes); ExtrOcamlBasic only.
   The Unicode predicates are the fields of the record `uni` (constructor mkuni): the driver fills them from
   the range tables the harness dumps from Rust's own char methods. *)
Require Extraction.
Require Import ExtrOcamlBasic.
Require Import Base Overlap Tables_lexer Lexer Condense.
Extraction Language OCaml.
Extraction "../ocaml/gen/c02_model.ml" mkuni lex_token plain_parse document_passes document_plain
  punct_from_char quote_chars punct_name currency_name suffix_name.
