(* extraction of the C13 / C03 executable models; ExtrOcamlBasic only *)
Require Extraction.
Require Import ExtrOcamlBasic.
Require Import Base Overlap Suggestion Rebase C13Callers.
Extraction Language OCaml.
Extraction "../ocaml/gen/c13_model.ml" run_remove_overlaps run_apply run_rebase
  run_wasm_lint run_fix_all run_currency run_cli_report run_merge_ids.
