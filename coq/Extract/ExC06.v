(* extraction of the C06 executable model; ExtrOcamlBasic only *)
Require Extraction.
Require Import ExtrOcamlBasic.
Require Import Base Lexer SpellDecision C06Words.
Extraction Language OCaml.
Extraction "../ocaml/gen/c06_model.ml" run_lint_doc run_accept_facts f24_dict f24_words w_socio_political f24_run
  run_doc_words run_one_word f24_flags.
