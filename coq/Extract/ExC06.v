(* extraction of the C06 executable model; ExtrOcamlBasic only *)
Require Extraction.
Require Import ExtrOcamlBasic.
Require Import Base Lexer SpellDecision Tables_f24 C06Words C06AlnumProofs C06DictProofs C06Sentence C06SentenceDot C06SentenceContr C06SentenceContrDot.
Extraction Language OCaml.
Extraction "../ocaml/gen/c06_model.ml" run_lint_doc run_accept_facts f24_dict f24_words w_socio_political f24_run
  run_doc_words run_one_word f24_flags dict_word_count dict_digest dict_nonsimple_entries simple_wordb alnum_wordb run_sentence run_sentence_dot run_sentence_contr run_sentence_contr_dot.
