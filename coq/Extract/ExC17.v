(* extraction of the C17 executable model (Model/Number.v); ExtrOcamlBasic only *)
Require Extraction.
Require Import ExtrOcamlBasic.
Require Import Base Overlap Suggestion Tables_number Number.
Extraction Language OCaml.
Extraction "../ocaml/gen/c17_model.ml" run_lex run_doc ctx_ok render mkuni.
