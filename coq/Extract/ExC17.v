(* extraction of the C17 executable model (Model/Number.v with the URL / e-mail tails of Model/C17Tails.v) and of the binary64 model of
   NumberSuffix::correct_suffix_for (Proofs/C17Float.v, Flocq's BinarySingleNaN: computational part only, the proof
   arguments are erased), and of the class / expected lints of texts with several ordinals (Model/C17Texts.v: run_multi);
   and of the whole modelled Document::parse incl. the passes after
   condense_dotted_initialisms (Model/C17Later.v: run_final_full = every token of the final document + the lints);
   ExtrOcamlBasic only *)
Require Extraction.
Require Import ExtrOcamlBasic.
Require Import Base Overlap Suggestion Tables_number Number C17Tails C17Float C17Texts C17Later.
Extraction Language OCaml.
Extraction "../ocaml/gen/c17_model.ml" run_lex_full run_doc_full ctx_ok render mkuni run_f64_digits run_f64_parts run_f64_special run_multi mkinst run_final_full.
