(* extraction of the C15 executable models; ExtrOcamlBasic only *)
Require Extraction.
Require Import ExtrOcamlBasic.
Require Import Base EditDistance DictModel Fuzzy C15Suggest C15Automaton.
Extraction Language OCaml.
Extraction "../ocaml/gen/c15_model.ml" wf_u8 wf_min_alloc lev_fast spec_stream spec_stream_fast word_id normalized
  mut_extend fst_new mut_ops fst_ops merged_ops text_leb text_eqb
  fst_merged fst_fuzzy fst_admissible adj_sorted
  score_suggestion order_suggestions suggest
  la_search la_run la_distance la_can_match.
