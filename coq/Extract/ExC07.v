(* extraction of the C07 executable model (DictIO.v, C07Ident.v, C07Power.v, C07Collide.v, C07Class.v, C07Lang.v); ExtrOcamlBasic only *)
Require Extraction.
Require Import ExtrOcamlBasic.
Require Import Base DictIO C07Ident C07Power C07Collide C07Class C07Lang.
Extraction Language OCaml.
Extraction "../ocaml/gen/c07_model.ml" x_load x_name x_run x_irun x_lstep x_eff_toks reported x_order_ok x_f20_collide x_view x_exact x_f15_keeps x_words_at x_add_words x_crash_ok x_crash_state x_seed_state x_merge_eq x_wasm fs_empty fs_write fs_read file_dict_name.
