(* extraction of the C09 executable model (Model/Server.v, Model/C09Batch.v, Model/C09Seq.v, Model/C09Race.v); ExtrOcamlBasic only *)
Require Extraction.
Require Import ExtrOcamlBasic.
Require Import Base Server C09Batch C09Seq C09Race.
Extraction Language OCaml.
Extraction "../ocaml/gen/c09_model.ml" model_krun model_run world0 set_disk set_udict set_fdict lastword expected freshb pub_eqb quiescentb observe
  batch_krun kexpand trace shape_verdict close_overtaken open_overtaken astate0 client_after sess_ok init_okb batch_op
  model_seq sstep proto_seqb proto_okb lagb lag_of lag_after exception f17b f17c f17d tracked sq_dict text_eqb dictv_eqb run_seq
  race_krun xtrace race_overtaken race_shape race_okb.
