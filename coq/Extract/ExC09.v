(* extraction of the C09 executable model (Model/Server.v); ExtrOcamlBasic only *)
Require Extraction.
Require Import ExtrOcamlBasic.
Require Import Base Server.
Extraction Language OCaml.
Extraction "../ocaml/gen/c09_model.ml" model_krun model_run world0 set_disk set_udict set_fdict lastword expected freshb pub_eqb quiescentb observe.
