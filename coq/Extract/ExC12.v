(* extraction of the C12 executable models (iterators, hull, LintGroup::lint with its chunk cache);
   ExtrOcamlBasic only *)
Require Extraction.
Require Import ExtrOcamlBasic.
Require Import Base Overlap ParaSplit.
Extraction Language OCaml.
Extraction "../ocaml/gen/c12_model.ml" run_iter run_group run_long.
