(* extraction of the C12 executable models (iterators, hull, LintGroup::lint with its chunk cache; since phase 3
   also C02's lexer + Document::parse passes as kind classes: run_doc / run_raw of Model/C12Doc.v; phase 5: run_rules of
   Model/C12Windows.v = UnclosedQuotes + the guarded windows of the generated table);
   phase 6: run_comma of Model/C12Comma.v = CommaFixes with the arm table read from the source;
   ExtrOcamlBasic only *)
Require Extraction.
Require Import ExtrOcamlBasic.
Require Import Base Overlap ParaSplit C12Doc C12Windows C12Comma.
Extraction Language OCaml.
Extraction "../ocaml/gen/c12_model.ml" run_iter run_group run_long run_doc run_raw run_rules run_comma.
