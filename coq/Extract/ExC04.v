(* extraction of the C04 executable models; ExtrOcamlBasic only.  The two *_gen entry points close
   the ignore condition over the marker list and the shebang prefix GENERATED from harper-comments/src/masker.rs. *)
Require Extraction.
Require Import ExtrOcamlBasic.
Require Import Base Mask Tables_masks C04JavaDoc C04Typst.
Definition run_comment_mask_gen := run_comment_mask ignore_markers ignore_prefixes shebang_prefix.
Definition run_ignore_gen := run_ignore ignore_markers ignore_prefixes.
Extraction Language OCaml.
Extraction "../ocaml/gen/c04_model.ml"
  run_encode run_decode run_char_index run_b2c run_ts_mask run_comment_mask_gen run_merge_ws run_push_all
  run_mask_parse run_without_initiators run_unit_parse run_jsdoc_lines run_go_parse run_lhs_mask
  run_push_to_all run_def_token run_md_cursors run_md_core run_ignore_gen run_git_cut
  run_mark_inline_tags run_jsdoc_full run_javadoc run_typst.
