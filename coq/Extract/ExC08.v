(* extraction of the C08 executable models; ExtrOcamlBasic only *)
Require Extraction.
Require Import ExtrOcamlBasic.
Require Import Base Suggestion PosConv C08TokenAt C08DocState.
Extraction Language OCaml.
Extraction "../ocaml/gen/c08_model.ml" run_span_to_range run_range_to_span run_range_to_span_old run_resolve run_resolve_lsp run_client_apply_lsp run_text_edit run_client_apply run_apply run_span_to_range_u32 run_text_edit_u32 run_as_u32 drv_run mkddoc mkdlint run_token_at run_binary_search mkdtoken.
