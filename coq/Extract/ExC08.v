(* extraction of the C08 executable models; ExtrOcamlBasic only *)
Require Extraction.
Require Import ExtrOcamlBasic.
Require Import Base Suggestion PosConv.
Extraction Language OCaml.
Extraction "../ocaml/gen/c08_model.ml" run_span_to_range run_range_to_span run_range_to_span_old run_resolve run_resolve_lsp run_client_apply_lsp run_text_edit run_client_apply run_apply.
