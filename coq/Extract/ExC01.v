(* extraction of the C01 executable models (Pattern.v, TokenSeq.v, C01Len.v + the generated rule table); ExtrOcamlBasic only *)
Require Extraction.
Require Import ExtrOcamlBasic.
Require Import Base Overlap TokenSeq Pattern C01Len Tables_rulebodies C01EndToEnd C01Bodies Tables_bodyshapes.
Extraction Language OCaml.
Extraction "../ocaml/gen/c01_model.ml"
  matches find_all_matches run_on_chunk pattern_lint
  iter_chunks iter_sentences iter_paragraphs hull long_sentences
  min_len max_len rule_len_possible rule_table rule_ok
  e2e_spans e2e_lint
  modal_of_body modal_of_pattern rule_lint proper_noun_body exact_phrase_of repeated_words_uses.
