(* extraction of the C01 executable models (Pattern.v, TokenSeq.v); ExtrOcamlBasic only *)
Require Extraction.
Require Import ExtrOcamlBasic.
Require Import Base Overlap TokenSeq Pattern.
Extraction Language OCaml.
Extraction "../ocaml/gen/c01_model.ml"
  matches find_all_matches run_on_chunk pattern_lint
  iter_chunks iter_sentences iter_paragraphs hull long_sentences.
