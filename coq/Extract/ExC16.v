(* extraction of the C16 executable models (harper-wasm Linter state machine, JSON printers/parsers);
   ExtrOcamlBasic only *)
Require Extraction.
Require Import ExtrOcamlBasic.
Require Import Base Overlap Suggestion LintJson Ignore Wasm C16Ctx C16Api Stats C19Record C16Stats.
Extraction Language OCaml.
Extraction "../ocaml/gen/c16_model.ml" new step
  print_wlint print_span print_wsuggestion print_ignored
  lint_from_json span_from_json suggestion_from_json ignored_from_json
  document context_of run_ctx_classes xstep
  drv_cstep drv_line drv_ser.
