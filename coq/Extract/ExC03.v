(* extraction of the C03 executable models (edit primitive, cache re-basing, span.rs, LintGroup::lint over the adversarial cache and over the real LRU with the capacity read from lint_group.rs); ExtrOcamlBasic only *)
Require Extraction.
Require Import ExtrOcamlBasic.
Require Import Base Suggestion Rebase Cache C03Span C03LintGroup C05Lru C03LintGroupLru Tables_c03cache C03Roots Tables_c03roots C03StructRoots Tables_c03structroots.
Extraction Language OCaml.
Extraction "../ocaml/gen/c03_model.ml" run_apply run_rebase run_span_op run_lg_lint run_lg_set_cfg lg_fresh run_lg_lint_lru lint_group_cache_cap run_rule_span pattern_rule_lint_asts run_struct_rule_span struct_rule_srcs.
