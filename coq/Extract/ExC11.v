(* extraction of the C11 executable models; ExtrOcamlBasic only *)
Require Extraction.
Require Import ExtrOcamlBasic.
Require Import Base Tables_rules LintGroupCfg C11Curated C11Cache C11ChunkKey C11JsonValue Tables_c11routes.
Extraction Language OCaml.
Extraction "../ocaml/gen/c11_model.ml" run_cops run_dispatch parse_cfg print_cfg hash_calls hash_bytes
  curated_cfg curated_names is_rule_enabled get program_cfg program_names run_history run_token_history
  parse_json from_value lsp_lint_config lsp_other_keys.
