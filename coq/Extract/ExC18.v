(* extraction of the C18 executable model (make_title_case); ExtrOcamlBasic only *)
Require Extraction.
Require Import ExtrOcamlBasic.
Require Import Base TitleCase.
Extraction Language OCaml.
Extraction "../ocaml/gen/c18_model.ml" run_title_case run_missing_keys.
