(* extraction of the C18 executable models: make_title_case over a given token list (TitleCase.v) and
   make_title_case_str end to end (C18Str.v over C02's Lexer.v / Condense.v); ExtrOcamlBasic only.
   The Unicode predicates of the lexer are the fields of the record `uni` (constructor mkuni): the driver
   fills them from the range tables the harness dumps from Rust's own char methods. *)
Require Extraction.
Require Import ExtrOcamlBasic.
Require Import Base Overlap Tables_lexer Lexer Condense TitleCase C18Str C18LexStable C18LexDots C18LexAlnum.
Extraction Language OCaml.
Extraction "../ocaml/gen/c18_model.ml" run_title_case run_missing_keys
  mkuni run_title_case_str run_document_tokens run_str_missing_keys plain_text dotted_text alnum_text.
