(* SpanSchemas.v — the span constructions rules use are in bounds given the token invariant (C03),
   and the chunk cache of LintGroup::lint re-bases spans without leaving the chunk. *)
Require Import Base ListLemmas Rebase.

(* ---------- cache re-basing (LintGroup::lint) ---------- *)
(* a lint inside the chunk hull [a,b) is stored relative to a, and re-emitted at a chunk [a',b') of
   the same length *)
Lemma rebase_in_bounds (sp : span) (a b a' b' : nat) :
  a <= sstart sp -> sstart sp <= send sp -> send sp <= b -> b - a = b' - a' -> a <= b -> a' <= b' ->
  exists rel, pull_by sp a = Ok rel /\
              a' <= sstart (push_by rel a') /\ sstart (push_by rel a') <= send (push_by rel a') /\
              send (push_by rel a') <= b' /\
              send (push_by rel a') - sstart (push_by rel a') = send sp - sstart sp.
Proof.
  intros H1 H2 H3 H4 H5 H6. unfold pull_by, sub_chk.
  destruct (sstart sp <? a) eqn:E1; [apply Nat.ltb_lt in E1; lia|].
  destruct (send sp <? a) eqn:E2; [apply Nat.ltb_lt in E2; lia|].
  cbn [bind]. eexists. split; [reflexivity|]. cbn [push_by sstart send]. lia.
Qed.

Lemma rebase_same_chunk (sp : span) (a : nat) :
  a <= sstart sp -> sstart sp <= send sp ->
  exists rel, pull_by sp a = Ok rel /\ push_by rel a = sp.
Proof.
  intros H1 H2. unfold pull_by, sub_chk.
  destruct (sstart sp <? a) eqn:E1; [apply Nat.ltb_lt in E1; lia|].
  destruct (send sp <? a) eqn:E2; [apply Nat.ltb_lt in E2; lia|].
  cbn [bind]. eexists. split; [reflexivity|]. unfold push_by. cbn [sstart send].
  destruct sp as [s e]. cbn [sstart send] in *. f_equal; lia.
Qed.

(* the executable re-basing used in the correspondence computes exactly that *)
Lemma rebase_span_value (a a' s e : nat) :
  a <= s -> s <= e -> rebase_span a a' (s, e) = Ok (s - a + a', e - a + a').
Proof.
  intros H1 H2. unfold rebase_span, pull_by, sub_chk. cbn [fst snd sstart send].
  destruct (s <? a) eqn:E1; [apply Nat.ltb_lt in E1; lia|].
  destruct (e <? a) eqn:E2; [apply Nat.ltb_lt in E2; lia|].
  cbn [bind push_by sstart send]. reflexivity.
Qed.

Lemma run_rebase_total (a a' : nat) (ls : list (nat * nat)) :
  Forall (fun se => a <= fst se /\ fst se <= snd se) ls ->
  run_rebase a a' ls = Some (map (fun se => (fst se - a + a', snd se - a + a')) ls).
Proof.
  induction ls as [|[s e] t IH]; intros H; [reflexivity|].
  inversion H as [|x l [Ha Hb] Ht]; subst. cbn [run_rebase fst snd map] in *.
  rewrite (rebase_span_value a a' s e Ha Hb), (IH Ht). reflexivity.
Qed.

Lemma run_rebase_panics (a a' s e : nat) (t : list (nat * nat)) :
  s < a -> run_rebase a a' ((s, e) :: t) = None.
Proof.
  intros H. cbn [run_rebase]. unfold rebase_span, pull_by, sub_chk. cbn [fst snd sstart send].
  apply Nat.ltb_lt in H. rewrite H. reflexivity.
Qed.

(* pull_by underflows (debug panic) exactly when the lint starts before the chunk *)
Lemma pull_by_underflow (sp : span) (a : nat) : sstart sp < a -> pull_by sp a = Panic PUnderflow.
Proof. intros H. unfold pull_by, sub_chk. apply Nat.ltb_lt in H. now rewrite H. Qed.

(* ---------- token-derived spans ---------- *)
(* the token invariant of C02, on spans only *)
Definition toks_ok (n : nat) (ts : list span) : Prop :=
  Forall (span_in n) ts /\ ForallOrdPairs (fun a b => send a <= sstart b) ts.

Definition hull (ts : list span) : option span :=
  match ts with
  | [] => None
  | t :: _ => Some (mkspan (fold_right Nat.min (sstart t) (map sstart ts))
                           (fold_right Nat.max (send t) (map send ts)))
  end.

Lemma fold_min_le l d : fold_right Nat.min d l <= d.
Proof. induction l as [|x xs IH]; cbn; lia. Qed.
Lemma fold_max_ge l d : d <= fold_right Nat.max d l.
Proof. induction l as [|x xs IH]; cbn; lia. Qed.
Lemma fold_max_bound l d n : d <= n -> Forall (fun x => x <= n) l -> fold_right Nat.max d l <= n.
Proof. intros Hd H. induction H; cbn; lia. Qed.

Lemma hull_in_bounds n ts h : Forall (span_in n) ts -> hull ts = Some h -> span_in n h.
Proof.
  destruct ts as [|t ts']; [discriminate|]. intros F E.
  inversion F as [|? ? [Ht1 Ht2] F']; subst.
  assert (h = mkspan (Nat.min (sstart t) (fold_right Nat.min (sstart t) (map sstart ts')))
                     (Nat.max (send t) (fold_right Nat.max (send t) (map send ts')))) as ->.
  { cbn in E. now injection E as <-. }
  unfold span_in. cbn [sstart send]. split.
  - pose proof (fold_min_le (map sstart ts') (sstart t)).
    pose proof (fold_max_ge (map send ts') (send t)). lia.
  - apply Nat.max_lub; [exact Ht2|]. apply fold_max_bound; [exact Ht2|]. rewrite Forall_map.
    eapply Forall_impl; [|exact F']. intros s [_ H]. exact H.
Qed.

(* a sub-list (any selection, in order) of in-bounds tokens is in bounds, so its hull is too *)
Lemma own_span_in_bounds n ts t : Forall (span_in n) ts -> In t ts -> span_in n t.
Proof. intros F H. rewrite Forall_forall in F. now apply F. Qed.

(* with_len(1) of a non-empty token *)
Lemma with_len_1_in_bounds n t : span_in n t -> sstart t < send t -> span_in n (with_len t 1).
Proof. unfold span_in, with_len. cbn [sstart send]. lia. Qed.

(* Span::new_with_len(end, 2).pulled_by(2) for a number token whose text ends in a 2-letter suffix *)
Lemma suffix_span_in_bounds n t :
  span_in n t -> 2 <= send t - sstart t ->
  exists s, pulled_by (span_new_with_len (send t) 2) 2 = Some s /\ span_in n s /\
            sstart t <= sstart s /\ send s = send t /\ send s - sstart s = 2.
Proof.
  unfold span_in, pulled_by, span_new_with_len. cbn [sstart send]. intros [H1 H2] H3.
  destruct (send t <? 2) eqn:E; [apply Nat.ltb_lt in E; lia|].
  eexists. split; [reflexivity|]. cbn [sstart send]. lia.
Qed.

(* Span::new(a.start, b.end) for a token a that precedes b never panics and is in bounds *)
Lemma between_in_bounds n a b :
  span_in n a -> span_in n b -> send a <= sstart b ->
  exists s, span_new (sstart a) (send b) = Ok s /\ span_in n s.
Proof.
  unfold span_in, span_new. intros [A1 A2] [B1 B2] H.
  destruct (send b <? sstart a) eqn:E; [apply Nat.ltb_lt in E; lia|].
  eexists. split; [reflexivity|]. cbn [sstart send]. lia.
Qed.

(* ... and panics when the tokens are out of order (what LongSentences did under Markdown) *)
Lemma between_out_of_order a b : send b < sstart a -> span_new (sstart a) (send b) = Panic PSpanOrder.
Proof. unfold span_new. intros H. apply Nat.ltb_lt in H. now rewrite H. Qed.
