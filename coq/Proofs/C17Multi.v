(* C17Multi.v — C17, several numbers in one document, RULE LEVEL ONLY (partial answer to "one lint per wrong number"):
   on any token list the rule's output is the concatenation, in document order, of an independent verdict per Number
   token — exactly one lint for a token whose suffix is wrong, none otherwise, whatever stands around it.
   What is still missing for the text-level list form of C17_lint_iff: a lexer/pass shape lemma for texts with
   several `<digits><suffix>` instances (NumberLex.lex_doc_shape handles one). *)
Require Import Base Overlap Suggestion Tables_number Number NumberArith NumberProofs.
From Coq Require Import String List Arith NArith Bool Lia.
Import ListNotations.
Local Open Scope string_scope.
Local Open Scope list_scope.

(* the verdict on one token *)
Definition judge (t : token) : list mlint :=
  match tkind t with
  | KNumber (VInt n) (Some s) =>
      match pulled_by (span_new_with_len (send (tspan t)) 2) 2 with
      | Some ss => if suffix_eqb s (ordinal n) then [] else [mkmlint ss [ReplaceWith (to_chars (ordinal n))]]
      | None => []
      end
  | _ => []
  end.
(* every suffixed Number token carries a known value (an integer below 2^53 as the lexer produces them) *)
Definition known_values (l : list token) : Prop :=
  Forall (fun t => match tkind t with KNumber VOther (Some _) => False | _ => True end) l.

Lemma rule_per_number (l : list token) : known_values l -> rule l = Some (flat_map judge l).
Proof.
  induction 1 as [|t r Ht _ IH]; [reflexivity|].
  cbn [rule flat_map]. unfold judge at 1.
  destruct (tkind t) as [v sfx| |?|?| |?| | | | | |]; try exact IH.
  destruct (pulled_by (span_new_with_len (send (tspan t)) 2) 2) as [ss|].
  - destruct sfx as [s0|]; [|destruct v; exact IH].
    destruct v as [n|]; [|contradiction].
    cbn [correct_suffix_for]. rewrite ordinal_spec, IH.
    destruct (suffix_eqb s0 (ordinal n)); reflexivity.
  - destruct v, sfx; exact IH.
Qed.

Lemma judge_length (t : token) : length (judge t) <= 1.
Proof.
  unfold judge. destruct (tkind t) as [v sfx| |?|?| |?| | | | | |]; cbn; try lia.
  destruct v; [|cbn; lia]. destruct sfx; [|cbn; lia].
  destruct (pulled_by _ 2); [|cbn; lia]. destruct (suffix_eqb _ _); cbn; lia.
Qed.

Lemma rule_app (A B : list token) : known_values (A ++ B) ->
  exists la lb, rule A = Some la /\ rule B = Some lb /\ rule (A ++ B) = Some (la ++ lb).
Proof.
  intros H. pose proof H as H'. unfold known_values in H'. apply Forall_app in H'. destruct H' as (HA & HB).
  exists (flat_map judge A), (flat_map judge B).
  rewrite (rule_per_number A HA), (rule_per_number B HB), (rule_per_number _ H), flat_map_app. repeat split; reflexivity.
Qed.

Lemma multi_example :
  lint_ascii (txt "3th 2st, 11th and 113rd") =
    Ok (Some [mkmlint (mkspan 1 3) [ReplaceWith (txt "rd")]; mkmlint (mkspan 5 7) [ReplaceWith (txt "nd")];
              mkmlint (mkspan 21 23) [ReplaceWith (txt "th")]]).
Proof. vm_compute. reflexivity. Qed.
