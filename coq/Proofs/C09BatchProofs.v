(* C09BatchProofs.v — C09, mixed batches of didOpen / didChange / didSave / didClose, for any documents, up to
   four handlers in flight, completing in ANY order (await granularity, the dispatcher of Model/Server.v):
     batch_serialises    the final doc_state is the composition (afold) of the critical sections in the order
                         they were executed, and the last word of every document is what doc_state says
     batch_closed_exact  a document that is closed at the end has a wrong last word IFF close_overtaken
     batch_open_exact    a document that is open at the end has a wrong last word IFF open_overtaken
     batch_all_executed  every didOpen/didChange/didClose of the history has its critical section in the trace,
                         every critical section of the trace stems from a message of the history. *)
Require Import Base Server ServerLemmas ServerSeq ServerConc ServerClose ServerVer ServerProofs C09Batch.

(* ================================================================================================
   1. the abstract side: lists of critical sections
   ================================================================================================ *)
Definition isSome {A} (a : option A) : bool := match a with Some _ => true | None => false end.

Lemma afold_app : forall u a b s, afold u (a ++ b) s = afold u b (afold u a s).
Proof. intros. unfold afold. apply fold_left_app. Qed.

Lemma astep_other : forall u a e, ev_url e <> u -> astep u a e = a.
Proof. intros u a e H. unfold astep. apply url_eqb_neq in H. rewrite H. reflexivity. Qed.

Lemma creates_url : forall u e, creates u e = true -> ev_url e = u.
Proof.
  intros u [u' [lg|] t [v|]|u'] H; cbn in H; try discriminate.
  apply andb_true_iff in H as [H _]. apply url_eqb_eq in H. exact H.
Qed.
Lemma carries_url : forall u vn e, carries u vn e = true -> ev_url e = u.
Proof.
  intros u vn [u' lg t [v|]|u'] H; cbn in H; try discriminate.
  apply andb_true_iff in H as [H _]. apply url_eqb_eq in H. exact H.
Qed.
Lemma closes_url : forall u e, closes u e = true -> ev_url e = u.
Proof. intros u [u' lg t v|u'] H; cbn in H; [discriminate|]. apply url_eqb_eq in H. exact H. Qed.

Lemma other_flags : forall u vn e, ev_url e <> u -> creates u e = false /\ closes u e = false /\ carries u vn e = false.
Proof.
  intros u vn e H. repeat split.
  - destruct (creates u e) eqn:E; [exfalso; exact (H (creates_url _ _ E))|reflexivity].
  - destruct (closes u e) eqn:E; [exfalso; exact (H (closes_url _ _ E))|reflexivity].
  - destruct (carries u vn e) eqn:E; [exfalso; exact (H (carries_url _ _ _ E))|reflexivity].
Qed.

(* is there an entry afterwards *)
Lemma astep_present : forall u a e,
  isSome (astep u a e) = if closes u e then false else if creates u e then true else isSome a.
Proof.
  intros u a e. destruct (url_eq_dec (ev_url e) u) as [E|E].
  - unfold astep. rewrite <- E, url_eqb_refl.
    destruct e as [u' lgo t vo|u']; cbn [ev_url acrit closes creates]; [|rewrite url_eqb_refl; reflexivity].
    rewrite url_eqb_refl. destruct a as [cd|].
    + destruct (stale vo (Some (cd_ver cd))); destruct lgo as [lg|], vo as [v|]; cbn; try reflexivity; destruct (has_parser lg); reflexivity.
    + destruct lgo as [lg|], vo as [v|]; cbn; try reflexivity. unfold has_parser. destruct (kind lg); reflexivity.
  - rewrite (astep_other _ _ _ E). destruct (other_flags u 0 e E) as (-> & -> & _). reflexivity.
Qed.

Lemma afold_present : forall u es a, isSome (afold u es a) = present u es (isSome a).
Proof.
  induction es as [|e es IH]; intro a; [reflexivity|]. cbn [afold fold_left present].
  change (fold_left (astep u) es (astep u a e)) with (afold u es (astep u a e)). rewrite IH, astep_present. reflexivity.
Qed.

(* the version that is installed at the end *)
Section Versions.
  Variables (u : url) (lg : lang) (tn : text) (vn : nat) (ig : list nat).
  Hypothesis Hlg : kind lg <> KNone.

  Definition okst (a : option cdoc) : Prop :=
    match a with
    | None => True
    | Some cd => cd_lang cd = lg /\ cd_ign cd = ig /\ cd_ver cd <= vn /\ (cd_ver cd = vn <-> cd_text cd = tn)
    end.
  Definition okev (e : event) : Prop :=
    ev_url e = u ->
    match e with
    | EClose _ => False
    | EUpd _ lgo t vo => (forall l, lgo = Some l -> l = lg) /\ exists v, vo = Some v /\ v <= vn /\ (v = vn <-> t = tn)
    end.
  Definition is_vn (a : option cdoc) : bool := match a with Some cd => cd_ver cd =? vn | None => false end.

  Lemma has_parser_lg : has_parser lg = true.
  Proof. unfold has_parser. destruct (kind lg); congruence. Qed.

  Lemma versions_scan : forall es a,
    okst a -> (a = None -> ig = []) -> Forall okev es ->
    okst (afold u es a) /\
    match afold u es a with
    | Some _ => is_vn (afold u es a) = is_vn a || newest_installed u vn (isSome a) es
    | None => a = None /\ newest_installed u vn false es = false
    end.
  Proof.
    induction es as [|e es IH]; intros a Ha Hig Hes.
    - cbn [afold fold_left newest_installed]. split; [exact Ha|]. destruct a; [rewrite orb_false_r; reflexivity|split; reflexivity].
    - inversion Hes as [|? ? He Hes']; subst. cbn [afold fold_left].
      change (fold_left (astep u) es (astep u a e)) with (afold u es (astep u a e)).
      destruct (url_eq_dec (ev_url e) u) as [E|E].
      + specialize (He E). destruct e as [u' lgo t vo|u']; [|contradiction]. cbn [ev_url] in E. subst u'.
        destruct He as (Hl & v & -> & Hv & Hvt).
        unfold astep. cbn [ev_url]. rewrite url_eqb_refl. cbn [acrit newest_installed carries creates]. rewrite url_eqb_refl. cbn [andb].
        destruct a as [cd|].
        * destruct Ha as (A1 & A2 & A3 & A4). cbn [stale isSome].
          destruct (v <? cd_ver cd) eqn:Es.
          -- apply Nat.ltb_lt in Es.
             destruct (IH (Some cd)) as [I1 I2]; [unfold okst; tauto|discriminate|exact Hes'|].
             split; [exact I1|]. destruct (afold u es (Some cd)); [|destruct I2; discriminate].
             rewrite I2. cbn [isSome]. assert (Ev : (v =? vn) = false) by (apply Nat.eqb_neq; lia). rewrite Ev. reflexivity.
          -- apply Nat.ltb_ge in Es.
             destruct (IH (Some (mkcdoc (cd_lang cd) t (cd_ign cd) v))) as [I1 I2];
               [unfold okst; cbn [cd_lang cd_ign cd_ver cd_text]; tauto|discriminate|exact Hes'|].
             split; [exact I1|]. destruct (afold u es (Some (mkcdoc (cd_lang cd) t (cd_ign cd) v))); [|destruct I2; discriminate].
             rewrite I2. cbn [isSome is_vn cd_ver].
             destruct (cd_ver cd =? vn) eqn:Ec; [|reflexivity]. apply Nat.eqb_eq in Ec.
             assert (Ev : (v =? vn) = true) by (apply Nat.eqb_eq; lia). rewrite Ev. reflexivity.
        * cbn [isSome is_vn orb]. destruct lgo as [l|].
          -- rewrite (Hl l eq_refl), has_parser_lg. assert (Ek : kind lg <> KNone) by exact Hlg.
             assert (Ea : (match kind lg with KNone => None | _ => Some (mkcdoc lg t [] v) end) = Some (mkcdoc lg t [] v))
               by (destruct (kind lg); congruence).
             rewrite Ea. pose proof (Hig eq_refl) as Eig.
             destruct (IH (Some (mkcdoc lg t [] v))) as [I1 I2];
               [unfold okst; cbn [cd_lang cd_ign cd_ver cd_text]; rewrite Eig; tauto|discriminate|exact Hes'|].
             split; [exact I1|]. destruct (afold u es (Some (mkcdoc lg t [] v))); [|destruct I2; discriminate].
             rewrite I2. reflexivity.
          -- destruct (IH None) as [I1 I2]; [exact Logic.I|exact Hig|exact Hes'|].
             split; [exact I1|]. destruct (afold u es None); [exact I2|]. split; [reflexivity|tauto].
      + rewrite (astep_other _ _ _ E). destruct (other_flags u vn e E) as (F1 & F2 & F3).
        destruct (IH a Ha Hig Hes') as [I1 I2]. split; [exact I1|].
        cbn [newest_installed]. rewrite F1, F3. cbn [orb].
        destruct (afold u es a); [|exact I2]. rewrite I2. destruct a; reflexivity.
  Qed.
End Versions.

(* ================================================================================================
   2. the invariant of the dispatcher
   ================================================================================================ *)
(* the handler holds the doc_state mutex across an await: inside use_ident_dict, or did_close after its removal *)
Definition holds (hs : hstate) : Prop := In IIdentFinish (h_prog hs) \/ h_prog hs = [IUnlock].

Definition envl (w : world) (l : locals) (n : nat) : Prop :=
  (n = 2 -> l_ans l = w_ccfg w) /\ (4 <= n -> l_snap l = w_ccfg w) /\
  (5 <= n -> l_ud l = w_udict w) /\ (6 <= n -> l_fd l = fdict_of w (l_url l)).

Definition bstage (w : world) (A : url -> option cdoc) (l : locals) (s : stage) : Prop :=
  let u := l_url l in
  match s with
  | SUpd n => n <= 6 /\ (exists t, l_text l = Some t) /\ (l_lang l <> None -> l_ver l <> None) /\ envl w l n
  | SIdent k => k <= 2 /\ s_lock w = true /\ l_snap l = w_ccfg w /\ (1 <= k -> l_ud l = w_udict w) /\
                (2 <= k -> l_fd l = fdict_of w u) /\
                exists t e2 cd', l_text l = Some t /\ lookup u (s_docs w) = Some (e_set_ident (t_ident t) e2) /\
                                 A u = Some cd' /\ ident_final w u t e2 = good_entry w u cd'
  | SPub | SRead | SClose => True
  | SUnlock => s_lock w = true
  | _ => False
  end.
Definition bpred (w : world) (A : url -> option cdoc) (hs : hstate) : Prop :=
  exists s, h_prog hs = prog_of s /\ bstage w A (h_loc hs) s.

(* a critical section stems from a message of the history *)
Definition from_op (h0 : list op) (e : event) : Prop :=
  (exists o, In o h0 /\ crit_op o = true /\ e = event_of o) \/ (exists u t, In (Save u) h0 /\ e = EUpd u None t None).

Record BInv (h0 : list op) (y : sys) (tr : list event) (A : url -> option cdoc) : Prop := mkBInv {
  bi_cfg : s_cfg (y_world y) = w_ccfg (y_world y);
  bi_ids : NoDup (map h_id (y_flight y));
  bi_next : forall hs, In hs (y_flight y) -> h_id hs < y_next y;
  bi_todo : forallb batch_op (y_todo y) = true;
  bi_sub : forall o, In o (y_todo y) -> In o h0;
  bi_aok : forall u cd, A u = Some cd -> kind (cd_lang cd) <> KNone;
  bi_stage : forall hs, In hs (y_flight y) -> bpred (y_world y) A hs;
  bi_lock : s_lock (y_world y) = false -> forall hs, In hs (y_flight y) -> ~ holds hs;
  bi_uniq : forall a b, In a (y_flight y) -> In b (y_flight y) -> holds a -> holds b -> h_id a = h_id b;
  (* doc_state is the abstract state, except for the document whose handler is inside use_ident_dict *)
  bi_doc : forall u, (forall hs, In hs (y_flight y) -> hurl hs = u -> ~ is_ident hs) ->
                     lookup u (s_docs (y_world y)) = option_map (good_entry (y_world y) u) (A u);
  (* the last word is what doc_state says, or a handler of the document has its publication ahead *)
  bi_pub : forall u, lastword (y_world y) u = pubval (y_world y) u \/
                     exists hs, In hs (y_flight y) /\ hurl hs = u /\ will_publish hs;
  (* accounting *)
  bi_src : forall hs e, In hs (y_flight y) -> hevent hs = Some e -> from_op h0 e;
  bi_save : forall hs, In hs (y_flight y) -> h_prog hs = prog_of SRead -> In (Save (hurl hs)) h0;
  bi_tr : forall e, In e tr -> from_op h0 e;
  bi_acct : forall o, In o h0 -> crit_op o = true ->
            In o (y_todo y) \/ (exists hs, In hs (y_flight y) /\ hevent hs = Some (event_of o)) \/ In (event_of o) tr
}.

(* ---------- small facts ---------- *)
Lemma good_env : forall w w' u cd,
  w_ccfg w' = w_ccfg w -> w_udict w' = w_udict w -> w_fdict w' = w_fdict w -> good_entry w' u cd = good_entry w u cd.
Proof. intros w w' u cd B C D. unfold good_entry, cur_dict, fdict_of. rewrite B, C, D. reflexivity. Qed.

Lemma pubval_same : forall w w' u,
  lookup u (s_docs w') = lookup u (s_docs w) -> s_cfg w' = s_cfg w -> pubval w' u = pubval w u.
Proof. intros w w' u A B. unfold pubval. rewrite A, B. reflexivity. Qed.

Lemma holds_ident : forall hs, is_ident hs -> holds hs.
Proof. intros hs I. left. exact I. Qed.

Lemma bstage_holds : forall w A hs s, h_prog hs = prog_of s -> bstage w A (h_loc hs) s -> ~ holds hs ->
  match s with SIdent _ | SUnlock => False | _ => True end.
Proof.
  intros w A hs s P S NH. destruct s; try exact Logic.I.
  - destruct S as (Hk & _). apply NH. left. rewrite P. apply (prog_ident k Hk).
  - apply NH. right. exact P.
Qed.

(* a handler that does not hold the mutex only looks at the files and the settings *)
Lemma bpred_transfer : forall w w' A A' hs,
  w_ccfg w' = w_ccfg w -> w_udict w' = w_udict w -> w_fdict w' = w_fdict w ->
  ~ holds hs -> bpred w A hs -> bpred w' A' hs.
Proof.
  intros w w' A A' hs B C D NH (s & P & S). pose proof (bstage_holds w A hs s P S NH) as X.
  exists s. split; [exact P|]. destruct s; cbn [bstage] in *; try contradiction; try exact Logic.I.
  unfold envl, fdict_of in *. rewrite B, C, D. exact S.
Qed.

(* the client's part of a message leaves the server, the dictionary files and the settings alone *)
Lemma client_effect_env : forall o w, batch_op o = true ->
  let w' := client_effect o w in
  w_ccfg w' = w_ccfg w /\ w_udict w' = w_udict w /\ w_fdict w' = w_fdict w /\ s_cfg w' = s_cfg w /\
  s_docs w' = s_docs w /\ s_lock w' = s_lock w /\ s_log w' = s_log w.
Proof.
  intros o w H. destruct o; cbn [batch_op] in H; try discriminate; cbn [client_effect].
  - repeat split.
  - destruct (lookup u (w_open w)); repeat split.
  - destruct (lookup u (w_open w)); [destruct (is_file u)|]; repeat split.
  - repeat split.
Qed.

Lemma bpred_env : forall w w' A hs,
  w_ccfg w' = w_ccfg w -> w_udict w' = w_udict w -> w_fdict w' = w_fdict w -> s_docs w' = s_docs w -> s_lock w' = s_lock w ->
  bpred w A hs -> bpred w' A hs.
Proof.
  intros w w' A hs B C D E F (s & P & S). exists s. split; [exact P|].
  destruct s; cbn [bstage] in *; try contradiction; try exact Logic.I.
  - unfold envl, fdict_of in *. rewrite B, C, D. exact S.
  - destruct S as (Hk & L & S1 & S2 & S3 & t & e2 & cd' & T1 & T2 & T3 & T4).
    split; [exact Hk|]. split; [congruence|]. unfold fdict_of in *. rewrite B, C, D, E.
    split; [exact S1|]. split; [exact S2|]. split; [exact S3|]. exists t, e2, cd'.
    split; [exact T1|]. split; [exact T2|]. split; [exact T3|].
    rewrite (ident_final_env w w' _ _ _ B C D), (good_env w w' _ _ B C D). exact T4.
  - congruence.
Qed.

(* ---------- the critical section of update_document on an up-to-date entry ---------- *)
Lemma exec_update_abs : forall w l t a push l' w',
  l_text l = Some t -> l_snap l = w_ccfg w -> l_ud l = w_udict w -> l_fd l = fdict_of w (l_url l) ->
  (l_lang l <> None -> l_ver l <> None) ->
  (forall cd, a = Some cd -> kind (cd_lang cd) <> KNone) ->
  lookup (l_url l) (s_docs w) = option_map (good_entry w (l_url l)) a ->
  exec IUpdate l w = Some (push, l', w') ->
  let a' := acrit (EUpd (l_url l) (l_lang l) t (l_ver l)) a in
  s_lock w = false /\ l' = l /\ (forall cd, a' = Some cd -> kind (cd_lang cd) <> KNone) /\
  ((push = [] /\ exists d, w' = set_docs d w /\ lookup (l_url l) d = option_map (good_entry w (l_url l)) a' /\
                           forall u', u' <> l_url l -> lookup u' d = lookup u' (s_docs w)) \/
   (push = [IIdentUD; IIdentFD; IIdentFinish] /\ exists cd' e2, a' = Some cd' /\
      w' = set_lock true (set_docs (upsert (l_url l) (e_set_ident (t_ident t) e2) (s_docs w)) w) /\
      ident_final w (l_url l) t e2 = good_entry w (l_url l) cd')).
Proof.
  intros w l t a push l' w' Ht Hs Hu Hf Hlv Hok He H. cbn zeta.
  cbn [exec] in H. destruct (s_lock w); [discriminate|]. split; [reflexivity|].
  rewrite Ht, Hs, Hu, Hf, He in H. fold (cur_dict w (l_url l)) in H.
  set (u := l_url l) in *.
  assert (Hup : forall e u', u' <> u -> lookup u' (upsert u e (s_docs w)) = lookup u' (s_docs w))
    by (intros e u' Hne; apply upsert_others, Hne).
  assert (Hrm : forall u', u' <> u -> lookup u' (remove u (s_docs w)) = lookup u' (s_docs w))
    by (intros u' Hne; apply lookup_remove_neq, url_eqb_neq, Hne).
  destruct a as [cd|]; cbn [option_map acrit] in *.
  - pose proof (Hok cd eq_refl) as Hk.
    unfold good_entry in H. cbn [e_ver] in H.
    destruct (stale (l_ver l) (Some (cd_ver cd))) eqn:Est.
    + inversion H; subst push l' w'. split; [reflexivity|]. split; [exact Hok|]. left. split; [reflexivity|].
      exists (s_docs w). split; [symmetry; apply set_docs_id|]. split; [exact He|]. intros; reflexivity.
    + set (v' := match l_ver l with Some v => v | None => cd_ver cd end).
      assert (Eb : bump (l_ver l) (mkentry (Some (cd_lang cd)) (with_ident (cur_dict w u) (idof (cd_lang cd) (cd_text cd)))
                          (idof (cd_lang cd) (cd_text cd)) (w_ccfg w) (Some (cd_text cd)) (w_ccfg w) (cd_ign cd) (cur_dict w u)
                          (with_ident (cur_dict w u) (idof (cd_lang cd) (cd_text cd))) (Some (cd_ver cd)))
                   = mkentry (Some (cd_lang cd)) (with_ident (cur_dict w u) (idof (cd_lang cd) (cd_text cd)))
                          (idof (cd_lang cd) (cd_text cd)) (w_ccfg w) (Some (cd_text cd)) (w_ccfg w) (cd_ign cd) (cur_dict w u)
                          (with_ident (cur_dict w u) (idof (cd_lang cd) (cd_text cd))) (Some v')).
      { unfold v'. destruct (l_ver l); reflexivity. }
      rewrite Eb in H. unfold rebase in H. cbn [e_base] in H. rewrite dictv_eqb_refl in H. cbn [e_lang e_ident] in H.
      assert (Haok : forall cd0, Some (mkcdoc (cd_lang cd) t (cd_ign cd) v') = Some cd0 -> kind (cd_lang cd0) <> KNone)
        by (intros cd0 E0; inversion E0; exact Hk).
      unfold idof in H. cbn [option_map]. unfold good_entry, idof, ident_final. cbn [cd_lang cd_text cd_ign cd_ver].
      destruct (kind (cd_lang cd)) eqn:Ek; [| |congruence].
      * inversion H; subst push l' w'. split; [reflexivity|]. split; [exact Haok|].
        left. split; [reflexivity|]. eexists. split; [reflexivity|]. split; [|exact (Hup _)].
        cbn [set_docs s_docs]. rewrite lookup_upsert_eq. reflexivity.
      * destruct (t_ident (cd_text cd) =? t_ident t) eqn:Ei.
        -- apply Nat.eqb_eq in Ei. inversion H; subst push l' w'. split; [reflexivity|]. split; [exact Haok|].
           left. split; [reflexivity|]. eexists. split; [reflexivity|]. split; [|exact (Hup _)].
           cbn [set_docs s_docs]. rewrite lookup_upsert_eq. rewrite Ei. reflexivity.
        -- inversion H; subst push l' w'. split; [reflexivity|]. split; [exact Haok|].
           right. split; [reflexivity|]. eexists. eexists. split; [reflexivity|]. split; [reflexivity|].
           unfold good_entry, idof, ident_final. cbn [cd_lang cd_text cd_ign cd_ver]. rewrite Ek. reflexivity.
  - cbn [new_entry e_ver] in H.
    assert (St : stale (l_ver l) None = false) by (destruct (l_ver l); reflexivity). rewrite St in H.
    destruct (l_lang l) as [lg|] eqn:El.
    + destruct (l_ver l) as [v|] eqn:Ev; [|exfalso; apply Hlv; [discriminate|reflexivity]].
      unfold rebase in H. cbn [bump e_set_ver e_base new_entry] in H. rewrite dictv_eqb_refl in H. cbn [e_lang e_ident e_set_ver new_entry] in H.
      cbn [option_map]. unfold good_entry, idof, ident_final. cbn [cd_lang cd_text cd_ign cd_ver].
      destruct (kind lg) eqn:Ek.
      * inversion H; subst push l' w'. split; [reflexivity|]. split; [intros cd0 E0; inversion E0; cbn; congruence|]. left. split; [reflexivity|]. eexists. split; [reflexivity|]. split; [|exact (Hup _)].
        cbn [set_docs s_docs]. rewrite lookup_upsert_eq. cbn [option_map cd_lang cd_text cd_ign cd_ver]. rewrite Ek. reflexivity.
      * destruct (0 =? t_ident t) eqn:Ei.
        -- apply Nat.eqb_eq in Ei. inversion H; subst push l' w'. split; [reflexivity|]. split; [intros cd0 E0; inversion E0; cbn; congruence|]. left. split; [reflexivity|]. eexists. split; [reflexivity|]. split; [|exact (Hup _)].
           cbn [set_docs s_docs]. rewrite lookup_upsert_eq. cbn [option_map cd_lang cd_text cd_ign cd_ver]. rewrite Ek, <- Ei. reflexivity.
        -- inversion H; subst push l' w'. split; [reflexivity|]. split; [intros cd0 E0; inversion E0; cbn; congruence|].
           right. split; [reflexivity|]. eexists. eexists. split; [reflexivity|]. split; [reflexivity|].
           cbn [cd_lang cd_text cd_ign cd_ver]. rewrite Ek. reflexivity.
      * inversion H; subst push l' w'. split; [reflexivity|]. split; [intros cd0 E0; discriminate|]. left. split; [reflexivity|]. eexists. split; [reflexivity|]. split; [|exact Hrm].
        cbn [set_docs s_docs]. apply lookup_remove_eq.
    + unfold rebase in H.
      assert (X : exists w1, Some ([] : list instr, l, w1) = Some (push, l', w') /\ w1 = set_docs (remove u (s_docs w)) w).
      { destruct (l_ver l); cbn [bump e_set_ver e_base new_entry] in H; rewrite dictv_eqb_refl in H; cbn [e_lang e_set_ver new_entry] in H; eexists; (split; [exact H|reflexivity]). }
      destruct X as (w1 & X1 & X2). inversion X1. subst push l' w' w1. split; [reflexivity|].
      split; [intros cd0 E0; destruct (l_ver l); discriminate|]. left. split; [reflexivity|]. eexists. split; [reflexivity|]. split; [|exact Hrm].
      cbn [set_docs s_docs]. rewrite lookup_remove_eq. destruct (l_ver l); reflexivity.
Qed.

(* ---------- one handler is replaced in the in-flight list ---------- *)
Lemma good_option_env : forall w w' u a,
  w_ccfg w' = w_ccfg w -> w_udict w' = w_udict w -> w_fdict w' = w_fdict w ->
  option_map (good_entry w' u) a = option_map (good_entry w u) a.
Proof. intros w w' u [cd|] B C D; [cbn; rewrite (good_env w w' u cd B C D); reflexivity|reflexivity]. Qed.

Section BReplace.
  Variables (h0 : list op) (y : sys) (tr : list event) (A : url -> option cdoc) (hs : hstate) (p' : list instr) (l' : locals).
  Hypothesis B : BInv h0 y tr A.
  Hypothesis Hin : In hs (y_flight y).
  Let h' := mkh (h_id hs) p' l'.
  Let fl := y_flight y.
  Let fl' := replace_h h' fl.

  Lemma br_keep : forall x, In x fl -> h_id x <> h_id hs -> In x fl'.
  Proof. intros x Hx Hne. apply replace_h_keeps; [exact Hx|exact Hne]. Qed.
  Lemma br_new : p' <> [] -> In h' fl'.
  Proof. intro Hp. apply replace_h_new; [cbn [h_id h']; apply in_map, Hin|exact Hp]. Qed.
  Lemma br_back : forall x, In x fl' -> (x = h' /\ p' <> []) \/ (In x fl /\ h_id x <> h_id hs).
  Proof. intros x Hx. exact (replace_back h' fl x (bi_ids _ _ _ _ B) Hx). Qed.
  Lemma br_same : forall x, In x fl -> h_id x = h_id hs -> x = hs.
  Proof. intros x Hx E. exact (in_flight_unique fl x hs (bi_ids _ _ _ _ B) Hx Hin E). Qed.
  Lemma br_next : forall x, In x fl' -> h_id x < y_next y.
  Proof.
    intros x Hx. destruct (br_back x Hx) as [[-> _]|[X _]]; [cbn [h_id h']; exact (bi_next _ _ _ _ B hs Hin)|exact (bi_next _ _ _ _ B x X)].
  Qed.

  (* a step that changes neither the world nor what the invariant sees of the handler *)
  Lemma binv_local :
    p' <> [] -> l_url l' = hurl hs ->
    (holds h' <-> holds hs) -> (is_ident h' <-> is_ident hs) -> (will_publish hs -> will_publish h') ->
    bpred (y_world y) A h' ->
    (forall e, hevent hs = Some e -> hevent h' = Some e) ->
    (forall e, hevent h' = Some e -> from_op h0 e) ->
    (p' = prog_of SRead -> h_prog hs = prog_of SRead) ->
    BInv h0 (mksys (y_world y) fl' (y_todo y) (y_next y)) tr A.
  Proof.
    intros Hp Hu Hh Hi Hpub HP Hev Hsrc Hrd.
    assert (M : forall x, In x fl' -> exists x0, In x0 fl /\ h_id x0 = h_id x /\ hurl x0 = hurl x /\
                                        (holds x -> holds x0) /\ (is_ident x -> is_ident x0)).
    { intros x Hx. destruct (br_back x Hx) as [[-> _]|[X _]].
      - exists hs. split; [exact Hin|]. split; [reflexivity|]. split; [symmetry; exact Hu|]. split; [apply Hh|apply Hi].
      - exists x. repeat split; auto. }
    constructor; cbn [y_world y_flight y_next y_todo].
    - exact (bi_cfg _ _ _ _ B).
    - apply replace_h_NoDup_ids, (bi_ids _ _ _ _ B).
    - exact br_next.
    - exact (bi_todo _ _ _ _ B).
    - exact (bi_sub _ _ _ _ B).
    - exact (bi_aok _ _ _ _ B).
    - intros x Hx. destruct (br_back x Hx) as [[-> _]|[X _]]; [exact HP|exact (bi_stage _ _ _ _ B x X)].
    - intros L x Hx Hhx. destruct (M x Hx) as (x0 & X1 & _ & _ & X4 & _). exact (bi_lock _ _ _ _ B L x0 X1 (X4 Hhx)).
    - intros a b Ha Hb Ia Ib. destruct (M a Ha) as (a0 & A1 & A2 & _ & A4 & _). destruct (M b Hb) as (b0 & B1 & B2 & _ & B4 & _).
      rewrite <- A2, <- B2. exact (bi_uniq _ _ _ _ B a0 b0 A1 B1 (A4 Ia) (B4 Ib)).
    - intros u Hn. apply (bi_doc _ _ _ _ B u). intros x Hx Hxu Ix.
      destruct (Nat.eq_dec (h_id x) (h_id hs)) as [E|E].
      + apply br_same in E; [|exact Hx]. subst x. apply (Hn h' (br_new Hp)); [exact (eq_trans Hu Hxu)|apply Hi, Ix].
      + exact (Hn x (br_keep x Hx E) Hxu Ix).
    - intro u. destruct (bi_pub _ _ _ _ B u) as [X|(x & Hx & Hxu & Hxp)]; [left; exact X|right].
      destruct (Nat.eq_dec (h_id x) (h_id hs)) as [E|E].
      + apply br_same in E; [|exact Hx]. subst x. exists h'. split; [exact (br_new Hp)|]. split; [exact (eq_trans Hu Hxu)|exact (Hpub Hxp)].
      + exists x. split; [exact (br_keep x Hx E)|]. split; assumption.
    - intros x e Hx He. destruct (br_back x Hx) as [[-> _]|[X _]]; [exact (Hsrc e He)|exact (bi_src _ _ _ _ B x e X He)].
    - intros x Hx Hpx. destruct (br_back x Hx) as [[-> _]|[X _]].
      + change (hurl h') with (l_url l'). rewrite Hu. apply (bi_save _ _ _ _ B hs Hin). apply Hrd. exact Hpx.
      + exact (bi_save _ _ _ _ B x X Hpx).
    - exact (bi_tr _ _ _ _ B).
    - intros o Ho Hc. destruct (bi_acct _ _ _ _ B o Ho Hc) as [X|[(x & Hx & He)|X]]; [left; exact X| |right; right; exact X].
      right. left. destruct (Nat.eq_dec (h_id x) (h_id hs)) as [E|E].
      + apply br_same in E; [|exact Hx]. subst x. exists h'. split; [exact (br_new Hp)|exact (Hev _ He)].
      + exists x. split; [exact (br_keep x Hx E)|exact He].
  Qed.

  (* a step of hs that changes doc_state / the log / the abstract state at its own document only, while no
     other handler holds the mutex *)
  Lemma binv_nonlocal : forall w' A' tr',
    (forall x, In x fl -> h_id x <> h_id hs -> ~ holds x) ->
    w_ccfg w' = w_ccfg (y_world y) -> w_udict w' = w_udict (y_world y) -> w_fdict w' = w_fdict (y_world y) ->
    s_cfg w' = s_cfg (y_world y) ->
    (forall u', u' <> hurl hs -> lookup u' (s_docs w') = lookup u' (s_docs (y_world y)) /\
                                  lastword w' u' = lastword (y_world y) u' /\ A' u' = A u') ->
    l_url l' = hurl hs ->
    (p' <> [] -> bpred w' A' h') ->
    (s_lock w' = false -> ~ holds h') ->
    (forall cd, A' (hurl hs) = Some cd -> kind (cd_lang cd) <> KNone) ->
    (~ In IIdentFinish p' -> lookup (hurl hs) (s_docs w') = option_map (good_entry w' (hurl hs)) (A' (hurl hs))) ->
    (lastword w' (hurl hs) = pubval w' (hurl hs) \/ In IPublish p' \/
     exists x, In x fl /\ h_id x <> h_id hs /\ hurl x = hurl hs /\ will_publish x) ->
    hevent h' = None -> p' <> prog_of SRead ->
    tr' = tr ++ (match hevent hs with Some e => [e] | None => [] end) ->
    BInv h0 (mksys w' fl' (y_todo y) (y_next y)) tr' A'.
  Proof.
    intros w' A' tr' NOH E2 E3 E4 E5 Oth Hu HP HL Hok HD Hpb Hev Hrd Htr.
    constructor; cbn [y_world y_flight y_next y_todo].
    - rewrite E5, E2. exact (bi_cfg _ _ _ _ B).
    - apply replace_h_NoDup_ids, (bi_ids _ _ _ _ B).
    - exact br_next.
    - exact (bi_todo _ _ _ _ B).
    - exact (bi_sub _ _ _ _ B).
    - intros u cd Hc. destruct (url_eq_dec u (hurl hs)) as [->|Hne]; [exact (Hok cd Hc)|].
      destruct (Oth u Hne) as (_ & _ & EA). rewrite EA in Hc. exact (bi_aok _ _ _ _ B u cd Hc).
    - intros x Hx. destruct (br_back x Hx) as [[-> Hp]|[X X']]; [exact (HP Hp)|].
      apply (bpred_transfer (y_world y) w' A A' x E2 E3 E4 (NOH x X X') (bi_stage _ _ _ _ B x X)).
    - intros L x Hx Hhx. destruct (br_back x Hx) as [[-> _]|[X X']]; [exact (HL L Hhx)|exact (NOH x X X' Hhx)].
    - intros a b Ha Hb Ia Ib.
      destruct (br_back a Ha) as [[-> _]|[X X']]; [|exfalso; exact (NOH a X X' Ia)].
      destruct (br_back b Hb) as [[-> _]|[X X']]; [reflexivity|exfalso; exact (NOH b X X' Ib)].
    - intros u Hn. destruct (url_eq_dec u (hurl hs)) as [->|Hne].
      + apply HD. intro I. apply (Hn h'); [apply br_new; intro E; rewrite E in I; exact I|exact Hu|exact I].
      + destruct (Oth u Hne) as (ED & _ & EA). rewrite ED, EA, (good_option_env _ _ _ _ E2 E3 E4).
        apply (bi_doc _ _ _ _ B u). intros x Hx Hxu Ix.
        assert (Hne' : h_id x <> h_id hs) by (intro E; apply br_same in E; [subst x; exact (Hne (eq_sym Hxu))|exact Hx]).
        exact (NOH x Hx Hne' (holds_ident x Ix)).
    - intro u. destruct (url_eq_dec u (hurl hs)) as [->|Hne].
      + destruct Hpb as [X|[X|(x & X1 & X2 & X3 & X4)]]; [left; exact X|right|right].
        * exists h'. split; [apply br_new; intro E; rewrite E in X; exact X|]. split; [exact Hu|exact X].
        * exists x. split; [exact (br_keep x X1 X2)|]. split; assumption.
      + destruct (Oth u Hne) as (ED & EL & _). rewrite EL, (pubval_same _ _ u ED E5).
        destruct (bi_pub _ _ _ _ B u) as [X|(x & Hx & Hxu & Hxp)]; [left; exact X|right].
        exists x. split; [|split; assumption]. apply br_keep; [exact Hx|].
        intro E; apply br_same in E; [subst x; exact (Hne (eq_sym Hxu))|exact Hx].
    - intros x e Hx He. destruct (br_back x Hx) as [[-> _]|[X _]]; [rewrite Hev in He; discriminate|exact (bi_src _ _ _ _ B x e X He)].
    - intros x Hx Hpx. destruct (br_back x Hx) as [[-> _]|[X _]]; [exfalso; exact (Hrd Hpx)|exact (bi_save _ _ _ _ B x X Hpx)].
    - intros e He. subst tr'. apply in_app_or in He as [He|He]; [exact (bi_tr _ _ _ _ B e He)|].
      destruct (hevent hs) as [e0|] eqn:E0; [|contradiction]. destruct He as [<-|[]]. exact (bi_src _ _ _ _ B hs e0 Hin E0).
    - intros o Ho Hc. destruct (bi_acct _ _ _ _ B o Ho Hc) as [X|[(x & Hx & He)|X]]; [left; exact X| |right; right; subst tr'; apply in_or_app; left; exact X].
      right. destruct (Nat.eq_dec (h_id x) (h_id hs)) as [E|E].
      + apply br_same in E; [|exact Hx]. subst x. right. subst tr'. rewrite He. apply in_or_app. right. left. reflexivity.
      + left. exists x. split; [exact (br_keep x Hx E)|exact He].
  Qed.
End BReplace.

(* ---------- a handler advances ---------- *)
Lemma crit_event_spec : forall id y hs i p, find_h id (y_flight y) = Some hs -> h_prog hs = i :: p ->
  crit_event id y = match i with
                    | IUpdate | IClose => match hevent hs with Some e => [e] | None => [] end
                    | _ => []
                    end.
Proof. intros id y hs i p Hf Hp. unfold crit_event. rewrite Hf, Hp. destruct i; reflexivity. Qed.

Lemma not_holds_pub : forall id l, ~ holds (mkh id [IPublish] l).
Proof. intros id l [H|H]; cbn in H; [intuition discriminate|discriminate]. Qed.
Lemma not_holds_nil : forall id l, ~ holds (mkh id [] l).
Proof. intros id l [H|H]; cbn in H; [exact H|discriminate]. Qed.

Ltac hev_keep Ep := let e := fresh "e" in let He := fresh "He" in
  intros e He; unfold hevent in *; rewrite Ep in He; cbn in He |- *; first [exact He|discriminate He].
Ltac no_holds Ep := unfold holds; rewrite ?Ep; cbn; split; intros [X|X]; try discriminate X; intuition discriminate.
Ltac no_ident Ep := unfold is_ident; rewrite ?Ep; cbn; intuition discriminate.

Lemma binv_run_step : forall h0 id y y' tr A, BInv h0 y tr A -> step (CRun id) y = Some y' ->
  BInv h0 y' (tr ++ crit_event id y) (fun u => afold u (crit_event id y) (A u)).
Proof.
  intros h0 id y y' tr A B H. cbn [step] in H.
  destruct (find_h id (y_flight y)) as [hs|] eqn:Ef; [|discriminate].
  destruct (h_prog hs) as [|i p] eqn:Ep; [discriminate|].
  destruct (exec i (h_loc hs) (y_world y)) as [[[push l'] w']|] eqn:Ee; [|discriminate].
  inversion H; subst y'; clear H.
  rewrite (crit_event_spec id y hs i p Ef Ep).
  destruct (find_h_In _ _ _ Ef) as [Hin Hid]. subst id. clear Ef.
  destruct (bi_stage _ _ _ _ B hs Hin) as (s & P & S). rewrite Ep in P.
  destruct s as [n|k| | | | |k|]; cbn [bstage] in S; try contradiction.
  - (* update_document *)
    destruct S as (Hn & (t & Ht) & Hlv & (A2 & A4 & A5 & A6)).
    destruct n as [|[|[|[|[|[|[|n]]]]]]]; [| | | | | | |exfalso; lia];
      cbn [prog_of skipn update_seq app] in P; inversion P; subst i p; clear P.
    1-6: cbn [exec] in Ee; inversion Ee; subst push l' w'; cbn [app]; rewrite app_nil_r.
    3: rewrite (A2 eq_refl), <- (bi_cfg _ _ _ _ B), set_scfg_id.
    1-6: apply (binv_local h0 y tr A hs _ _ B Hin);
      [discriminate|reflexivity|no_holds Ep|no_ident Ep|unfold will_publish; rewrite Ep; cbn; intuition| |hev_keep Ep
      |intros e He; apply (bi_src _ _ _ _ B hs e Hin); unfold hevent in *; rewrite Ep; cbn in He |- *; exact He
      |intro X; discriminate X].
    + exists (SUpd 1). split; [reflexivity|]. cbn [bstage h_loc]. split; [lia|]. split; [exists t; exact Ht|]. split; [exact Hlv|].
      repeat split; intros; lia.
    + exists (SUpd 2). split; [reflexivity|]. cbn [bstage h_loc]. split; [lia|]. split; [exists t; exact Ht|]. split; [exact Hlv|].
      repeat split; intros; try lia; try reflexivity.
    + exists (SUpd 3). split; [reflexivity|]. cbn [bstage h_loc]. split; [lia|]. split; [exists t; exact Ht|]. split; [exact Hlv|].
      repeat split; intros; lia.
    + exists (SUpd 4). split; [reflexivity|]. cbn [bstage h_loc]. split; [lia|]. split; [exists t; exact Ht|]. split; [exact Hlv|].
      repeat split; intros; try lia; try exact (bi_cfg _ _ _ _ B).
    + exists (SUpd 5). split; [reflexivity|]. cbn [bstage h_loc]. split; [lia|]. split; [exists t; exact Ht|]. split; [exact Hlv|].
      repeat split; intros; try lia; try reflexivity; try (apply A4; lia).
    + exists (SUpd 6). split; [reflexivity|]. cbn [bstage h_loc]. split; [lia|]. split; [exists t; exact Ht|]. split; [exact Hlv|].
      repeat split; intros; try lia; try reflexivity; try (apply A4; lia); try (apply A5; lia).
    + (* the critical section *)
      assert (B4 := A4 ltac:(lia)). assert (B5 := A5 ltac:(lia)). assert (B6 := A6 ltac:(lia)).
      assert (L : s_lock (y_world y) = false) by (cbn [exec] in Ee; destruct (s_lock (y_world y)); [discriminate|reflexivity]).
      assert (NOH : forall x, In x (y_flight y) -> h_id x <> h_id hs -> ~ holds x) by (intros x Hx _; exact (bi_lock _ _ _ _ B L x Hx)).
      assert (Hd : lookup (hurl hs) (s_docs (y_world y)) = option_map (good_entry (y_world y) (hurl hs)) (A (hurl hs))).
      { apply (bi_doc _ _ _ _ B). intros x Hx _ I. exact (bi_lock _ _ _ _ B L x Hx (holds_ident x I)). }
      assert (He0 : hevent hs = Some (EUpd (hurl hs) (l_lang (h_loc hs)) t (l_ver (h_loc hs)))).
      { unfold hevent. rewrite Ep. cbn. rewrite Ht. reflexivity. }
      rewrite He0.
      set (e := EUpd (hurl hs) (l_lang (h_loc hs)) t (l_ver (h_loc hs))) in *.
      set (A' := fun u => afold u [e] (A u)).
      assert (EA : A' (hurl hs) = acrit e (A (hurl hs))).
      { unfold A'. cbn [afold fold_left]. unfold astep. cbn [ev_url e]. rewrite url_eqb_refl. reflexivity. }
      assert (OA : forall u', u' <> hurl hs -> A' u' = A u').
      { intros u' Hne. unfold A'. cbn [afold fold_left]. apply astep_other. cbn [ev_url e]. congruence. }
      destruct (exec_update_abs _ _ t (A (hurl hs)) _ _ _ Ht B4 B5 B6 Hlv (bi_aok _ _ _ _ B (hurl hs)) Hd Ee)
        as (_ & -> & Hok' & [(-> & d & -> & Dd & Do)|(-> & cd' & e2 & Ecd & -> & Efin)]); fold e in Hok', Dd || fold e in Hok'.
      * cbn [app]. apply (binv_nonlocal h0 y tr A hs _ _ B Hin _ A' _ NOH); try reflexivity.
        -- intros u' Hne. split; [cbn [s_docs set_docs]; exact (Do u' Hne)|]. split; [reflexivity|exact (OA u' Hne)].
        -- intros _. exists SPub. split; [reflexivity|exact Logic.I].
        -- intros _. apply not_holds_pub.
        -- rewrite EA. exact Hok'.
        -- intros _. rewrite EA. exact Dd.
        -- right. left. left. reflexivity.
        -- discriminate.
        -- rewrite He0. reflexivity.
      * apply (binv_nonlocal h0 y tr A hs _ _ B Hin _ A' _ NOH); try reflexivity.
        -- intros u' Hne. split; [cbn [s_docs set_lock set_docs]; apply upsert_others, Hne|]. split; [reflexivity|exact (OA u' Hne)].
        -- intros _. exists (SIdent 0). split; [reflexivity|]. cbn [bstage h_loc].
           split; [lia|]. split; [reflexivity|]. split; [exact B4|]. split; [intros; lia|]. split; [intros; lia|].
           exists t, e2, cd'. split; [exact Ht|]. split; [cbn [s_docs set_lock set_docs]; apply lookup_upsert_eq|].
           split; [unfold hurl in EA; rewrite EA; exact Ecd|exact Efin].
        -- intro X. discriminate X.
        -- rewrite EA. exact Hok'.
        -- intro X. exfalso. apply X. cbn. tauto.
        -- right. left. cbn. tauto.
        -- discriminate.
        -- rewrite He0. reflexivity.
  - (* use_ident_dict *)
    destruct S as (Hk & L & S1 & S2 & S3 & t & e2 & cd' & T1 & T2 & T3 & T4).
    assert (Hh : holds hs) by (left; rewrite Ep, P; apply (prog_ident k Hk)).
    destruct k as [|[|[|k]]]; [| | |exfalso; lia]; cbn [prog_of skipn] in P; inversion P; subst i p; clear P.
    1-2: cbn [exec] in Ee; inversion Ee; subst push l' w'; cbn [app]; rewrite app_nil_r.
    1-2: apply (binv_local h0 y tr A hs _ _ B Hin);
      [discriminate|reflexivity|unfold holds; rewrite Ep; cbn; tauto|unfold is_ident; rewrite Ep; cbn; tauto|unfold will_publish; rewrite Ep; cbn; intuition| |hev_keep Ep
      |intros e He; unfold hevent in He; cbn in He; discriminate He
      |intro X; discriminate X].
    + exists (SIdent 1). split; [reflexivity|]. cbn [bstage h_loc l_snap l_ud l_fd l_url l_text lset_ud].
      split; [lia|]. split; [exact L|]. split; [exact S1|]. split; [intros; reflexivity|]. split; [intros; lia|].
      exists t, e2, cd'. repeat split; assumption.
    + exists (SIdent 2). split; [reflexivity|]. cbn [bstage h_loc l_snap l_ud l_fd l_url l_text lset_fd].
      split; [lia|]. split; [exact L|]. split; [exact S1|]. split; [intros; apply S2; lia|]. split; [intros; reflexivity|].
      exists t, e2, cd'. repeat split; assumption.
    + (* the merged dictionary, the new linter and the document are installed; the mutex is released *)
      cbn [exec] in Ee. rewrite T1, T2 in Ee. inversion Ee; subst push l' w'. clear Ee. cbn [app]. rewrite app_nil_r.
      assert (NOH : forall x, In x (y_flight y) -> h_id x <> h_id hs -> ~ holds x).
      { intros x Hx Hne I. apply Hne. exact (bi_uniq _ _ _ _ B x hs Hx Hin I Hh). }
      assert (Efin : e_set_doc t (l_snap (h_loc hs))
                       (e_set_dict (mkdict (l_ud (h_loc hs)) (l_fd (h_loc hs)) (t_ident t)) (l_snap (h_loc hs)) (e_set_ident (t_ident t) e2))
                     = good_entry (y_world y) (l_url (h_loc hs)) cd').
      { rewrite <- T4. unfold ident_final, with_ident, cur_dict. cbn [e_ident e_set_ident dv_user dv_file].
        rewrite S1, (S2 ltac:(lia)), (S3 ltac:(lia)). reflexivity. }
      cbn [e_ident e_set_ident]. rewrite Efin.
      assert (He0 : hevent hs = None) by (unfold hevent; rewrite Ep; reflexivity).
      apply (binv_nonlocal h0 y tr A hs _ _ B Hin _ A _ NOH); try reflexivity.
      * intros u' Hne. split; [cbn [s_docs set_lock set_docs]; apply upsert_others, Hne|]. split; reflexivity.
      * intros _. exists SPub. split; [reflexivity|exact Logic.I].
      * intros _. apply not_holds_pub.
      * exact (bi_aok _ _ _ _ B (hurl hs)).
      * intros _. cbn [s_docs set_lock set_docs]. unfold hurl. rewrite lookup_upsert_eq, T3. reflexivity.
      * right. left. left. reflexivity.
      * discriminate.
      * rewrite He0. symmetry. apply app_nil_r.
  - (* publish_diagnostics *)
    cbn [prog_of] in P. inversion P; subst i p; clear P.
    cbn [exec] in Ee. destruct (s_lock (y_world y)) eqn:L; [discriminate|]. inversion Ee; subst push l' w'. clear Ee. cbn [app]. rewrite app_nil_r.
    assert (NOH : forall x, In x (y_flight y) -> h_id x <> h_id hs -> ~ holds x) by (intros x Hx _; exact (bi_lock _ _ _ _ B L x Hx)).
    assert (He0 : hevent hs = None) by (unfold hevent; rewrite Ep; reflexivity).
    apply (binv_nonlocal h0 y tr A hs _ _ B Hin _ A _ NOH); try reflexivity.
    + intros u' Hne. split; [reflexivity|]. split; [|reflexivity]. rewrite lastword_send.
      apply url_eqb_neq in Hne. unfold hurl in Hne. rewrite Hne. reflexivity.
    + intro X. exfalso. apply X. reflexivity.
    + intros _. apply not_holds_nil.
    + exact (bi_aok _ _ _ _ B (hurl hs)).
    + intros _. apply (bi_doc _ _ _ _ B). intros x Hx _ I. exact (bi_lock _ _ _ _ B L x Hx (holds_ident x I)).
    + left. rewrite lastword_send. unfold hurl. rewrite url_eqb_refl. reflexivity.
    + discriminate.
    + rewrite He0. symmetry. apply app_nil_r.
  - (* did_save: the file is read *)
    cbn [prog_of] in P. inversion P; subst i p; clear P.
    assert (He0 : hevent hs = None) by (unfold hevent; rewrite Ep; reflexivity).
    cbn [exec] in Ee. rewrite app_nil_r.
    destruct (is_file (l_url (h_loc hs))).
    1: destruct (lookup (l_url (h_loc hs)) (w_disk (y_world y))) as [t|] eqn:Ed.
    all: inversion Ee; subst push l' w'; clear Ee.
    + apply (binv_local h0 y tr A hs _ _ B Hin);
        [discriminate|reflexivity|no_holds Ep|no_ident Ep|unfold will_publish; rewrite Ep; cbn; intuition| |intros e He; rewrite He0 in He; discriminate He| |intro X; discriminate X].
      * exists (SUpd 0). split; [reflexivity|]. cbn [bstage h_loc l_text l_lang l_ver lset_ver lset_lang lset_text].
        split; [lia|]. split; [exists t; reflexivity|]. split; [intro X; exfalso; apply X; reflexivity|]. repeat split; intros; lia.
      * intros e He. unfold hevent in He. cbn in He. inversion He. right. exists (hurl hs), t. split; [|reflexivity].
        apply (bi_save _ _ _ _ B hs Hin). exact Ep.
    + apply (binv_local h0 y tr A hs _ _ B Hin);
        [discriminate|reflexivity|no_holds Ep|no_ident Ep|unfold will_publish; rewrite Ep; cbn; intuition| |intros e He; rewrite He0 in He; discriminate He
        |intros e He; unfold hevent in He; cbn in He; discriminate He|intro X; discriminate X].
      exists SPub. split; [reflexivity|exact Logic.I].
    + apply (binv_local h0 y tr A hs _ _ B Hin);
        [discriminate|reflexivity|no_holds Ep|no_ident Ep|unfold will_publish; rewrite Ep; cbn; intuition| |intros e He; rewrite He0 in He; discriminate He
        |intros e He; unfold hevent in He; cbn in He; discriminate He|intro X; discriminate X].
      exists SPub. split; [reflexivity|exact Logic.I].
  - (* did_close *)
    cbn [prog_of] in P. inversion P; subst i p; clear P.
    cbn [exec] in Ee. destruct (s_lock (y_world y)) eqn:L; [discriminate|]. inversion Ee; subst push l' w'. clear Ee. cbn [app].
    assert (NOH : forall x, In x (y_flight y) -> h_id x <> h_id hs -> ~ holds x) by (intros x Hx _; exact (bi_lock _ _ _ _ B L x Hx)).
    assert (He0 : hevent hs = Some (EClose (hurl hs))) by (unfold hevent; rewrite Ep; reflexivity).
    rewrite He0.
    set (A' := fun u => afold u [EClose (hurl hs)] (A u)).
    assert (EA : A' (hurl hs) = None).
    { unfold A'. cbn [afold fold_left]. unfold astep. cbn [ev_url]. rewrite url_eqb_refl. reflexivity. }
    assert (OA : forall u', u' <> hurl hs -> A' u' = A u').
    { intros u' Hne. unfold A'. cbn [afold fold_left]. apply astep_other. cbn [ev_url]. congruence. }
    apply (binv_nonlocal h0 y tr A hs _ _ B Hin _ A' _ NOH); try reflexivity.
    + intros u' Hne. split; [cbn [s_docs set_lock send set_log set_docs]; apply lookup_remove_neq, url_eqb_neq, Hne|].
      split; [|exact (OA u' Hne)]. unfold lastword. cbn [s_log set_lock send set_log set_docs last_pub].
      apply url_eqb_neq in Hne. unfold hurl in Hne. rewrite Hne. reflexivity.
    + intros _. exists SUnlock. split; [reflexivity|]. reflexivity.
    + intro X. discriminate X.
    + intros cd X. rewrite EA in X. discriminate X.
    + intros _. rewrite EA. cbn [s_docs set_lock send set_log set_docs option_map]. apply lookup_remove_eq.
    + left. unfold lastword, pubval. cbn [s_log s_docs set_lock send set_log set_docs last_pub]. unfold hurl.
      rewrite url_eqb_refl, lookup_remove_eq. reflexivity.
    + discriminate.
    + rewrite He0. reflexivity.
  - (* the guard of did_close is dropped *)
    cbn [prog_of] in P. inversion P; subst i p; clear P.
    cbn [exec] in Ee. inversion Ee; subst push l' w'. clear Ee. cbn [app]. rewrite app_nil_r.
    assert (Hh : holds hs) by (right; exact Ep).
    assert (NOH : forall x, In x (y_flight y) -> h_id x <> h_id hs -> ~ holds x).
    { intros x Hx Hne I. apply Hne. exact (bi_uniq _ _ _ _ B x hs Hx Hin I Hh). }
    assert (He0 : hevent hs = None) by (unfold hevent; rewrite Ep; reflexivity).
    apply (binv_nonlocal h0 y tr A hs _ _ B Hin _ A _ NOH); try reflexivity.
    + intros u' Hne. repeat split.
    + intro X. exfalso. apply X. reflexivity.
    + intros _. apply not_holds_nil.
    + exact (bi_aok _ _ _ _ B (hurl hs)).
    + intros _. apply (bi_doc _ _ _ _ B). intros x Hx Hxu I.
      destruct (Nat.eq_dec (h_id x) (h_id hs)) as [E|E].
      * apply (in_flight_unique _ x hs (bi_ids _ _ _ _ B) Hx Hin) in E. subst x. unfold is_ident in I. rewrite Ep in I. cbn in I. intuition discriminate.
      * exact (NOH x Hx E (holds_ident x I)).
    + destruct (bi_pub _ _ _ _ B (hurl hs)) as [X|(x & Hx & Hxu & Hxp)]; [left; exact X|right; right].
      exists x. split; [exact Hx|]. split; [|split; assumption].
      intro E. apply (in_flight_unique _ x hs (bi_ids _ _ _ _ B) Hx Hin) in E. subst x. unfold will_publish in Hxp. rewrite Ep in Hxp. cbn in Hxp. intuition discriminate.
    + discriminate.
    + rewrite He0. symmetry. apply app_nil_r.
Qed.

(* ---------- a message is admitted ---------- *)
Lemma binv_admit : forall h0 y y' tr A, BInv h0 y tr A -> step CAdmit y = Some y' -> BInv h0 y' tr A.
Proof.
  intros h0 y y' tr A B H. cbn [step] in H. destruct (y_todo y) as [|o rest] eqn:Et; [discriminate|].
  destruct (length (y_flight y) <? max_in_flight); [|discriminate]. inversion H; subst y'; clear H.
  pose proof (bi_todo _ _ _ _ B) as Ht. rewrite Et in Ht. cbn [forallb] in Ht. apply andb_true_iff in Ht as [Ho Hr].
  destruct (client_effect_env o (y_world y) Ho) as (E2 & E3 & E4 & E5 & E6 & E7 & E8).
  set (w1 := client_effect o (y_world y)) in *.
  set (hn := mkh (y_next y) (prog o) (locals_of o)).
  assert (Hnh : ~ holds hn).
  { destruct o; try discriminate Ho; intros [X|X]; cbn in X; try discriminate X; intuition discriminate. }
  assert (Hpn : bpred w1 A hn).
  { destruct o; try discriminate Ho.
    - exists (SUpd 0). split; [reflexivity|]. cbn. split; [lia|]. split; [eexists; reflexivity|]. split; [intros _ X; discriminate X|].
      repeat split; intros; lia.
    - exists (SUpd 0). split; [reflexivity|]. cbn. split; [lia|]. split; [eexists; reflexivity|]. split; [intros X; exfalso; apply X; reflexivity|].
      repeat split; intros; lia.
    - exists SRead. split; [reflexivity|exact Logic.I].
    - exists SClose. split; [reflexivity|exact Logic.I]. }
  assert (Hev : hevent hn = if crit_op o then Some (event_of o) else None).
  { destruct o; try discriminate Ho; reflexivity. }
  assert (Hsv : h_prog hn = prog_of SRead -> o = Save (hurl hn)).
  { destruct o; try discriminate Ho; intro X; try discriminate X. reflexivity. }
  assert (Hold : forall x, In x (y_flight y ++ [hn]) -> In x (y_flight y) \/ x = hn).
  { intros x Hx. apply in_app_or in Hx as [Hx|[<-|[]]]; [left; exact Hx|right; reflexivity]. }
  constructor; cbn [y_world y_flight y_next y_todo]; fold w1.
  - rewrite E5, E2. exact (bi_cfg _ _ _ _ B).
  - rewrite map_app. cbn [map h_id hn]. apply NoDup_app_intro.
    + exact (bi_ids _ _ _ _ B).
    + constructor; [intros []|constructor].
    + intros x Hx [<-|[]]. apply in_map_iff in Hx as (hs & E & Hin). pose proof (bi_next _ _ _ _ B hs Hin). lia.
  - intros hs Hin. destruct (Hold hs Hin) as [X| ->]; [pose proof (bi_next _ _ _ _ B hs X); lia|cbn; lia].
  - exact Hr.
  - intros o' Ho'. apply (bi_sub _ _ _ _ B). rewrite Et. right. exact Ho'.
  - exact (bi_aok _ _ _ _ B).
  - intros hs Hin. destruct (Hold hs Hin) as [X| ->]; [|exact Hpn].
    exact (bpred_env (y_world y) w1 A hs E2 E3 E4 E6 E7 (bi_stage _ _ _ _ B hs X)).
  - rewrite E7. intros L hs Hin. destruct (Hold hs Hin) as [X| ->]; [exact (bi_lock _ _ _ _ B L hs X)|exact Hnh].
  - intros a b Ha Hb Ia Ib.
    destruct (Hold a Ha) as [Xa| ->]; [|exfalso; exact (Hnh Ia)].
    destruct (Hold b Hb) as [Xb| ->]; [|exfalso; exact (Hnh Ib)].
    exact (bi_uniq _ _ _ _ B a b Xa Xb Ia Ib).
  - intros u Hn. rewrite E6, (good_option_env _ _ _ _ E2 E3 E4). apply (bi_doc _ _ _ _ B u).
    intros x Hx. apply Hn. apply in_or_app. left. exact Hx.
  - intro u. assert (EL : lastword w1 u = lastword (y_world y) u) by (unfold lastword; rewrite E8; reflexivity).
    assert (EP : pubval w1 u = pubval (y_world y) u) by (apply pubval_same; [rewrite E6; reflexivity|exact E5]).
    rewrite EL, EP. destruct (bi_pub _ _ _ _ B u) as [X|(x & Hx & Hxu & Hxp)]; [left; exact X|right].
    exists x. split; [apply in_or_app; left; exact Hx|split; assumption].
  - intros hs e Hin He. destruct (Hold hs Hin) as [X| ->]; [exact (bi_src _ _ _ _ B hs e X He)|].
    rewrite Hev in He. destruct (crit_op o) eqn:Ec; [|discriminate]. inversion He. left. exists o.
    split; [apply (bi_sub _ _ _ _ B); rewrite Et; left; reflexivity|]. split; [exact Ec|reflexivity].
  - intros hs Hin Hp. destruct (Hold hs Hin) as [X| ->]; [exact (bi_save _ _ _ _ B hs X Hp)|].
    rewrite <- (Hsv Hp). apply (bi_sub _ _ _ _ B). rewrite Et. left. reflexivity.
  - exact (bi_tr _ _ _ _ B).
  - intros o' Ho' Hc. destruct (bi_acct _ _ _ _ B o' Ho' Hc) as [X|[(x & Hx & He)|X]]; [|right; left|right; right; exact X].
    + rewrite Et in X. destruct X as [<-|X]; [|left; exact X]. right. left. exists hn.
      split; [apply in_or_app; right; left; reflexivity|]. rewrite Hev, Hc. reflexivity.
    + exists x. split; [apply in_or_app; left; exact Hx|exact He].
Qed.

(* the invariant only looks at the abstract state pointwise *)
Lemma binv_ext : forall h0 y tr A A', (forall u, A' u = A u) -> BInv h0 y tr A -> BInv h0 y tr A'.
Proof.
  intros h0 y tr A A' E B. constructor.
  - exact (bi_cfg _ _ _ _ B).
  - exact (bi_ids _ _ _ _ B).
  - exact (bi_next _ _ _ _ B).
  - exact (bi_todo _ _ _ _ B).
  - exact (bi_sub _ _ _ _ B).
  - intros u cd H. rewrite E in H. exact (bi_aok _ _ _ _ B u cd H).
  - intros hs Hin. destruct (bi_stage _ _ _ _ B hs Hin) as (s & P & S). exists s. split; [exact P|].
    destruct s; cbn [bstage] in *; try exact S. rewrite E. exact S.
  - exact (bi_lock _ _ _ _ B).
  - exact (bi_uniq _ _ _ _ B).
  - intros u Hn. rewrite E. exact (bi_doc _ _ _ _ B u Hn).
  - exact (bi_pub _ _ _ _ B).
  - exact (bi_src _ _ _ _ B).
  - exact (bi_save _ _ _ _ B).
  - exact (bi_tr _ _ _ _ B).
  - exact (bi_acct _ _ _ _ B).
Qed.

Lemma binv_step : forall h0 c y y' tr A, BInv h0 y tr A -> step c y = Some y' ->
  BInv h0 y' (tr ++ step_events c y) (fun u => afold u (step_events c y) (A u)).
Proof.
  intros h0 [|id] y y' tr A B H; cbn [step_events].
  - rewrite app_nil_r. exact (binv_admit h0 y y' tr A B H).
  - exact (binv_run_step h0 id y y' tr A B H).
Qed.

Lemma binv_run : forall h0 cs y y' tr A, BInv h0 y tr A -> run cs y = Some y' ->
  BInv h0 y' (tr ++ trace cs y) (fun u => afold u (trace cs y) (A u)).
Proof.
  induction cs as [|c cs IH]; intros y y' tr A B H; cbn [run trace] in *.
  - inversion H; subst y'. rewrite app_nil_r. exact B.
  - destruct (step c y) as [y1|] eqn:Es; [|discriminate].
    pose proof (IH y1 y' _ _ (binv_step h0 c y y1 tr A B Es) H) as B'.
    rewrite <- app_assoc in B'. apply (binv_ext _ _ _ _ _ (fun u => afold_app u _ _ (A u)) B').
Qed.

Lemma binv_init : forall h w, Inv w -> forallb batch_op h = true -> BInv h (init h w) [] (astate0 w).
Proof.
  intros h w I Hb. constructor; cbn [init y_world y_flight y_next y_todo].
  - exact (inv_cfg w I).
  - constructor.
  - intros hs [].
  - exact Hb.
  - intros o Ho. exact Ho.
  - intros u cd H. unfold astate0 in H. destruct (lookup u (w_open w)) as [cd0|]; [|discriminate].
    destruct (kind (cd_lang cd0)) eqn:Ek; inversion H; subst; congruence.
  - intros hs [].
  - intros _ hs [].
  - intros a b [].
  - intros u _. pose proof (inv_coh w I u) as C. unfold coh, want_entry in C. rewrite C. unfold astate0.
    destruct (lookup u (w_open w)) as [cd|]; [|reflexivity]. destruct (kind (cd_lang cd)); reflexivity.
  - intro u. left. rewrite (inv_fresh w I u). symmetry. apply coh_pubval; [exact (inv_cfg w I)|exact (inv_coh w I u)].
  - intros hs e [].
  - intros hs [].
  - intros e [].
  - intros o Ho _. left. exact Ho.
Qed.

(* ================================================================================================
   3. the theorems
   ================================================================================================ *)
Theorem batch_serialises : forall h w0 cs y,
  Inv w0 -> forallb batch_op h = true -> run cs (init h w0) = Some y -> quiescent y ->
  forall u, lookup u (s_docs (y_world y)) =
              option_map (good_entry (y_world y) u) (afold u (trace cs (init h w0)) (astate0 w0 u)) /\
            lastword (y_world y) u = pubval (y_world y) u.
Proof.
  intros h w0 cs y I Hb H [Hf _] u. pose proof (binv_run h cs _ _ _ _ (binv_init h w0 I Hb) H) as B.
  split.
  - apply (bi_doc _ _ _ _ B u). rewrite Hf. intros hs [].
  - destruct (bi_pub _ _ _ _ B u) as [X|(x & Hx & _)]; [exact X|]. rewrite Hf in Hx. destruct Hx.
Qed.

Theorem batch_all_executed : forall h w0 cs y,
  Inv w0 -> forallb batch_op h = true -> run cs (init h w0) = Some y -> quiescent y ->
  (forall o, In o h -> crit_op o = true -> In (event_of o) (trace cs (init h w0))) /\
  (forall e, In e (trace cs (init h w0)) -> from_op h e).
Proof.
  intros h w0 cs y I Hb H [Hf Ht]. pose proof (binv_run h cs _ _ _ _ (binv_init h w0 I Hb) H) as B. split.
  - intros o Ho Hc. destruct (bi_acct _ _ _ _ B o Ho Hc) as [X|[(x & Hx & _)|X]]; [rewrite Ht in X; destruct X|rewrite Hf in Hx; destruct Hx|exact X].
  - exact (bi_tr _ _ _ _ B).
Qed.

(* what doc_state says, by the abstract state *)
Definition apub (w : world) (u : url) (a : option cdoc) : pub :=
  match a with
  | Some cd => let d := with_ident (cur_dict w u) (idof (cd_lang cd) (cd_text cd)) in
               PDiag (mkargs (cd_text cd) (cd_lang cd) d d (w_ccfg w) (w_ccfg w) (s_cfg w) (cd_ign cd))
  | None => PEmpty
  end.
Lemma pubval_abs : forall w u a, lookup u (s_docs w) = option_map (good_entry w u) a -> pubval w u = apub w u a.
Proof. intros w u [cd|] H; unfold pubval; rewrite H; reflexivity. Qed.

(* SHAPE 1, both directions: a document whose last word ought to be empty (closed, deleted from the client's
   point of view, or in a language without parser) has a wrong last word IFF the last of its didOpen/didClose
   critical sections is a didOpen's *)
Theorem batch_closed_exact : forall h w0 cs y u,
  Inv w0 -> forallb batch_op h = true -> run cs (init h w0) = Some y -> quiescent y ->
  expected (y_world y) u = PEmpty ->
  (lastword (y_world y) u = expected (y_world y) u <-> close_overtaken w0 u (trace cs (init h w0)) = false).
Proof.
  intros h w0 cs y u I Hb H Q E. destruct (batch_serialises h w0 cs y I Hb H Q u) as [D L].
  rewrite L, E, (pubval_abs _ _ _ D). unfold close_overtaken.
  change (match astate0 w0 u with Some _ => true | None => false end) with (isSome (astate0 w0 u)).
  rewrite <- afold_present. destruct (afold u (trace cs (init h w0)) (astate0 w0 u)); cbn; split; intro X; try discriminate X; reflexivity.
Qed.

Lemma lang_eqb_eq : forall a b, lang_eqb a b = true -> a = b.
Proof. intros [] []; cbn; intro H; try discriminate H; reflexivity. Qed.
Lemma text_eqb_refl : forall a, text_eqb a a = true.
Proof. intros [a b]. unfold text_eqb. cbn. rewrite !Nat.eqb_refl. reflexivity. Qed.
Lemma eqb_iff : forall v vn t tn, Bool.eqb (v =? vn) (text_eqb t tn) = true -> (v = vn <-> t = tn).
Proof.
  intros v vn t tn H. apply Bool.eqb_prop in H. split; intro X.
  - subst v. rewrite Nat.eqb_refl in H. symmetry in H. apply text_eqb_eq, H.
  - subst t. rewrite text_eqb_refl in H. apply Nat.eqb_eq, H.
Qed.

(* SHAPE 2, both directions: a document that is open at the end (language with a parser), whose messages in
   the history are didOpen / didChange only and carry its newest version with its newest text and only
   with it (sess_ok, init_okb: static conditions on the history), has a wrong last word IFF no critical
   section carrying the newest version is executed while the document has an entry - for a document opened
   in the batch: the newest didChange overtook the didOpen *)
Theorem batch_open_exact : forall h w0 cs y u cd,
  Inv w0 -> forallb batch_op h = true -> run cs (init h w0) = Some y -> quiescent y ->
  lookup u (w_open (y_world y)) = Some cd -> kind (cd_lang cd) <> KNone ->
  sess_ok u cd h = true -> init_okb w0 u cd = true ->
  ((lastword (y_world y) u = expected (y_world y) u /\ pubval (y_world y) u = expected (y_world y) u)
   <-> open_overtaken w0 u (cd_ver cd) (trace cs (init h w0)) = false).
Proof.
  intros h w0 cs y u cd I Hb H Q Eo Ek Hs Hi. destruct (batch_serialises h w0 cs y I Hb H Q u) as [D L].
  destruct (batch_all_executed h w0 cs y I Hb H Q) as [_ Hsrc].
  pose proof (binv_run h cs _ _ _ _ (binv_init h w0 I Hb) H) as B. pose proof (bi_cfg _ _ _ _ B) as Hcfg. clear B.
  set (tr := trace cs (init h w0)) in *. set (w := y_world y) in *.
  (* the critical sections of u are those sess_ok describes *)
  assert (Hev : Forall (okev u (cd_lang cd) (cd_text cd) (cd_ver cd)) tr).
  { apply Forall_forall. intros e He Hu. unfold sess_ok in Hs. rewrite forallb_forall in Hs.
    destruct (Hsrc e He) as [(o & Ho & Hc & ->)|(u' & t & Ho & ->)].
    - specialize (Hs o Ho). destruct o; try discriminate Hc; cbn [event_of ev_url] in *; subst; cbn [sess_op] in Hs.
      + rewrite url_eqb_refl in Hs. apply andb_true_iff in Hs as [Hs H3]. apply andb_true_iff in Hs as [H1 H2].
        split; [intros l0 E; inversion E; subst; apply lang_eqb_eq, H1|]. exists v. split; [reflexivity|].
        split; [apply Nat.leb_le, H2|apply eqb_iff, H3].
      + rewrite url_eqb_refl in Hs. apply andb_true_iff in Hs as [H2 H3].
        split; [intros l0 E; discriminate E|]. exists v. split; [reflexivity|].
        split; [apply Nat.leb_le, H2|apply eqb_iff, H3].
      + rewrite url_eqb_refl in Hs. discriminate Hs.
    - specialize (Hs _ Ho). cbn [ev_url] in Hu. subst u'. cbn [sess_op] in Hs. rewrite url_eqb_refl in Hs. discriminate Hs. }
  (* the entry u has from the start *)
  assert (H0 : okst (cd_lang cd) (cd_text cd) (cd_ver cd) (cd_ign cd) (astate0 w0 u) /\ (astate0 w0 u = None -> cd_ign cd = [])).
  { unfold init_okb in Hi. destruct (astate0 w0 u) as [cd0|].
    - apply andb_true_iff in Hi as [Hi H4]. apply andb_true_iff in Hi as [Hi H3]. apply andb_true_iff in Hi as [H1 H2].
      split; [|discriminate]. cbn. split; [apply lang_eqb_eq, H1|]. split; [apply list_eqb_eq, H2|]. split; [apply Nat.leb_le, H3|apply eqb_iff, H4].
    - split; [exact Logic.I|]. intros _. destruct (cd_ign cd); [reflexivity|discriminate]. }
  destruct H0 as [H0 H0'].
  destruct (versions_scan u (cd_lang cd) (cd_text cd) (cd_ver cd) (cd_ign cd) Ek tr (astate0 w0 u) H0 H0' Hev) as [V1 V2].
  assert (Eexp : expected w u = apub w u (Some cd)).
  { unfold expected, apub. rewrite Eo. unfold idof, with_ident, cur_dict. cbn [dv_user dv_file]. rewrite Hcfg.
    destruct (kind (cd_lang cd)); [reflexivity|reflexivity|congruence]. }
  rewrite L, (pubval_abs _ _ _ D), Eexp.
  assert (Eov : open_overtaken w0 u (cd_ver cd) tr = match afold u tr (astate0 w0 u) with Some _ => negb (is_vn (cd_ver cd) (afold u tr (astate0 w0 u))) | None => true end).
  { unfold open_overtaken. destruct (afold u tr (astate0 w0 u)) as [cd'|].
    - rewrite V2. destruct (astate0 w0 u); reflexivity.
    - destruct V2 as [-> V2]. rewrite V2. reflexivity. }
  rewrite Eov. destruct (afold u tr (astate0 w0 u)) as [cd'|].
  - destruct V1 as (W1 & W2 & W3 & W4). cbn [is_vn]. destruct (cd_ver cd' =? cd_ver cd) eqn:Ev; cbn [negb].
    + apply Nat.eqb_eq in Ev. assert (cd' = cd) by (destruct cd', cd; cbn in *; f_equal; tauto). subst cd'. tauto.
    + apply Nat.eqb_neq in Ev. split; [|discriminate]. intros [X _]. exfalso. cbn in X. inversion X. tauto.
  - cbn. split; [|discriminate]. intros [X _]. discriminate X.
Qed.

(* ================================================================================================
   4. non-vacuity
   ================================================================================================ *)
(* a mixed batch, up to four handlers in flight: two didOpen (one a source file: its handler holds the mutex
   inside use_ident_dict while the others advance), two didChange of the source file completing newest first
   (the newest enters use_ident_dict again, the older one returns early), a didSave overtaken by the didClose
   of its document (its update finds no entry and removes the one it inserts) *)
Definition mix_history : list op :=
  [Open uA LCode (mktext 0 7) 1; Open uB LPlain (tx 1) 1; Change uA (mktext 2 8) 2; Save uB; Close uB; Change uA (mktext 3 8) 3].
Definition mix_schedule : list choice :=
  [CAdmit; CAdmit; CAdmit; CAdmit] ++ repeat (CRun 0) 7 ++ repeat (CRun 2) 6 ++ repeat (CRun 1) 6 ++ repeat (CRun 0) 4 ++
  repeat (CRun 1) 2 ++ [CAdmit; CAdmit] ++
  repeat (CRun 5) 7 ++ repeat (CRun 3) 5 ++ repeat (CRun 5) 4 ++ repeat (CRun 4) 2 ++ repeat (CRun 3) 4 ++ repeat (CRun 2) 2.

Example mix_batch_applies :
  forallb batch_op mix_history = true /\
  exists y cd, run mix_schedule (init mix_history (world0 0)) = Some y /\ quiescentb y = true /\
    lookup uA (w_open (y_world y)) = Some cd /\ kind (cd_lang cd) = KCode /\
    sess_ok uA cd mix_history = true /\ init_okb (world0 0) uA cd = true /\
    open_overtaken (world0 0) uA (cd_ver cd) (trace mix_schedule (init mix_history (world0 0))) = false /\
    expected (y_world y) uB = PEmpty /\
    close_overtaken (world0 0) uB (trace mix_schedule (init mix_history (world0 0))) = false /\
    trace mix_schedule (init mix_history (world0 0)) =
      [EUpd uA (Some LCode) (mktext 0 7) (Some 1); EUpd uB (Some LPlain) (tx 1) (Some 1); EUpd uA None (mktext 3 8) (Some 3);
       EClose uB; EUpd uB None (tx 1) None; EUpd uA None (mktext 2 8) (Some 2)] /\
    freshb (y_world y) uA = true /\ freshb (y_world y) uB = true.
Proof.
  split; [vm_compute; reflexivity|]. eexists. eexists. split; [vm_compute; reflexivity|].
  repeat split; vm_compute; reflexivity.
Qed.

(* the refuting schedules of Proofs/ServerProofs.v have exactly the two shapes *)
Example overtaken_witnesses :
  (forallb batch_op open_change_history = true /\
   exists y cd, run open_change_schedule (init open_change_history (world0 0)) = Some y /\ quiescentb y = true /\
     lookup uA (w_open (y_world y)) = Some cd /\ kind (cd_lang cd) = KPlain /\
     sess_ok uA cd open_change_history = true /\ init_okb (world0 0) uA cd = true /\
     open_overtaken (world0 0) uA (cd_ver cd) (trace open_change_schedule (init open_change_history (world0 0))) = true /\
     freshb (y_world y) uA = false) /\
  (forallb batch_op close_open_history = true /\
   exists y, run close_open_schedule (init close_open_history (world0 0)) = Some y /\ quiescentb y = true /\
     expected (y_world y) uA = PEmpty /\
     close_overtaken (world0 0) uA (trace close_open_schedule (init close_open_history (world0 0))) = true /\
     freshb (y_world y) uA = false).
Proof.
  split; (split; [vm_compute; reflexivity|]).
  - eexists. eexists. split; [vm_compute; reflexivity|]. repeat split; vm_compute; reflexivity.
  - eexists. split; [vm_compute; reflexivity|]. repeat split; vm_compute; reflexivity.
Qed.
