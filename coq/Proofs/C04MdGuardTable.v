(* C04MdGuardTable.v — the guarded event kinds of Model/Mask.v §H against the table regenerated from markdown.rs *)
Require Import Base Mask Tables_masks.
From Coq Require Import List Bool String.
Import ListNotations.
Local Open Scope list_scope.

(* the guarded event kinds of the model are exactly the list regenerated from markdown.rs: the pulldown-cmark event
   constructors an abstract md_event stands for (ECodeLike = InlineMath | DisplayMath | Code, EHtml = Html | InlineHtml) *)
Definition md_event_names (ev : md_event) : list string :=
  match ev with
  | ESoftBreak => ["SoftBreak"%string]
  | EHardBreak => ["HardBreak"%string]
  | ECodeLike _ => ["InlineMath"%string; "DisplayMath"%string; "Code"%string]
  | EText _ _ => ["Text"%string]
  | EHtml _ => ["Html"%string; "InlineHtml"%string]
  | EStart _ | EEndBreaking | EEndOther | EOtherEvent => []
  end.
Definition md_names_guarded (l : list string) : bool :=
  match l with
  | [] => false
  | _ => forallb (fun n => existsb (String.eqb n) md_guarded_events) l
  end.
Theorem md_guard_table : (forall ev, md_is_leaf ev = md_names_guarded (md_event_names ev)) /\
  List.length md_guarded_events = 8 /\ md_guard_has_behind_cursor = true.
Proof. split; [intros ev; destruct ev; reflexivity|split; reflexivity]. Qed.

