(* C19Schema.v — the tie between Model/C19Record.v and the Rust sources that is not a run: the types behind a Record as
   tools/tables/statsrecord.py re-reads them from /repo on every run (kind, container #[serde(..)] attributes, members in
   order with their types / payloads and attributes) are EXACTLY the ones the model was written against (modelled_types),
   the model's tables of variant names are the unit variants of those enums in declaration order, and the member names the
   model's writer emits for each struct are the field names of the source in order. *)
From Coq Require Import String Ascii.
From Coq Require Import List ZArith.
Require Import Base JsonEscape Stats C19Record Tables_statsrecord.
Import ListNotations.
Local Open Scope string_scope.
Local Open Scope list_scope.

(* what Model/C19Record.v mirrors (a copy of the translator's output at the time the model was written) *)
Definition modelled_types : list (string * (string * list (string * string))) := [
  ("Record", ("struct|", [("kind", "RecordKind|"); ("when", "i64|"); ("uuid", "Uuid|")]));
  ("RecordKind", ("enum|", [("Lint", "{kind:LintKind,context:Vec<FatStringToken>,}|"); ("LintConfigUpdate", "(LintGroupConfig)|")]));
  ("LintKind", ("enum|", [("Spelling", "|"); ("Capitalization", "|"); ("Style", "|"); ("Formatting", "|"); ("Repetition", "|"); ("Enhancement", "|"); ("Readability", "|"); ("WordChoice", "|"); ("Miscellaneous", "|"); ("Punctuation", "|")]));
  ("LintGroupConfig", ("struct|serde(transparent)", [("inner", "BTreeMap<String,Option<bool>>|")]));
  ("FatStringToken", ("struct|", [("content", "String|"); ("kind", "TokenKind|")]));
  ("TokenKind", ("enum|serde(tag=""kind"",content=""value"")", [("Word", "(Option<WordMetadata>)|"); ("Punctuation", "(Punctuation)|"); ("Decade", "|"); ("Number", "(Number)|"); ("Space", "(usize)|"); ("Newline", "(usize)|"); ("EmailAddress", "|"); ("Url", "|"); ("Hostname", "|"); ("Unlintable", "|"); ("ParagraphBreak", "|"); ("Regexish", "|")]));
  ("Punctuation", ("enum|serde(tag=""kind"")", [("Ellipsis", "|"); ("EnDash", "|"); ("EmDash", "|"); ("Ampersand", "|"); ("Period", "|"); ("Bang", "|"); ("Question", "|"); ("Colon", "|"); ("Semicolon", "|"); ("Quote", "(Quote)|"); ("Comma", "|"); ("Hyphen", "|"); ("OpenSquare", "|"); ("CloseSquare", "|"); ("OpenRound", "|"); ("CloseRound", "|"); ("OpenCurly", "|"); ("CloseCurly", "|"); ("Hash", "|"); ("Apostrophe", "|"); ("Percent", "|"); ("ForwardSlash", "|"); ("Backslash", "|"); ("LessThan", "|"); ("GreaterThan", "|"); ("Equal", "|"); ("Star", "|"); ("Tilde", "|"); ("At", "|"); ("Caret", "|"); ("Plus", "|"); ("Currency", "(Currency)|"); ("Pipe", "|"); ("Underscore", "|")]));
  ("Quote", ("struct|", [("twin_loc", "Option<usize>|")]));
  ("Currency", ("enum|", [("Dollar", "|"); ("Cent", "|"); ("Euro", "|"); ("Ruble", "|"); ("Lira", "|"); ("Pound", "|"); ("Yen", "|"); ("Baht", "|"); ("Won", "|"); ("Kip", "|")]));
  ("Number", ("struct|", [("value", "OrderedFloat<f64>|"); ("suffix", "Option<NumberSuffix>|"); ("radix", "u32|"); ("precision", "usize|")]));
  ("NumberSuffix", ("enum|", [("Th", "|"); ("St", "|"); ("Nd", "|"); ("Rd", "|")]));
  ("WordMetadata", ("struct|", [("noun", "Option<NounData>|"); ("pronoun", "Option<PronounData>|"); ("verb", "Option<VerbData>|"); ("adjective", "Option<AdjectiveData>|"); ("adverb", "Option<AdverbData>|"); ("conjunction", "Option<ConjunctionData>|"); ("swear", "Option<bool>|"); ("dialect", "Option<Dialect>|"); ("determiner", "bool|serde(default=""default_false"")"); ("preposition", "bool|serde(default=""default_false"")"); ("common", "bool|serde(default=""default_false"")"); ("derived_from", "Option<WordId>|serde(default=""default_none"")")]));
  ("Tense", ("enum|", []));
  ("VerbData", ("struct|", [("is_linking", "Option<bool>|"); ("is_auxiliary", "Option<bool>|"); ("tense", "Option<Tense>|")]));
  ("NounData", ("struct|", [("is_proper", "Option<bool>|"); ("is_plural", "Option<bool>|"); ("is_possessive", "Option<bool>|")]));
  ("Person", ("enum|", [("First", "|"); ("Second", "|"); ("Third", "|")]));
  ("Case", ("enum|", [("Subject", "|"); ("Object", "|")]));
  ("PronounData", ("struct|", [("is_plural", "Option<bool>|"); ("is_possessive", "Option<bool>|"); ("person", "Option<Person>|"); ("case", "Option<Case>|")]));
  ("Degree", ("enum|", [("Positive", "|"); ("Comparative", "|"); ("Superlative", "|")]));
  ("AdjectiveData", ("struct|", [("degree", "Option<Degree>|")]));
  ("AdverbData", ("struct|", []));
  ("ConjunctionData", ("struct|", []));
  ("Dialect", ("enum|", [("American", "|"); ("Canadian", "|"); ("Australian", "|"); ("British", "|")]));
  ("WordId", ("struct|", [("hash", "u64|")]))
].

Lemma schema_is_sources : src_types = modelled_types.
Proof. vm_compute. reflexivity. Qed.

(* ---------- the model's tables of names, recomputed from the source ---------- *)
Fixpoint members_of (n : string) (ts : list (string * (string * list (string * string)))) : list (string * string) :=
  match ts with
  | [] => []
  | (m, (_, ms)) :: t => if String.eqb n m then ms else members_of n t
  end.
Definition head_of (n : string) (ts : list (string * (string * list (string * string)))) : string :=
  (fix go ts := match ts with [] => "" | (m, (h, _)) :: t => if String.eqb n m then h else go t end) ts.
(* variants without payload and without attribute, in declaration order *)
Definition unit_variants (n : string) : list text :=
  map (fun e => jb (fst e)) (filter (fun e => String.eqb (snd e) "|") (members_of n src_types)).
Definition field_names (n : string) : list string := map fst (members_of n src_types).

Lemma name_tables_are_sources :
  unit_variants "LintKind" = lintkind_names /\ unit_variants "NumberSuffix" = suffix_names /\
  unit_variants "Dialect" = dialect_names /\ unit_variants "Person" = person_names /\ unit_variants "Case" = case_names /\
  unit_variants "Degree" = degree_names /\ unit_variants "Currency" = currency_names /\
  unit_variants "Punctuation" = punct_unit_names /\ unit_variants "TokenKind" = tk_unit_names /\
  unit_variants "Tense" = [] /\
  (* every variant of those enums is a unit variant, except: *)
  map fst (filter (fun e => negb (String.eqb (snd e) "|")) (members_of "Punctuation" src_types)) = ["Quote"; "Currency"] /\
  map fst (filter (fun e => negb (String.eqb (snd e) "|")) (members_of "TokenKind" src_types)) = ["Word"; "Punctuation"; "Number"; "Space"; "Newline"] /\
  map fst (members_of "RecordKind" src_types) = ["Lint"; "LintConfigUpdate"] /\
  head_of "TokenKind" src_types = "enum|serde(tag=""kind"",content=""value"")" /\
  head_of "Punctuation" src_types = "enum|serde(tag=""kind"")" /\
  head_of "RecordKind" src_types = "enum|" /\ head_of "LintGroupConfig" src_types = "struct|serde(transparent)".
Proof. vm_compute. repeat split; reflexivity. Qed.

(* ---------- the member names the model's writer emits = the field names of the source, in order ---------- *)
(* {"f1":v1,"f2":v2,...} assembled from a list of names and a list of already serialised values *)
Fixpoint members (fs : list string) (vs : list bytes) : bytes :=
  match fs, vs with
  | f :: fs', v :: vs' => (34%N :: jb f ++ [34%N; 58%N]) ++ v ++ match fs' with [] => [] | _ :: _ => 44%N :: members fs' vs' end
  | _, _ => []
  end.
Definition obj (fs : list string) (vs : list bytes) : bytes := 123%N :: members fs vs ++ [125%N].
Definition nul : bytes := jb "null".

Lemma struct_members_are_sources :
  enc c_noun (None, (None, None)) = obj (field_names "NounData") [nul; nul; nul] /\
  enc c_pronoun (None, (None, (None, None))) = obj (field_names "PronounData") [nul; nul; nul; nul] /\
  enc c_verb (None, (None, tt)) = obj (field_names "VerbData") [nul; nul; nul] /\
  enc c_adj None = obj (field_names "AdjectiveData") [nul] /\
  enc c_empty_struct tt = obj (field_names "AdverbData") [] /\ enc c_empty_struct tt = obj (field_names "ConjunctionData") [] /\
  enc c_wordid 7%N = obj (field_names "WordId") [jb "7"] /\
  enc c_wordmeta (None, (None, (None, (None, (None, (None, (None, (None, (false, (false, (false, None)))))))))))
    = obj (field_names "WordMetadata") [nul; nul; nul; nul; nul; nul; nul; nul; jb "false"; jb "false"; jb "false"; nul] /\
  enc (c_number bytes drv_finite (fun t => t) (fun t => Some t)) (jb "1.5", (None, (10%N, 2%N)))
    = obj (field_names "Number") [jb "1.5"; nul; jb "10"; jb "2"] /\
  (* Quote inside the internally tagged Punctuation: the tag first, then Quote's own fields *)
  enc c_punct (PQuote None) = obj ("kind" :: field_names "Quote") [jb """Quote"""; nul] /\
  enc (c_fattoken bytes drv_finite (fun t => t) (fun t => Some t)) ([]%list, TKUnit bytes 0)
    = obj (field_names "FatStringToken") [jb """"""; jb "{""kind"":""Decade""}"] /\
  (* the two members of RecordKind::Lint *)
  members_of "RecordKind" src_types = [("Lint", "{kind:LintKind,context:Vec<FatStringToken>,}|"); ("LintConfigUpdate", "(LintGroupConfig)|")] /\
  enc (c_rk_lint bytes drv_finite (fun t => t) (fun t => Some t)) (0%nat, []%list)
    = jb "{""Lint"":" ++ obj ["kind"; "context"] [jb """Spelling"""; jb "[]"] ++ jb "}" /\
  enc (c_record bytes drv_finite (fun t => t) (fun t => Some t)) (RKConfig bytes []%list, (0%Z, []%list))
    = obj (field_names "Record") [jb "{""LintConfigUpdate"":{}}"; jb "0"; jb """"""].
Proof. vm_compute. repeat split; reflexivity. Qed.
