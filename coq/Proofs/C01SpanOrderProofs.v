(* C01SpanOrderProofs.v (phase 7) — the nine Span::new(a.span.start, b.span.end) sites never panic on token lists that
   satisfy a WEAKENING of C02's order invariant (start offsets of the tokens covering characters never decrease; zero-width tokens anywhere) when
   the kinds the site tests are never empty.  Chunks inherit the invariant (iter_by_pieces).  For plain English the premise
   is DERIVED from C02's tiling theorem (DocumentProofs.document_plain_tiling): every text. *)
Require Import Base Overlap TokenSeq Pattern TokenSeqProofs PatternProofs C01Bodies C01BodiesProofs C01Struct C01StructProofs C01SpanOrder.
Require Lexer Condense TokenInv DocumentProofs C02Gapped.
From Coq Require Import Lia.

Lemma oc_weaken ts : forall lo lo', lo' <= lo -> ordered_cov lo ts -> ordered_cov lo' ts.
Proof.
  induction ts as [|t r IH]; intros lo lo' H O; [exact I|]. cbn [ordered_cov] in *.
  destruct (sstart (tspan t) <? send (tspan t)); [destruct O; split; [lia|assumption]|eauto].
Qed.

Lemma oc_tail t r lo : ordered_cov lo (t :: r) -> ordered_cov lo r.
Proof.
  cbn [ordered_cov]. destruct (sstart (tspan t) <? send (tspan t)) eqn:E; [|trivial].
  intros [H1 H2]. eapply oc_weaken; [|exact H2]. lia.
Qed.

Lemma oc_lower ts : forall lo b, ordered_cov lo ts -> In b ts -> cov b -> lo <= sstart (tspan b).
Proof.
  induction ts as [|t r IH]; intros lo b O Hin Hb; [destruct Hin|].
  destruct Hin as [<-|Hin].
  - cbn [ordered_cov] in O. unfold cov in Hb. apply Nat.ltb_lt in Hb. rewrite Hb in O. tauto.
  - apply (IH lo b (oc_tail _ _ _ O) Hin Hb).
Qed.

(* the ordering argument: two tokens that cover characters, the first strictly earlier in the list *)
Lemma oc_pair ts : forall lo i j a b, ordered_cov lo ts -> nth_error ts i = Some a -> nth_error ts j = Some b ->
  i < j -> cov a -> cov b -> sstart (tspan a) <= sstart (tspan b).
Proof.
  induction ts as [|t r IH]; intros lo i j a b O Ha Hb Hij Ca Cb; [destruct i; discriminate|].
  destruct j as [|j]; [lia|]. cbn [nth_error] in Hb. destruct i as [|i].
  - cbn [nth_error] in Ha. injection Ha as ->. cbn [ordered_cov] in O. pose proof Ca as Ca'. unfold cov in Ca'.
    apply Nat.ltb_lt in Ca'. rewrite Ca' in O. destruct O as [_ O].
    apply (oc_lower r _ b O); [eapply nth_error_In; exact Hb|exact Cb].
  - cbn [nth_error] in Ha. apply (IH lo i j a b (oc_tail _ _ _ O) Ha Hb); [lia|assumption|assumption].
Qed.

Lemma oc_skipn n : forall lo ts, ordered_cov lo ts -> ordered_cov lo (skipn n ts).
Proof.
  induction n as [|n IH]; intros lo ts O; [exact O|]. destruct ts as [|t r]; [exact I|].
  cbn [skipn]. apply IH. exact (oc_tail _ _ _ O).
Qed.
Lemma oc_firstn n : forall lo ts, ordered_cov lo ts -> ordered_cov lo (firstn n ts).
Proof.
  induction n as [|n IH]; intros lo ts O; [exact I|]. destruct ts as [|t r]; [exact I|].
  cbn [firstn ordered_cov] in *. destruct (sstart (tspan t) <? send (tspan t)); [destruct O; split; [assumption|now apply IH]|now apply IH].
Qed.

Lemma span_ord_skipn k n ts : span_ord k ts -> span_ord k (skipn n ts).
Proof. intros [O F]. split; [now apply oc_skipn|now apply Forall_skipn]. Qed.
Lemma span_ord_firstn k n ts : span_ord k ts -> span_ord k (firstn n ts).
Proof. intros [O F]. split; [now apply oc_firstn|now apply Forall_firstn]. Qed.

(* chunks / sentences / paragraphs of a list with the invariant have it *)
Lemma span_ord_pieces k f ts cs : span_ord k ts -> iter_by f ts = Ok cs -> Forall (span_ord k) cs.
Proof.
  intros H E. apply (iter_by_pieces (span_ord k)) with (f := f) (ts := ts); try assumption.
  - intros n x. apply span_ord_skipn.
  - intros n x. apply span_ord_firstn.
Qed.

(* the site: guard implies both tokens are of a never-empty kind, i < j *)
Lemma span_at_ok k g ts i j : span_ord k ts -> i < j ->
  (forall a b, g a b = true -> k a = true /\ k b = true) -> span_at g ts (i, j) = Ok tt.
Proof.
  intros [O F] Hij Hg. unfold span_at. cbn [fst snd].
  destruct (nth_error ts i) as [a|] eqn:Ea; [|reflexivity]. destruct (nth_error ts j) as [b|] eqn:Eb; [|reflexivity].
  destruct (g a b) eqn:G; [|reflexivity]. destruct (Hg a b G) as [Ka Kb].
  rewrite Forall_forall in F. pose proof (F a (nth_error_In _ _ Ea) Ka) as Ca. pose proof (F b (nth_error_In _ _ Eb) Kb) as Cb.
  pose proof (oc_pair ts 0 i j a b O Ea Eb Hij Ca Cb) as H. unfold cov in *.
  unfold span_new. replace (send (tspan b) <? sstart (tspan a)) with false; [reflexivity|].
  symmetry. apply Nat.ltb_ge. lia.
Qed.

(* what an index iterator yields satisfies its predicate *)
Lemma indices_from_sat f ts : forall k i, In i (indices_from f k ts) -> exists t, nth_error ts (i - k) = Some t /\ f t = true /\ k <= i.
Proof.
  induction ts as [|t r IH]; intros k i Hin; [destruct Hin|]. cbn [indices_from] in Hin.
  destruct (f t) eqn:Ft.
  - destruct Hin as [<-|Hin].
    + exists t. rewrite Nat.sub_diag. repeat split; [exact Ft|lia].
    + destruct (IH _ _ Hin) as [x [Hx [Fx Hle]]]. exists x. replace (i - k) with (S (i - S k)) by lia. repeat split; [exact Hx|exact Fx|lia].
  - destruct (IH _ _ Hin) as [x [Hx [Fx Hle]]]. exists x. replace (i - k) with (S (i - S k)) by lia. repeat split; [exact Hx|exact Fx|lia].
Qed.
Lemma term_indices_sat f ts i : In i (term_indices f ts) -> exists t, nth_error ts i = Some t /\ f t = true.
Proof. intros H. destruct (indices_from_sat f ts 0 i H) as [t [A [B _]]]. rewrite Nat.sub_0_r in A. eauto. Qed.

Lemma pairs_adjacent_sub l : forall a b, In (a, b) (pairs_adjacent l) -> In a l /\ In b l.
Proof.
  induction l as [|x r IH]; intros a b H; [destruct H|]. destruct r as [|y r']; [destruct H|].
  cbn [pairs_adjacent] in H. destruct H as [[= <- <-]|H]; [split; [now left|right; now left]|].
  destruct (IH _ _ H). split; right; assumption.
Qed.

(* ---------- RepeatedWords ---------- *)
Theorem repeated_words_spans_total chunk : span_ord (flag F_WORD) chunk -> repeated_words_spans chunk = Ok tt.
Proof.
  intros [O F]. unfold repeated_words_spans. apply each_chk_ok. intros [a b] Hin.
  destruct (pairs_adjacent_In 0 _ _ (word_indices_chain chunk) a b Hin) as [Hab _].
  destruct (pairs_adjacent_sub _ _ _ Hin) as [Ia Ib].
  destruct (term_indices_sat _ _ _ Ia) as [ta [Ea Fa]]. destruct (term_indices_sat _ _ _ Ib) as [tb [Eb Fb]].
  unfold span_at. cbn [fst snd]. rewrite Ea, Eb.
  rewrite Forall_forall in F. pose proof (F ta (nth_error_In _ _ Ea) Fa) as Ca. pose proof (F tb (nth_error_In _ _ Eb) Fb) as Cb.
  pose proof (oc_pair chunk 0 a b ta tb O Ea Eb Hab Ca Cb) as H. unfold cov in *.
  unfold span_new. replace (send (tspan tb) <? sstart (tspan ta)) with false; [reflexivity|].
  symmetry. apply Nat.ltb_ge. lia.
Qed.

Lemma both_k k a b : both k a b = true -> k a = true /\ k b = true.
Proof. unfold both. intros H. apply andb_prop in H. exact H. Qed.

(* ---------- MergeWords (2 sites) ---------- *)
Theorem merge_words_spans_total doc : span_ord (flag F_WORD) doc -> merge_words_spans doc = Ok tt.
Proof.
  intros H. unfold merge_words_spans. apply each_chk_ok. intros i _.
  rewrite (span_at_ok (flag F_WORD) _ doc i (i + 2) H) by (try lia; apply both_k). reflexivity.
Qed.

(* ---------- CurrencyPlacement ---------- *)
Section Currency.
  Variables is_punct is_num : tok -> bool.
  Hypothesis excl : forall t, is_punct t = true -> is_num t = false.
  Definition cur_kind (t : tok) : bool := is_punct t || is_num t.
  Lemma cur_guard_k a b : cur_guard is_punct is_num a b = true -> cur_kind a = true /\ cur_kind b = true.
  Proof.
    unfold cur_guard, cur_kind. intros H. apply andb_prop in H as [P N].
    destruct (is_punct a) eqn:Pa, (is_punct b) eqn:Pb, (is_num a) eqn:Na, (is_num b) eqn:Nb; cbn in *;
      try discriminate; try (rewrite (excl a Pa) in Na; discriminate); try (rewrite (excl b Pb) in Nb; discriminate); split; reflexivity.
  Qed.
  Theorem currency_chunk_total chunk : span_ord cur_kind chunk -> currency_chunk is_punct is_num chunk = Ok tt.
  Proof.
    intros H. unfold currency_chunk.
    rewrite each_chk_ok by (intros i _; apply (span_at_ok cur_kind _ chunk i (i + 1) H); [lia|apply cur_guard_k]). cbn [bind].
    rewrite (span_at_ok cur_kind _ chunk 0 2 H) by (try lia; apply cur_guard_k). cbn [bind].
    apply each_chk_ok. intros i _. apply (span_at_ok cur_kind _ chunk (i + 1) (i + 3) H); [lia|apply cur_guard_k].
  Qed.
End Currency.

(* ---------- AdjectiveOfA / InflectedVerbAfterTo ---------- *)
Definition or_word (p : tok -> bool) (t : tok) : bool := p t || flag F_WORD t.
Lemma head_word_k p a b : p a && flag F_WORD b = true -> or_word p a = true /\ or_word p b = true.
Proof. unfold or_word. intros H. apply andb_prop in H as [-> ->]. split; [reflexivity|apply orb_true_r]. Qed.

Theorem adjective_of_a_spans_total is_adj doc : span_ord (or_word is_adj) doc -> adjective_of_a_spans is_adj doc = Ok tt.
Proof.
  intros H. unfold adjective_of_a_spans. apply each_chk_ok. intros i _.
  apply (span_at_ok (or_word is_adj) _ doc i (i + 4) H); [lia|apply head_word_k].
Qed.
Theorem inflected_spans_total is_prep doc : span_ord (or_word is_prep) doc -> inflected_spans is_prep doc = Ok tt.
Proof.
  intros H. unfold inflected_spans. apply each_chk_ok. intros i _.
  apply (span_at_ok (or_word is_prep) _ doc i (i + 2) H); [lia|apply head_word_k].
Qed.

(* ---------- CommaFixes (3 sites) ---------- *)
Definition or_kind (p q : tok -> bool) (t : tok) : bool := p t || q t.
Theorem comma_spans_total is_comma is_space doc : span_ord (or_kind is_space is_comma) doc -> comma_spans is_comma is_space doc = Ok tt.
Proof.
  intros H. unfold comma_spans. apply each_chk_ok. intros ci _.
  destruct (1 <=? ci) eqn:E; [|reflexivity]. apply Nat.leb_le in E.
  unfold sub_chk. replace (ci <? 1) with false by (symmetry; apply Nat.ltb_ge; lia). cbn [bind].
  assert (forall a b, is_space a && is_comma b = true -> or_kind is_space is_comma a = true /\ or_kind is_space is_comma b = true) as G.
  { unfold or_kind. intros a b X. apply andb_prop in X as [-> ->]. split; [reflexivity|apply orb_true_r]. }
  rewrite (span_at_ok _ _ doc (ci - 1) ci H) by (try lia; exact G). reflexivity.
Qed.

(* ---------- the premise is necessary and the theorems are not vacuous ---------- *)
Definition w (a b : nat) : tok := mktok (mkspan a b) 0 1 0.       (* a word: flag bit 0 = F_WORD *)
Definition brk (a : nat) : tok := mktok (mkspan a a) 1 512 1.     (* a zero-width ParagraphBreak, anywhere *)
Lemma span_order_examples :
  span_ord (flag F_WORD) [w 0 3; brk 9; w 4 7; brk 2] /\
  repeated_words_spans [w 0 3; brk 9; w 4 7; brk 2] = Ok tt /\
  merge_words_spans [w 0 3; brk 9; w 4 7; brk 2] = Ok tt /\
  (* two words out of order: the same checked Span::new fails *)
  repeated_words_spans [w 4 7; w 0 3] = Panic PSpanOrder /\
  merge_words_spans [w 4 7; brk 9; w 0 3] = Panic PSpanOrder /\
  (* the same word emitted twice (harper-typst does): allowed *)
  span_ord (flag F_WORD) [w 4 7; w 4 7] /\ repeated_words_spans [w 4 7; w 4 7] = Ok tt /\
  (* an EMPTY word after a word that starts later: order of the covering tokens alone is not enough *)
  ordered_cov 0 [w 4 7; w 2 2] /\ repeated_words_spans [w 4 7; w 2 2] = Panic PSpanOrder.
Proof.
  split; [split; [cbn; repeat split; lia|]|].
  { rewrite Forall_forall. intros t [<-|[<-|[<-|[<-|[]]]]] H; try (unfold cov; cbn; lia); vm_compute in H; discriminate. }
  split; [vm_compute; reflexivity|]. split; [vm_compute; reflexivity|]. split; [vm_compute; reflexivity|].
  split; [vm_compute; reflexivity|].
  split; [split; [cbn; repeat split; lia|rewrite Forall_forall; intros t [<-|[<-|[]]] _; unfold cov; cbn; lia]|].
  split; [vm_compute; reflexivity|]. split; [cbn; repeat split; lia|vm_compute; reflexivity].
Qed.

(* ---------- plain English: the premise follows from C02's tiling theorem, for EVERY text ---------- *)
Section Plain.
  Variable abs : Lexer.token -> tok.
  Hypothesis abs_span : forall t, tspan (abs t) = Lexer.tspan t.

  Lemma tiling_span_ord k a b ts : TokenInv.Tiling a b ts -> ordered_cov a (map abs ts) /\ Forall (fun t => k t = true -> cov t) (map abs ts).
  Proof.
    induction 1 as [a|a b t ts Ha Hlt HT [IO IF]]; cbn [map]; [split; [exact I|constructor]|].
    unfold Lexer.tstart, Lexer.tend in *. split.
    - cbn [ordered_cov]. rewrite abs_span. replace (sstart (Lexer.tspan t) <? send (Lexer.tspan t)) with true by (symmetry; apply Nat.ltb_lt; lia).
      split; [lia|eapply oc_weaken; [|exact IO]; lia].
    - constructor; [|exact IF]. intros _. unfold cov. rewrite abs_span. lia.
  Qed.

  Theorem plain_english_span_sites u s is_adj is_prep is_comma is_space is_punct is_num :
    (forall t, is_punct t = true -> is_num t = false) ->
    exists ts cs,
      Condense.document_plain u s = Ok ts /\ iter_chunks (map abs ts) = Ok cs /\ concat cs = map abs ts /\
      Forall (fun c => repeated_words_spans c = Ok tt /\ currency_chunk is_punct is_num c = Ok tt) cs /\
      merge_words_spans (map abs ts) = Ok tt /\
      adjective_of_a_spans is_adj (map abs ts) = Ok tt /\
      inflected_spans is_prep (map abs ts) = Ok tt /\
      comma_spans is_comma is_space (map abs ts) = Ok tt.
  Proof.
    intros excl. destruct (DocumentProofs.document_plain_tiling u s) as [ts [Ed [T _]]].
    destruct (iter_by_total (flag F_CHUNKTERM) (map abs ts)) as [cs [Ec Cc]].
    assert (forall k, span_ord k (map abs ts)) as SO by (intros k; exact (tiling_span_ord k _ _ _ T)).
    exists ts, cs. repeat split; try assumption.
    - pose proof (span_ord_pieces _ _ _ _ (SO (flag F_WORD)) Ec) as F1.
      pose proof (span_ord_pieces _ _ _ _ (SO (cur_kind is_punct is_num)) Ec) as F2.
      rewrite Forall_forall in *. intros c Hc. split; [apply repeated_words_spans_total, F1, Hc|apply currency_chunk_total; [exact excl|apply F2, Hc]].
    - apply merge_words_spans_total, SO.
    - apply adjective_of_a_spans_total, SO.
    - apply inflected_spans_total, SO.
    - apply comma_spans_total, SO.
  Qed.
End Plain.

(* ---------- any front-end: the premise follows from C02's property-level invariant TokInv (C02Gapped.v; proved there for
   Markdown::parse under md_contract — C02MarkdownProofs.markdown_glue — and for the Document passes on gapped vectors), when the
   kinds the site tests (`k`) are not the two structural breaks that may be zero-width ---------- *)
Section FromTokInv.
  Variable abs : Lexer.token -> tok.
  Hypothesis abs_span : forall t, tspan (abs t) = Lexer.tspan t.
  Variable k : tok -> bool.
  Hypothesis k_not_break : forall t, k (abs t) = true ->
    match Lexer.tkind_of t with Lexer.KNewline _ | Lexer.KParagraphBreak => False | _ => True end.

  Lemma ordered_from_cov lo ts : TokenInv.OrderedFrom lo ts -> ordered_cov lo (map abs ts).
  Proof.
    induction 1 as [lo|lo t ts Hz _ IH|lo t ts Hc Hlo _ IH]; cbn [map ordered_cov]; [exact I| |];
      unfold TokenInv.covers_chars, Lexer.tstart, Lexer.tend in *; rewrite abs_span.
    - replace (sstart (Lexer.tspan t) <? send (Lexer.tspan t)) with false by (symmetry; apply Nat.ltb_ge; lia). exact IH.
    - replace (sstart (Lexer.tspan t) <? send (Lexer.tspan t)) with true by (symmetry; apply Nat.ltb_lt; lia). split; [exact Hlo|eapply oc_weaken; [|exact IH]; lia].
  Qed.

  Theorem tokinv_span_ord n ts : C02Gapped.TokInv n ts -> span_ord k (map abs ts).
  Proof.
    intros [H1 [_ [H3 H4]]]. split; [exact (ordered_from_cov _ _ H3)|].
    unfold TokenInv.ZeroWidthOnlyBreaks in H4. rewrite Forall_forall in *. intros x Hx Kx.
    apply in_map_iff in Hx as [t [<- Ht]]. pose proof (H1 t Ht) as Hle. pose proof (H4 t Ht) as Hz. pose proof (k_not_break t Kx) as Hk.
    unfold cov. rewrite abs_span. unfold Lexer.tstart, Lexer.tend in *.
    destruct (Nat.eq_dec (sstart (Lexer.tspan t)) (send (Lexer.tspan t))) as [E|E]; [|lia].
    specialize (Hz E). destruct (Lexer.tkind_of t); tauto.
  Qed.
End FromTokInv.

(* ---------- all nine sites at once (what Properties/C01.v pins) ---------- *)
Theorem span_new_sites_total :
  (forall chunk, span_ord (flag F_WORD) chunk -> repeated_words_spans chunk = Ok tt) /\
  (forall doc, span_ord (flag F_WORD) doc -> merge_words_spans doc = Ok tt) /\
  (forall is_punct is_num chunk, (forall t, is_punct t = true -> is_num t = false) ->
     span_ord (cur_kind is_punct is_num) chunk -> currency_chunk is_punct is_num chunk = Ok tt) /\
  (forall is_adj doc, span_ord (or_word is_adj) doc -> adjective_of_a_spans is_adj doc = Ok tt) /\
  (forall is_prep doc, span_ord (or_word is_prep) doc -> inflected_spans is_prep doc = Ok tt) /\
  (forall is_comma is_space doc, span_ord (or_kind is_space is_comma) doc -> comma_spans is_comma is_space doc = Ok tt) /\
  (forall k f ts cs, span_ord k ts -> iter_by f ts = Ok cs -> Forall (span_ord k) cs).
Proof.
  repeat split.
  - exact repeated_words_spans_total.
  - exact merge_words_spans_total.
  - intros p n c E. exact (currency_chunk_total p n E c).
  - exact adjective_of_a_spans_total.
  - exact inflected_spans_total.
  - exact comma_spans_total.
  - exact span_ord_pieces.
Qed.

(* ---------- HISTORY, finding F34 (fixed in /repo by 3103238 "the Typst translator emits tokens in source order"): before the
   fix harper-typst emitted the transform of a show rule BEFORE its selector (and the condition of a set rule before its
   arguments).  The document of the Typst text   #show "the": [the]   was [Word 14..17; Word 7..10]: two neighbouring words of
   one chunk with nothing between them, so RepeatedWords reached Span::new(14, 10) and panicked (span.rs:19).  The model of the
   site on the OLD token order panics; on the order the translator emits NOW ([Word 7..10; Word 14..17]) the premise holds and
   the site returns.  Since the fix span_ord is observed on every front-end (monitor span_order_violations = 0). ---------- *)
Definition typst_show_tokens_old : list tok := [w 14 17; w 7 10].
Definition typst_show_tokens : list tok := [w 7 10; w 14 17].
Lemma span_new_typst_old_order_history :
  (repeated_words_spans typst_show_tokens_old = Panic PSpanOrder /\ ~ span_ord (flag F_WORD) typst_show_tokens_old /\
   Forall (fun t => sstart (tspan t) <= send (tspan t) /\ send (tspan t) <= 18) typst_show_tokens_old) /\
  (span_ord (flag F_WORD) typst_show_tokens /\ repeated_words_spans typst_show_tokens = Ok tt).
Proof.
  split; [split; [vm_compute; reflexivity|split]|split].
  - intros [O _]. cbn in O. lia.
  - repeat constructor; cbn; lia.
  - split; [cbn; repeat split; lia|]. rewrite Forall_forall. intros t [<-|[<-|[]]] _; unfold cov; cbn; lia.
  - apply repeated_words_spans_total. split; [cbn; repeat split; lia|]. rewrite Forall_forall. intros t [<-|[<-|[]]] _; unfold cov; cbn; lia.
Qed.

(* ---------- HISTORY, finding F35 (residue of F34; fixed in /repo by b629a93 "Typst::parse drops tokens that repeat source text
   already tokenised"): on an UNFINISHED show rule typst_syntax's ShowRule::transform() falls back to the selector, and before the
   fix harper-typst emitted the selector's tokens twice.  The document of the Typst text   #show "the the":   was
   [the 7..10; space 10..11; the 11..14; the 7..10; space 10..11; the 11..14]: the Word 11..14 directly followed by the Word 7..10,
   RepeatedWords reached Span::new(11, 10) and panicked (span.rs:19).  The model of the site panics on the OLD tokens (inside the
   16-char text; span_ord fails); on the tokens Typst::parse keeps NOW (the first copy only) span_ord holds and the site returns. ---------- *)
Definition sp (a b : nat) : tok := mktok (mkspan a b) 2 2 0.      (* a space: flag bit 1 = F_WS *)
Definition typst_unfinished_show_tokens_old : list tok := [w 7 10; sp 10 11; w 11 14; w 7 10; sp 10 11; w 11 14].
Definition typst_unfinished_show_tokens : list tok := [w 7 10; sp 10 11; w 11 14].
Lemma span_new_typst_unfinished_history :
  (repeated_words_spans typst_unfinished_show_tokens_old = Panic PSpanOrder /\ ~ span_ord (flag F_WORD) typst_unfinished_show_tokens_old /\
   Forall (fun t => sstart (tspan t) <= send (tspan t) /\ send (tspan t) <= 16) typst_unfinished_show_tokens_old) /\
  (span_ord (flag F_WORD) typst_unfinished_show_tokens /\ repeated_words_spans typst_unfinished_show_tokens = Ok tt).
Proof.
  assert (span_ord (flag F_WORD) typst_unfinished_show_tokens) as H.
  { split; [cbn; repeat split; lia|]. rewrite Forall_forall. intros t [<-|[<-|[<-|[]]]] _; unfold cov; cbn; lia. }
  split; [split; [vm_compute; reflexivity|split]|split; [exact H|exact (repeated_words_spans_total _ H)]].
  - intros [O _]. cbn in O. lia.
  - repeat constructor; cbn; lia.
Qed.
