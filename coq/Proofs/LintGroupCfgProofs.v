(* LintGroupCfgProofs.v — lemmas about Model/LintGroupCfg.v (C11). *)
From Coq Require Import List NArith Bool Lia Permutation.
Require Import Base Tables_rules.
Require Import LintGroupCfg.      (* last: its insert / remove / get shadow List.remove *)
Import ListNotations.

(* ------------------------------------------------------------------------------------------- *)
(* A. the key order                                                                             *)
(* ------------------------------------------------------------------------------------------- *)
Lemma kcmp_refl a : kcmp a a = Eq.
Proof. induction a as [|x a IH]; cbn [kcmp]; [reflexivity|]. now rewrite N.compare_refl. Qed.

Lemma kcmp_eq a b : kcmp a b = Eq -> a = b.
Proof.
  revert b. induction a as [|x a IH]; intros [|y b] H; cbn [kcmp] in H; try discriminate; [reflexivity|].
  destruct (N.compare x y) eqn:E; try discriminate.
  apply N.compare_eq in E. subst. f_equal. now apply IH.
Qed.

Lemma kcmp_antisym a b : kcmp b a = CompOpp (kcmp a b).
Proof.
  revert b. induction a as [|x a IH]; intros [|y b]; cbn [kcmp CompOpp]; try reflexivity.
  rewrite (N.compare_antisym x y). destruct (N.compare x y); cbn [CompOpp]; auto.
Qed.

Lemma kcmp_lt_gt a b : kcmp a b = Lt -> kcmp b a = Gt.
Proof. intros H. rewrite kcmp_antisym, H. reflexivity. Qed.
Lemma kcmp_gt_lt a b : kcmp a b = Gt -> kcmp b a = Lt.
Proof. intros H. rewrite kcmp_antisym, H. reflexivity. Qed.

Lemma kcmp_trans a b c : kcmp a b = Lt -> kcmp b c = Lt -> kcmp a c = Lt.
Proof.
  revert b c. induction a as [|x a IH]; intros [|y b] [|z c] H1 H2; cbn [kcmp] in *; try discriminate; try reflexivity.
  destruct (N.compare x y) eqn:E1; try discriminate.
  - apply N.compare_eq in E1. subst y.
    destruct (N.compare x z) eqn:E2; try discriminate; try reflexivity. eapply IH; eauto.
  - destruct (N.compare y z) eqn:E2; try discriminate.
    + apply N.compare_eq in E2. subst z. now rewrite E1.
    + rewrite N.compare_lt_iff in E1, E2. assert (E3 : (x < z)%N) by lia.
      apply N.compare_lt_iff in E3. now rewrite E3.
Qed.

Lemma keqb_refl a : keqb a a = true.
Proof. unfold keqb. now rewrite kcmp_refl. Qed.
Lemma keqb_eq a b : keqb a b = true <-> a = b.
Proof.
  unfold keqb. split.
  - destruct (kcmp a b) eqn:E; try discriminate. intros _. now apply kcmp_eq.
  - intros ->. now rewrite kcmp_refl.
Qed.
Lemma keqb_neq a b : keqb a b = false <-> a <> b.
Proof.
  split.
  - intros H E. apply keqb_eq in E. congruence.
  - intros H. destruct (keqb a b) eqn:E; [|reflexivity]. apply keqb_eq in E. contradiction.
Qed.
Lemma keqb_sym a b : keqb a b = keqb b a.
Proof.
  destruct (keqb a b) eqn:E.
  - apply keqb_eq in E. subst. now rewrite keqb_refl.
  - symmetry. apply keqb_neq. apply keqb_neq in E. congruence.
Qed.
Lemma kcmp_lt_neqb a b : kcmp a b = Lt -> keqb a b = false.
Proof. unfold keqb. now intros ->. Qed.
Lemma kcmp_gt_neqb a b : kcmp a b = Gt -> keqb a b = false.
Proof. unfold keqb. now intros ->. Qed.

(* ------------------------------------------------------------------------------------------- *)
(* B. sorted association lists                                                                  *)
(* ------------------------------------------------------------------------------------------- *)
Section MapFacts.
  Context {V : Type}.
  Implicit Types (c : bmap V) (k : key).

  (* k is below every key of c (stated on the head; `lb_all` extends it by sortedness) *)
  Definition lb k c : Prop := match c with [] => True | (k', _) :: _ => kcmp k k' = Lt end.

  Lemma wf_cons k v c : wf ((k, v) :: c) <-> lb k c /\ wf c.
  Proof. cbn [wf]. unfold lb. destruct c as [|[k' v'] t]; tauto. Qed.

  Lemma wf_tail k v c : wf ((k, v) :: c) -> wf c.
  Proof. intros H. now apply wf_cons in H. Qed.

  Lemma wfb_wf c : wfb c = true <-> wf c.
  Proof.
    induction c as [|[k v] t IH]; cbn [wfb wf]; [tauto|].
    rewrite andb_true_iff, IH. destruct t as [|[k' v'] t']; [tauto|].
    destruct (kcmp k k'); intuition congruence.
  Qed.

  Lemma lb_get_none k c : lb k c -> wf c -> get k c = None.
  Proof.
    revert k. induction c as [|[k' v'] t IH]; intros k Hl Hw; [reflexivity|].
    cbn [get]. cbn [lb] in Hl. rewrite (kcmp_lt_neqb _ _ Hl).
    apply wf_cons in Hw as [Hl' Hw]. apply IH; [|exact Hw].
    destruct t as [|[k'' v''] t']; cbn [lb] in *; [exact I|]. eapply kcmp_trans; eauto.
  Qed.

  Lemma get_in k c v : get k c = Some v -> In (k, v) c.
  Proof.
    induction c as [|[k' v'] t IH]; cbn [get]; [discriminate|].
    destruct (keqb k k') eqn:E.
    - intros [= ->]. apply keqb_eq in E. subst. now left.
    - intros H. right. now apply IH.
  Qed.

  Lemma lb_all k c : lb k c -> wf c -> forall e, In e c -> kcmp k (fst e) = Lt.
  Proof.
    revert k. induction c as [|[k' v'] t IH]; intros k Hl Hw e Hin; [destruct Hin|].
    destruct Hin as [<-|Hin]; cbn [lb fst] in *; [exact Hl|].
    apply wf_cons in Hw as [Hl' Hw]. eapply IH; eauto.
    destruct t as [|[k'' v''] t']; cbn [lb] in *; [exact I|]. eapply kcmp_trans; eauto.
  Qed.

  Lemma in_get k v c : wf c -> In (k, v) c -> get k c = Some v.
  Proof.
    induction c as [|[k' v'] t IH]; intros Hw Hin; [destruct Hin|]. destruct Hin as [E|Hin]; cbn [get].
    - inversion E; subst. now rewrite keqb_refl.
    - apply wf_cons in Hw as [Hl Hw].
      pose proof (lb_all _ _ Hl Hw _ Hin) as Hlt. cbn [fst] in Hlt.
      rewrite (kcmp_gt_neqb _ _ (kcmp_lt_gt _ _ Hlt)). now apply IH.
  Qed.

  Lemma get_insert k' k v c : get k' (insert k v c) = if keqb k' k then Some v else get k' c.
  Proof.
    induction c as [|[k0 v0] t IH]; cbn [insert get].
    - reflexivity.
    - destruct (kcmp k k0) eqn:E; cbn [get].
      + apply kcmp_eq in E. subst k0. destruct (keqb k' k); reflexivity.
      + reflexivity.
      + rewrite IH. destruct (keqb k' k0) eqn:E0; [|reflexivity].
        apply keqb_eq in E0. subst k0. now rewrite (kcmp_lt_neqb _ _ (kcmp_gt_lt _ _ E)).
  Qed.

  Lemma get_insert_same k v c : get k (insert k v c) = Some v.
  Proof. now rewrite get_insert, keqb_refl. Qed.
  Lemma get_insert_other k' k v c : k' <> k -> get k' (insert k v c) = get k' c.
  Proof. intros H. rewrite get_insert. apply keqb_neq in H. now rewrite H. Qed.

  Lemma lb_insert k0 k v c : lb k0 c -> kcmp k0 k = Lt -> lb k0 (insert k v c).
  Proof.
    destruct c as [|[k1 v1] t]; cbn [insert lb]; [auto|].
    intros H1 H2. destruct (kcmp k k1); cbn [lb]; auto.
  Qed.

  Lemma wf_insert k v c : wf c -> wf (insert k v c).
  Proof.
    induction c as [|[k0 v0] t IH]; intros Hw; cbn [insert].
    - cbn. tauto.
    - destruct (kcmp k k0) eqn:E.
      + apply wf_cons in Hw as [Hl Hw]. apply wf_cons. tauto.
      + apply wf_cons. split; [exact E|exact Hw].
      + apply wf_cons in Hw as [Hl Hw]. apply wf_cons. split; [|auto].
        apply lb_insert; [exact Hl|]. now apply kcmp_gt_lt.
  Qed.

  Lemma lb_remove k0 k c : lb k0 c -> wf c -> lb k0 (remove k c).
  Proof.
    destruct c as [|[k1 v1] t]; cbn [remove lb]; [auto|].
    intros H1 Hw. destruct (kcmp k k1); cbn [lb]; auto.
    apply wf_cons in Hw as [Hl Hw]. destruct t as [|[k2 v2] t']; cbn [lb] in *; [exact I|].
    eapply kcmp_trans; eauto.
  Qed.

  Lemma wf_remove k c : wf c -> wf (remove k c).
  Proof.
    induction c as [|[k0 v0] t IH]; intros Hw; cbn [remove]; [exact I|].
    destruct (kcmp k k0) eqn:E; [now apply wf_tail in Hw|exact Hw|].
    apply wf_cons in Hw as [Hl Hw]. apply wf_cons. split; [|auto]. now apply lb_remove.
  Qed.

  Lemma get_remove k' k c : wf c -> get k' (remove k c) = if keqb k' k then None else get k' c.
  Proof.
    induction c as [|[k0 v0] t IH]; intros Hw; cbn [remove get].
    - now destruct (keqb k' k).
    - pose proof Hw as Hw0. apply wf_cons in Hw as [Hl Hw]. destruct (kcmp k k0) eqn:E; cbn [get].
      + apply kcmp_eq in E. subst k0. destruct (keqb k' k) eqn:E1; [|reflexivity].
        apply keqb_eq in E1. subst k'. now apply lb_get_none.
      + destruct (keqb k' k) eqn:E1; [|reflexivity]. apply keqb_eq in E1. subst k'.
        rewrite (kcmp_lt_neqb _ _ E). apply lb_get_none; [|exact Hw].
        destruct t as [|[k2 v2] t']; cbn [lb] in *; [exact I|]. eapply kcmp_trans; eauto.
      + rewrite (IH Hw). destruct (keqb k' k0) eqn:E0; [|reflexivity].
        apply keqb_eq in E0. subst k0. now rewrite (kcmp_lt_neqb _ _ (kcmp_gt_lt _ _ E)).
  Qed.

  (* two BTreeMaps with the same lookups are the same map *)
  Lemma wf_ext (a b : bmap V) : wf a -> wf b -> (forall k, get k a = get k b) -> a = b.
  Proof.
    revert b. induction a as [|[k1 v1] t1 IH]; intros [|[k2 v2] t2] Ha Hb H.
    - reflexivity.
    - specialize (H k2). cbn [get] in H. rewrite keqb_refl in H. discriminate.
    - specialize (H k1). cbn [get] in H. rewrite keqb_refl in H. discriminate.
    - pose proof Ha as Ha0. pose proof Hb as Hb0.
      apply wf_cons in Ha as [La Ha]. apply wf_cons in Hb as [Lb Hb].
      destruct (kcmp k1 k2) eqn:E.
      + apply kcmp_eq in E. subst k2.
        pose proof (H k1) as H1. cbn [get] in H1. rewrite keqb_refl in H1. injection H1 as ->.
        f_equal. apply IH; auto. intros k. specialize (H k). cbn [get] in H.
        destruct (keqb k k1) eqn:E1; [|exact H].
        apply keqb_eq in E1. subst k. now rewrite !lb_get_none.
      + exfalso. specialize (H k1). cbn [get] in H. rewrite keqb_refl, (kcmp_lt_neqb _ _ E) in H.
        rewrite lb_get_none in H; [discriminate| |exact Hb].
        destruct t2 as [|[k3 v3] t3]; cbn [lb] in *; [exact I|]. eapply kcmp_trans; eauto.
      + exfalso. apply kcmp_gt_lt in E. specialize (H k2). cbn [get] in H.
        rewrite keqb_refl, (kcmp_lt_neqb _ _ E) in H.
        rewrite lb_get_none in H; [discriminate| |exact Ha].
        destruct t1 as [|[k3 v3] t3]; cbn [lb] in *; [exact I|]. eapply kcmp_trans; eauto.
  Qed.

  Lemma wf_nodup_keys c : wf c -> NoDup (map fst c).
  Proof.
    induction c as [|[k v] t IH]; intros Hw; cbn [map fst]; constructor.
    - apply wf_cons in Hw as [Hl Hw]. intros Hin. apply in_map_iff in Hin as [e [E Hin]].
      pose proof (lb_all _ _ Hl Hw _ Hin) as Hlt. rewrite E, kcmp_refl in Hlt. discriminate.
    - apply IH. now apply wf_tail in Hw.
  Qed.

  Lemma contains_key_insert k' k v c : contains_key k' (insert k v c) = keqb k' k || contains_key k' c.
  Proof. unfold contains_key. rewrite get_insert. now destruct (keqb k' k). Qed.

  (* inserting ascending keys at the end *)
  Lemma insert_snoc k v c : wf c -> (forall e, In e c -> kcmp (fst e) k = Lt) -> insert k v c = c ++ [(k, v)].
  Proof.
    induction c as [|[k0 v0] t IH]; intros Hw H; cbn [insert app]; [reflexivity|].
    pose proof (H (k0, v0) (or_introl eq_refl)) as Hlt. cbn [fst] in Hlt.
    rewrite (kcmp_lt_gt _ _ Hlt). f_equal.
    apply IH; [now apply wf_tail in Hw|]. intros e He. apply H. now right.
  Qed.

  Lemma wf_extend (a b : bmap V) : wf a -> wf (extend a b).
  Proof.
    unfold extend. revert a. induction b as [|e t IH]; intros a Hw; cbn [fold_left]; [exact Hw|].
    apply IH. now apply wf_insert.
  Qed.
End MapFacts.

(* ------------------------------------------------------------------------------------------- *)
(* C. LintGroupConfig                                                                           *)
(* ------------------------------------------------------------------------------------------- *)
Lemma get_clear k (c : config) : get k (clear c) = match get k c with Some _ => Some None | None => None end.
Proof.
  induction c as [|[k0 v0] t IH]; cbn [clear map get fst]; [reflexivity|].
  destruct (keqb k k0); [reflexivity|exact IH].
Qed.
Lemma wf_clear (c : config) : wf c -> wf (clear c).
Proof.
  induction c as [|[k0 v0] t IH]; intros Hw; [exact I|].
  apply wf_cons in Hw as [Hl Hw]. change (clear ((k0, v0) :: t)) with ((k0, @None bool) :: clear t).
  apply wf_cons. split; [|auto]. destruct t as [|[k1 v1] t']; cbn in *; auto.
Qed.
Lemma is_enabled_clear (c : config) k : is_rule_enabled (clear c) k = false.
Proof. unfold is_rule_enabled. rewrite get_clear. now destruct (get k c). Qed.
Lemma clear_keys (c : config) : map fst (clear c) = map fst c.
Proof. unfold clear. rewrite map_map. reflexivity. Qed.

Lemma wf_merge_into (a b : config) : wf a -> wf (merge_into a b).
Proof.
  unfold merge_into. revert a. induction b as [|[k v] t IH]; intros a Hw; cbn [fold_left snd fst]; [exact Hw|].
  apply IH. destruct v; [now apply wf_insert|exact Hw].
Qed.

(* merge_from is right-biased on explicit values and skips None *)
Lemma get_merge_into (a b : config) k : wf b ->
  get k (merge_into a b) = match get k b with Some (Some v) => Some (Some v) | _ => get k a end.
Proof.
  unfold merge_into. revert a. induction b as [|[k0 v0] t IH]; intros a Hw; cbn [fold_left snd fst get]; [reflexivity|].
  apply wf_cons in Hw as [Hl Hw]. rewrite (IH _ Hw).
  destruct (keqb k k0) eqn:E.
  - apply keqb_eq in E. subst k0. rewrite (lb_get_none _ _ Hl Hw).
    destruct v0 as [b0|]; [now rewrite get_insert_same|reflexivity].
  - destruct v0 as [b0|]; [|reflexivity]. rewrite get_insert, E. reflexivity.
Qed.

Lemma is_enabled_merge_into (a b : config) k : wf b ->
  is_rule_enabled (merge_into a b) k = match get k b with Some (Some v) => v | _ => is_rule_enabled a k end.
Proof.
  intros Hw. unfold is_rule_enabled. rewrite (get_merge_into _ _ _ Hw).
  destruct (get k b) as [[v|]|]; reflexivity.
Qed.

Lemma merge_into_idem (a : config) : wf a -> merge_into a a = a.
Proof.
  intros Hw. apply wf_ext; [now apply wf_merge_into|exact Hw|].
  intros k. rewrite (get_merge_into _ _ _ Hw). destruct (get k a) as [[v|]|]; reflexivity.
Qed.

Lemma merge_into_twice (a b : config) : wf a -> wf b -> merge_into (merge_into a b) b = merge_into a b.
Proof.
  intros Ha Hb. apply wf_ext; [now apply wf_merge_into, wf_merge_into|now apply wf_merge_into|].
  intros k. rewrite !(get_merge_into _ _ _ Hb). destruct (get k b) as [[v|]|]; reflexivity.
Qed.

(* a cleared config merges as nothing: merging the same source a second time (it was cleared by the first
   merge_from) changes nothing *)
Lemma merge_into_cleared (a b : config) : merge_into a (clear b) = a.
Proof.
  unfold merge_into, clear. revert a. induction b as [|e t IH]; intros a; cbn [map fold_left snd]; [reflexivity|apply IH].
Qed.

(* several merges in a row: for each key the LAST config that sets it explicitly decides *)
Definition last_explicit (k : key) (cs : list config) : option bool :=
  fold_left (fun acc c => match get k c with Some (Some v) => Some v | _ => acc end) cs None.
Definition merge_seq (base : config) (cs : list config) : config := fold_left merge_into cs base.

Definition ex_step (k : key) (x : option (option bool)) (c : config) : option (option bool) :=
  match get k c with Some (Some v) => Some (Some v) | _ => x end.
Lemma get_merge_seq_fold base cs k : Forall wf cs ->
  get k (merge_seq base cs) = fold_left (ex_step k) cs (get k base).
Proof.
  unfold merge_seq. revert base. induction cs as [|c t IH]; intros base HF; cbn [fold_left]; [reflexivity|].
  inversion HF as [|? ? Hc Ht]; subst. rewrite (IH _ Ht), (get_merge_into _ _ _ Hc). reflexivity.
Qed.
Lemma ex_step_fold k cs x acc :
  fold_left (ex_step k) cs (match acc with Some v => Some (Some v) | None => x end)
  = match fold_left (fun acc c => match get k c with Some (Some v) => Some v | _ => acc end) cs acc with
    | Some v => Some (Some v) | None => x end.
Proof.
  revert acc. induction cs as [|c t IH]; intros acc; cbn [fold_left]; [reflexivity|].
  unfold ex_step at 2. destruct (get k c) as [[v|]|].
  - apply (IH (Some v)).
  - apply IH.
  - apply IH.
Qed.

Lemma wf_merge_seq base cs : wf base -> wf (merge_seq base cs).
Proof.
  unfold merge_seq. revert base. induction cs as [|c t IH]; intros base Hw; cbn [fold_left]; [exact Hw|].
  apply IH. now apply wf_merge_into.
Qed.

Lemma get_merge_seq base cs k : Forall wf cs ->
  get k (merge_seq base cs) = match last_explicit k cs with Some v => Some (Some v) | None => get k base end.
Proof.
  intros HF. rewrite (get_merge_seq_fold _ _ _ HF). unfold last_explicit.
  apply (ex_step_fold k cs (get k base) None).
Qed.

(* fill_with_curated: the user's explicit choice wins, anything else takes the curated value *)
Lemma get_fill (cur u : config) k : wf u ->
  get k (fill_with_curated cur u) = match get k u with Some (Some v) => Some (Some v) | _ => get k cur end.
Proof. intros Hw. unfold fill_with_curated, merge_from. cbn [fst]. now apply get_merge_into. Qed.

Lemma wf_fill (cur u : config) : wf cur -> wf (fill_with_curated cur u).
Proof. intros Hw. unfold fill_with_curated, merge_from. cbn [fst]. now apply wf_merge_into. Qed.

Lemma fill_idem (cur u : config) : wf cur -> wf u ->
  fill_with_curated cur (fill_with_curated cur u) = fill_with_curated cur u.
Proof.
  intros Hc Hu. apply wf_ext; [now apply wf_fill|now apply wf_fill|].
  intros k. rewrite (get_fill _ _ _ (wf_fill _ _ Hc)), !(get_fill _ _ _ Hu).
  destruct (get k u) as [[v|]|]; [reflexivity| |]; destruct (get k cur) as [[w|]|]; reflexivity.
Qed.

Lemma get_set k' k b (c : config) : get k' (set_rule_enabled k b c) = if keqb k' k then Some (Some b) else get k' c.
Proof. apply get_insert. Qed.
Lemma is_enabled_set k' k b (c : config) :
  is_rule_enabled (set_rule_enabled k b c) k' = if keqb k' k then b else is_rule_enabled c k'.
Proof. unfold is_rule_enabled. rewrite get_set. now destruct (keqb k' k). Qed.
Lemma is_enabled_unset k' k (c : config) : wf c ->
  is_rule_enabled (unset_rule_enabled k c) k' = if keqb k' k then false else is_rule_enabled c k'.
Proof. intros Hw. unfold is_rule_enabled, unset_rule_enabled. rewrite (get_remove _ _ _ Hw). now destruct (keqb k' k). Qed.
Lemma get_set_if_unset k' k b (c : config) :
  get k' (set_rule_enabled_if_unset k b c)
  = if keqb k' k then match get k c with Some v => Some v | None => Some (Some b) end else get k' c.
Proof.
  unfold set_rule_enabled_if_unset, contains_key. destruct (get k c) as [v|] eqn:E.
  - destruct (keqb k' k) eqn:E1; [|reflexivity]. apply keqb_eq in E1. now subst.
  - rewrite get_set. destruct (keqb k' k); reflexivity.
Qed.
Lemma wf_set_if_unset k b (c : config) : wf c -> wf (set_rule_enabled_if_unset k b c).
Proof. intros Hw. unfold set_rule_enabled_if_unset. destruct (contains_key k c); [exact Hw|now apply wf_insert]. Qed.

(* ------------------------------------------------------------------------------------------- *)
(* D. the dispatch of LintGroup::lint                                                           *)
(* ------------------------------------------------------------------------------------------- *)
(* list facts *)
Lemma flat_map_ext_in {A B} (f g : A -> list B) l : (forall x, In x l -> f x = g x) -> flat_map f l = flat_map g l.
Proof.
  induction l as [|a t IH]; intros H; cbn [flat_map]; [reflexivity|].
  rewrite (H a (or_introl eq_refl)), IH; [reflexivity|]. intros x Hx. apply H. now right.
Qed.
Lemma flat_map_nil_fun {A B} (l : list A) : flat_map (fun _ => @nil B) l = [].
Proof. induction l; cbn; auto. Qed.
Lemma filter_flat_map_c {A B} (p : B -> bool) (f : A -> list B) l :
  filter p (flat_map f l) = flat_map (fun x => filter p (f x)) l.
Proof. induction l as [|a t IH]; cbn [flat_map filter]; [reflexivity|]. now rewrite filter_app, IH. Qed.
Lemma map_flat_map_c {A B C} (h : B -> C) (f : A -> list B) l :
  map h (flat_map f l) = flat_map (fun x => map h (f x)) l.
Proof. induction l as [|a t IH]; cbn [flat_map map]; [reflexivity|]. now rewrite map_app, IH. Qed.
Lemma flat_map_app_perm {A B} (g h : A -> list B) l :
  Permutation (flat_map (fun b => g b ++ h b) l) (flat_map g l ++ flat_map h l).
Proof.
  induction l as [|a t IH]; cbn [flat_map]; [constructor|].
  rewrite <- !app_assoc. apply Permutation_app_head. rewrite IH. apply Permutation_app_swap_app.
Qed.
Lemma flat_map_swap_perm {A B C} (f : A -> B -> list C) la lb :
  Permutation (flat_map (fun a => flat_map (fun b => f a b) lb) la)
              (flat_map (fun b => flat_map (fun a => f a b) la) lb).
Proof.
  induction la as [|a t IH]; cbn [flat_map].
  - rewrite flat_map_nil_fun. constructor.
  - rewrite IH. symmetry. apply (flat_map_app_perm (fun b => f a b) (fun b => flat_map (fun a0 => f a0 b) t)).
Qed.
Lemma flat_map_perm_pointwise {A B} (f g : A -> list B) l :
  (forall x, In x l -> Permutation (f x) (g x)) -> Permutation (flat_map f l) (flat_map g l).
Proof.
  induction l as [|a t IH]; intros H; cbn [flat_map]; [constructor|].
  apply Permutation_app; [apply H; now left|]. apply IH. intros x Hx. apply H. now right.
Qed.

(* kdedup *)
Lemma existsb_keqb k l : existsb (keqb k) l = true <-> In k l.
Proof.
  rewrite existsb_exists. split.
  - intros [x [Hx E]]. apply keqb_eq in E. now subst.
  - intros H. exists k. split; [exact H|apply keqb_refl].
Qed.
Lemma kdedup_in k l : In k (kdedup l) <-> In k l.
Proof.
  induction l as [|a t IH]; cbn [kdedup]; [tauto|].
  destruct (existsb (keqb a) t) eqn:E.
  - rewrite IH. apply existsb_keqb in E. cbn [In]. split; [tauto|]. intros [->|H]; auto.
  - cbn [In]. now rewrite IH.
Qed.
Lemma kdedup_nodup l : NoDup (kdedup l).
Proof.
  induction l as [|a t IH]; cbn [kdedup]; [constructor|].
  destruct (existsb (keqb a) t) eqn:E; [exact IH|]. constructor; [|exact IH].
  rewrite kdedup_in. intros H. apply existsb_keqb in H. congruence.
Qed.

(* one gate, seen from the switches: U lists every name once *)
Lemma gate_single {X} (en : key -> bool) (k : key) (x : list X) U :
  NoDup U -> In k U -> flat_map (fun r => if keqb k r then x else []) (filter en U) = if en k then x else [].
Proof.
  induction U as [|u t IH]; intros Hnd Hin; [destruct Hin|].
  inversion Hnd as [|? ? Hnot Hnd']; subst.
  assert (Hout : forall t', ~ In k t' -> flat_map (fun r => if keqb k r then x else []) (filter en t') = []).
  { induction t' as [|a t' IH']; intros Hn; cbn [filter flat_map]; [reflexivity|].
    assert (Ea : keqb k a = false) by (apply keqb_neq; intros ->; apply Hn; now left).
    destruct (en a); cbn [flat_map]; rewrite ?Ea; apply IH'; intros H; apply Hn; now right. }
  cbn [filter]. destruct Hin as [->|Hin].
  - destruct (en k); cbn [flat_map]; rewrite ?keqb_refl, (Hout _ Hnot); [apply app_nil_r|reflexivity].
  - assert (Eu : keqb k u = false) by (apply keqb_neq; intros ->; contradiction).
    destruct (en u); cbn [flat_map]; rewrite ?Eu; now apply IH.
Qed.

Lemma gate_union {R X} (en : key -> bool) (T : key * R -> list X) (L : list (key * R)) U :
  NoDup U -> (forall e, In e L -> In (fst e) U) ->
  Permutation (flat_map (fun e => if en (fst e) then T e else []) L)
              (flat_map (fun r => flat_map (fun e => if keqb (fst e) r then T e else []) L) (filter en U)).
Proof.
  intros Hnd Hall.
  rewrite (flat_map_swap_perm (fun r e => if keqb (fst e) r then T e else []) (filter en U) L).
  erewrite (flat_map_ext_in (fun e => flat_map _ (filter en U))); [reflexivity|].
  intros e He. cbn beta. now rewrite (gate_single en (fst e) (T e) U Hnd (Hall e He)).
Qed.

Lemma is_enabled_only r k : is_rule_enabled (only r) k = keqb k r.
Proof. unfold is_rule_enabled, only. cbn [get]. now destruct (keqb k r). Qed.

Section DispatchFacts.
  Variables body doc chunk srule prule : Type.
  Variable chunks : doc -> list chunk.
  Variable chunk_start : chunk -> option nat.
  Variable run_struct : srule -> doc -> list (glint body).
  Variable run_pat : prule -> doc -> chunk -> list (glint body).
  Notation grp := (group srule prule).
  Notation LG := (lint_group chunks chunk_start run_struct run_pat).
  Notation LT := (lint_tagged chunks chunk_start run_struct run_pat).
  Notation LS := (lint_spec chunks chunk_start run_struct run_pat).
  Notation RELOK := (rel_ok chunks chunk_start run_pat).
  Implicit Types (g : grp) (d : doc) (c : config).

  (* re-basing a lint that lies after the chunk start is the identity *)
  Lemma pull_push_ok st (l : glint body) : st <= sstart (gl_span l) -> st <= send (gl_span l) ->
    exists l', pull_lint st l = Ok l' /\ push_lint st l' = l.
  Proof.
    destruct l as [[a b] x]. cbn [gl_span sstart send]. intros Ha Hb.
    unfold pull_lint, pull_by, sub_chk. cbn [gl_span gl_body sstart send bind].
    assert (E1 : (a <? st) = false) by (apply Nat.ltb_ge; lia).
    assert (E2 : (b <? st) = false) by (apply Nat.ltb_ge; lia).
    rewrite E1. cbn [bind]. rewrite E2. cbn [bind]. eexists. split; [reflexivity|].
    unfold push_lint, push_by. cbn [gl_span gl_body sstart send]. now rewrite !Nat.sub_add.
  Qed.

  Lemma rebase_ok st (ls : list (glint body)) :
    (forall l, In l ls -> st <= sstart (gl_span l) /\ st <= send (gl_span l)) ->
    (do rel <- mapM (pull_lint st) ls; Ok (map (push_lint st) rel)) = Ok ls.
  Proof.
    induction ls as [|l t IH]; intros H; [reflexivity|].
    destruct (pull_push_ok st l) as [l' [E1 E2]]; try apply (H l (or_introl eq_refl)).
    assert (Ht : forall l0, In l0 t -> st <= sstart (gl_span l0) /\ st <= send (gl_span l0)) by (intros; apply H; now right).
    specialize (IH Ht). cbn [mapM]. rewrite E1. cbn [bind].
    destruct (mapM (pull_lint st) t) as [t'|w]; cbn [bind] in *; [|discriminate].
    injection IH as IH. cbn [map]. now rewrite E2, IH.
  Qed.

  (* a lint before its chunk start makes pull_by underflow *)
  Lemma rebase_panics st (ls : list (glint body)) l :
    In l ls -> (sstart (gl_span l) < st \/ send (gl_span l) < st) ->
    (do rel <- mapM (pull_lint st) ls; Ok (map (push_lint st) rel)) = Panic PUnderflow.
  Proof.
    induction ls as [|l0 t IH]; intros Hin Hbad; [destruct Hin|].
    cbn [mapM]. destruct Hin as [->|Hin].
    - destruct l as [[a b] x]. cbn [gl_span sstart send] in Hbad.
      unfold pull_lint, pull_by, sub_chk. cbn [gl_span gl_body sstart send bind].
      destruct (a <? st) eqn:E1; cbn [bind]; [reflexivity|].
      destruct (b <? st) eqn:E2; cbn [bind]; [reflexivity|].
      apply Nat.ltb_ge in E1, E2. lia.
    - specialize (IH Hin Hbad).
      destruct l0 as [[a b] x]. unfold pull_lint at 1, pull_by, sub_chk. cbn [gl_span gl_body sstart send bind].
      destruct (a <? st); cbn [bind]; [reflexivity|]. destruct (b <? st); cbn [bind]; [reflexivity|].
      destruct (mapM (pull_lint st) t); cbn [bind] in *; [discriminate|exact IH].
  Qed.

  Lemma map_snd_gate {R} (en : key -> bool) (f : R -> list (glint body)) (L : list (key * R)) :
    map snd (flat_map (fun e => if en (fst e) then map (pair (fst e)) (f (snd e)) else []) L)
    = flat_map (fun e => if en (fst e) then f (snd e) else []) L.
  Proof.
    rewrite map_flat_map_c. apply flat_map_ext_in. intros e _.
    destruct (en (fst e)); [|reflexivity]. rewrite map_map. cbn [snd]. apply map_id.
  Qed.

  Lemma tagged_struct_snd g d : map snd (tagged_struct run_struct g d) = struct_part run_struct g d.
  Proof. apply (map_snd_gate (is_rule_enabled (g_cfg g)) (fun r => run_struct r d)). Qed.

  Lemma tagged_chunk_snd g d ch :
    map snd (tagged_chunk chunk_start run_pat g d ch)
    = match chunk_start ch with None => [] | Some _ => chunk_pattern_lints run_pat g d ch end.
  Proof.
    unfold tagged_chunk, chunk_pattern_lints. destruct (chunk_start ch); [|reflexivity].
    apply (map_snd_gate (is_rule_enabled (g_cfg g)) (fun r => run_pat r d ch)).
  Qed.

  (* lint_spec written out: the formula of C11_decompose *)
  Lemma lint_spec_formula g d :
    LS g d = struct_part run_struct g d
             ++ flat_map (fun ch => match chunk_start ch with None => [] | Some _ => chunk_pattern_lints run_pat g d ch end)
                         (chunks d).
  Proof.
    unfold lint_spec, lint_tagged. rewrite map_app, tagged_struct_snd, map_flat_map_c. f_equal.
    apply flat_map_ext_in. intros ch _. apply tagged_chunk_snd.
  Qed.

  Lemma in_gate {R X} (en : key -> bool) (T : key * R -> list X) L x :
    In x (flat_map (fun e => if en (fst e) then T e else []) L) <-> exists e, In e L /\ en (fst e) = true /\ In x (T e).
  Proof.
    rewrite in_flat_map. split.
    - intros [e [He Hx]]. destruct (en (fst e)) eqn:E; [|destruct Hx]. eauto.
    - intros [e [He [E Hx]]]. exists e. rewrite E. auto.
  Qed.

  Lemma lint_chunk_ok g d ch :
    (forall e st l, In e (g_patterns g) -> chunk_start ch = Some st -> In l (run_pat (snd e) d ch) ->
       st <= sstart (gl_span l) /\ st <= send (gl_span l)) ->
    lint_chunk chunk_start run_pat g d ch = Ok (map snd (tagged_chunk chunk_start run_pat g d ch)).
  Proof.
    intros H. rewrite tagged_chunk_snd. unfold lint_chunk. destruct (chunk_start ch) as [st|] eqn:E; [|reflexivity].
    apply rebase_ok. intros l Hl. unfold chunk_pattern_lints in Hl.
    apply (in_gate (is_rule_enabled (g_cfg g)) (fun e => run_pat (snd e) d ch)) in Hl as [e [He [_ Hl]]].
    eapply H; eauto.
  Qed.

  Lemma lint_chunks_ok g d chs :
    (forall e ch st l, In e (g_patterns g) -> In ch chs -> chunk_start ch = Some st -> In l (run_pat (snd e) d ch) ->
       st <= sstart (gl_span l) /\ st <= send (gl_span l)) ->
    lint_chunks chunk_start run_pat g d chs = Ok (map snd (flat_map (tagged_chunk chunk_start run_pat g d) chs)).
  Proof.
    induction chs as [|ch t IH]; intros H; [reflexivity|].
    cbn [lint_chunks flat_map]. rewrite lint_chunk_ok; [|intros; eapply H; eauto; now left]. cbn [bind].
    rewrite IH; [|intros; eapply H; eauto; now right]. cbn [bind]. now rewrite map_app.
  Qed.

  (* D4: on the miss path and for chunk-relative rules, lint IS the gated concatenation *)
  Lemma lint_group_ok g d : RELOK g d -> LG g d = Ok (LS g d).
  Proof.
    intros H. unfold lint_group. rewrite lint_chunks_ok; [|intros; eapply H; eauto]. cbn [bind].
    unfold lint_spec, lint_tagged. now rewrite map_app, tagged_struct_snd.
  Qed.

  Lemma lint_chunk_shape g d ch : (exists ls, lint_chunk chunk_start run_pat g d ch = Ok ls)
                                  \/ lint_chunk chunk_start run_pat g d ch = Panic PUnderflow.
  Proof.
    unfold lint_chunk. destruct (chunk_start ch) as [st|]; [|left; eauto].
    induction (chunk_pattern_lints run_pat g d ch) as [|l t IH]; [left; cbn; eauto|].
    cbn [mapM]. destruct l as [[a b] x]. unfold pull_lint at 1 3, pull_by, sub_chk. cbn [gl_span gl_body sstart send bind].
    destruct (a <? st); cbn [bind]; [now right|]. destruct (b <? st); cbn [bind]; [now right|].
    destruct (mapM (pull_lint st) t); cbn [bind] in *; [left; eauto|].
    destruct IH as [[ls E]|E]; [discriminate|]. right. exact E.
  Qed.

  (* and exactly when an ENABLED pattern rule reports a lint before its chunk start, lint panics *)
  Lemma lint_group_panics g d e ch st l :
    In e (g_patterns g) -> is_rule_enabled (g_cfg g) (fst e) = true -> In ch (chunks d) -> chunk_start ch = Some st ->
    In l (run_pat (snd e) d ch) -> (sstart (gl_span l) < st \/ send (gl_span l) < st) ->
    LG g d = Panic PUnderflow.
  Proof.
    intros He Hen Hch Hst Hl Hbad. unfold lint_group.
    assert (E : lint_chunks chunk_start run_pat g d (chunks d) = Panic PUnderflow); [|now rewrite E].
    induction (chunks d) as [|c0 t IH]; [destruct Hch|].
    cbn [lint_chunks]. destruct Hch as [->|Hch].
    - assert (E : lint_chunk chunk_start run_pat g d ch = Panic PUnderflow); [|now rewrite E].
      unfold lint_chunk. rewrite Hst. apply (rebase_panics st _ l); [|exact Hbad].
      unfold chunk_pattern_lints. apply (in_gate (is_rule_enabled (g_cfg g)) (fun e => run_pat (snd e) d ch)). eauto.
    - destruct (lint_chunk_shape g d c0) as [[ls E]|E]; rewrite E; cbn [bind]; [|reflexivity].
      now rewrite (IH Hch).
  Qed.

  (* D5: provenance — every reported lint comes from an enabled rule run on this document *)
  Lemma lint_tagged_provenance g d r l : In (r, l) (LT g d) ->
    is_rule_enabled (g_cfg g) r = true /\
    ((exists rule, In (r, rule) (g_linters g) /\ In l (run_struct rule d)) \/
     (exists rule ch, In (r, rule) (g_patterns g) /\ In ch (chunks d) /\ chunk_start ch <> None /\ In l (run_pat rule d ch))).
  Proof.
    unfold lint_tagged. rewrite in_app_iff. intros [H|H].
    - apply (in_gate (is_rule_enabled (g_cfg g)) (fun e => map (pair (fst e)) (run_struct (snd e) d))) in H as [[k rule] [He [En Hx]]].
      cbn [fst snd] in *. apply in_map_iff in Hx as [l0 [E Hl]]. injection E as -> ->. split; [exact En|]. left. eauto.
    - apply in_flat_map in H as [ch [Hch H]]. unfold tagged_chunk in H. destruct (chunk_start ch) eqn:Est; [|destruct H].
      apply (in_gate (is_rule_enabled (g_cfg g)) (fun e => map (pair (fst e)) (run_pat (snd e) d ch))) in H as [[k rule] [He [En Hx]]].
      cbn [fst snd] in *. apply in_map_iff in Hx as [l0 [E Hl]]. injection E as -> ->. split; [exact En|]. right.
      exists rule, ch. rewrite Est. repeat split; auto. discriminate.
  Qed.

  (* D7: lint depends on the configuration only through is_rule_enabled on the registered names *)
  Lemma lint_tagged_ext g c1 c2 d :
    (forall k, In k (g_iter_keys g) -> is_rule_enabled c1 k = is_rule_enabled c2 k) ->
    LT (g_with_cfg g c1) d = LT (g_with_cfg g c2) d.
  Proof.
    intros H. unfold lint_tagged, tagged_struct, tagged_chunk, g_with_cfg. cbn [g_cfg g_linters g_patterns]. f_equal.
    - apply flat_map_ext_in. intros e He. rewrite H; [reflexivity|].
      unfold g_iter_keys. apply in_or_app. left. now apply in_map.
    - apply flat_map_ext_in. intros ch _. destruct (chunk_start ch); [|reflexivity].
      apply flat_map_ext_in. intros e He. rewrite H; [reflexivity|].
      unfold g_iter_keys. apply in_or_app. right. now apply in_map.
  Qed.

  Lemma lint_group_ext g c1 c2 d :
    (forall k, In k (g_iter_keys g) -> is_rule_enabled c1 k = is_rule_enabled c2 k) ->
    LG (g_with_cfg g c1) d = LG (g_with_cfg g c2) d.
  Proof.
    intros H. unfold lint_group.
    assert (Es : struct_part run_struct (g_with_cfg g c1) d = struct_part run_struct (g_with_cfg g c2) d).
    { unfold struct_part, g_with_cfg. cbn [g_cfg g_linters]. apply flat_map_ext_in. intros e He. rewrite H; [reflexivity|].
      unfold g_iter_keys. apply in_or_app. left. now apply in_map. }
    assert (Ec : forall ch, lint_chunk chunk_start run_pat (g_with_cfg g c1) d ch = lint_chunk chunk_start run_pat (g_with_cfg g c2) d ch).
    { intros ch. unfold lint_chunk, chunk_pattern_lints, g_with_cfg. cbn [g_cfg g_patterns].
      destruct (chunk_start ch); [|reflexivity].
      erewrite (flat_map_ext_in _ _ (g_patterns g)); [reflexivity|]. intros e He. cbn beta. rewrite H; [reflexivity|].
      unfold g_iter_keys. apply in_or_app. right. now apply in_map. }
    rewrite Es. f_equal. induction (chunks d) as [|ch t IH]; [reflexivity|]. cbn [lint_chunks]. now rewrite Ec, IH.
  Qed.

  (* D6: toggling r leaves every other rule's lints — and their order — unchanged *)
  Definition not_tag (r : key) (tl : key * glint body) : bool := negb (keqb (fst tl) r).

  Lemma filter_gate_other {R} (en1 en2 : key -> bool) (T : R -> list (glint body)) (L : list (key * R)) r :
    (forall k, k <> r -> en1 k = en2 k) ->
    filter (not_tag r) (flat_map (fun e => if en1 (fst e) then map (pair (fst e)) (T (snd e)) else []) L)
    = filter (not_tag r) (flat_map (fun e => if en2 (fst e) then map (pair (fst e)) (T (snd e)) else []) L).
  Proof.
    intros H. rewrite !filter_flat_map_c. apply flat_map_ext_in. intros [k x] _. cbn [fst snd].
    destruct (keqb k r) eqn:E.
    - assert (Z : forall ls, filter (not_tag r) (map (pair k) ls) = []).
      { induction ls as [|a t IH]; [reflexivity|]. cbn [map filter]. unfold not_tag at 1. cbn [fst]. rewrite E. exact IH. }
      destruct (en1 k), (en2 k); rewrite ?Z; reflexivity.
    - apply keqb_neq in E. now rewrite (H k E).
  Qed.

  Lemma toggle_others_unchanged g c1 c2 d r :
    (forall k, k <> r -> is_rule_enabled c1 k = is_rule_enabled c2 k) ->
    filter (not_tag r) (LT (g_with_cfg g c1) d) = filter (not_tag r) (LT (g_with_cfg g c2) d).
  Proof.
    intros H. unfold lint_tagged. rewrite !filter_app. f_equal.
    - apply (filter_gate_other _ _ (fun x => run_struct x d) (g_linters g) r H).
    - rewrite !filter_flat_map_c. apply flat_map_ext_in. intros ch _. unfold tagged_chunk.
      destruct (chunk_start ch); [|reflexivity].
      apply (filter_gate_other _ _ (fun x => run_pat x d ch) (g_patterns g) r H).
  Qed.

  (* ... and r's own lints under any configuration that enables it are what `only r` produces *)
  Definition is_tag (r : key) (tl : key * glint body) : bool := keqb (fst tl) r.
  Lemma filter_gate_self {R} (en : key -> bool) (T : R -> list (glint body)) (L : list (key * R)) r :
    en r = true ->
    filter (is_tag r) (flat_map (fun e => if en (fst e) then map (pair (fst e)) (T (snd e)) else []) L)
    = flat_map (fun e => if keqb (fst e) r then map (pair (fst e)) (T (snd e)) else []) L.
  Proof.
    intros H. rewrite filter_flat_map_c. apply flat_map_ext_in. intros [k x] _. cbn [fst snd].
    assert (Z : forall ls, filter (is_tag r) (map (pair k) ls) = if keqb k r then map (pair k) ls else []).
    { induction ls as [|a t IH]; [now destruct (keqb k r)|]. cbn [map filter]. unfold is_tag at 1. cbn [fst].
      rewrite IH. now destruct (keqb k r). }
    destruct (keqb k r) eqn:E.
    - apply keqb_eq in E. subst k. now rewrite H, Z.
    - destruct (en k); [|reflexivity]. now rewrite Z.
  Qed.

  Lemma toggle_self g c d r : is_rule_enabled c r = true ->
    filter (is_tag r) (LT (g_with_cfg g c) d) = LT (g_with_cfg g (only r)) d.
  Proof.
    intros H. unfold lint_tagged. rewrite filter_app. f_equal.
    - unfold tagged_struct, g_with_cfg. cbn [g_cfg g_linters].
      rewrite (filter_gate_self _ (fun x => run_struct x d) (g_linters g) r H).
      apply flat_map_ext_in. intros e _. now rewrite is_enabled_only.
    - rewrite filter_flat_map_c. apply flat_map_ext_in. intros ch _. unfold tagged_chunk, g_with_cfg. cbn [g_cfg g_patterns].
      destruct (chunk_start ch); [|reflexivity].
      rewrite (filter_gate_self _ (fun x => run_pat x d ch) (g_patterns g) r H).
      apply flat_map_ext_in. intros e _. now rewrite is_enabled_only.
  Qed.

  Lemma toggle_off_self g c d r : is_rule_enabled c r = false -> filter (is_tag r) (LT (g_with_cfg g c) d) = [].
  Proof.
    intros H. destruct (filter (is_tag r) (LT (g_with_cfg g c) d)) as [|[k l] t] eqn:E; [reflexivity|exfalso].
    assert (Hin : In (k, l) (filter (is_tag r) (LT (g_with_cfg g c) d))) by (rewrite E; now left).
    apply filter_In in Hin as [Hin Ht]. unfold is_tag in Ht. cbn [fst] in Ht. apply keqb_eq in Ht. subst k.
    apply lint_tagged_provenance in Hin as [En _]. cbn [g_with_cfg g_cfg] in En. congruence.
  Qed.

  (* D8: the multiset union over the enabled switches *)
  Lemma switches_nodup g : NoDup (switches g).
  Proof. apply kdedup_nodup. Qed.
  Lemma switches_in g k : In k (switches g) <-> In k (g_iter_keys g).
  Proof. apply kdedup_in. Qed.

  Lemma lint_tagged_union g d :
    Permutation (LT g d) (flat_map (fun r => LT (g_with_cfg g (only r)) d) (enabled_switches g)).
  Proof.
    unfold enabled_switches.
    set (en := is_rule_enabled (g_cfg g)). set (U := switches g).
    assert (HS : forall e, In e (g_linters g) -> In (fst e) U).
    { intros e He. apply switches_in. unfold g_iter_keys. apply in_or_app. left. now apply in_map. }
    assert (HP : forall e, In e (g_patterns g) -> In (fst e) U).
    { intros e He. apply switches_in. unfold g_iter_keys. apply in_or_app. right. now apply in_map. }
    unfold lint_tagged.
    rewrite (flat_map_app_perm (fun r => tagged_struct run_struct (g_with_cfg g (only r)) d)
                               (fun r => flat_map (tagged_chunk chunk_start run_pat (g_with_cfg g (only r)) d) (chunks d))).
    apply Permutation_app.
    - unfold tagged_struct, g_with_cfg. cbn [g_cfg g_linters].
      etransitivity; [apply (gate_union en (fun e => map (pair (fst e)) (run_struct (snd e) d)) (g_linters g) U (switches_nodup g) HS)|].
      apply flat_map_perm_pointwise. intros r _. erewrite flat_map_ext_in; [reflexivity|].
      intros e _. cbn beta. now rewrite is_enabled_only.
    - rewrite (flat_map_swap_perm (fun r ch => tagged_chunk chunk_start run_pat (g_with_cfg g (only r)) d ch) (filter en U) (chunks d)).
      apply flat_map_perm_pointwise. intros ch _. unfold tagged_chunk, g_with_cfg. cbn [g_cfg g_patterns].
      destruct (chunk_start ch).
      + etransitivity; [apply (gate_union en (fun e => map (pair (fst e)) (run_pat (snd e) d ch)) (g_patterns g) U (switches_nodup g) HP)|].
        apply flat_map_perm_pointwise. intros r _. erewrite flat_map_ext_in; [reflexivity|].
        intros e _. cbn beta. now rewrite is_enabled_only.
      + now rewrite flat_map_nil_fun.
  Qed.

  Lemma lint_spec_union g d :
    Permutation (LS g d) (flat_map (fun r => LS (g_with_cfg g (only r)) d) (enabled_switches g)).
  Proof.
    unfold lint_spec. rewrite (lint_tagged_union g d), map_flat_map_c. reflexivity.
  Qed.

  (* D9: any split of the enabled switches into two configurations *)
  Definition splits g c c1 c2 : Prop :=
    forall k, In k (g_iter_keys g) ->
      is_rule_enabled c k = is_rule_enabled c1 k || is_rule_enabled c2 k /\
      is_rule_enabled c1 k && is_rule_enabled c2 k = false.

  Lemma gate_split {R X} (en en1 en2 : key -> bool) (T : key * R -> list X) (L : list (key * R)) :
    (forall e, In e L -> en (fst e) = en1 (fst e) || en2 (fst e) /\ en1 (fst e) && en2 (fst e) = false) ->
    Permutation (flat_map (fun e => if en (fst e) then T e else []) L)
                (flat_map (fun e => if en1 (fst e) then T e else []) L ++ flat_map (fun e => if en2 (fst e) then T e else []) L).
  Proof.
    intros H. rewrite <- (flat_map_app_perm (fun e => if en1 (fst e) then T e else []) (fun e => if en2 (fst e) then T e else [])).
    erewrite flat_map_ext_in; [reflexivity|]. intros e He. cbn beta. destruct (H e He) as [E1 E2]. rewrite E1.
    destruct (en1 (fst e)), (en2 (fst e)); cbn in *; try discriminate; now rewrite ?app_nil_r.
  Qed.

  Lemma lint_tagged_partition g c c1 c2 d : splits g c c1 c2 ->
    Permutation (LT (g_with_cfg g c) d) (LT (g_with_cfg g c1) d ++ LT (g_with_cfg g c2) d).
  Proof.
    intros H. unfold lint_tagged.
    assert (HS : forall e, In e (g_linters g) -> In (fst e) (g_iter_keys g)).
    { intros e He. unfold g_iter_keys. apply in_or_app. left. now apply in_map. }
    assert (HP : forall e, In e (g_patterns g) -> In (fst e) (g_iter_keys g)).
    { intros e He. unfold g_iter_keys. apply in_or_app. right. now apply in_map. }
    match goal with |- Permutation (?a ++ ?b) ((?a1 ++ ?b1) ++ (?a2 ++ ?b2)) =>
      transitivity ((a1 ++ a2) ++ (b1 ++ b2)) end.
    - apply Permutation_app.
      + unfold tagged_struct, g_with_cfg. cbn [g_cfg g_linters]. apply gate_split. intros e He. apply H, HS, He.
      + rewrite <- (flat_map_app_perm (tagged_chunk chunk_start run_pat (g_with_cfg g c1) d) (tagged_chunk chunk_start run_pat (g_with_cfg g c2) d)).
        apply flat_map_perm_pointwise. intros ch _. unfold tagged_chunk, g_with_cfg. cbn [g_cfg g_patterns].
        destruct (chunk_start ch); [|constructor]. apply gate_split. intros e He. apply H, HP, He.
    - rewrite <- !app_assoc. apply Permutation_app_head. rewrite !app_assoc. apply Permutation_app_tail. apply Permutation_app_comm.
  Qed.

  (* D10: the temporary overlay *)
  Lemma overlay_restores cur g d :
    lint_with_curated_overlay chunks chunk_start run_struct run_pat cur g d
    = (g, LG (g_with_cfg g (fill_with_curated cur (g_cfg g))) d).
  Proof. unfold lint_with_curated_overlay. destruct g as [c L P]. reflexivity. Qed.

  Lemma rel_ok_with_cfg g c d : RELOK g d -> RELOK (g_with_cfg g c) d.
  Proof. intros H e ch st l. unfold g_with_cfg. cbn [g_patterns]. apply H. Qed.
End DispatchFacts.

(* ------------------------------------------------------------------------------------------- *)
(* bundles pinned in Properties/C11.v                                                           *)
(* ------------------------------------------------------------------------------------------- *)
Lemma unknown_key_ops (c : config) (u k : key) (b : bool) : wf c -> k <> u ->
  is_rule_enabled (set_rule_enabled u b c) k = is_rule_enabled c k /\
  is_rule_enabled (unset_rule_enabled u c) k = is_rule_enabled c k /\
  is_rule_enabled (set_rule_enabled_if_unset u b c) k = is_rule_enabled c k.
Proof.
  intros Hw Hne. apply keqb_neq in Hne. repeat split.
  - now rewrite is_enabled_set, Hne.
  - now rewrite (is_enabled_unset _ _ _ Hw), Hne.
  - unfold is_rule_enabled. now rewrite get_set_if_unset, Hne.
Qed.

Lemma ops_preserve_wf (c o : config) (k : key) (b : bool) : wf c ->
  wf (set_rule_enabled k b c) /\ wf (unset_rule_enabled k c) /\ wf (set_rule_enabled_if_unset k b c) /\
  wf (clear c) /\ wf (fst (merge_from c o)) /\ (wf o -> wf (snd (merge_from c o))) /\ wf (fill_with_curated c o).
Proof.
  intros Hw. repeat split.
  - now apply wf_insert.
  - now apply wf_remove.
  - now apply wf_set_if_unset.
  - now apply wf_clear.
  - cbn [merge_from fst]. now apply wf_merge_into.
  - cbn [merge_from snd]. apply wf_clear.
  - now apply wf_fill.
Qed.

Lemma ops_spec (c : config) (k k' : key) (b : bool) : wf c ->
  get k' (set_rule_enabled k b c) = (if keqb k' k then Some (Some b) else get k' c) /\
  get k' (unset_rule_enabled k c) = (if keqb k' k then None else get k' c) /\
  get k' (set_rule_enabled_if_unset k b c)
    = (if keqb k' k then match get k c with Some v => Some v | None => Some (Some b) end else get k' c) /\
  get k' (clear c) = match get k' c with Some _ => Some None | None => None end /\
  is_rule_enabled (clear c) k' = false.
Proof.
  intros Hw. repeat split.
  - apply get_set.
  - now apply get_remove.
  - apply get_set_if_unset.
  - apply get_clear.
  - apply is_enabled_clear.
Qed.

Lemma merge_spec (a b : config) (k : key) : wf a -> wf b ->
  get k (fst (merge_from a b)) = match get k b with Some (Some v) => Some (Some v) | _ => get k a end /\
  snd (merge_from a b) = clear b /\
  fst (merge_from a a) = a /\
  fst (merge_from (fst (merge_from a b)) b) = fst (merge_from a b) /\
  fst (merge_from (fst (merge_from a b)) (snd (merge_from a b))) = fst (merge_from a b).
Proof.
  intros Ha Hb. cbn [merge_from fst snd]. repeat split.
  - now apply get_merge_into.
  - now apply merge_into_idem.
  - now apply merge_into_twice.
  - apply merge_into_cleared.
Qed.

Lemma one_switch_two_rules : exists (g o : group nat nat) (k : key),
  g_contains_key o k = true /\
  contains_key k (g_linters (fst (g_merge_from g o))) = true /\
  contains_key k (g_patterns (fst (g_merge_from g o))) = true.
Proof.
  exists (fst (g_add (g_empty nat nat) [73%N] 0)), (fst (g_add_pattern (g_empty nat nat) [73%N] 1)), [73%N].
  repeat split; vm_compute; reflexivity.
Qed.

(* add / add_pattern_linter never register a name twice *)
Lemma g_add_keeps_disjoint {S P} (g : group S P) k r :
  (forall x, contains_key x (g_linters g) && contains_key x (g_patterns g) = false) ->
  forall x, contains_key x (g_linters (fst (g_add g k r))) && contains_key x (g_patterns (fst (g_add g k r))) = false.
Proof.
  intros H x. unfold g_add, g_contains_key.
  destruct (contains_key k (g_linters g) || contains_key k (g_patterns g)) eqn:E; cbn [fst g_linters g_patterns]; [apply H|].
  rewrite contains_key_insert. apply orb_false_iff in E as [E1 E2].
  destruct (keqb x k) eqn:Ek; [|apply H]. apply keqb_eq in Ek. subst x. rewrite E2. apply andb_false_r.
Qed.
Lemma g_add_pattern_keeps_disjoint {S P} (g : group S P) k r :
  (forall x, contains_key x (g_linters g) && contains_key x (g_patterns g) = false) ->
  forall x, contains_key x (g_linters (fst (g_add_pattern g k r))) && contains_key x (g_patterns (fst (g_add_pattern g k r))) = false.
Proof.
  intros H x. unfold g_add_pattern, g_contains_key.
  destruct (contains_key k (g_linters g) || contains_key k (g_patterns g)) eqn:E; cbn [fst g_linters g_patterns]; [apply H|].
  rewrite contains_key_insert. apply orb_false_iff in E as [E1 E2].
  destruct (keqb x k) eqn:Ek; [|apply H]. apply keqb_eq in Ek. subst x. rewrite E1. reflexivity.
Qed.

(* harper-wasm (since b67a243): Linter::new starts from new_curated_empty_config (= clear curated); every
   set_lint_config_from_json / set_lint_config_from_object CLEARS the stored configuration (keys stay, values
   become null) and then merges the parsed object into it; lint overlays the curated defaults.  So after a
   whole history of settings objects us ++ [u] the overlaid configuration is that of the LAST object alone:
   fill_with_curated cur u — an explicit choice of u, else the curated value.  Nothing of the earlier objects
   survives except their keys (as null entries in the stored configuration). *)
Definition wasm_seq (base : config) (us : list config) : config :=
  fold_left (fun s u => fst (wasm_set_config s u)) us base.

Lemma wf_wasm_set (s u : config) : wf s -> wf (fst (wasm_set_config s u)).
Proof. intros Hs. unfold wasm_set_config, merge_from. cbn [fst]. now apply wf_merge_into, wf_clear. Qed.

Lemma get_wasm_set (s u : config) k : wf u ->
  get k (fst (wasm_set_config s u))
  = match get k u with
    | Some (Some v) => Some (Some v)
    | _ => match get k s with Some _ => Some None | None => None end
    end.
Proof.
  intros Hu. unfold wasm_set_config, merge_from. cbn [fst].
  rewrite (get_merge_into _ _ _ Hu), get_clear. reflexivity.
Qed.

Lemma wasm_set_source (s u : config) : snd (wasm_set_config s u) = clear u.
Proof. reflexivity. Qed.

Lemma wf_wasm_seq base us : wf base -> wf (wasm_seq base us).
Proof.
  unfold wasm_seq. revert base. induction us as [|u t IH]; intros base Hw; cbn [fold_left]; [exact Hw|].
  apply IH. now apply wf_wasm_set.
Qed.

Lemma wasm_seq_snoc base us u : wasm_seq base (us ++ [u]) = fst (wasm_set_config (wasm_seq base us) u).
Proof. unfold wasm_seq. rewrite fold_left_app. reflexivity. Qed.

(* the overlay after one set_lint_config depends on the new object alone, whatever was stored *)
Lemma fill_wasm_set (cur s u : config) : wf cur -> wf s -> wf u ->
  fill_with_curated cur (fst (wasm_set_config s u)) = fill_with_curated cur u.
Proof.
  intros Hc Hs Hu. apply wf_ext; [now apply wf_fill|now apply wf_fill|].
  intros k. rewrite (get_fill _ _ _ (wf_wasm_set _ u Hs)), (get_fill _ _ _ Hu), (get_wasm_set _ _ _ Hu).
  destruct (get k u) as [[v|]|]; [reflexivity| |]; destruct (get k s); reflexivity.
Qed.

Lemma wasm_history (cur : config) (us : list config) (u : config) : wf cur -> wf u ->
  fill_with_curated cur (wasm_seq (clear cur) (us ++ [u])) = fill_with_curated cur u.
Proof.
  intros Hc Hu. rewrite wasm_seq_snoc. apply fill_wasm_set; [exact Hc| |exact Hu].
  apply wf_wasm_seq, wf_clear, Hc.
Qed.

Lemma wasm_history_get (cur : config) (us : list config) (u : config) (k : key) : wf cur -> wf u ->
  get k (fill_with_curated cur (wasm_seq (clear cur) (us ++ [u])))
  = match get k u with Some (Some v) => Some (Some v) | _ => get k cur end.
Proof. intros Hc Hu. rewrite (wasm_history _ _ _ Hc Hu). now apply get_fill. Qed.

(* a Linter that was never configured lints under the curated configuration itself *)
Lemma wasm_fresh (cur : config) : wf cur -> fill_with_curated cur (wasm_seq (clear cur) []) = cur.
Proof.
  intros Hc. cbn [wasm_seq fold_left]. apply wf_ext; [now apply wf_fill|exact Hc|].
  intros k. rewrite (get_fill _ _ _ (wf_clear _ Hc)), get_clear. destruct (get k cur) as [[v|]|]; reflexivity.
Qed.

(* set(get()) is the identity on the stored configuration *)
Lemma wasm_set_get_id (s : config) : wf s -> fst (wasm_set_config s s) = s.
Proof.
  intros Hs. apply wf_ext; [now apply wf_wasm_set|exact Hs|].
  intros k. rewrite (get_wasm_set _ _ _ Hs). destruct (get k s) as [[v|]|]; reflexivity.
Qed.

(* the stored configuration never loses a key: getLintConfig keeps listing every rule *)
Lemma wasm_set_keeps_keys (s u : config) k : wf u ->
  contains_key k s = true -> contains_key k (fst (wasm_set_config s u)) = true.
Proof.
  intros Hu. unfold contains_key. rewrite (get_wasm_set _ _ _ Hu).
  destruct (get k s); [|discriminate]. destruct (get k u) as [[v|]|]; reflexivity.
Qed.

Lemma wasm_history_spec (cur : config) (us : list config) (u : config) (k : key) : wf cur -> Forall wf us -> wf u ->
  fill_with_curated cur (wasm_seq (clear cur) (us ++ [u])) = fill_with_curated cur u /\
  (get k (fill_with_curated cur (wasm_seq (clear cur) (us ++ [u])))
    = match get k u with Some (Some v) => Some (Some v) | _ => get k cur end) /\
  fill_with_curated cur (wasm_seq (clear cur) []) = cur /\
  fst (wasm_set_config (wasm_seq (clear cur) us) (wasm_seq (clear cur) us)) = wasm_seq (clear cur) us /\
  (contains_key k cur = true -> contains_key k (wasm_seq (clear cur) (us ++ [u])) = true).
Proof.
  intros Hc HF Hu.
  assert (Hseq : forall l, wf (wasm_seq (clear cur) l)) by (intros l; apply wf_wasm_seq, wf_clear, Hc).
  repeat split.
  - now apply wasm_history.
  - now apply wasm_history_get.
  - now apply wasm_fresh.
  - apply wasm_set_get_id, Hseq.
  - intros Hk. rewrite wasm_seq_snoc. apply (wasm_set_keeps_keys _ _ _ Hu).
    clear u Hu. induction us as [|x t IH] using rev_ind.
    + cbn [wasm_seq fold_left]. unfold contains_key in *. rewrite get_clear. destruct (get k cur); [reflexivity|discriminate].
    + rewrite wasm_seq_snoc. apply Forall_app in HF as [HF1 HF2]. inversion HF2; subst.
      apply wasm_set_keeps_keys; [assumption|]. now apply IH.
Qed.
