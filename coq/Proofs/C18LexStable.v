(* C18LexStable.v — the LEXER HALF of the idempotence of make_title_case_str (C18), over C02's frozen
   models Lexer.v / Condense.v.

   The lexer is NOT case-insensitive (lex_plural_digit wants a lower-case `s`, so `ss.s` is Word Period
   Word while `SS.S` is one Hostname; `0x1F` is a number, `0X1F` is not; ...), so "the lexer ignores
   case" is false.  What is true, and proved here for ANY Unicode tables `u`:

     document_plain_congr :  on a PLAIN text — every character is a word character (lingual,
       alphabetic, not numeric, not punctuation), a blank (tab, newline, space), a punctuation / quote
       character other than  . @ : [ ' ’ ‘ ＇ , or a character no sub-lexer claims (not lingual, not
       numeric, not an ASCII letter or digit: emoji, CJK, Greek, ...); no ASCII digit —
       replacing word characters by word characters (and nothing else) does not change the result of
       Document::new_plain_english: same spans, same kinds, same payloads.

   The excluded characters are exactly the ones the case-sensitive or context-sensitive sub-lexers key
   on: `.` (hostname, initialisms, ellipsis, Latin abbreviations), `@` (e-mail), `:` (URL), `[`
   (regexish), the apostrophes (lex_plural_digit's `'s`, contractions, the canonical-apostrophe
   rewrite of title-casing) and digits (plural digits, decades, hex and decimal numbers, suffixes). *)
Require Import Base Overlap OverlapProofs Tables_lexer Lexer Condense ListLemmas TokenInv CondenseInv LexerProofs
  CondPatterns3 CondPattern CondSpaces CondInitialisms CondSuffixQuotes Shape DocumentProofs.
From Coq Require Import Lia.

(* ================= the class of plain texts ================= *)
Definition bad_chars : list N := [46; 64; 58; 91; 39; 8217; 8216; 65287]%N.
Definition ws3 (c : N) : bool := mem_n c [9; 10; 32]%N.
Definition nopunct (c : N) : bool :=
  negb (mem_n c quote_chars) && match punct_from_char c with None => true | Some _ => false end.

Definition wchar (u : uni) (c : N) : bool :=
  u_lingual u c && u_alphabetic u c && negb (u_numeric u c) && nopunct c && negb (ws3 c).
Definition ichar (u : uni) (c : N) : bool :=
  negb (u_lingual u c) && negb (u_alphanumeric u c) && negb (is_ascii_alphanumeric c) && (ws3 c || negb (nopunct c)).
Definition ochar (u : uni) (c : N) : bool :=
  negb (u_lingual u c) && negb (u_numeric u c) && negb (is_ascii_alphanumeric c) && nopunct c && negb (ws3 c).
Definition plain_char (u : uni) (c : N) : bool :=
  negb (mem_n c bad_chars) && negb (is_ascii_digit c) && (wchar u c || ichar u c || ochar u c).
Definition plain_text (u : uni) (s : text) : bool := forallb (plain_char u) s.

(* what may differ between the two texts: a word character may be replaced by a word character, a
   character no sub-lexer claims by another such character (Greek alpha by capital Alpha: both Unlintable) *)
Definition Rw (u : uni) (a c : N) : Prop :=
  a = c \/ (wchar u a = true /\ wchar u c = true) \/ (ochar u a = true /\ ochar u c = true).

(* ================= small list facts ================= *)
Definition noc (b : N) (l : text) : Prop := forall x, In x l -> N.eqb b x = false.

Lemma noc_mem b l : noc b l -> mem_n b l = false.
Proof.
  unfold mem_n. induction l as [|x l IH]; intros H; [reflexivity|]. cbn [existsb].
  rewrite (H x (or_introl eq_refl)). cbn [orb]. apply IH. intros y Hy. apply H. now right.
Qed.

Lemma noc_position b l : noc b l -> position (ceq b) l = None.
Proof.
  induction l as [|x l IH]; intros H; [reflexivity|]. cbn [position]. unfold ceq at 1.
  rewrite (H x (or_introl eq_refl)). rewrite IH; [reflexivity|]. intros y Hy. apply H. now right.
Qed.

Lemma noc_rposition b l : noc b l -> rposition (ceq b) l = None.
Proof.
  induction l as [|x l IH]; intros H; [reflexivity|]. cbn [rposition].
  rewrite IH by (intros y Hy; apply H; now right). unfold ceq. rewrite (H x (or_introl eq_refl)). reflexivity.
Qed.

Lemma In_firstn_c18 {A} (x : A) n l : In x (firstn n l) -> In x l.
Proof.
  revert l. induction n as [|n IH]; intros [|y l] H; cbn in H; try contradiction.
  destruct H as [->|H]; [now left|right; apply IH; exact H].
Qed.
Lemma In_skipn_c18 {A} (x : A) n l : In x (skipn n l) -> In x l.
Proof.
  revert l. induction n as [|n IH]; intros l H; [exact H|]. destruct l as [|y l]; [exact H|].
  right. apply IH. exact H.
Qed.
Lemma noc_firstn b n l : noc b l -> noc b (firstn n l).
Proof. intros H x Hx. apply H. eapply In_firstn_c18; exact Hx. Qed.
Lemma noc_skipn b n l : noc b l -> noc b (skipn n l).
Proof. intros H x Hx. apply H. eapply In_skipn_c18; exact Hx. Qed.

Lemma Forall2_skipn_c18 {A B} (R : A -> B -> Prop) n : forall l l', Forall2 R l l' -> Forall2 R (skipn n l) (skipn n l').
Proof.
  induction n as [|n IH]; intros l l' H; [exact H|]. destruct H; [constructor|]. cbn [skipn]. apply IH. assumption.
Qed.
Lemma Forall_skipn_c18 {A} (P : A -> Prop) n : forall l, Forall P l -> Forall P (skipn n l).
Proof. intros l H. apply forall_skipn. exact H. Qed.

Lemma count_while_congr {A} (p : A -> bool) : forall l l', Forall2 (fun a c => p a = p c) l l' ->
  count_while p l' = count_while p l.
Proof.
  intros l l' H. induction H as [|a c l l' Hac _ IH]; [reflexivity|]. cbn [count_while].
  rewrite <- Hac. destruct (p a); [rewrite IH|]; reflexivity.
Qed.

Lemma Forall2_length_c18 {A B} (R : A -> B -> Prop) l l' : Forall2 R l l' -> length l = length l'.
Proof. intros H. induction H; cbn; congruence. Qed.

Lemma Forall2_impl_c18 {A B} (R R' : A -> B -> Prop) l l' :
  (forall a c, R a c -> R' a c) -> Forall2 R l l' -> Forall2 R' l l'.
Proof. intros HR H. induction H; constructor; auto. Qed.

(* ================= character facts ================= *)
Section Plain.
  Variable u : uni.

  Definition lw (c : N) : bool := u_lingual u c || is_ascii_digit c.
  Definition Plain (s : text) : Prop := Forall (fun c => plain_char u c = true) s.

  Lemma plain_text_Plain s : plain_text u s = true <-> Plain s.
  Proof. unfold plain_text, Plain. rewrite forallb_forall, Forall_forall. reflexivity. Qed.

  Lemma plain_parts c : plain_char u c = true ->
    mem_n c bad_chars = false /\ is_ascii_digit c = false /\ (wchar u c = true \/ ichar u c = true \/ ochar u c = true).
  Proof.
    unfold plain_char. intros H. apply andb_prop in H. destruct H as [H H3]. apply andb_prop in H. destruct H as [H1 H2].
    apply negb_true_iff in H1, H2. split; [exact H1|]. split; [exact H2|].
    apply orb_prop in H3. destruct H3 as [H3|H3]; [apply orb_prop in H3; destruct H3 as [H3|H3]|]; auto.
  Qed.

  Lemma plain_not_bad c b : plain_char u c = true -> In b bad_chars -> N.eqb b c = false.
  Proof.
    intros H Hb. destruct (plain_parts c H) as [Hm _]. unfold mem_n in Hm.
    destruct (N.eqb b c) eqn:E; [|reflexivity]. apply N.eqb_eq in E. subst c.
    assert (existsb (N.eqb b) bad_chars = true) as X.
    { apply existsb_exists. exists b. split; [exact Hb|apply N.eqb_refl]. }
    congruence.
  Qed.

  Lemma Plain_noc s b : Plain s -> In b bad_chars -> noc b s.
  Proof. intros H Hb x Hx. unfold Plain in H. rewrite Forall_forall in H. apply plain_not_bad; auto. Qed.

  Lemma wchar_parts c : wchar u c = true ->
    u_lingual u c = true /\ u_alphabetic u c = true /\ u_numeric u c = false /\ nopunct c = true /\ ws3 c = false.
  Proof.
    unfold wchar. intros H. repeat (apply andb_prop in H; destruct H as [H ?]).
    repeat match goal with X : negb _ = true |- _ => apply negb_true_iff in X end. auto.
  Qed.
  Lemma ichar_parts c : ichar u c = true ->
    u_lingual u c = false /\ u_alphanumeric u c = false /\ is_ascii_alphanumeric c = false /\ (ws3 c = true \/ nopunct c = false).
  Proof.
    unfold ichar. intros H. repeat (apply andb_prop in H; destruct H as [H ?]).
    repeat match goal with X : negb _ = true |- _ => apply negb_true_iff in X end.
    repeat split; auto. match goal with X : _ || _ = true |- _ => apply orb_prop in X; destruct X as [X|X] end; auto.
    right. apply negb_true_iff in H0. exact H0.
  Qed.
  Lemma ochar_parts c : ochar u c = true ->
    u_lingual u c = false /\ u_numeric u c = false /\ is_ascii_alphanumeric c = false /\ nopunct c = true /\ ws3 c = false.
  Proof.
    unfold ochar. intros H. repeat (apply andb_prop in H; destruct H as [H ?]).
    repeat match goal with X : negb _ = true |- _ => apply negb_true_iff in X end. auto.
  Qed.

  Lemma nopunct_parts c : nopunct c = true -> mem_n c quote_chars = false /\ punct_from_char c = None.
  Proof.
    unfold nopunct. intros H. apply andb_prop in H. destruct H as [H1 H2]. apply negb_true_iff in H1.
    split; [exact H1|]. destruct (punct_from_char c); [discriminate|reflexivity].
  Qed.

  Lemma ws3_false c : ws3 c = false -> ceq 9 c = false /\ ceq 10 c = false /\ ceq 32 c = false.
  Proof.
    unfold ws3, mem_n, ceq. cbn [existsb]. intros H.
    apply orb_false_elim in H. destruct H as [H1 H]. apply orb_false_elim in H. destruct H as [H2 H].
    apply orb_false_elim in H. destruct H as [H3 _].
    rewrite N.eqb_sym in H1, H2, H3. auto.
  Qed.

  Lemma ws3_true c : ws3 c = true -> c = 9%N \/ c = 10%N \/ c = 32%N.
  Proof.
    unfold ws3, mem_n. cbn [existsb]. intros H.
    apply orb_prop in H. destruct H as [H|H]; [left; apply N.eqb_eq; exact H|].
    apply orb_prop in H. destruct H as [H|H]; [right; left; apply N.eqb_eq; exact H|].
    apply orb_prop in H. destruct H as [H|H]; [right; right; apply N.eqb_eq; exact H|discriminate].
  Qed.

  Lemma not_digit_consts c : is_ascii_digit c = false -> ceq c 48 = false /\ ceq c 49 = false /\ ceq c 50 = false.
  Proof.
    unfold is_ascii_digit, in_range, ceq. intros H.
    repeat split; apply N.eqb_neq; intros ->; vm_compute in H; discriminate.
  Qed.

  (* ================= the sub-lexers on a plain text ================= *)
  Lemma regexish_none (c : N) (r : list N) : ceq c 91 = false -> lex_regexish u (c :: r) = None.
  Proof. intros H. unfold lex_regexish. rewrite H. reflexivity. Qed.

  Lemma hex_none (c : N) (r : list N) : is_ascii_digit c = false -> lex_hex_number u (c :: r) = None.
  Proof.
    intros H. destruct (not_digit_consts c H) as [H0 _]. unfold lex_hex_number.
    destruct r as [|c1 [|c2 r]]; try reflexivity. rewrite H0. reflexivity.
  Qed.

  Lemma decade_none (c : N) (r : list N) : is_ascii_digit c = false -> lex_long_decade u (c :: r) = None.
  Proof.
    intros H. destruct (not_digit_consts c H) as [_ [H1 H2]]. unfold lex_long_decade.
    destruct r as [|c1 [|c2 [|c3 [|c4 rest]]]]; try reflexivity. rewrite H1, H2. reflexivity.
  Qed.

  Lemma number_none (c : N) (r : list N) : u_numeric u c = false -> lex_number u (c :: r) = None.
  Proof. intros H. unfold lex_number. rewrite H. reflexivity. Qed.

  Lemma url_none (s : list N) : noc 58 s -> lex_url u s = None.
  Proof. intros H. unfold lex_url. rewrite (noc_position 58 s H). reflexivity. Qed.

  Lemma email_none (s : list N) : noc 64 s -> lex_email_address u s = None.
  Proof.
    intros H. unfold lex_email_address. cbv zeta.
    rewrite noc_rposition; [reflexivity|]. apply noc_firstn. exact H.
  Qed.

  Lemma hostname_none (s : list N) : noc 46 s -> lex_hostname_token s = None.
  Proof.
    intros H. unfold lex_hostname_token. destruct (lex_hostname s) as [len|]; [|reflexivity].
    destruct (len <=? 1); [reflexivity|].
    rewrite noc_mem; [reflexivity|]. unfold slice. apply noc_firstn. apply noc_skipn. exact H.
  Qed.

  Lemma count_while_first_false {A} (p : A -> bool) (c : A) (r : list A) : p c = false -> count_while p (c :: r) = 0.
  Proof. intros H. cbn [count_while]. rewrite H. reflexivity. Qed.

  Lemma tabs_none (c : N) (r : list N) : ceq 9 c = false -> lex_tabs (c :: r) = None.
  Proof. intros H. unfold lex_tabs. rewrite (count_while_first_false _ _ _ H). reflexivity. Qed.
  Lemma spaces_none (c : N) (r : list N) : ceq 32 c = false -> lex_spaces (c :: r) = None.
  Proof. intros H. unfold lex_spaces. rewrite (count_while_first_false _ _ _ H). reflexivity. Qed.
  Lemma newlines_none (c : N) (r : list N) : ceq 10 c = false -> lex_newlines (c :: r) = None.
  Proof. intros H. unfold lex_newlines. rewrite (count_while_first_false _ _ _ H). reflexivity. Qed.

  Lemma punctuation_none (c : N) (r : list N) : nopunct c = true -> lex_punctuation (c :: r) = None.
  Proof.
    intros H. destruct (nopunct_parts c H) as [H1 H2]. unfold lex_punctuation, lex_quote. rewrite H1, H2. reflexivity.
  Qed.

  Lemma plural_not_alnum (c : N) (r : list N) : is_ascii_alphanumeric c = false -> lex_plural_digit u (c :: r) = None.
  Proof. intros H. unfold lex_plural_digit. rewrite H. reflexivity. Qed.

  (* a plain character that is lingual-or-digit is a word character; the letter s is one *)
  Lemma plain_lw c : plain_char u c = true -> lw c = true -> wchar u c = true.
  Proof.
    intros H L. destruct (plain_parts c H) as [_ [Hd [W|[I|O]]]]; [exact W| |].
    - destruct (ichar_parts c I) as [I1 _]. unfold lw in L. rewrite I1, Hd in L. discriminate.
    - destruct (ochar_parts c O) as [O1 _]. unfold lw in L. rewrite O1, Hd in L. discriminate.
  Qed.

  Lemma plain_ascii_alnum c : plain_char u c = true -> is_ascii_alphanumeric c = true -> wchar u c = true.
  Proof.
    intros H L. destruct (plain_parts c H) as [_ [Hd [W|[I|O]]]]; [exact W| |].
    - destruct (ichar_parts c I) as [_ [_ [I3 _]]]. congruence.
    - destruct (ochar_parts c O) as [_ [_ [O3 _]]]. congruence.
  Qed.

  Lemma wchar_lw c : wchar u c = true -> lw c = true.
  Proof. intros H. destruct (wchar_parts c H) as [L _]. unfold lw. rewrite L. reflexivity. Qed.

  Lemma plain_not_alnum_not_lw c : plain_char u c = true -> u_alphanumeric u c = false -> lw c = false.
  Proof.
    intros H A. destruct (lw c) eqn:L; [|reflexivity]. pose proof (plain_lw c H L) as W.
    destruct (wchar_parts c W) as [_ [Al _]]. unfold u_alphanumeric in A. rewrite Al in A. discriminate.
  Qed.

  (* lex_plural_digit on a plain text that starts with a word character either declines or cuts
     exactly the word lex_word would cut *)
  Lemma plural_plain (c : N) (r : list N) : Plain (c :: r) -> wchar u c = true ->
    lex_plural_digit u (c :: r) = None \/
    (lex_plural_digit u (c :: r) = Some (2, KWord) /\ count_while lw (c :: r) = 2).
  Proof.
    intros HP W. unfold lex_plural_digit.
    destruct (negb (is_ascii_alphanumeric c)); [now left|].
    assert (Hn39 : noc 39 (c :: r)) by (apply Plain_noc; [exact HP|cbn; tauto]).
    inversion HP as [|c' r' Pc Pr]; subst.
    destruct r as [|c1 t]; [now left|].
    assert (E39 : ceq c1 39 = false).
    { unfold ceq. rewrite N.eqb_sym. apply Hn39. right. now left. }
    rewrite E39. destruct (ceq c1 115) eqn:E115; [|now left].
    unfold ceq in E115. apply N.eqb_eq in E115. subst c1.
    inversion Pr as [|c1' t' Ps Pt]; subst.
    assert (Ws : wchar u 115 = true) by (apply plain_ascii_alnum; [exact Ps|reflexivity]).
    destruct t as [|d t2].
    - right. split; [reflexivity|]. cbn [count_while]. rewrite (wchar_lw c W), (wchar_lw _ Ws). reflexivity.
    - destruct (u_alphanumeric u d) eqn:Ad; cbn [negb]; [now left|].
      right. split; [reflexivity|]. cbn [count_while]. rewrite (wchar_lw c W), (wchar_lw _ Ws).
      inversion Pt as [|d' t2' Pd _]; subst. rewrite (plain_not_alnum_not_lw d Pd Ad). reflexivity.
  Qed.

  (* ================= lex_token on a plain text ================= *)
  Definition simple_lex (src : text) : option (nat * tkind) :=
    match src with
    | [] => None
    | c0 :: _ =>
        if wchar u c0 then Some (count_while lw src, KWord)
        else if ceq 9 c0 then Some (count_while (ceq 9) src, KSpace (count_while (ceq 9) src * 2))
        else if ceq 32 c0 then Some (count_while (ceq 32) src, KSpace (count_while (ceq 32) src))
        else if ceq 10 c0 then Some (count_while (ceq 10) src, KNewline (count_while (ceq 10) src))
        else if mem_n c0 quote_chars then Some (1, KPunct (PQuote None))
        else match punct_from_char c0 with Some p => Some (1, KPunct p) | None => Some (1, KUnlintable) end
    end.

  Lemma count_while_first_true {A} (p : A -> bool) (c : A) (r : list A) : p c = true -> count_while p (c :: r) = S (count_while p r).
  Proof. intros H. cbn [count_while]. rewrite H. reflexivity. Qed.

  Lemma lex_token_plain (c : N) (r : list N) : Plain (c :: r) -> lex_token u (c :: r) = simple_lex (c :: r).
  Proof.
    intros HP. pose proof HP as HP'. inversion HP' as [|c' r' Pc Pr]; subst.
    assert (N91 : ceq c 91 = false).
    { unfold ceq. rewrite N.eqb_sym. apply (plain_not_bad c 91 Pc). cbn; tauto. }
    assert (U : lex_url u (c :: r) = None) by (apply url_none, Plain_noc; [exact HP|cbn; tauto]).
    assert (E : lex_email_address u (c :: r) = None) by (apply email_none, Plain_noc; [exact HP|cbn; tauto]).
    assert (H : lex_hostname_token (c :: r) = None) by (apply hostname_none, Plain_noc; [exact HP|cbn; tauto]).
    destruct (plain_parts c Pc) as [_ [Hd Hcl]].
    unfold lex_token. rewrite (regexish_none c r N91), (hex_none c r Hd), (decade_none c r Hd), U, E, H.
    cbn [or_else].
    destruct (wchar u c) eqn:W.
    - (* a word *)
      destruct (wchar_parts c W) as [L [_ [Nn [Np Nw]]]]. destruct (ws3_false c Nw) as [T [Nl S]].
      rewrite (punctuation_none c r Np), (tabs_none c r T), (spaces_none c r S), (newlines_none c r Nl),
        (number_none c r Nn).
      cbn [or_else]. unfold simple_lex. rewrite W.
      assert (LW : lex_word u (c :: r) = Some (count_while lw (c :: r), KWord)).
      { unfold lex_word. fold lw. rewrite (count_while_first_true lw c r (wchar_lw c W)). reflexivity. }
      destruct (plural_plain c r HP W) as [P|[P C2]]; rewrite P; cbn [or_else].
      + rewrite LW. reflexivity.
      + rewrite C2. reflexivity.
    - destruct Hcl as [W'|[I|O]]; [congruence| |].
      + (* blank or punctuation *)
        destruct (ichar_parts c I) as [_ [_ [Na Hk]]]. unfold simple_lex. rewrite W.
        destruct (ws3 c) eqn:B.
        * apply ws3_true in B. destruct B as [->|[->| ->]]; reflexivity.
        * destruct Hk as [Hk|Hk]; [discriminate|]. destruct (ws3_false c B) as [T [Nl S]].
          rewrite T, S, Nl. unfold lex_punctuation, lex_quote.
          unfold nopunct in Hk. destruct (mem_n c quote_chars); [reflexivity|]. cbn [negb andb] in Hk.
          destruct (punct_from_char c); [reflexivity|discriminate].
      + (* a character nobody claims *)
        destruct (ochar_parts c O) as [Nl [Nn [Na [Np Nw]]]]. destruct (ws3_false c Nw) as [T [Nnl S]].
        rewrite (punctuation_none c r Np), (tabs_none c r T), (spaces_none c r S), (newlines_none c r Nnl),
          (number_none c r Nn), (plural_not_alnum c r Na).
        cbn [or_else]. unfold simple_lex. rewrite W, T, S, Nnl.
        destruct (nopunct_parts c Np) as [Q Pn]. rewrite Q, Pn.
        unfold lex_word.
        assert (Z : count_while (fun c0 => u_lingual u c0 || is_ascii_digit c0) (c :: r) = 0).
        { apply count_while_first_false. rewrite Nl, Hd. reflexivity. }
        rewrite Z. reflexivity.
  Qed.

  (* ================= congruence ================= *)
  Lemma ochar_not_w c : ochar u c = true -> wchar u c = false /\ lw c = false.
  Proof.
    intros O. destruct (ochar_parts c O) as [L [_ [Na _]]]. split.
    - unfold wchar. rewrite L. reflexivity.
    - unfold lw. rewrite L. cbn [orb]. unfold is_ascii_alphanumeric in Na. apply orb_false_elim in Na. apply Na.
  Qed.

  Lemma Rw_wchar a c : Rw u a c -> wchar u c = wchar u a.
  Proof.
    intros [->|[[H1 H2]|[H1 H2]]]; [reflexivity|congruence|].
    destruct (ochar_not_w a H1) as [-> _]. destruct (ochar_not_w c H2) as [-> _]. reflexivity.
  Qed.

  Lemma Rw_lw a c : Rw u a c -> lw a = lw c.
  Proof.
    intros [->|[[H1 H2]|[H1 H2]]]; [reflexivity| |].
    - rewrite (wchar_lw a H1), (wchar_lw c H2). reflexivity.
    - destruct (ochar_not_w a H1) as [_ ->]. destruct (ochar_not_w c H2) as [_ ->]. reflexivity.
  Qed.

  Lemma Rw_ceq b a c : In b [9; 10; 32]%N -> Rw u a c -> ceq b a = ceq b c.
  Proof.
    intros Hb [->|[[H1 H2]|[H1 H2]]]; [reflexivity| |].
    - destruct (wchar_parts a H1) as [_ [_ [_ [_ Wa]]]]. destruct (wchar_parts c H2) as [_ [_ [_ [_ Wc]]]].
      destruct (ws3_false a Wa) as [A1 [A2 A3]]. destruct (ws3_false c Wc) as [C1 [C2 C3]].
      cbn in Hb. destruct Hb as [<-|[<-|[<-|[]]]]; congruence.
    - destruct (ochar_parts a H1) as [_ [_ [_ [_ Wa]]]]. destruct (ochar_parts c H2) as [_ [_ [_ [_ Wc]]]].
      destruct (ws3_false a Wa) as [A1 [A2 A3]]. destruct (ws3_false c Wc) as [C1 [C2 C3]].
      cbn in Hb. destruct Hb as [<-|[<-|[<-|[]]]]; congruence.
  Qed.

  (* the part of simple_lex after the blank tests only looks at the first character *)
  Lemma Rw_tail_kind a c : Rw u a c -> wchar u a = false ->
    (if mem_n c quote_chars then Some (1, KPunct (PQuote None))
     else match punct_from_char c with Some p => Some (1, KPunct p) | None => Some (1, KUnlintable) end)
    = (if mem_n a quote_chars then Some (1, KPunct (PQuote None))
       else match punct_from_char a with Some p => Some (1, KPunct p) | None => Some (1, KUnlintable) end).
  Proof.
    intros [->|[[H1 _]|[H1 H2]]] W; [reflexivity|congruence|].
    destruct (ochar_parts a H1) as [_ [_ [_ [Pa _]]]]. destruct (ochar_parts c H2) as [_ [_ [_ [Pc _]]]].
    destruct (nopunct_parts a Pa) as [-> ->]. destruct (nopunct_parts c Pc) as [-> ->]. reflexivity.
  Qed.

  Lemma simple_lex_congr s s' : Forall2 (Rw u) s s' -> simple_lex s' = simple_lex s.
  Proof.
    intros H. destruct H as [|a c l l' Hac Hl]; [reflexivity|].
    assert (HF : Forall2 (Rw u) (a :: l) (c :: l')) by (constructor; assumption).
    unfold simple_lex. rewrite (Rw_wchar a c Hac). destruct (wchar u a) eqn:W.
    - rewrite (count_while_congr lw (a :: l) (c :: l')); [reflexivity|].
      eapply Forall2_impl_c18; [|exact HF]. intros x y Hxy. apply Rw_lw. exact Hxy.
    - rewrite (count_while_congr (ceq 9) (a :: l) (c :: l'))
        by (eapply Forall2_impl_c18; [|exact HF]; intros x y Hxy; apply Rw_ceq; [cbn; tauto|exact Hxy]).
      rewrite (count_while_congr (ceq 32) (a :: l) (c :: l'))
        by (eapply Forall2_impl_c18; [|exact HF]; intros x y Hxy; apply Rw_ceq; [cbn; tauto|exact Hxy]).
      rewrite (count_while_congr (ceq 10) (a :: l) (c :: l'))
        by (eapply Forall2_impl_c18; [|exact HF]; intros x y Hxy; apply Rw_ceq; [cbn; tauto|exact Hxy]).
      rewrite <- (Rw_ceq 9 a c ltac:(cbn; tauto) Hac), <- (Rw_ceq 32 a c ltac:(cbn; tauto) Hac),
        <- (Rw_ceq 10 a c ltac:(cbn; tauto) Hac).
      rewrite (Rw_tail_kind a c Hac W). reflexivity.
  Qed.

  Lemma plain_loop_congr : forall fuel cursor s s',
    Forall2 (Rw u) s s' -> Plain s -> Plain s' ->
    plain_loop u fuel cursor s' = plain_loop u fuel cursor s.
  Proof.
    induction fuel as [|f IH]; intros cursor s s' HR HP HP'.
    - destruct HR; reflexivity.
    - destruct HR as [|a c l l' Hac Hl]; [reflexivity|].
      assert (HF : Forall2 (Rw u) (a :: l) (c :: l')) by (constructor; assumption).
      cbn [plain_loop]. rewrite (lex_token_plain c l' HP'), (lex_token_plain a l HP), (simple_lex_congr _ _ HF).
      destruct (simple_lex (a :: l)) as [[n k]|]; [|reflexivity].
      destruct (span_new cursor (cursor + n)) as [sp|]; [|reflexivity]. cbn [bind].
      match goal with |- bind ?x _ = bind ?y _ => replace x with y; [reflexivity|] end.
      symmetry. apply IH.
      + apply Forall2_skipn_c18. exact HF.
      + apply Forall_skipn_c18. exact HP.
      + apply Forall_skipn_c18. exact HP'.
  Qed.

  Theorem plain_parse_congr (s s' : text) : Forall2 (Rw u) s s' -> Plain s -> Plain s' -> plain_parse u s' = plain_parse u s.
  Proof.
    intros HR HP HP'. unfold plain_parse.
    assert (L : length s' = length s) by (symmetry; exact (Forall2_length_c18 _ _ _ HR)).
    rewrite L. apply plain_loop_congr; assumption.
  Qed.

  (* ================= the kinds PlainEnglish::parse produces on a plain text ================= *)
  (* no Number, no Period: the two kinds whose presence makes a pass of Document::parse read the text *)
  Definition pk (k : tkind) : bool := negb (is_number k) && negb (is_period k).
  Definition PK (t : token) : Prop := pk (tkind_of t) = true.

  Lemma simple_lex_pk (c : N) (r : list N) n k : plain_char u c = true -> simple_lex (c :: r) = Some (n, k) -> pk k = true.
  Proof.
    intros Pc. unfold simple_lex.
    destruct (wchar u c); [intros H; injection H as _ <-; reflexivity|].
    destruct (ceq 9 c); [intros H; injection H as _ <-; reflexivity|].
    destruct (ceq 32 c); [intros H; injection H as _ <-; reflexivity|].
    destruct (ceq 10 c); [intros H; injection H as _ <-; reflexivity|].
    destruct (mem_n c quote_chars); [intros H; injection H as _ <-; reflexivity|].
    destruct (punct_from_char c) as [p|] eqn:P; intros H; injection H as _ <-; [|reflexivity].
    destruct p; try reflexivity.
    apply from_char_period in P. subst c.
    assert (X : N.eqb 46 46 = false) by (apply (plain_not_bad 46 46 Pc); cbn; tauto).
    rewrite N.eqb_refl in X. discriminate.
  Qed.

  Lemma plain_loop_pk : forall fuel cursor s ts, Plain s -> plain_loop u fuel cursor s = Ok ts -> Forall PK ts.
  Proof.
    induction fuel as [|f IH]; intros cursor s ts HP H.
    - destruct s; cbn in H; [|discriminate]. injection H as <-. constructor.
    - destruct s as [|c r]; [cbn in H; injection H as <-; constructor|].
      cbn [plain_loop] in H. pose proof (lex_token_plain c r HP) as LT. unfold text, char in *. rewrite LT in H. clear LT.
      destruct (simple_lex (c :: r)) as [[n k]|] eqn:E; [|discriminate].
      destruct (span_new cursor (cursor + n)) as [sp|]; [|discriminate]. cbn [bind] in H.
      destruct (plain_loop u f _ _) as [tl|] eqn:Etl; [|discriminate].
      cbn [bind] in H. injection H as <-. constructor.
      + unfold PK. cbn [tkind_of]. inversion HP; subst. eapply simple_lex_pk; eassumption.
      + eapply IH; [|exact Etl]. apply Forall_skipn_c18. exact HP.
  Qed.
End Plain.

(* ================= Document::parse on token lists without Number / Period tokens ================= *)
Lemma pk_parts k : pk k = true -> is_number k = false /\ is_period k = false.
Proof. unfold pk. intros H. apply andb_prop in H. destruct H as [H1 H2]. apply negb_true_iff in H1, H2. auto. Qed.

Lemma PK_group g k : pk k = true -> PK (group_token g k).
Proof. intros H. exact H. Qed.

Lemma pk_single g k : Forall PK g -> Gsingle g k -> pk k = true.
Proof. intros F [t [-> ->]]. inversion F; assumption. Qed.

Lemma pk_rule_spaces g k (a b : nat) : g <> [] -> Tiling a b g -> Forall PK g -> G_spaces g k -> PK (group_token g k).
Proof.
  intros _ _ F [S|[t1 [t2 [n1 [n2 [_ [_ [_ ->]]]]]]]]; apply PK_group; [eapply pk_single; eassumption|reflexivity].
Qed.
Lemma pk_rule_newlines g k (a b : nat) : g <> [] -> Tiling a b g -> Forall PK g -> G_newlines g k -> PK (group_token g k).
Proof.
  intros _ _ F [S|[ns [_ [_ ->]]]]; apply PK_group; [eapply pk_single; eassumption|reflexivity].
Qed.
Lemma pk_rule_breaks g k (a b : nat) : g <> [] -> Tiling a b g -> Forall PK g -> G_breaks g k -> PK (group_token g k).
Proof.
  intros _ _ F [t [-> ->]]. apply PK_group. inversion F as [|t' l' Pt _]; subst. unfold PK in Pt.
  unfold newline_to_break. destruct (tkind_of t) as [|p0| |nb|ns|nn| | | | | |] eqn:E; try (rewrite E; exact Pt).
  destruct (2 <=? nn); [reflexivity|]. rewrite E. reflexivity.
Qed.
Lemma pk_rule_suffix src g k (a b : nat) : g <> [] -> Tiling a b g -> Forall PK g -> G_suffix src g k -> PK (group_token g k).
Proof.
  intros _ _ F [S|[x [y [nb [cs [sfx [-> [Hx _]]]]]]]]; apply PK_group; [eapply pk_single; eassumption|].
  exfalso. inversion F as [|x' l' Px _]; subst. unfold PK in Px. rewrite Hx in Px. discriminate.
Qed.
Lemma pk_rule_pattern_id m g k (a b : nat) : g <> [] -> Tiling a b g -> Forall PK g ->
  G_pattern m (fun k => k) g k -> PK (group_token g k).
Proof.
  intros Hne _ F [S|[rest [_ ->]]]; apply PK_group; [eapply pk_single; eassumption|].
  destruct g as [|t g']; [contradiction|]. cbn [hd]. inversion F; assumption.
Qed.
Lemma pk_rule_initialism g k (a b : nat) : g <> [] -> Tiling a b g -> Forall PK g -> G_initialism g k -> PK (group_token g k).
Proof.
  intros _ _ F [S|[_ [_ ->]]]; apply PK_group; [eapply pk_single; eassumption|reflexivity].
Qed.
Lemma pk_rule_ellipsis m g k (a b : nat) : g <> [] -> Tiling a b g -> Forall PK g ->
  G_pattern m (fun _ => KPunct PEllipsis) g k -> PK (group_token g k).
Proof.
  intros _ _ F [S|[rest [_ ->]]]; apply PK_group; [eapply pk_single; eassumption|reflexivity].
Qed.

(* ---------- condense_number_suffixes reads the text only behind a Number token ---------- *)
Lemma ns_loop_nonum (src src' : text) : forall n idx toks,
  Forall (fun t => is_number (tkind_of t) = false) toks ->
  ns_loop src' n idx toks = ns_loop src n idx toks.
Proof.
  induction n as [|n IH]; intros idx toks HF; [reflexivity|]. cbn [ns_loop].
  destruct (nth_chk toks (idx + 1)) as [b|]; [|reflexivity]. cbn [bind].
  destruct (nth_chk toks idx) as [a|] eqn:Ea; [|reflexivity]. cbn [bind].
  assert (Hn : is_number (tkind_of a) = false).
  { unfold nth_chk in Ea. destruct (nth_error toks idx) eqn:E; [|discriminate]. injection Ea as ->.
    rewrite Forall_forall in HF. apply HF. eapply nth_error_In. exact E. }
  rewrite Hn. cbn [andb]. apply IH. exact HF.
Qed.

Lemma suffixes_congr (src src' : text) toks :
  Forall (fun t => is_number (tkind_of t) = false) toks ->
  condense_number_suffixes src' toks = condense_number_suffixes src toks.
Proof. intros HF. unfold condense_number_suffixes. rewrite (ns_loop_nonum src src' _ _ _ HF). reflexivity. Qed.

(* ---------- the Latin pattern needs a Period token ---------- *)
Lemma alt_vals_noperiod src l : Forall (fun t => is_period (tkind_of t) = false) l ->
  alt1_val src l = 0 /\ alt2_val src l = 0.
Proof.
  intros F. split.
  - destruct l as [|t [|p r]]; try reflexivity. cbn [alt1_val].
    inversion F as [|t' l' _ F1]; subst. inversion F1 as [|p' l'' Pp _]; subst.
    rewrite Pp, andb_false_r. reflexivity.
  - destruct l as [|t r]; [reflexivity|]. cbn [alt2_val].
    destruct (_ && _ && _); [|reflexivity]. cbv zeta. destruct (_ =? 0); [reflexivity|].
    inversion F as [|t' l' _ Fr]; subst.
    pose proof (forall_skipn _ r (count_while is_ws_tok r) Fr) as Fs.
    destruct (skipn (count_while is_ws_tok r) r) as [|t2 [|p r3]]; try reflexivity.
    inversion Fs as [|x l1 _ F2]; subst. inversion F2 as [|y l2 Pp _]; subst.
    rewrite Pp, andb_false_r. reflexivity.
Qed.

Lemma latin_noperiod src l : Forall (tok_ok src) l -> Forall (fun t => is_period (tkind_of t) = false) l ->
  latin_matches src l = Ok 0.
Proof.
  intros F NP. rewrite (latin_spec src l F). destruct (alt_vals_noperiod src l NP) as [-> ->]. reflexivity.
Qed.

Lemma fam_scan_congr (m m' : list token -> res nat) : forall ts i,
  (forall j, m' (skipn j ts) = m (skipn j ts)) -> fam_scan m' ts i = fam_scan m ts i.
Proof.
  induction ts as [|t ts IH]; intros i H; [reflexivity|]. cbn [fam_scan].
  pose proof (H 0) as H0. cbn [skipn] in H0. rewrite H0. rewrite (IH (S i)); [reflexivity|]. intros j. apply (H (S j)).
Qed.

Lemma latin_congr (src src' : text) ts : length src' = length src ->
  Forall (tok_ok src) ts -> Forall (fun t => is_period (tkind_of t) = false) ts ->
  condense_latin src' ts = condense_latin src ts.
Proof.
  intros L F NP. unfold condense_latin, condense_pattern, find_all_matches.
  rewrite (fam_scan_congr (latin_matches src) (latin_matches src') ts 0); [reflexivity|].
  intros j. assert (F' : Forall (tok_ok src') ts).
  { eapply Forall_impl; [|exact F]. unfold tok_ok. intros t Ht. rewrite L. exact Ht. }
  rewrite (latin_noperiod src'), (latin_noperiod src); try reflexivity; apply forall_skipn; assumption.
Qed.

(* ---------- the look-up loop only depends on the length of the text ---------- *)
Lemma get_content_len_only {A} sp (s s' : list A) : length s' = length s ->
  (exists v v', get_content sp s = Ok v /\ get_content sp s' = Ok v') \/
  (exists w, get_content sp s = Panic w /\ get_content sp s' = Panic w).
Proof.
  intros L. unfold get_content, try_get_content. rewrite L.
  destruct ((send sp <? sstart sp) || (length s <=? sstart sp) || (length s <? send sp)).
  - destruct (span_len sp) as [len|w]; cbn [bind]; [|right; eauto].
    destruct (len =? 0); cbn; [left; eauto|right; eauto].
  - cbn [bind]. left. eauto.
Qed.

Lemma word_lookup_congr (s s' : text) : length s' = length s -> forall ts,
  word_lookup_check s' ts = word_lookup_check s ts.
Proof.
  intros L. induction ts as [|t ts IH]; [reflexivity|]. cbn [word_lookup_check].
  destruct (is_word (tkind_of t)); [|exact IH].
  destruct (get_content_len_only (tspan t) s s' L) as [[v [v' [-> ->]]]|[w [-> ->]]]; cbn [bind]; [exact IH|reflexivity].
Qed.

(* ---------- all passes ---------- *)
Theorem document_passes_congr (src src' : text) t0 :
  length src' = length src -> Tiling 0 (length src) t0 -> Forall PK t0 ->
  document_passes src' t0 = document_passes src t0.
Proof.
  intros L T0 P0. destruct (passes_exist src t0 T0) as [t8 R]. destruct R.
  pose proof (grouped_inv _ _ _ pk_rule_spaces _ _ pr_g1 _ _ T0 P0) as P1.
  pose proof (grouped_inv _ _ _ pk_rule_newlines _ _ pr_g2 _ _ pr_T1 P1) as P2.
  pose proof (grouped_inv _ _ _ pk_rule_breaks _ _ pr_g3 _ _ pr_T2 P2) as P3.
  pose proof (grouped_inv _ _ _ (pk_rule_suffix src) _ _ pr_g4 _ _ pr_T3 P3) as P4.
  pose proof (grouped_inv _ _ _ (pk_rule_pattern_id _) _ _ pr_g5 _ _ pr_T4 P4) as P5.
  pose proof (grouped_inv _ _ _ pk_rule_initialism _ _ pr_g6 _ _ pr_T5 P5) as P6.
  pose proof (grouped_inv _ _ _ (pk_rule_ellipsis _) _ _ pr_g7 _ _ pr_T6 P6) as P7.
  assert (N3 : Forall (fun t => is_number (tkind_of t) = false) (newlines_to_breaks pr_t2)).
  { eapply Forall_impl; [|exact P3]. intros t Ht. apply (pk_parts _ Ht). }
  assert (N7 : Forall (fun t => is_period (tkind_of t) = false) pr_t7).
  { eapply Forall_impl; [|exact P7]. intros t Ht. apply (pk_parts _ Ht). }
  unfold document_passes. rewrite pr_e1. cbn [bind]. rewrite pr_e2. cbn [bind]. cbv zeta.
  rewrite (suffixes_congr src src' _ N3), pr_e4. cbn [bind].
  change (condense_contractions src' pr_t4) with (condense_contractions src pr_t4). rewrite pr_e5. cbn [bind].
  rewrite pr_e6. cbn [bind].
  change (condense_ellipsis src' pr_t6) with (condense_ellipsis src pr_t6). rewrite pr_e7. cbn [bind].
  rewrite (latin_congr src src' pr_t7 L (tiling_tok_ok src pr_t7 pr_T7) N7), pr_e8. cbn [bind].
  destruct (match_quotes t8) as [t9|]; [|reflexivity]. cbn [bind].
  rewrite (word_lookup_congr src src' L t9). reflexivity.
Qed.

(* ================= Document::new_plain_english does not see which word characters a plain text has ================= *)
Theorem document_plain_congr u (s s' : text) :
  Forall2 (Rw u) s s' -> Plain u s -> Plain u s' -> document_plain u s' = document_plain u s.
Proof.
  intros HR HP HP'. unfold document_plain. rewrite (plain_parse_congr u s s' HR HP HP').
  destruct (plain_tiling u s) as [t0 [E0 T0]]. rewrite E0. cbn [bind].
  apply document_passes_congr; [symmetry; exact (Forall2_length_c18 _ _ _ HR)|exact T0|].
  unfold plain_parse in E0. eapply plain_loop_pk; [exact HP|exact E0].
Qed.
