(* C16Surface.v — (1) every function harper-wasm exports (table regenerated from harper-wasm/src/lib.rs on every
   run) is accounted for: modelled (with the model entry), a projection of a modelled value, or outside the model
   (with the reason); (2) the exports modelled as compositions in Model/C16Api.v still have the bodies the model
   transcribes; (3) the enums of the JSON — variants, payloads, the names serde writes and the names serde accepts —
   are the ones the printers and the parser of Model/LintJson.v use, and the round trip theorems cover every
   variant the generated tables list. *)
From Coq Require Import String.
Require Import Base Suggestion LintJson Wasm C16Api Tables_wasmsurface LintJsonProofs.
From Coq Require Import List.
Import ListNotations.
Open Scope string_scope.

Inductive api_status :=
| Modelled (entry : string)        (* a call of Wasm.step / C16Api.xstep, or a printer / parser of LintJson.v *)
| Projection (of : string)         (* reads a field of a modelled value; exercised by the round trip oracle *)
| Outside (reason : string).       (* not in the model *)

(* exports that take or return a JsValue abort outside a JavaScript host and cannot be run natively: Model/C16Stats.v
   models each as the value its _json twin serialises / the steps of its twin (C16StatsProofs.cstep_twin), the body is
   pinned below (api_bodies); the correspondence executes the twin *)
Definition js_twin (entry : string) : api_status := Modelled entry.

Definition api_classification : list (string * api_status) :=
  [("setup", Outside "installs the panic hook and the tracing subscriber of the JavaScript console; no linter state");
   ("Suggestion::to_json", Modelled "LintJson.print_wsuggestion");
   ("Suggestion::from_json", Modelled "LintJson.suggestion_from_json");
   ("Lint::to_json", Modelled "LintJson.print_wlint");
   ("Lint::from_json", Modelled "LintJson.lint_from_json");
   ("Span::to_json", Modelled "LintJson.print_span");
   ("Span::from_json", Modelled "LintJson.span_from_json");
   ("Linter::new", Modelled "Wasm.new");
   ("Linter::is_likely_english", Modelled "C16Api.XIsLikelyEnglish");
   ("Linter::isolate_english", Modelled "C16Api.XIsolateEnglish");
   ("Linter::get_lint_descriptions_as_json", Modelled "C16Stats.YGetDescriptions");
   ("Linter::get_lint_config_as_json", Modelled "Wasm.CGetConfig");
   ("Linter::set_lint_config_from_json", Modelled "Wasm.CSetConfig");
   ("Linter::summarize_stats", js_twin "C16Stats.YSummarize (the Summary handed to serde_wasm_bindgen)");
   ("Linter::get_lint_descriptions_as_object", js_twin "C16Stats.YGetDescriptionsObject (twin: YGetDescriptions)");
   ("Linter::get_lint_config_as_object", js_twin "C16Stats.YGetConfigObject (twin: Wasm.CGetConfig)");
   ("Linter::set_lint_config_from_object", js_twin "C16Stats.YSetConfigObject (twin: Wasm.CSetConfig)");
   ("Linter::ignore_lint", Modelled "Wasm.CIgnore");
   ("Linter::lint", Modelled "Wasm.CLint");
   ("Linter::export_ignored_lints", Modelled "Wasm.CExportIgnored");
   ("Linter::import_ignored_lints", Modelled "Wasm.CImportIgnored");
   ("Linter::clear_ignored_lints", Modelled "Wasm.CClearIgnored");
   ("Linter::import_words", Modelled "Wasm.CImportWords");
   ("Linter::export_words", Modelled "Wasm.CExportWords");
   ("Linter::get_dialect", Modelled "Wasm.CGetDialect");
   ("Linter::apply_suggestion", Modelled "Wasm.CApply");
   ("Linter::generate_stats_file", Modelled "C16Api.XGenerateStats; over the concrete Record: C16Stats.cstep");
   ("Linter::import_stats_file", Modelled "C16Api.XImportStats; over the concrete Record: C16Stats.cstep");
   ("to_title_case", Modelled "C16Api.XToTitleCase");
   ("Suggestion::get_replacement_text", Projection "suggestion");
   ("Suggestion::kind", Projection "suggestion");
   ("Lint::get_problem_text", Projection "wlint.wproblem");
   ("Lint::lint_kind", Projection "rlint.rkind (to_string_key)");
   ("Lint::lint_kind_pretty", Projection "rlint.rkind (Display)");
   ("Lint::suggestion_count", Projection "rlint.rsugs");
   ("Lint::suggestions", Projection "rlint.rsugs");
   ("Lint::span", Projection "rlint.rspan");
   ("Lint::message", Projection "rlint.rmsg");
   ("get_default_lint_config_as_json", Modelled "C16Api.XGetDefaultConfig");
   ("get_default_lint_config", js_twin "C16Stats.YGetDefaultConfigObject (twin: C16Api.XGetDefaultConfig)");
   ("Span::new", Projection "span");
   ("Span::is_empty", Projection "span");
   ("Span::len", Projection "span")].

Definition is_outside (s : api_status) : bool := match s with Outside _ => true | _ => false end.

Lemma api_coverage :
  wasm_exported_functions = map fst api_classification
  /\ map fst (filter (fun e => is_outside (snd e)) api_classification)
     = ["setup"].
Proof. split; vm_compute; reflexivity. Qed.

(* the bodies Model/C16Api.v transcribes *)
Lemma api_bodies :
  wasm_body_to_title_case = "harper_core::make_title_case_str(&text, &PlainEnglish, &FstDictionary::curated())"
  /\ wasm_body_is_likely_english = "let document = Document::new_plain_english(&text, &self.dictionary); is_doc_likely_english(&document, &self.dictionary)"
  /\ wasm_body_isolate_english = "let document = Document::new( &text, &IsolateEnglish::new(Box::new(PlainEnglish), self.dictionary.clone()), &self.dictionary, ); document.to_string()"
  /\ wasm_body_get_default_lint_config_as_json = "let config = LintGroup::new_curated(MutableDictionary::new().into(), Dialect::American.into()).config; serde_json::to_string(&config).unwrap()"
  /\ wasm_body_generate_stats_file = "let mut output = Vec::new(); self.stats.write(&mut output).unwrap(); String::from_utf8(output).unwrap()"
  /\ wasm_body_import_stats_file = "let data = file.as_bytes(); let mut read = Cursor::new(data); let mut new_stats = Stats::read(&mut read).map_err(|err| err.to_string())?; self.stats.records.append(&mut new_stats.records); Ok(())"
  /\ wasm_body_get_lint_config_as_json = "serde_json::to_string(&self.lint_group.config).unwrap()"
  (* Model/C16Stats.v: summarize_stats = clone, retain (when > start), retain (when < end), summarize — then the JsValue *)
  /\ wasm_body_summarize_stats = "let mut operable_copy = self.stats.clone(); if let Some(start_time) = start_time { operable_copy.records.retain(|i| i.when > start_time); } if let Some(end_time) = end_time { operable_copy.records.retain(|i| i.when < end_time); } operable_copy .summarize() .serialize(&Serializer::json_compatible()) .unwrap()"
  /\ wasm_body_get_lint_descriptions_as_json = "serde_json::to_string(&self.lint_group.all_descriptions()).unwrap()"
  (* the JsValue twins: the same value / the same steps as the _json export, another serialiser *)
  /\ wasm_body_get_lint_descriptions_as_object = "let serializer = Serializer::json_compatible(); self.lint_group .all_descriptions() .serialize(&serializer) .unwrap()"
  /\ wasm_body_get_lint_config_as_object = "let serializer = Serializer::json_compatible(); self.lint_group.config.serialize(&serializer).unwrap()"
  /\ wasm_body_set_lint_config_from_json = "let mut new_config = serde_json::from_str(&json).map_err(|v| v.to_string())?; self.lint_group.config.clear(); self.lint_group.config.merge_from(&mut new_config); Ok(())"
  /\ wasm_body_set_lint_config_from_object = "let mut new_config = serde_wasm_bindgen::from_value(object).map_err(|v| v.to_string())?; self.lint_group.config.clear(); self.lint_group.config.merge_from(&mut new_config); Ok(())"
  /\ wasm_body_get_default_lint_config = "let config = LintGroup::new_curated(MutableDictionary::new().into(), Dialect::American.into()).config; let serializer = Serializer::json_compatible(); config.serialize(&serializer).unwrap()".
Proof. repeat split; vm_compute; reflexivity. Qed.

(* ---------- the enums ---------- *)
Definition sugg_tag (s : suggestion) : string :=
  match s with ReplaceWith _ => "ReplaceWith" | InsertAfter _ => "InsertAfter" | Remove => "Remove" end.
Definition all_languages : list language := [Plain; Markdown].

(* the generated tables are the tables of the model: the variants (all_kinds is every constructor), the name
   print_rlint writes for a kind, and the names parse_kind accepts (its table is `map (k, kind_name k) all_kinds`) *)
Lemma enum_tables :
  lint_kind_enum = map kind_name all_kinds
  /\ (forall k, In k all_kinds)
  /\ lint_kind_serialize = map (fun k => (kind_name k, kind_name k)) all_kinds
  /\ lint_kind_deserialize = map (fun k => (kind_name k, kind_name k)) all_kinds
  /\ suggestion_enum = [("ReplaceWith", "Vec<char>"); ("InsertAfter", "Vec<char>"); ("Remove", "")]
  /\ (forall s, In (sugg_tag s) (map fst suggestion_enum))
  /\ language_enum = map (fun l => (lang_name l, "")) all_languages
  /\ (forall l, In l all_languages).
Proof.
  split; [vm_compute; reflexivity|]. split; [intros k; destruct k; vm_compute; tauto|].
  split; [vm_compute; reflexivity|]. split; [vm_compute; reflexivity|]. split; [vm_compute; reflexivity|].
  split; [intros s; destruct s; vm_compute; tauto|]. split; [vm_compute; reflexivity|].
  intros l; destruct l; vm_compute; tauto.
Qed.

(* the round trip, variant by variant of the GENERATED tables: every name serde accepts for a LintKind belongs to a
   constructor of the model which print_wlint writes under the name the generated serialisation table gives and
   lint_from_json reads back, in any lint; every Suggestion variant of the generated table is a constructor whose
   JSON reads back, with any payload; every Language likewise.  A variant the Rust enum gains, or a name the
   deserialiser's table lacks, leaves a goal here without a witness. *)
Lemma json_roundtrip_every_variant :
  Forall (fun v => exists k, kind_name k = v
                    /\ In (v, v) lint_kind_serialize /\ In (v, v) lint_kind_deserialize
                    /\ forall l, rkind (winner l) = k -> rprio (winner l) <= 255 ->
                                 lint_from_json (print_wlint l) = Some l) lint_kind_enum
  /\ Forall (fun v => exists mk : text -> suggestion,
                    (forall cs, sugg_tag (mk cs) = fst v)
                    /\ (forall cs, suggestion_from_json (print_wsuggestion (mk cs)) = Some (mk cs))
                    /\ (forall l cs, rprio (winner l) <= 255 -> In (mk cs) (rsugs (winner l)) ->
                                     lint_from_json (print_wlint l) = Some l)) suggestion_enum
  /\ Forall (fun v => exists g, lang_name g = fst v
                    /\ forall l, wlang l = g -> rprio (winner l) <= 255 ->
                                 lint_from_json (print_wlint l) = Some l) language_enum.
Proof.
  split; [|split].
  - change lint_kind_enum with (map kind_name all_kinds) at 1 || idtac.
    assert (forall k, In (kind_name k, kind_name k) lint_kind_serialize /\ In (kind_name k, kind_name k) lint_kind_deserialize) as T
      by (intros k; destruct k; vm_compute; tauto).
    unfold lint_kind_enum.
    repeat (constructor; [first
      [ exists Spelling; split; [reflexivity|]
      | exists Capitalization; split; [reflexivity|]
      | exists Style; split; [reflexivity|]
      | exists Formatting; split; [reflexivity|]
      | exists Repetition; split; [reflexivity|]
      | exists Enhancement; split; [reflexivity|]
      | exists Readability; split; [reflexivity|]
      | exists WordChoice; split; [reflexivity|]
      | exists Miscellaneous; split; [reflexivity|]
      | exists Punctuation; split; [reflexivity|] ];
      (split; [apply (proj1 (T _))|]; split; [apply (proj2 (T _))|]; intros l _ P; apply lint_json_roundtrip; exact P)|]).
    constructor.
  - unfold suggestion_enum.
    constructor; [exists ReplaceWith|constructor; [exists InsertAfter|constructor; [exists (fun _ => Remove)|constructor]]];
      (split; [reflexivity|]; split; [intros cs; apply suggestion_json_roundtrip|];
       intros l cs P _; apply lint_json_roundtrip; exact P).
  - unfold language_enum.
    constructor; [exists Plain|constructor; [exists Markdown|constructor]];
      (split; [reflexivity|]; intros l _ P; apply lint_json_roundtrip; exact P).
Qed.
