(* C12LexEnds.v — what PlainEnglish::parse (Model/Lexer.v, frozen) yields at the two sides of the cut P | D:
     * which sub-lexer a Space / Newline / Quote token comes from (lex_token_kinds);
     * the raw tokens of P = P0 ++ [t; '\n'; '\n'...] (t a sentence terminator) END with a token that is not a
       Space followed by ONE Newline(m), m >= 2  (raw_ends) — the shape condense_spaces needs;
     * a text free of double quotes has no Quote token (raw_quote_free);
     * a text that does not start with '\n' does not start with a Newline token (raw_head). *)
Require Import Base Overlap Tables_lexer Lexer Condense ListLemmas TokenInv CondenseInv LexerProofs Shape
  DocumentProofs LexSplitProofs C12CondSpaces C12CondQuotes.
From Coq Require Import List Arith Lia.
Import ListNotations.

(* ---------- which sub-lexer produced the kind ---------- *)
Definition plain_kind (k : tkind) : bool :=
  match k with KSpace _ | KNewline _ | KPunct _ => false | _ => true end.

Ltac fin_kind HQ :=
  match goal with
  | H : None = Some _ |- _ => discriminate H
  | H : Some (_, ?kk) = Some (_, _) |- _ => injection H as _ <-; apply HQ; reflexivity
  end.

Lemma lex_token_kinds u (Q : tkind -> Prop) s n k :
  lex_token u s = Some (n, k) ->
  (forall kk, plain_kind kk = true -> Q kk) ->
  (lex_punctuation s = Some (n, k) -> Q k) ->
  (lex_tabs s = Some (n, k) -> Q k) ->
  (lex_spaces s = Some (n, k) -> Q k) ->
  (lex_newlines s = Some (n, k) -> Q k) ->
  Q k.
Proof.
  intros H HQ Hpu Hta Hsp Hnl. revert H. unfold lex_token.
  repeat match goal with
         | |- or_else ?a _ = Some _ -> _ =>
             let E := fresh "E" in destruct a as [[n' k']|] eqn:E; cbn [or_else];
             [intros H; assert (n' = n /\ k' = k) as [-> ->] by (split; congruence); clear H|]
         end.
  - unfold lex_regexish in E. destruct s as [|c r]; [discriminate|]. destruct (ceq c 91); [|discriminate].
    destruct (regex_loop u r 1); fin_kind HQ.
  - apply Hpu. reflexivity.
  - apply Hta. reflexivity.
  - apply Hsp. reflexivity.
  - apply Hnl. reflexivity.
  - unfold lex_plural_digit in E4.
    destruct s as [|c0 r1]; [discriminate|]. destruct (negb _); [discriminate|].
    destruct r1 as [|c t]; [discriminate|]. cbv zeta in E4.
    destruct (ceq c 39).
    + destruct t as [|c' t']; [discriminate|]. destruct (ceq c' 115); [|discriminate].
      destruct t' as [|d t'']; [fin_kind HQ|]. destruct (negb _); fin_kind HQ.
    + destruct (ceq c 115); [|discriminate].
      destruct t as [|d t'']; [fin_kind HQ|]. destruct (negb _); fin_kind HQ.
  - unfold lex_hex_number in E5. destruct s as [|c0 [|c1 [|c2 r]]]; try discriminate.
    destruct (_ || _ || _); [discriminate|]. cbv zeta in E5.
    destruct (negb _); [discriminate|]. destruct (_ <? _)%N; fin_kind HQ.
  - unfold lex_long_decade in E6.
    destruct s as [|c0 [|c1 [|c2 [|c3 [|c4 rest]]]]]; try discriminate.
    repeat match type of E6 with (if ?b then None else _) = _ => destruct b; [discriminate|] end.
    destruct rest as [|c5 r]; [fin_kind HQ|]. destruct (u_alphanumeric u c5); fin_kind HQ.
  - unfold lex_number in E7. destruct s as [|c0 r]; [discriminate|].
    destruct (negb _); [discriminate|]. cbv zeta in E7.
    destruct (rposition _ _); [|discriminate].
    apply longest_float_shape in E7. destruct E7 as [_ [neg [mant [ex [EK _]]]]]. subst k. apply HQ. reflexivity.
  - unfold lex_url in E8. destruct (position (ceq 58) s); [|discriminate].
    destruct (negb _); [discriminate|]. destruct (lex_ip_schemepart u _); fin_kind HQ.
  - unfold lex_email_address in E9. cbv zeta in E9.
    destruct (rposition _ _); [|discriminate]. destruct (negb _); [discriminate|].
    destruct (lex_hostname _); [|discriminate]. destruct (_ =? 0); fin_kind HQ.
  - unfold lex_hostname_token in E10. destruct (lex_hostname s); [|discriminate].
    destruct (_ <=? 1); [discriminate|]. destruct (negb _); [discriminate|].
    destruct (nth_error _ _); [destruct (ceq _ 46); [discriminate|]|]; fin_kind HQ.
  - unfold lex_word in E11. cbv zeta in E11. destruct (_ =? 0); fin_kind HQ.
  - unfold lex_catch. intros H. fin_kind HQ.
Qed.

Definition blankc (c : N) : bool := ceq 32 c || ceq 9 c.

Lemma cw_firstn_all {X} (p q : X -> bool) : (forall x, p x = true -> q x = true) ->
  forall l, forallb q (firstn (count_while p l) l) = true.
Proof.
  intros Hpq. induction l as [|x l IH]; [reflexivity|]. cbn [count_while].
  destruct (p x) eqn:E; [|reflexivity]. cbn [firstn forallb]. rewrite (Hpq x E), IH. reflexivity.
Qed.

Lemma lex_punctuation_kind s n k : lex_punctuation s = Some (n, k) ->
  exists p, k = KPunct p /\ (forall tw, p = PQuote tw -> exists c r, s = c :: r /\ mem_n c quote_chars = true).
Proof.
  unfold lex_punctuation, lex_quote. destruct s as [|c r]; [discriminate|].
  destruct (mem_n c quote_chars) eqn:Eq.
  - intros H. injection H as _ <-. eexists. split; [reflexivity|]. intros tw _. exists c, r. auto.
  - destruct (punct_from_char c) as [p|] eqn:Ep; [|discriminate]. intros H. injection H as _ <-.
    exists p. split; [reflexivity|]. intros tw ->. exfalso. exact (from_char_not_quote c tw Ep).
Qed.

(* a Space token covers only blanks *)
Lemma lex_token_space u s n k m : lex_token u s = Some (n, k) -> k = KSpace m ->
  forallb blankc (firstn n s) = true.
Proof.
  intros H. revert m.
  apply (lex_token_kinds u (fun k => forall m, k = KSpace m -> forallb blankc (firstn n s) = true) s n k H).
  - intros kk Hp m ->. discriminate.
  - intros E m ->. destruct (lex_punctuation_kind s n _ E) as [p [Ep _]]. discriminate.
  - unfold lex_tabs. cbv zeta. destruct (_ =? 0); [discriminate|]. intros E m _. injection E as <- _.
    apply cw_firstn_all. intros x Hx. unfold blankc. rewrite Hx. apply orb_true_r.
  - unfold lex_spaces. cbv zeta. destruct (_ =? 0); [discriminate|]. intros E m _. injection E as <- _.
    apply cw_firstn_all. intros x Hx. unfold blankc. rewrite Hx. reflexivity.
  - unfold lex_newlines. cbv zeta. destruct (_ =? 0); [discriminate|]. intros E m ->. discriminate.
Qed.

(* a Newline token starts at a newline character *)
Lemma lex_token_newline u s n k m : lex_token u s = Some (n, k) -> k = KNewline m -> exists r, s = NL :: r.
Proof.
  intros H. revert m.
  apply (lex_token_kinds u (fun k => forall m, k = KNewline m -> exists r, s = NL :: r) s n k H).
  - intros kk Hp m ->. discriminate.
  - intros E m ->. destruct (lex_punctuation_kind s n _ E) as [p [Ep _]]. discriminate.
  - unfold lex_tabs. cbv zeta. destruct (_ =? 0); [discriminate|]. intros E m ->. discriminate.
  - unfold lex_spaces. cbv zeta. destruct (_ =? 0); [discriminate|]. intros E m ->. discriminate.
  - unfold lex_newlines. cbv zeta. destruct s as [|c r]; [discriminate|]. cbn [count_while].
    destruct (ceq 10 c) eqn:Ec; [|discriminate]. intros _ m _. exists r. f_equal.
    unfold ceq in Ec. apply N.eqb_eq in Ec. symmetry. exact Ec.
Qed.

(* a Quote token starts at a quote character *)
Lemma lex_token_quote u s n k : lex_token u s = Some (n, k) -> is_quote k = true ->
  exists c r, s = c :: r /\ mem_n c quote_chars = true.
Proof.
  intros H.
  apply (lex_token_kinds u (fun k => is_quote k = true -> exists c r, s = c :: r /\ mem_n c quote_chars = true) s n k H).
  - intros kk Hp Hq. destruct kk; try discriminate.
  - intros E Hq. destruct (lex_punctuation_kind s n _ E) as [p [-> Hp]].
    destruct p; try discriminate. apply (Hp twin_loc). reflexivity.
  - unfold lex_tabs. cbv zeta. destruct (_ =? 0); [discriminate|]. intros E. injection E as _ <-. discriminate.
  - unfold lex_spaces. cbv zeta. destruct (_ =? 0); [discriminate|]. intros E. injection E as _ <-. discriminate.
  - unfold lex_newlines. cbv zeta. destruct (_ =? 0); [discriminate|]. intros E. injection E as _ <-. discriminate.
Qed.

(* ---------- every raw token comes from lex_token on a suffix of the text ---------- *)
Lemma plain_loop_tokens u : forall fuel c rest ts, plain_loop u fuel c rest = Ok ts ->
  Forall (fun t => exists i n, i < length rest /\ lex_token u (skipn i rest) = Some (n, tkind_of t)) ts.
Proof.
  induction fuel as [|f IH]; intros c rest ts H.
  - destruct rest; cbn in H; [|discriminate]. injection H as <-. constructor.
  - destruct rest as [|x r]; [cbn in H; injection H as <-; constructor|].
    cbn [plain_loop] in H. destruct (lex_token u (x :: r)) as [[n k]|] eqn:E; [|discriminate].
    destruct (span_new c (c + n)) as [sp|]; [|discriminate]. cbn [bind] in H.
    destruct (plain_loop u f (c + n) (skipn n (x :: r))) as [tl|] eqn:Etl; [|discriminate].
    cbn [bind] in H. injection H as <-. constructor.
    + exists 0, n. split; [cbn [length]; lia|exact E].
    + specialize (IH _ _ _ Etl). eapply Forall_impl; [|exact IH]. cbn beta.
      intros t (i & n' & Hi & Hl). exists (i + n), n'. rewrite skipn_length in Hi.
      split; [lia|]. rewrite <- ListLemmas.skipn_skipn. exact Hl.
Qed.

Lemma raw_quote_free u P tp : quote_free P -> plain_parse u P = Ok tp -> quote_free_toks tp.
Proof.
  intros HQ H. unfold plain_parse in H. pose proof (plain_loop_tokens u _ _ _ _ H) as HT.
  eapply Forall_impl; [|exact HT]. cbn beta. intros t (i & n & Hi & Hl).
  destruct (is_quote (tkind_of t)) eqn:Eq; [|reflexivity]. exfalso.
  destruct (lex_token_quote u _ _ _ Hl Eq) as (c & r & Es & Hc).
  unfold quote_free in HQ. rewrite Forall_forall in HQ.
  assert (In c P) as Hin.
  { rewrite <- (firstn_skipn i P). apply in_or_app. right. rewrite Es. left. reflexivity. }
  specialize (HQ c Hin). cbn beta in HQ. congruence.
Qed.

Lemma raw_head u D td : no_leading_nl D -> plain_parse u D = Ok td -> head_not_newline td.
Proof.
  intros HD H. unfold plain_parse in H. destruct D as [|c0 D']; [cbn in H; injection H as <-; exact I|].
  cbn [length plain_loop] in H. destruct (lex_token u (c0 :: D')) as [[n k]|] eqn:E; [|discriminate].
  destruct (span_new 0 (0 + n)) as [sp|]; [|discriminate]. cbn [bind] in H.
  destruct (plain_loop u (length D') (0 + n) (skipn n (c0 :: D'))) as [tl|]; [|discriminate].
  cbn [bind] in H. injection H as <-. cbn [head_not_newline tkind_of].
  destruct (is_newline_kind k) eqn:Ek; [|reflexivity]. exfalso.
  destruct k; try discriminate.
  destruct (lex_token_newline u _ _ _ n0 E eq_refl) as [r Er]. injection Er as -> _.
  cbn in HD. congruence.
Qed.

(* ---------- the end of the raw tokens of P ---------- *)
Section Ends.
  Variable u : uni.
  Hypothesis nl_whitespace : u_whitespace u NL = true.
  Hypothesis nl_not_numeric : u_numeric u NL = false.
  Hypothesis nl_not_alphabetic : u_alphabetic u NL = false.
  Hypothesis nl_not_lingual : u_lingual u NL = false.

  Lemma plain_loop_cons f c x r :
    plain_loop u (S f) c (x :: r) =
    match lex_token u (x :: r) with
    | None => Panic PUnwrap
    | Some (n, k) => do sp <- span_new c (c + n); do tl <- plain_loop u f (c + n) (skipn n (x :: r)); Ok (mktok sp k :: tl)
    end.
  Proof. reflexivity. Qed.

  Lemma cw_le_stop {X} (p : X -> bool) a x r : p x = false -> count_while p (a ++ x :: r) <= length a.
  Proof.
    intros Hx. induction a as [|y a IH]; cbn [app count_while length]; [rewrite Hx; lia|].
    destruct (p y); lia.
  Qed.

  Lemma first_nl_le : forall (a a' b b' : list N), nonl a -> a ++ NL :: b = a' ++ NL :: b' -> length a <= length a'.
  Proof.
    induction a as [|x a IH]; intros a' b b' Ha E; [cbn [length]; lia|].
    apply nonl_cons in Ha. destruct Ha as [Hx Ha].
    destruct a' as [|x' a'']; cbn [app] in E; [injection E as E1 _; congruence|].
    injection E as _ E. cbn [length]. specialize (IH a'' b b' Ha E). lia.
  Qed.

  Lemma cw_repeat_nl j : count_while (ceq 10) (repeat NL j) = j.
  Proof. induction j as [|j IH]; [reflexivity|]. cbn [repeat count_while]. change (ceq 10 NL) with true. rewrite IH. reflexivity. Qed.

  Lemma skipn_repeat_all {X} (x : X) j : skipn j (repeat x j) = [].
  Proof. apply skipn_all2. rewrite repeat_length. lia. Qed.

  (* t is a character that is neither a newline nor a blank; the text ends t, '\n'^(j+1) *)
  Lemma plain_loop_end (t : N) (j : nat) : t <> NL -> blankc t = false ->
    forall fuel s0 c ts, plain_loop u fuel c (s0 ++ t :: repeat NL (S j)) = Ok ts ->
    exists ts0 x nl, ts = ts0 ++ [x; nl] /\ is_space_kind (tkind_of x) = false /\ tkind_of nl = KNewline (S j).
  Proof.
    intros Ht Hb. induction fuel as [|f IH]; intros s0 c ts H.
    - destruct s0; discriminate H.
    - remember (s0 ++ t :: repeat NL (S j)) as s eqn:Hsdef.
      assert (Hs : exists x r, s = x :: r) by (rewrite Hsdef; destruct s0; eexists; eexists; reflexivity).
      destruct Hs as (x0 & r0 & Es). rewrite Es, plain_loop_cons in H. unfold text, char in *. rewrite <- Es in H.
      destruct (lex_token u s) as [[n k]|] eqn:E; [|discriminate].
      destruct (span_new c (c + n)) as [sp|]; [|discriminate]. cbn [bind] in H.
      destruct (plain_loop u f (c + n) (skipn n s)) as [tl|] eqn:Etl; [|discriminate].
      cbn [bind] in H. injection H as <-.
      pose proof (lex_token_progress u s n k E) as Hn1.
      (* the token ends at or before t *)
      assert (Hn : n <= length s0 + 1).
      { destruct (N.eq_dec x0 NL) as [->|Hx0].
        - rewrite Es in E. rewrite lex_token_nl in E. injection E as <- _.
          assert (Hc2 : count_while (ceq 10) s = S (count_while (ceq 10) r0)) by (rewrite Es; reflexivity).
          rewrite Hsdef in Hc2.
          pose proof (cw_le_stop (ceq 10) s0 t (repeat NL (S j))) as Hc.
          assert (ceq 10 t = false) as Hct by (unfold ceq; apply N.eqb_neq; unfold NL in Ht; congruence).
          specialize (Hc Hct). lia.
        - assert (Hin : In NL s) by (rewrite Hsdef; apply in_or_app; right; right; left; reflexivity).
          destruct (first_nl_split s Hin) as (a & b & Eab & Ha).
          assert (Hane : a <> []) by (intros ->; rewrite Es in Eab; cbn [app] in Eab; congruence).
          destruct (lex_token_local u nl_whitespace nl_not_numeric nl_not_alphabetic nl_not_lingual a b b Ha Hane) as [_ Hle].
          rewrite <- Eab in Hle. specialize (Hle n k E).
          assert (length a <= length (s0 ++ [t])) as Hla.
          { apply (first_nl_le a (s0 ++ [t]) b (repeat NL j) Ha). rewrite <- Eab. rewrite Hsdef.
            rewrite <- app_assoc. reflexivity. }
          rewrite app_length in Hla. cbn [length] in Hla. lia. }
      assert (Hs2 : s = (s0 ++ [t]) ++ repeat NL (S j)) by (rewrite Hsdef, <- app_assoc; reflexivity).
      destruct (Nat.eq_dec n (length s0 + 1)) as [Heq|Hne].
      + (* this is the token that ends with t; the newline run follows *)
        assert (Hsk : skipn n s = NL :: repeat NL j).
        { rewrite Hs2, Heq. rewrite skipn_app. rewrite skipn_all2 by (rewrite app_length; cbn [length]; lia).
          rewrite app_length. cbn [length app]. replace (length s0 + 1 - (length s0 + 1)) with 0 by lia. reflexivity. }
        rewrite Hsk in Etl. destruct f as [|f']; [discriminate Etl|]. rewrite plain_loop_cons in Etl.
        rewrite lex_token_nl in Etl. change (NL :: repeat NL j) with (repeat NL (S j)) in Etl.
        rewrite cw_repeat_nl in Etl.
        destruct (span_new (c + n) (c + n + S j)) as [sp2|]; [|discriminate]. cbn [bind] in Etl.
        rewrite skipn_repeat_all in Etl.
        assert (Hnil : forall ff cc, plain_loop u ff cc [] = Ok []) by (intros [|ff] cc; reflexivity).
        rewrite Hnil in Etl. cbn [bind] in Etl. injection Etl as <-.
        exists [], (mktok sp k), (mktok sp2 (KNewline (S j))). split; [reflexivity|]. split; [|reflexivity].
        cbn [tkind_of]. destruct (is_space_kind k) eqn:Ek; [|reflexivity]. exfalso.
        destruct k; try discriminate.
        pose proof (lex_token_space u s n _ n0 E eq_refl) as Hall.
        rewrite forallb_forall in Hall.
        assert (In t (firstn n s)) as Hin.
        { rewrite Hs2, Heq. rewrite firstn_app. apply in_or_app. left.
          rewrite firstn_all2 by (rewrite app_length; cbn [length]; lia).
          apply in_or_app. right. left. reflexivity. }
        specialize (Hall t Hin). congruence.
      + assert (Hsk : skipn n s = skipn n s0 ++ t :: repeat NL (S j))
          by (rewrite Hsdef, skipn_app; replace (n - length s0) with 0 by lia; reflexivity).
        rewrite Hsk in Etl. destruct (IH _ _ _ Etl) as (ts0 & x & nl & -> & Hx & Hnl).
        exists (mktok sp k :: ts0), x, nl. split; [reflexivity|]. split; assumption.
  Qed.

  (* the raw tokens of a text that satisfies the premise of C12 *)
  Lemma raw_ends P tp : c12_premise P -> plain_parse u P = Ok tp ->
    exists tp0 x nl m, tp = tp0 ++ [x; nl] /\ is_space_kind (tkind_of x) = false /\
                       tkind_of nl = KNewline m /\ 2 <= m.
  Proof.
    intros [_ [P0 [t [-> Ht]]]] H. unfold plain_parse in H.
    change (P0 ++ [t; NL; NL]) with (P0 ++ t :: repeat NL (S 1)) in H.
    assert (t <> NL /\ blankc t = false) as [Hn Hb]
      by (destruct Ht as [Ht | [Ht | Ht]]; subst t; split; try reflexivity; unfold NL; discriminate).
    destruct (plain_loop_end t 1 Hn Hb _ _ _ _ H) as (ts0 & x & nl & -> & Hx & Hnl).
    exists ts0, x, nl, 2. repeat split; try assumption. lia.
  Qed.
End Ends.
