(* C02Gapped.v — the token invariant that survives DROPPING tokens (IsolateEnglish, Mask-based front-ends):
     Gapped a b ts : every token is non-empty, the tokens are ordered and disjoint, all inside [a,b) —
                     a tiling with gaps.
   Facts: a tiling is Gapped; a sub-sequence of a Gapped list is Gapped; a grouping (CondenseInv.Grouped) of
   a Gapped list is Gapped; Gapped 0 n implies the three front-end independent invariants of the property.
   Also the wider, property-level invariant TokInv (zero-width tokens allowed where the property allows them)
   and its preservation by sub-sequences. *)
Require Import Base Overlap OverlapProofs Tables_lexer Lexer Condense ListLemmas TokenInv CondenseInv.
From Coq Require Import List Arith Lia.
Import ListNotations.

Inductive Gapped : nat -> nat -> list token -> Prop :=
| Gapped_nil : forall a b, a <= b -> Gapped a b []
| Gapped_cons : forall a b t ts,
    a <= tstart t -> tstart t < tend t -> Gapped (tend t) b ts -> Gapped a b (t :: ts).

Lemma gapped_le a b ts : Gapped a b ts -> a <= b.
Proof. induction 1; lia. Qed.

Lemma tiling_gapped a b ts : Tiling a b ts -> Gapped a b ts.
Proof. induction 1; constructor; lia || assumption. Qed.

Lemma gapped_weaken a a' b b' ts : a' <= a -> b <= b' -> Gapped a b ts -> Gapped a' b' ts.
Proof.
  intros Ha Hb H. revert a' Ha. induction H as [a b Hab|a b t ts H1 H2 H3 IH]; intros a' Ha.
  - constructor. lia.
  - constructor; [lia|exact H2|apply IH; lia].
Qed.

Lemma gapped_app a b c xs ys : Gapped a b xs -> Gapped b c ys -> Gapped a c (xs ++ ys).
Proof.
  induction 1 as [a b Hab|a b t ts H1 H2 H3 IH]; intros HY; cbn [app].
  - eapply gapped_weaken; [exact Hab|apply le_n|exact HY].
  - constructor; auto.
Qed.

Lemma gapped_app_inv a c xs ys : Gapped a c (xs ++ ys) -> exists b, Gapped a b xs /\ Gapped b c ys.
Proof.
  revert a. induction xs as [|x xs IH]; intros a H; cbn [app] in H.
  - exists a. split; [constructor; lia|exact H].
  - inversion H as [|a0 b0 t ts H1 H2 H3]; subst. destruct (IH _ H3) as [b [Hx Hy]].
    exists b. split; [constructor; assumption|exact Hy].
Qed.

Lemma gapped_skipn a b l k : Gapped a b l -> exists a', Gapped a' b (skipn k l).
Proof.
  intros H. rewrite <- (firstn_skipn k l) in H. apply gapped_app_inv in H.
  destruct H as [m [_ H]]. exists m. exact H.
Qed.

Lemma gapped_nonempty a b ts : Gapped a b ts -> Forall (fun t => tstart t < tend t) ts.
Proof. induction 1; constructor; auto. Qed.

Lemma gapped_in_range a b ts : Gapped a b ts -> Forall (fun t => a <= tstart t /\ tend t <= b) ts.
Proof.
  induction 1 as [a b Hab|a b t ts H1 H2 H3 IH]; constructor.
  - apply gapped_le in H3. lia.
  - eapply Forall_impl; [|exact IH]. cbn. intros. lia.
Qed.

Lemma gapped_ordered_from a b ts lo : Gapped a b ts -> lo <= a -> OrderedFrom lo ts.
Proof.
  intros H. revert lo. induction H as [a b Hab|a b t ts H1 H2 H3 IH]; intros lo Hlo; [constructor|].
  apply OF_cons; [exact H2|lia|apply IH; lia].
Qed.

(* a gapped tiling has the three front-end independent invariants of the property *)
Theorem gapped_invariants n ts :
  Gapped 0 n ts -> InBounds n ts /\ OrderedDisjoint ts /\ ZeroWidthOnlyBreaks ts.
Proof.
  intros H. split; [|split].
  - eapply Forall_impl; [|exact (gapped_in_range _ _ _ H)]. cbn. intros; lia.
  - eapply gapped_ordered_from; [exact H|lia].
  - eapply Forall_impl; [|exact (gapped_nonempty _ _ _ H)]. cbn. intros; lia.
Qed.

(* ---------- sub-sequences ---------- *)
Inductive Sub {A} : list A -> list A -> Prop :=
| Sub_nil : Sub [] []
| Sub_keep : forall x xs ys, Sub xs ys -> Sub (x :: xs) (x :: ys)
| Sub_drop : forall y xs ys, Sub xs ys -> Sub xs (y :: ys).

Lemma sub_refl {A} (l : list A) : Sub l l.
Proof. induction l; constructor; assumption. Qed.

Lemma sub_nil_l {A} (l : list A) : Sub [] l.
Proof. induction l; constructor; assumption. Qed.

Lemma sub_app {A} (a a' b b' : list A) : Sub a a' -> Sub b b' -> Sub (a ++ b) (a' ++ b').
Proof. induction 1; intros Hb; cbn [app]; [exact Hb|constructor; auto|constructor; auto]. Qed.

Lemma sub_app_drop {A} (c b b' : list A) : Sub b b' -> Sub b (c ++ b').
Proof. intros H. induction c; cbn [app]; [exact H|constructor; exact IHc]. Qed.

Lemma sub_forall {A} (Q : A -> Prop) xs ys : Sub xs ys -> Forall Q ys -> Forall Q xs.
Proof.
  induction 1; intros HF; [constructor| |]; inversion HF; subst; [constructor; auto|auto].
Qed.

Theorem gapped_sub xs ys : Sub xs ys -> forall a b, Gapped a b ys -> Gapped a b xs.
Proof.
  induction 1 as [|x xs ys HS IH|y xs ys HS IH]; intros a b H.
  - exact H.
  - inversion H; subst. constructor; auto.
  - inversion H as [|a0 b0 t ts H1 H2 H3]; subst. eapply gapped_weaken; [|apply le_n|apply IH; exact H3]. lia.
Qed.

Lemma ordered_from_sub xs ys : Sub xs ys -> forall lo, OrderedFrom lo ys -> OrderedFrom lo xs.
Proof.
  induction 1 as [|x xs ys HS IH|y xs ys HS IH]; intros lo H.
  - exact H.
  - inversion H; subst; [apply OF_zero; auto|apply OF_cons; auto].
  - inversion H as [|lo0 t ts Hz Hr|lo0 t ts Hc Hlo Hr]; subst; [apply IH; exact Hr|].
    assert (forall l lo1 lo2, lo2 <= lo1 -> OrderedFrom lo1 l -> OrderedFrom lo2 l) as W.
    { clear. induction l as [|t l IHl]; intros lo1 lo2 Hle HO; [constructor|].
      inversion HO; subst; [apply OF_zero; eauto|apply OF_cons; auto; lia]. }
    eapply W; [|apply IH; exact Hr]. unfold covers_chars in Hc. lia.
Qed.

(* ---------- the property-level invariant: what the statement of C02 asks of every front-end ---------- *)
Definition TokInv (n : nat) (ts : list token) : Prop :=
  Forall (fun t => tstart t <= tend t) ts /\ InBounds n ts /\ OrderedDisjoint ts /\ ZeroWidthOnlyBreaks ts.

Theorem gapped_tokinv n ts : Gapped 0 n ts -> TokInv n ts.
Proof.
  intros H. split; [|apply gapped_invariants; exact H].
  eapply Forall_impl; [|exact (gapped_nonempty _ _ _ H)]. cbn. intros; lia.
Qed.

Theorem tokinv_sub n xs ys : Sub xs ys -> TokInv n ys -> TokInv n xs.
Proof.
  intros HS [H1 [H2 [H3 H4]]]. split; [|split; [|split]].
  - eapply sub_forall; eauto.
  - unfold InBounds in *. eapply sub_forall; eauto.
  - unfold OrderedDisjoint in *. eapply ordered_from_sub; eauto.
  - unfold ZeroWidthOnlyBreaks in *. eapply sub_forall; eauto.
Qed.

(* ---------- groupings ---------- *)
Lemma last_cons_tok (t : token) r d : last (t :: r) d = last r t.
Proof.
  revert t d. induction r as [|c r IH]; intros t d; [reflexivity|].
  change (last (t :: c :: r) d) with (last (c :: r) d). rewrite !IH. reflexivity.
Qed.

Lemma gapped_group a b g : g <> [] -> Gapped a b g ->
  a <= group_start g /\ group_start g < group_end g /\ group_end g <= b.
Proof.
  intros Hne H. induction H as [a b Hab|a b t ts H1 H2 H3 IH]; [contradiction|].
  cbn [group_start]. unfold group_end. rewrite last_cons_tok.
  destruct ts as [|t2 ts2].
  - cbn [last]. apply gapped_le in H3. lia.
  - destruct (IH ltac:(discriminate)) as [I1 [I2 I3]]. unfold group_end in I2, I3.
    rewrite last_cons_tok in I2, I3. cbn [group_start] in I1, I2. rewrite last_cons_tok. lia.
Qed.

(* grouping preserves gapped tilings, whatever the rule *)
Theorem grouped_gapped G ts ts' : Grouped G ts ts' -> forall a b, Gapped a b ts -> Gapped a b ts'.
Proof.
  induction 1 as [|g k rest rest' Hne HG Hrest IH]; intros a b HT; [exact HT|].
  apply gapped_app_inv in HT. destruct HT as [m [Hg Hr]].
  destruct (gapped_group a m g Hne Hg) as [Hs [Hlt He]].
  constructor; unfold group_token, tstart, tend; cbn [tspan sstart send]; [exact Hs|exact Hlt|].
  apply IH. eapply gapped_weaken; [exact He|apply le_n|exact Hr].
Qed.

(* a per-token invariant carried through a grouping of a gapped list *)
Lemma grouped_inv_gapped (Q Q' : token -> Prop) (G : list token -> tkind -> Prop) :
  (forall g k a b, g <> [] -> Gapped a b g -> Forall Q g -> G g k -> Q' (group_token g k)) ->
  forall ts ts', Grouped G ts ts' -> forall a b, Gapped a b ts -> Forall Q ts -> Forall Q' ts'.
Proof.
  intros HG ts ts' H. induction H as [|g k rest rest' Hne Hg Hrest IH]; intros a b HT HQ; [constructor|].
  apply gapped_app_inv in HT. destruct HT as [m [Tg Tr]].
  apply Forall_app in HQ. destruct HQ as [Qg Qr].
  constructor; [eapply HG; eauto|eapply IH; eauto].
Qed.

(* ---------- coarsening: every token of ts' spans a run of consecutive tokens of ts ---------- *)
Definition Coarse (ts ts' : list token) : Prop := Grouped (fun _ _ => True) ts ts'.

Lemma grouped_coarse G ts ts' : Grouped G ts ts' -> Coarse ts ts'.
Proof. apply grouped_weaken. auto. Qed.

Lemma coarse_nil_r ts : Coarse ts [] -> ts = [].
Proof. intros H. inversion H. reflexivity. Qed.

Lemma coarse_split : forall h A Brest, Coarse A (h ++ Brest) ->
  exists Ah Arest, A = Ah ++ Arest /\ Coarse Ah h /\ Coarse Arest Brest.
Proof.
  induction h as [|x h IH]; intros A Brest H; cbn [app] in H.
  - exists [], A. split; [reflexivity|]. split; [constructor|exact H].
  - inversion H as [|g k rest rest' Hne _ Hrest]; subst.
    destruct (IH rest Brest Hrest) as [Ah [Ar [E [H1 H2]]]].
    exists (g ++ Ah), Ar. split; [rewrite E, app_assoc; reflexivity|]. split; [|exact H2].
    constructor; auto.
Qed.

Lemma group_end_app g r : r <> [] -> group_end (g ++ r) = group_end r.
Proof.
  intros Hr. unfold group_end. induction g as [|x g IH]; [reflexivity|].
  cbn [app]. destruct (g ++ r) eqn:E.
  - destruct g; [cbn in E; contradiction|discriminate].
  - rewrite <- E in *. destruct g as [|y g'].
    + cbn [app] in *. destruct r as [|r0 r']; [contradiction|]. cbn [last]. reflexivity.
    + cbn [app last] in *. exact IH.
Qed.

Lemma coarse_ends X Y : Coarse X Y -> Y <> [] ->
  X <> [] /\ group_start X = group_start Y /\ group_end X = group_end Y.
Proof.
  induction 1 as [|g k rest rest' Hne _ Hrest IH]; intros HY; [contradiction|].
  split; [destruct g; [contradiction|discriminate]|]. split.
  - destruct g; [contradiction|reflexivity].
  - destruct rest' as [|r0 rest''].
    + apply coarse_nil_r in Hrest. subst rest. rewrite app_nil_r. reflexivity.
    + destruct (IH ltac:(discriminate)) as [Hne' [_ He]].
      rewrite group_end_app by exact Hne'. rewrite He.
      unfold group_end. cbn [last]. reflexivity.
Qed.

Theorem coarse_trans A B C : Coarse A B -> Coarse B C -> Coarse A C.
Proof.
  intros HAB HBC. revert A HAB. induction HBC as [|h k Brest Crest Hne _ HBC IH]; intros A HAB.
  - apply coarse_nil_r in HAB. subst. constructor.
  - destruct (coarse_split h A Brest HAB) as [Ah [Ar [E [H1 H2]]]]. subst A.
    destruct (coarse_ends Ah h H1 Hne) as [HneA [Hs He]].
    replace (group_token h k) with (group_token Ah k) by (unfold group_token; rewrite Hs, He; reflexivity).
    constructor; [exact HneA|exact I|apply IH; exact H2].
Qed.

Lemma coarse_refl ts : Coarse ts ts.
Proof. apply grouped_refl. auto. Qed.

(* same spans (match_quotes only rewrites twin_loc) *)
Lemma same_spans_coarse : forall ts ts', map tspan ts' = map tspan ts -> Coarse ts ts'.
Proof.
  induction ts as [|t ts IH]; intros ts' E.
  - destruct ts'; [constructor|discriminate].
  - destruct ts' as [|t' ts']; [discriminate|]. cbn [map] in E. injection E as E1 E2.
    pose proof (Grouped_cons (fun _ _ => True) [t] (tkind_of t') ts ts' ltac:(discriminate) I (IH _ E2)) as H.
    replace (group_token [t] (tkind_of t')) with t' in H; [exact H|].
    unfold group_token, group_start, group_end, tstart, tend. cbn [last]. destruct t' as [[s e] k'].
    cbn [tspan tkind_of] in *. rewrite <- E1. reflexivity.
Qed.

Lemma same_spans_gapped ts : forall ts', map tspan ts' = map tspan ts ->
  forall a b, Gapped a b ts -> Gapped a b ts'.
Proof.
  intros ts' E a b H. eapply grouped_gapped; [apply same_spans_coarse; exact E|exact H].
Qed.

Print Assumptions gapped_sub.
Print Assumptions grouped_gapped.
Print Assumptions coarse_trans.
