(* NumberProofs.v — C17, top layer: condense_number_suffixes, the rule, and the theorems of the property. *)
Require Import Base Overlap Suggestion Tables_number Number NumberArith ListLemmas SuggestionProofs NumberLex NumberPasses.
From Coq Require Import List Arith NArith Bool Lia.
Import ListNotations.

(* ------------------------------------------------------------------------------------------------ *)
(* condense_number_suffixes / condense_indices                                                        *)
(* ------------------------------------------------------------------------------------------------ *)
Definition cns_head (src : text) (a b : token) : res (token * bool) :=
  match tkind a, tkind b with
  | KNumber v s, KWord =>
      do len <- span_len (tspan b);
      if negb (len =? 2) then Ok (a, false)
      else (do content <- get_content (tspan b) src;
            match from_chars content with
            | Some found => Ok (mktok (tspan a) (KNumber v (Some found)), true)
            | None => Ok (a, false)
            end)
  | _, _ => Ok (a, false)
  end.
Lemma cns_scan_cons (src : text) (idx : nat) (a b : token) (tl : list token) :
  cns_scan src idx (a :: b :: tl) =
  (do hd <- cns_head src a b; do r <- cns_scan src (S idx) (b :: tl);
   Ok (fst hd :: fst r, if snd hd then idx :: snd r else snd r)).
Proof. reflexivity. Qed.
Lemma cns_head_nonum (src : text) (a b : token) : is_number a = false -> cns_head src a b = Ok (a, false).
Proof. unfold is_number, cns_head. destruct (tkind a); try reflexivity. discriminate. Qed.

Lemma cns_scan_nonum (src : text) : forall (l : list token) (idx : nat),
  nonum l -> cns_scan src idx l = Ok (l, []).
Proof.
  induction l as [|a tl IH]; intros idx Hn; [reflexivity|].
  inversion Hn as [|? ? Ha Htl]; subst.
  destruct tl as [|b tl']; [reflexivity|].
  rewrite cns_scan_cons, (cns_head_nonum _ _ _ Ha). cbn [bind]. rewrite (IH (S idx) Htl). reflexivity.
Qed.

Lemma cns_scan_shape (src : text) (v : value) (sx : suffix) (cs : text) (n w : token) (B : list token) :
  tkind n = KNumber v None -> tkind w = KWord -> span_len (tspan w) = Ok 2 ->
  get_content (tspan w) src = Ok cs -> from_chars cs = Some sx -> nonum B ->
  forall (A : list token) (idx : nat), nonum A ->
  cns_scan src idx (A ++ n :: w :: B) = Ok (A ++ mktok (tspan n) (KNumber v (Some sx)) :: w :: B, [idx + length A]).
Proof.
  intros Hn Hw Hlen Hcont Hfc HB.
  assert (HwB : nonum (w :: B)) by (constructor; [unfold is_number; rewrite Hw; reflexivity | exact HB]).
  induction A as [|a A' IH]; intros idx HA.
  - cbn [app length]. rewrite cns_scan_cons. unfold cns_head. rewrite Hn, Hw, Hlen. cbn [bind Nat.eqb negb].
    rewrite Hcont. cbn [bind]. rewrite Hfc.
    cbn [bind]. rewrite (cns_scan_nonum src (w :: B) (S idx) HwB). cbn [bind fst snd]. rewrite Nat.add_0_r. reflexivity.
  - inversion HA as [|? ? Ha HA']; subst. cbn [app].
    specialize (IH (S idx) HA').
    destruct (A' ++ n :: w :: B) as [|b tl] eqn:E; [destruct A'; discriminate|].
    rewrite cns_scan_cons, (cns_head_nonum _ _ _ Ha). cbn [bind]. rewrite IH. cbn [bind fst snd length].
    replace (S idx + length A') with (idx + S (length A')) by lia. reflexivity.
Qed.

Lemma slice_chk_prefix {A} (l r : list A) : slice_chk (l ++ r) 0 (length l) = Ok l.
Proof.
  unfold slice_chk. rewrite app_length.
  destruct ((length l <? 0) || (length l + length r <? length l)) eqn:E.
  - apply orb_true_iff in E. destruct E as [E|E]; apply Nat.ltb_lt in E; lia.
  - cbn [skipn]. rewrite Nat.sub_0_r. rewrite firstn_app_len. reflexivity.
Qed.
Lemma slice_chk_suffix {A} (l r : list A) : slice_chk (l ++ r) (length l) (length (l ++ r)) = Ok r.
Proof.
  unfold slice_chk.
  destruct ((length (l ++ r) <? length l) || (length (l ++ r) <? length (l ++ r))) eqn:E.
  - apply orb_true_iff in E. rewrite app_length in E. destruct E as [E|E]; apply Nat.ltb_lt in E; lia.
  - rewrite skipn_app_len. rewrite app_length. replace (length l + length r - length l) with (length r) by lia.
    rewrite firstn_all. reflexivity.
Qed.

Lemma condense_indices_one (A : list token) (n w : token) (B : list token) :
  condense_indices [length A] 2 (A ++ n :: w :: B)
  = Ok (A ++ mktok (mkspan (sstart (tspan n)) (send (tspan w))) (tkind n) :: B).
Proof.
  unfold condense_indices. cbn [ci_spans].
  unfold sub_chk. destruct (length A + 2 <? 1) eqn:E; [apply Nat.ltb_lt in E; lia|]. cbn [bind].
  unfold nth_chk at 1. replace (length A + 2 - 1) with (S (length A)) by lia.
  rewrite nth_mid_w. cbn [bind].
  unfold set_span_end, nth_chk. rewrite nth_mid_n. cbn [bind]. rewrite set_nth_mid. cbn [bind hd].
  set (n' := mktok (mkspan (sstart (tspan n)) (send (tspan w))) (tkind n)).
  rewrite slice_chk_prefix. cbn [bind ci_mid].
  unfold nth_chk. rewrite nth_mid_n. cbn [bind last_error].
  replace (A ++ n' :: w :: B) with ((A ++ [n'; w]) ++ B) by (rewrite <- app_assoc; reflexivity).
  replace (length A + 2) with (length (A ++ [n'; w])) by (rewrite app_length; cbn; lia).
  rewrite slice_chk_suffix. cbn [bind]. reflexivity.
Qed.

Lemma condense_number_suffixes_shape (src : text) (v : value) (sx : suffix) (cs : text)
      (A : list token) (n w : token) (B : list token) :
  tkind n = KNumber v None -> tkind w = KWord -> span_len (tspan w) = Ok 2 ->
  get_content (tspan w) src = Ok cs -> from_chars cs = Some sx -> nonum A -> nonum B ->
  condense_number_suffixes src (A ++ n :: w :: B)
  = Ok (A ++ mktok (mkspan (sstart (tspan n)) (send (tspan w))) (KNumber v (Some sx)) :: B).
Proof.
  intros Hn Hw Hlen Hcont Hfc HA HB. unfold condense_number_suffixes.
  destruct (length (A ++ n :: w :: B) <? 2) eqn:E.
  { apply Nat.ltb_lt in E. rewrite app_length in E. cbn [length] in E. lia. }
  rewrite (cns_scan_shape src v sx cs n w B Hn Hw Hlen Hcont Hfc HB A 0 HA). cbn [bind fst snd Nat.add].
  rewrite condense_indices_one. reflexivity.
Qed.

(* ------------------------------------------------------------------------------------------------ *)
(* the rule                                                                                           *)
(* ------------------------------------------------------------------------------------------------ *)
Lemma rule_skip (t : token) (r : list token) : is_number t = false -> rule (t :: r) = rule r.
Proof. unfold is_number. intros H. cbn [rule]. destruct (tkind t); try reflexivity. discriminate. Qed.
Lemma rule_nonum (l : list token) : nonum l -> rule l = Some [].
Proof. induction 1 as [|t r Ht _ IH]; [reflexivity|]. rewrite rule_skip by exact Ht. exact IH. Qed.
Lemma rule_app_nonum (A l : list token) : nonum A -> rule (A ++ l) = rule l.
Proof. induction 1 as [|t r Ht _ IH]; [reflexivity|]. cbn [app]. rewrite rule_skip by exact Ht. exact IH. Qed.
Lemma rule_filter (l : list token) : rule (filter is_number l) = rule l.
Proof.
  induction l as [|t r IH]; [reflexivity|]. cbn [filter]. destruct (is_number t) eqn:E.
  - unfold is_number in E. cbn [rule]. destruct (tkind t); try discriminate. rewrite IH. reflexivity.
  - rewrite rule_skip by exact E. exact IH.
Qed.

Lemma suffix_eqb_spec (x y : suffix) : suffix_eqb x y = true <-> x = y.
Proof. destruct x, y; cbn; split; intros H; try reflexivity; try discriminate. Qed.

Lemma rule_one (A B : list token) (sp : span) (n : N) (sx : suffix) :
  nonum A -> nonum B -> 2 <= send sp ->
  rule (A ++ mktok sp (KNumber (VInt n) (Some sx)) :: B)
  = Some (if suffix_eqb sx (ordinal n) then []
          else [mkmlint (mkspan (send sp - 2) (send sp)) [ReplaceWith (to_chars (ordinal n))]]).
Proof.
  intros HA HB H2. rewrite rule_app_nonum by exact HA. cbn [rule tkind tspan].
  unfold pulled_by, span_new_with_len. cbn [sstart send].
  destruct (send sp <? 2) eqn:E; [apply Nat.ltb_lt in E; lia|].
  cbn [correct_suffix_for]. rewrite ordinal_spec, (rule_nonum B HB).
  replace (send sp + 2 - 2) with (send sp) by lia.
  destruct (suffix_eqb sx (ordinal n)); reflexivity.
Qed.

(* ------------------------------------------------------------------------------------------------ *)
(* the theorems                                                                                       *)
(* ------------------------------------------------------------------------------------------------ *)
Section Main.
  Variable U : uni.
  Variable ut : text -> nat.
  Variable et : text -> nat -> option nat.
  (* the passes of Document::parse after condense_dotted_initialisms (condense_ellipsis, condense_latin,
     match_quotes, articles_imply_nouns, dictionary metadata); `src` is the document's source *)
  Variable post_passes : text -> list token -> list token.
  Hypothesis L_digit_numeric : forall c, is_ascii_digit c = true -> u_numeric U c = true.
  Hypothesis L_alpha_alnum : forall c, is_ascii_alpha c = true -> u_alnum U c = true.
  Hypothesis L_alpha_lingual : forall c, is_ascii_alpha c = true -> u_lingual U c = true.
  Hypothesis L_alpha_not_numeric : forall c, is_ascii_alpha c = true -> u_numeric U c = false.
  (* monitored: passes_preserve_number_tokens + correspondence on the final document's number tokens *)
  Hypothesis post_passes_numbers : forall src l, filter is_number (post_passes src l) = filter is_number l.

  (* what the rule reports on the document of a text: Panic = the implementation panics,
     None = a number token's value is outside the modelled domain *)
  Definition lint_text (src : text) : res (option (list mlint)) :=
    do t <- doc_tokens U ut et src; Ok (rule (post_passes src t)).

  Definition expected (pre D : text) (sx : suffix) (n : N) : list mlint :=
    if suffix_eqb sx (ordinal n) then []
    else [mkmlint (mkspan (length pre + length D) (length pre + length D + 2)) [ReplaceWith (to_chars (ordinal n))]].

  Lemma get_content_mid (P M S : text) : M <> [] ->
    get_content (mkspan (length P) (length P + length M)) (P ++ M ++ S) = Ok M.
  Proof.
    intros Hne. assert (0 < length M) by (destruct M; [contradiction | cbn; lia]).
    unfold get_content, try_get_content. cbn [sstart send].
    assert (E1 : (length P + length M <? length P) = false) by (apply Nat.ltb_ge; lia).
    assert (E2 : (length (P ++ M ++ S) <=? length P) = false) by (apply Nat.leb_gt; rewrite !app_length; lia).
    assert (E3 : (length (P ++ M ++ S) <? length P + length M) = false) by (apply Nat.ltb_ge; rewrite !app_length; lia).
    rewrite E1, E2, E3. cbn [orb bind]. unfold slice. rewrite skipn_app_len.
    replace (length P + length M - length P) with (length M) by lia. rewrite firstn_app_len. reflexivity.
  Qed.
  Lemma get_content_suffix (pre D : text) (a b : N) (post : text) :
    get_content (mkspan (length pre + length D) (length pre + length D + 2)) (pre ++ D ++ [a; b] ++ post) = Ok [a; b].
  Proof.
    rewrite app_assoc, <- app_length. apply (get_content_mid (pre ++ D) [a; b] post). discriminate.
  Qed.

  (* the tokens of the document before the later passes: A ++ [the number token carrying the suffix] ++ B, no other
     number token (used by lint_digits below and by the f64 variant in C17FloatLink.v) *)
  Lemma doc_digits_shape (pre D : text) (a b : N) (sx : suffix) (post : text) :
    D <> [] -> Forall (fun c => is_ascii_digit c = true) D -> (parse_dec D < two53)%N ->
    In (a, b, sx) from_chars_table ->
    ctx_ok U pre D [a; b] post = true ->
    exists A5 B5, doc_tokens U ut et (pre ++ D ++ [a; b] ++ post)
      = Ok (A5 ++ mktok (mkspan (length pre) (length pre + length D + 2)) (KNumber (VInt (parse_dec D)) (Some sx)) :: B5)
      /\ nonum A5 /\ nonum B5.
  Proof.
    intros Hne HD Hlt Hrow Hctx.
    destruct (lex_doc_shape U ut et L_digit_numeric L_alpha_alnum L_alpha_lingual L_alpha_not_numeric
                pre D a b sx post Hne HD Hlt Hrow Hctx) as (LA & LB & HL & HnA & HnB & HwA & HwB).
    set (p := length pre) in *. set (d := length D) in *.
    set (Nt := mktok (mkspan p (p + d)) (KNumber (VInt (parse_dec D)) None)) in *.
    set (Wt := mktok (mkspan (p + d) (p + d + 2)) KWord) in *.
    unfold doc_tokens. rewrite HL. cbn [bind].
    destruct (condense_spaces_shape LA Nt Wt LB eq_refl eq_refl) as (A1 & B1 & E1 & G1).
    { repeat split; assumption. }
    rewrite E1. cbn [bind].
    destruct (condense_newlines_shape A1 Nt Wt B1 eq_refl eq_refl G1) as (A2 & B2 & E2 & G2).
    rewrite E2. cbn [bind].
    destruct (newlines_to_breaks_shape A2 Nt Wt B2 eq_refl eq_refl G2) as (A3 & B3 & E3 & G3).
    rewrite E3.
    (* the suffix is attached here, before condense_contractions can swallow the suffix word *)
    rewrite (condense_number_suffixes_shape _ (VInt (parse_dec D)) sx [a; b] A3 Nt Wt B3 eq_refl eq_refl).
    - cbn [bind Nt Wt tspan sstart send].
      set (Nm := mktok (mkspan p (p + d + 2)) (KNumber (VInt (parse_dec D)) (Some sx))).
      destruct (condense_contractions_shape1 A3 Nm B3 eq_refl eq_refl G3) as (A4 & B4 & E4 & G4).
      rewrite E4. cbn [bind].
      destruct (condense_initialisms_shape1 A4 Nm B4 eq_refl eq_refl G4) as (A5 & B5 & E5 & HnA5 & HnB5).
      exists A5, B5. split; [exact E5 | split; assumption].
    - cbn [Wt tspan]. unfold span_len, sub_chk. cbn [sstart send].
      destruct (p + d + 2 <? p + d) eqn:E; [apply Nat.ltb_lt in E; lia|]. f_equal. lia.
    - cbn [Wt tspan]. apply get_content_suffix.
    - apply from_chars_row. exact Hrow.
    - destruct G3 as (H & _). exact H.
    - destruct G3 as (_ & H & _). exact H.
  Qed.

  Lemma lint_digits (pre D : text) (a b : N) (sx : suffix) (post : text) :
    D <> [] -> Forall (fun c => is_ascii_digit c = true) D -> (parse_dec D < two53)%N ->
    In (a, b, sx) from_chars_table ->
    ctx_ok U pre D [a; b] post = true ->
    lint_text (pre ++ D ++ [a; b] ++ post) = Ok (Some (expected pre D sx (parse_dec D))).
  Proof.
    intros Hne HD Hlt Hrow Hctx.
    destruct (doc_digits_shape pre D a b sx post Hne HD Hlt Hrow Hctx) as (A5 & B5 & E5 & HnA5 & HnB5).
    unfold lint_text. rewrite E5. cbn [bind]. f_equal.
    rewrite <- rule_filter, post_passes_numbers, rule_filter.
    rewrite (rule_one A5 B5 _ _ _ HnA5 HnB5) by (cbn [send]; lia).
    cbn [send]. unfold expected.
    replace (length pre + length D + 2 - 2) with (length pre + length D) by lia. reflexivity.
  Qed.

  (* ---- C17_lint_iff ---- *)
  Lemma lint_iff (n : N) (a b : N) (sx : suffix) (pre post : text) :
    (n < two53)%N -> from_chars [a; b] = Some sx ->
    ctx_ok U pre (render n) [a; b] post = true ->
    lint_text (pre ++ render n ++ [a; b] ++ post) = Ok (Some (expected pre (render n) sx n)).
  Proof.
    intros Hn Hfc Hctx. apply from_chars_row in Hfc.
    pose proof (lint_digits pre (render n) a b sx post (render_nonempty n) (render_digits n)) as H.
    rewrite parse_render in H. apply H; assumption.
  Qed.

  (* ---- the suggestion, applied, yields the text with the correct suffix, on which nothing is reported ---- *)
  Definition prof_eq (c c' : N) : Prop :=
    (c =? 58)%N = (c' =? 58)%N /\ (c =? 47)%N = (c' =? 47)%N /\ (c =? 46)%N = (c' =? 46)%N
    /\ host_label_char c = host_label_char c'.
  Lemma prof_eq_refl c : prof_eq c c.
  Proof. repeat split. Qed.
  Lemma prof_eq_alpha c c' : is_ascii_alpha c = true -> is_ascii_alpha c' = true -> prof_eq c c'.
  Proof.
    intros H H'. pose proof (proj1 (alpha_range c) H). pose proof (proj1 (alpha_range c') H').
    unfold prof_eq, host_label_char. rewrite (alpha_alnum _ H), (alpha_alnum _ H').
    rewrite !neqb by lia. repeat split.
  Qed.
  Lemma hsm_prof : forall l l', Forall2 prof_eq l l' -> has_scheme_mark l = has_scheme_mark l'.
  Proof.
    induction 1 as [|c c' r r' Hc Hr IH]; [reflexivity|].
    cbn [has_scheme_mark]. rewrite IH. f_equal.
    destruct Hr as [|c1 c1' r1 r1' Hc1 Hr1]; [reflexivity|].
    destruct Hr1 as [|c2 c2' r2 r2' Hc2 Hr2]; [reflexivity|].
    destruct Hc as (E & _). destruct Hc1 as (_ & E1 & _). destruct Hc2 as (_ & E2 & _).
    rewrite E, E1, E2. reflexivity.
  Qed.
  Lemma dots_prof : forall l l', Forall2 prof_eq l l' -> dots_ok l = dots_ok l'.
  Proof.
    induction 1 as [|c c' r r' Hc Hr IH]; [reflexivity|].
    cbn [dots_ok]. rewrite IH. f_equal.
    destruct Hr as [|c1 c1' r1 r1' Hc1 Hr1]; [reflexivity|].
    destruct Hc as (_ & _ & E & _). destruct Hc1 as (_ & _ & _ & E1). rewrite E, E1. reflexivity.
  Qed.
  Lemma Forall2_prof_refl l : Forall2 prof_eq l l.
  Proof. induction l; constructor; [apply prof_eq_refl | assumption]. Qed.

  Lemma ctx_ok_swap (pre D post : text) (a b a' b' : N) :
    is_ascii_alpha a = true -> is_ascii_alpha b = true -> is_ascii_alpha a' = true -> is_ascii_alpha b' = true ->
    ctx_ok U pre D [a; b] post = ctx_ok U pre D [a'; b'] post.
  Proof.
    intros Ha Hb Ha' Hb'. unfold ctx_ok. unfold text, char in *.
    assert (HF : Forall2 prof_eq (pre ++ D ++ [a; b] ++ post) (pre ++ D ++ [a'; b'] ++ post)).
    { apply Forall2_app; [apply Forall2_prof_refl|]. apply Forall2_app; [apply Forall2_prof_refl|].
      cbn [app]. constructor; [apply prof_eq_alpha; assumption|]. constructor; [apply prof_eq_alpha; assumption|].
      apply Forall2_prof_refl. }
    rewrite (hsm_prof _ _ HF), (dots_prof _ _ HF). reflexivity.
  Qed.

  Lemma to_chars_row (s : suffix) : exists c1 c2, to_chars s = [c1; c2] /\ from_chars [c1; c2] = Some s.
  Proof. destruct s; cbn [to_chars]; eexists; eexists; split; reflexivity. Qed.

  Lemma fix_is_fixpoint (n : N) (a b : N) (sx : suffix) (pre post : text) :
    (n < two53)%N -> from_chars [a; b] = Some sx ->
    ctx_ok U pre (render n) [a; b] post = true ->
    sx <> ordinal n ->
    (* the one lint that is reported ... *)
    lint_text (pre ++ render n ++ [a; b] ++ post)
      = Ok (Some [mkmlint (mkspan (length pre + length (render n)) (length pre + length (render n) + 2))
                          [ReplaceWith (to_chars (ordinal n))]])
    (* ... its suggestion applied to the text gives the text with the correct suffix ... *)
    /\ apply (ReplaceWith (to_chars (ordinal n)))
             (mkspan (length pre + length (render n)) (length pre + length (render n) + 2))
             (pre ++ render n ++ [a; b] ++ post)
         = Ok (pre ++ render n ++ to_chars (ordinal n) ++ post)
    (* ... on which nothing is reported *)
    /\ lint_text (pre ++ render n ++ to_chars (ordinal n) ++ post) = Ok (Some []).
  Proof.
    intros Hn Hfc Hctx Hne.
    split; [|split].
    - rewrite (lint_iff n a b sx pre post Hn Hfc Hctx). unfold expected.
      destruct (suffix_eqb sx (ordinal n)) eqn:E; [apply suffix_eqb_spec in E; contradiction | reflexivity].
    - pose proof (apply_parts (ReplaceWith (to_chars (ordinal n))) (pre ++ render n) [a; b] post) as H.
      rewrite app_length in H. cbn [length repl] in H. rewrite <- !app_assoc in H. exact H.
    - destruct (to_chars_row (ordinal n)) as (c1 & c2 & Htc & Hrow). rewrite Htc.
      pose proof (from_chars_row a b sx) as R1. pose proof (from_chars_row c1 c2 (ordinal n)) as R2.
      destruct (suffix_row _ _ _ (proj2 R1 Hfc)) as (Ha & Hb & _).
      destruct (suffix_row _ _ _ (proj2 R2 Hrow)) as (Hc1 & Hc2 & _).
      rewrite (ctx_ok_swap pre (render n) post a b c1 c2 Ha Hb Hc1 Hc2) in Hctx.
      rewrite (lint_iff n c1 c2 (ordinal n) pre post Hn Hrow Hctx). unfold expected.
      destruct (suffix_eqb (ordinal n) (ordinal n)) eqn:E; [reflexivity|].
      assert (suffix_eqb (ordinal n) (ordinal n) = true) by (apply suffix_eqb_spec; reflexivity). congruence.
  Qed.
End Main.

(* the hypotheses, bundled for the statements of Properties/C17.v *)
Definition ascii_laws (U : uni) : Prop :=
  (forall c, is_ascii_digit c = true -> u_numeric U c = true)
  /\ (forall c, is_ascii_alpha c = true -> u_alnum U c = true)
  /\ (forall c, is_ascii_alpha c = true -> u_lingual U c = true)
  /\ (forall c, is_ascii_alpha c = true -> u_numeric U c = false).
Definition numbers_preserved (pp : text -> list token -> list token) : Prop :=
  forall src l, filter is_number (pp src l) = filter is_number l.

Theorem lint_iff_thm :
  forall (U : uni) (ut : text -> nat) (et : text -> nat -> option nat) (pp : text -> list token -> list token),
  ascii_laws U -> numbers_preserved pp ->
  forall (n : N) (a b : N) (sx : suffix) (pre post : text),
  (n < two53)%N -> from_chars [a; b] = Some sx ->
  ctx_ok U pre (render n) [a; b] post = true ->
  exists ls, lint_text U ut et pp (pre ++ render n ++ [a; b] ++ post) = Ok (Some ls)
    /\ (ls = [] <-> sx = ordinal n)
    /\ (sx <> ordinal n ->
        ls = [mkmlint (mkspan (length pre + length (render n)) (length pre + length (render n) + 2))
                      [ReplaceWith (to_chars (ordinal n))]]).
Proof.
  intros U ut et pp (L1 & L2 & L3 & L4) Hpp n a b sx pre post Hn Hfc Hctx.
  exists (expected pre (render n) sx n).
  split; [apply (lint_iff U ut et pp L1 L2 L3 L4 Hpp); assumption|].
  unfold expected. destruct (suffix_eqb sx (ordinal n)) eqn:E.
  - apply suffix_eqb_spec in E. split; [tauto | intros H; contradiction].
  - assert (sx <> ordinal n) by (intros H; apply suffix_eqb_spec in H; congruence).
    split; [split; [discriminate | tauto] | reflexivity].
Qed.

Theorem fix_is_fixpoint_thm :
  forall (U : uni) (ut : text -> nat) (et : text -> nat -> option nat) (pp : text -> list token -> list token),
  ascii_laws U -> numbers_preserved pp ->
  forall (n : N) (a b : N) (sx : suffix) (pre post : text),
  (n < two53)%N -> from_chars [a; b] = Some sx ->
  ctx_ok U pre (render n) [a; b] post = true -> sx <> ordinal n ->
  lint_text U ut et pp (pre ++ render n ++ [a; b] ++ post)
    = Ok (Some [mkmlint (mkspan (length pre + length (render n)) (length pre + length (render n) + 2))
                        [ReplaceWith (to_chars (ordinal n))]])
  /\ apply (ReplaceWith (to_chars (ordinal n)))
           (mkspan (length pre + length (render n)) (length pre + length (render n) + 2))
           (pre ++ render n ++ [a; b] ++ post)
       = Ok (pre ++ render n ++ to_chars (ordinal n) ++ post)
  /\ lint_text U ut et pp (pre ++ render n ++ to_chars (ordinal n) ++ post) = Ok (Some []).
Proof.
  intros U ut et pp (L1 & L2 & L3 & L4) Hpp. apply (fix_is_fixpoint U ut et pp L1 L2 L3 L4 Hpp).
Qed.

(* the same for any digit string (leading zeros included) whose value is below 2^53 *)
Theorem lint_digits_thm :
  forall (U : uni) (ut : text -> nat) (et : text -> nat -> option nat) (pp : text -> list token -> list token),
  ascii_laws U -> numbers_preserved pp ->
  forall (D : text) (a b : N) (sx : suffix) (pre post : text),
  D <> [] -> Forall (fun c => is_ascii_digit c = true) D -> (parse_dec D < two53)%N ->
  from_chars [a; b] = Some sx -> ctx_ok U pre D [a; b] post = true ->
  lint_text U ut et pp (pre ++ D ++ [a; b] ++ post) = Ok (Some (expected pre D sx (parse_dec D))).
Proof.
  intros U ut et pp (L1 & L2 & L3 & L4) Hpp D a b sx pre post Hne HD Hlt Hfc Hctx.
  apply (lint_digits U ut et pp L1 L2 L3 L4 Hpp); try assumption. apply from_chars_row. exact Hfc.
Qed.

(* FC17a, fixed by dcfd71f: a suffix directly followed by an apostrophe (`the 2st's value`, `11st’s`) is judged like
   any other: the class ctx_ok no longer excludes a right context that starts with an apostrophe, so this is
   lint_iff_thm for post = q :: post' (stated separately because it used to be the refuted case). *)
Theorem apostrophe_lint_thm :
  forall (U : uni) (ut : text -> nat) (et : text -> nat -> option nat) (pp : text -> list token -> list token),
  ascii_laws U -> numbers_preserved pp ->
  forall (n : N) (a b : N) (sx : suffix) (pre : text) (q : N) (post : text),
  (n < two53)%N -> from_chars [a; b] = Some sx -> is_apostrophe_char q = true ->
  ctx_ok U pre (render n) [a; b] (q :: post) = true ->
  exists ls, lint_text U ut et pp (pre ++ render n ++ [a; b] ++ q :: post) = Ok (Some ls)
    /\ (ls = [] <-> sx = ordinal n)
    /\ (sx <> ordinal n ->
        ls = [mkmlint (mkspan (length pre + length (render n)) (length pre + length (render n) + 2))
                      [ReplaceWith (to_chars (ordinal n))]]).
Proof.
  intros U ut et pp HU Hpp n a b sx pre q post Hn Hfc _ Hctx.
  exact (lint_iff_thm U ut et pp HU Hpp n a b sx pre (q :: post) Hn Hfc Hctx).
Qed.

(* ------------------------------------------------------------------------------------------------ *)
(* non-vacuity: a concrete U satisfying the laws (ASCII classes as Rust has them, every other          *)
(* character in no class), the identity for the later passes                                          *)
(* ------------------------------------------------------------------------------------------------ *)
Definition ascii_uni : uni :=
  mkuni is_ascii_digit is_ascii_alnum is_ascii_alpha (fun c => in_range 9 13 c || (c =? 32)%N).
Lemma ascii_uni_laws : ascii_laws ascii_uni.
Proof.
  repeat split; cbn [ascii_uni u_numeric u_alnum u_lingual]; intros c H.
  - exact H. - apply alpha_alnum; exact H. - exact H. - apply alpha_not_digit; exact H.
Qed.
Definition no_tail_url (t : text) : nat := 0.
Definition no_tail_email (t : text) (k : nat) : option nat := None.
Definition id_passes (src : text) (l : list token) : list token := l.
Lemma id_passes_preserve : numbers_preserved id_passes.
Proof. intros src l. reflexivity. Qed.
Definition lint_ascii (src : text) : res (option (list mlint)) :=
  lint_text ascii_uni no_tail_url no_tail_email id_passes src.

(* ------------------------------------------------------------------------------------------------ *)
(* witnesses (vm_compute): contexts outside ctx_ok where the code, faithfully modelled, deviates       *)
(* ------------------------------------------------------------------------------------------------ *)
From Coq Require Import String Ascii.
Definition txt (s : string) : text := map N_of_ascii (list_ascii_of_string s).

(* the former witness of FC17a now draws its lint, and its context is covered (non-vacuity of apostrophe_lint_thm) *)
Lemma apostrophe_example :
  is_apostrophe_char 39%N = true /\ is_apostrophe_char 8217%N = true
  /\ ctx_ok ascii_uni (txt "the ") (render 2) (txt "st") (txt "'s value") = true
  /\ lint_ascii (txt "the 2st's value") = Ok (Some [mkmlint (mkspan 5 7) [ReplaceWith (txt "nd")]])
  /\ lint_ascii (txt "the 2nd's value") = Ok (Some [])
  /\ lint_ascii (txt "11ST'") = Ok (Some [mkmlint (mkspan 2 4) [ReplaceWith (txt "th")]]).
Proof. vm_compute. repeat split; reflexivity. Qed.

(* HISTORY: with the pass order before dcfd71f (doc_tokens_old: condense_number_suffixes last) the same text drew
   no lint — condense_contractions had merged `st's` into one word.  Kept as a regression witness only. *)
Definition lint_ascii_old (src : text) : res (option (list mlint)) :=
  do t <- doc_tokens_old ascii_uni no_tail_url no_tail_email src; Ok (rule t).
Lemma apostrophe_old_refuted : lint_ascii_old (txt "the 2st's value") = Ok (Some []).
Proof. vm_compute. reflexivity. Qed.

(* no clause of ctx_ok can be dropped: for each one a text violating only (essentially) that clause on
   which a wrong suffix draws no lint, or on which more than the one lint is reported *)
Lemma ctx_needed :
  (* pre contains '[' : `[2st]` is lexed as Regexish *)
  lint_ascii (txt "[2st]") = Ok (Some [])
  (* a '.' directly followed by a host-name character: `x.2st` and `2st.Then` are lexed as Hostname *)
  /\ lint_ascii (txt "x.2st") = Ok (Some [])
  /\ lint_ascii (txt "I came 2st.Then") = Ok (Some [])
  (* pre ends in a word character: `a2st` is one Word *)
  /\ lint_ascii (txt "a2st") = Ok (Some [])
  /\ ctx_ok ascii_uni (txt "a") (render 2) (txt "st") [] = false
  (* post starts with a word character: `2sts` is Number + the 3-letter word `sts` *)
  /\ lint_ascii (txt "2sts") = Ok (Some [])
  (* post starts with a digit: `2st5` *)
  /\ lint_ascii (txt "2st5") = Ok (Some [])
  (* a numeric character in pre: a second number with a wrong suffix yields a second lint *)
  /\ lint_ascii (txt "3th 2st") = Ok (Some [mkmlint (mkspan 1 3) [ReplaceWith (txt "rd")];
                                            mkmlint (mkspan 5 7) [ReplaceWith (txt "nd")]])
  (* digits glued in front change the number: `1.2st` is the float 1.2 *)
  /\ lint_ascii (txt "1.2st") = Ok None.
Proof. vm_compute. repeat split; reflexivity. Qed.

(* positive instances of the theorem's hypotheses, in a variety of contexts *)
Lemma examples_covered :
  ctx_ok ascii_uni (txt "The ") (render 2) (txt "st") (txt " item.") = true
  /\ lint_ascii (txt "The 2st item.") = Ok (Some [mkmlint (mkspan 5 7) [ReplaceWith (txt "nd")]])
  /\ lint_ascii (txt "The 2nd item.") = Ok (Some [])
  /\ ctx_ok ascii_uni (txt "($") (render 113) (txt "RD") (txt ")...") = true
  /\ lint_ascii (txt "($113RD)...") = Ok (Some [mkmlint (mkspan 5 7) [ReplaceWith (txt "th")]])
  /\ ctx_ok ascii_uni (txt "x - ") (render 1990) (txt "sT") (txt "-y") = true
  /\ lint_ascii (txt "x - 1990sT-y") = Ok (Some [mkmlint (mkspan 8 10) [ReplaceWith (txt "th")]])
  /\ ctx_ok ascii_uni [] (render 9007199254740991) (txt "th") [] = true
  /\ lint_ascii (txt "9007199254740991th") = Ok (Some [mkmlint (mkspan 16 18) [ReplaceWith (txt "st")]]).
Proof. vm_compute. repeat split; reflexivity. Qed.
