(* ServerClose.v — C09_close_wins: once a document is gone from doc_state (did_close, deletion), no
   handler other than a didOpen brings it back, whatever was in flight and however it is scheduled:
   update_document called with language_id = None on an absent entry inserts a DocumentState with
   language_id None and removes it again, and publish_diagnostics then sends []. *)
Require Import Base Server ServerLemmas.

Definition not_open (o : op) : bool := match o with Open _ _ _ _ => false | _ => true end.

(* no didOpen in flight, none waiting *)
Definition no_open_pending (y : sys) : Prop :=
  (forall hs, In hs (y_flight y) -> l_lang (h_loc hs) = None) /\ forallb not_open (y_todo y) = true.

Lemma lastword_log : forall w w' u, s_log w' = s_log w -> lastword w' u = lastword w u.
Proof. intros. unfold lastword. rewrite H. reflexivity. Qed.

Lemma exec_closed : forall i l w push l' w' u,
  exec i l w = Some (push, l', w') -> l_lang l = None -> lookup u (s_docs w) = None ->
  lookup u (s_docs w') = None /\ l_lang l' = None /\ (lastword w u = PEmpty -> lastword w' u = PEmpty).
Proof.
  intros i l w push l' w' u H Hl Hn.
  destruct i; cbn [exec] in H;
    try (inversion H; subst; clear H; cbn; repeat split; (assumption || auto); fail).
  - (* IUpdate *)
    destruct (s_lock w); [discriminate|]. destruct (l_text l) as [t|]; [|inversion H; subst; repeat split; auto].
    rewrite Hl in H.
    destruct (lookup (l_url l) (s_docs w)) as [e|] eqn:Ee.
    + assert (Hne : url_eqb u (l_url l) = false).
      { apply url_eqb_neq. intro E. subst u. congruence. }
      destruct (stale (l_ver l) (e_ver e)); [inversion H; subst; clear H; repeat split; auto|].
      set (e2 := rebase _ _ _) in H.
      destruct (e_lang e2) as [lg|]; [destruct (kind lg); [| destruct (e_ident e2 =? t_ident t) |]|];
        inversion H; subst; clear H; cbn [s_docs set_docs set_lock]; rewrite ?lookup_upsert_neq, ?lookup_remove_neq by exact Hne;
        repeat split; auto.
    + cbn [new_entry e_ver] in H.
      assert (St : stale (l_ver l) None = false) by (destruct (l_ver l); reflexivity). rewrite St in H.
      unfold rebase in H.
      destruct (l_ver l); cbn [bump e_set_ver e_base new_entry] in H; rewrite dictv_eqb_refl in H; cbn [e_set_ver e_lang new_entry] in H;
        inversion H; subst; clear H; cbn [s_docs set_docs]; rewrite lookup_remove; rewrite Hn;
        destruct (url_eqb u (l_url l')); repeat split; auto.
  - (* IIdentFinish *)
    destruct (l_text l) as [t|]; [|inversion H; subst; repeat split; auto].
    destruct (lookup (l_url l) (s_docs w)) as [e|] eqn:Ee; inversion H; subst; clear H; [|repeat split; auto].
    assert (Hne : url_eqb u (l_url l') = false) by (apply url_eqb_neq; intro E; subst u; congruence).
    cbn [s_docs set_docs set_lock]. rewrite lookup_upsert_neq by exact Hne. repeat split; auto.
  - (* IReadFile *)
    destruct (is_file (l_url l)); [destruct (lookup (l_url l) (w_disk w))|]; inversion H; subst; repeat split; auto.
  - (* IPublish *)
    destruct (s_lock w); [discriminate|]. inversion H; subst; clear H. split; [exact Hn|]. split; [exact Hl|].
    intro Hw. rewrite lastword_send. destruct (url_eqb u (l_url l')) eqn:E; [|exact Hw].
    apply url_eqb_eq in E. subst u. unfold pubval. rewrite Hn. reflexivity.
  - (* ILoadUD: waits for dict_write_lock *)
    destruct (s_dlock w); [discriminate|]. inversion H; subst; repeat split; auto.
  - (* ILoadFD *)
    destruct (s_dlock w); [discriminate|].
    destruct (is_file (l_url l)); inversion H; subst; repeat split; auto.
  - (* IIgnore *)
    destruct (s_lock w); [discriminate|]. destruct (lookup (l_url l) (s_docs w)) as [e|] eqn:Ee; inversion H; subst; clear H; [|repeat split; auto].
    assert (Hne : url_eqb u (l_url l') = false) by (apply url_eqb_neq; intro E; subst u; congruence).
    cbn [s_docs set_docs]. rewrite lookup_upsert_neq by exact Hne. repeat split; auto.
  - (* IClose *)
    destruct (s_lock w); [discriminate|]. inversion H; subst; clear H. cbn [s_docs set_lock send set_log set_docs].
    rewrite lookup_remove, Hn. split; [destruct (url_eqb u (l_url l')); reflexivity|]. split; [exact Hl|].
    intro Hw. change (lastword (set_lock true (send (l_url l') PEmpty (set_docs (remove (l_url l') (s_docs w)) w))) u)
      with (lastword (send (l_url l') PEmpty w) u). rewrite lastword_send. destruct (url_eqb u (l_url l')); [reflexivity|exact Hw].
  - (* IDelete *)
    destruct (s_lock w); [discriminate|]. inversion H; subst; clear H. cbn [s_docs set_lock set_docs].
    pose proof (lookup_filter_key (fun k => negb (matches tg k)) u (s_docs w)) as Hf. cbn beta in Hf. rewrite Hf, Hn.
    split; [destruct (negb (matches tg u)); reflexivity|]. split; [exact Hl|]. intro Hw. exact Hw.
  - (* IDelSend *)
    destruct (l_queue l) as [|v q]; inversion H; subst; clear H; [repeat split; auto|].
    split; [exact Hn|]. split; [exact Hl|]. intro Hw. rewrite lastword_send. destruct (url_eqb u v); [reflexivity|exact Hw].
  - (* ICfgRebuild *)
    destruct (s_lock w); [discriminate|]. inversion H; subst; clear H. cbn [s_docs set_docs].
    rewrite lookup_map_val, Hn. repeat split; auto.
  - (* ICfgNext *)
    destruct (l_queue l) as [|v q]; inversion H; subst; repeat split; auto.
Qed.

Lemma replace_h_In_weak : forall h' fl hs, In hs (replace_h h' fl) -> hs = h' \/ In hs fl.
Proof.
  induction fl as [|h fl IH]; intros hs Hin; cbn in Hin; [contradiction|].
  destruct (h_id h =? h_id h').
  - destruct (h_prog h'); [right; right; exact Hin|destruct Hin as [<-|Hin]; [left; reflexivity|right; right; exact Hin]].
  - destruct Hin as [<-|Hin]; [right; left; reflexivity|]. destruct (IH hs Hin) as [->|H]; [left; reflexivity|right; right; exact H].
Qed.

Lemma find_h_In' : forall id fl hs, find_h id fl = Some hs -> In hs fl.
Proof.
  induction fl as [|h fl IH]; cbn; intros hs H; [discriminate|].
  destruct (h_id h =? id); [inversion H; left; reflexivity|right; apply IH, H].
Qed.

Definition gone (u : url) (y : sys) : Prop :=
  no_open_pending y /\ lookup u (s_docs (y_world y)) = None.

Lemma gone_step : forall u c y y', gone u y -> step c y = Some y' ->
  gone u y' /\ (lastword (y_world y) u = PEmpty -> lastword (y_world y') u = PEmpty).
Proof.
  intros u c y y' [[Hfl Htd] Hn] H. destruct c as [|id]; cbn [step] in H.
  - destruct (y_todo y) as [|o rest] eqn:Et; [discriminate|]. destruct (length (y_flight y) <? max_in_flight); [|discriminate].
    inversion H; subst y'; clear H. cbn [forallb] in Htd. apply andb_true_iff in Htd as [Ho Htd].
    assert (Hd : s_docs (client_effect o (y_world y)) = s_docs (y_world y) /\ s_log (client_effect o (y_world y)) = s_log (y_world y)).
    { destruct o; cbn [client_effect]; try (split; reflexivity);
        try (destruct (lookup u0 (w_open (y_world y))); try destruct (is_file u0); split; reflexivity). }
    destruct Hd as [Hd Hg]. split.
    + split; [split|]; cbn [y_flight y_todo y_world].
      * intros hs Hin. apply in_app_or in Hin as [Hin|[<-|[]]]; [apply Hfl, Hin|]. cbn [h_loc]. destruct o; try reflexivity. discriminate Ho.
      * exact Htd.
      * rewrite Hd. exact Hn.
    + intro Hw. cbn [y_world]. rewrite (lastword_log _ _ _ Hg). exact Hw.
  - destruct (find_h id (y_flight y)) as [hs|] eqn:Ef; [|discriminate].
    destruct (h_prog hs) as [|i p]; [discriminate|].
    destruct (exec i (h_loc hs) (y_world y)) as [[[push l'] w']|] eqn:Ee; [|discriminate].
    inversion H; subst y'; clear H.
    destruct (exec_closed _ _ _ _ _ _ u Ee (Hfl hs (find_h_In' _ _ _ Ef)) Hn) as (A & B & C).
    split; [|exact C]. split; [split|]; cbn [y_flight y_todo y_world].
    + intros hs' Hin. apply replace_h_In_weak in Hin as [->|Hin]; [exact B|apply Hfl, Hin].
    + exact Htd.
    + exact A.
Qed.

(* C09_close_wins *)
Theorem close_wins : forall cs u y y',
  no_open_pending y -> lookup u (s_docs (y_world y)) = None -> run cs y = Some y' ->
  lookup u (s_docs (y_world y')) = None /\
  (lastword (y_world y) u = PEmpty -> lastword (y_world y') u = PEmpty).
Proof.
  induction cs as [|c cs IH]; intros u y y' Hp Hn H; cbn [run] in H.
  - inversion H; subst. split; [exact Hn|auto].
  - destruct (step c y) as [y1|] eqn:E; [|discriminate].
    destruct (gone_step u c y y1 (conj Hp Hn) E) as [[Hp1 Hn1] Hw1].
    destruct (IH u y1 y' Hp1 Hn1 H) as [A B]. split; [exact A|auto].
Qed.

(* ... and did_close itself removes the document and publishes [] *)
Lemma close_removes : forall l w push l' w',
  exec IClose l w = Some (push, l', w') ->
  lookup (l_url l) (s_docs w') = None /\ lastword w' (l_url l) = PEmpty.
Proof.
  intros l w push l' w' H. cbn [exec] in H. destruct (s_lock w); [discriminate|]. inversion H; subst; clear H.
  cbn [s_docs set_lock send set_log set_docs]. split; [apply lookup_remove_eq|].
  change (lastword (set_lock true (send (l_url l') PEmpty (set_docs (remove (l_url l') (s_docs w)) w))) (l_url l'))
    with (lastword (send (l_url l') PEmpty w) (l_url l')). rewrite lastword_send, url_eqb_refl. reflexivity.
Qed.

(* non-vacuity + the situation of the name: a didChange is in flight (it has already sent its
   configuration request) when the didClose is handled; it finishes afterwards *)
Definition cw_history : list op := [Open (UFile 0 0) LPlain (mktext 0 0) 1; Change (UFile 0 0) (mktext 1 0) 2; Close (UFile 0 0)].
Definition cw_prefix : list choice := CAdmit :: repeat (CRun 0) 8 ++ [CAdmit; CRun 1; CAdmit; CRun 2; CRun 2].
Definition cw_suffix : list choice := repeat (CRun 1) 7.
Example close_wins_applies :
  exists y, run cw_prefix (init cw_history (world0 0)) = Some y /\
    (forall hs, In hs (y_flight y) -> l_lang (h_loc hs) = None) /\ y_flight y <> [] /\
    forallb not_open (y_todo y) = true /\
    lookup (UFile 0 0) (s_docs (y_world y)) = None /\ lastword (y_world y) (UFile 0 0) = PEmpty /\
    exists y', run cw_suffix y = Some y' /\ quiescentb y' = true /\ length (s_log (y_world y')) = 3.
Proof.
  eexists. split; [vm_compute; reflexivity|]. split.
  - cbn. intros hs [<-|[]]. reflexivity.
  - split; [discriminate|]. split; [reflexivity|]. split; [reflexivity|]. split; [reflexivity|].
    eexists. split; [vm_compute; reflexivity|]. split; reflexivity.
Qed.
