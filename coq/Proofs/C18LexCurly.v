(* C18LexCurly.v — phase 6: the CURLY APOSTROPHE U+2019 inside the alnum class (C18LexAlnum.v), over C02's frozen Lexer.v.

   Title-casing changes a text in two ways: the case of letters (the relation Rl of C18LexDots / C18LexAlnum) and,
   inside a known proper noun, U+2019 / U+2018 / U+FF07 -> ' (title_case.rs, the guarded copy).  The lexer reads
   U+2019 and ' alike (Punctuation::from_char: both Apostrophe, one character; neither is a word, hostname or float
   character) EXCEPT in lex_plural_digit, which wants the straight one: `a’s` = Word Apostrophe Word, `a's` = one Word.
   That pattern, [A-Za-z0-9] ’ [sS] LA at a position a token can start at, is excluded from the class together with
   its straight form (q_apos of C18LexAlnum.v reads is_apo39); U+2018 and U+FF07 stay outside the class (they are
   no Punctuation: Unlintable, the straight apostrophe over them would change the token kind).

     Ra a c       a = c, or a = U+2019 and c = '      (what the guarded copy can do to a character of the class)
     Rl4 u a c    Rl u a c or (a = U+2019 and c = ')  (what title-casing can do to a character of the class)
     plain_parse_curly : Forall2 Ra s s' -> Alnum u s -> Alnum u s' -> plain_parse u s' = plain_parse u s
     lex_alnum4_stable : Forall2 (Rl4 u) s s' -> Alnum u s -> Alnum u s' -> same plain_parse, same document_plain

   Proof: on the class lex_token = alnum_lex (C18LexAlnum.lex_token_alnum, unchanged); alnum_lex is a congruence for
   Ra between texts of the class — lex_hostname_token, lex_word, blanks, punctuation read the two characters through
   predicates that are false on both; lex_number reads only the longest prefix of float characters, which is the SAME
   list in both texts (lex_number_prefix); the loop as in C18LexAlnum (St_adv); a text related by Rl4 is split into an
   Rl step and an Ra step through a text of the class (rl4_split). *)
Require Import Base Overlap OverlapProofs Tables_lexer Lexer Condense ListLemmas LexerProofs Shape C18LexStable C18PassesIC C18LexDots C18LexAlnum.
From Coq Require Import Lia ZArith.

Definition Ra (a c : N) : Prop := a = c \/ (a = 8217%N /\ c = 39%N).
Definition Rl4 (u : uni) (a c : N) : Prop := Rl u a c \/ (a = 8217%N /\ c = 39%N).

(* ---------- a function of the longest p-prefix does not see what follows it ---------- *)
Definition Pdiff {A} (p : A -> bool) (a c : A) : Prop := a = c \/ (p a = false /\ p c = false).

Lemma pdiff_prefix {A} (p : A -> bool) : forall s s', Forall2 (Pdiff p) s s' ->
  count_while p s' = count_while p s /\ firstn (count_while p s) s' = firstn (count_while p s) s.
Proof.
  intros s s' H. induction H as [|a c l l' Hac _ [IH1 IH2]]; [split; reflexivity|].
  cbn [count_while]. destruct Hac as [->|[Pa Pc]].
  - destruct (p c); [|split; reflexivity]. rewrite IH1. split; [reflexivity|]. cbn [firstn]. rewrite IH2. reflexivity.
  - rewrite Pa, Pc. split; reflexivity.
Qed.

Lemma lex_number_prefix u a l l' : Forall2 (Pdiff is_float_char) l l' -> lex_number u (a :: l') = lex_number u (a :: l).
Proof.
  intros H. assert (HF : Forall2 (Pdiff is_float_char) (a :: l) (a :: l')) by (constructor; [now left|exact H]).
  destruct (pdiff_prefix is_float_char _ _ HF) as [E1 E2].
  unfold lex_number. destruct (negb (u_numeric u a)); [reflexivity|].
  cbv zeta. unfold text, char in *. rewrite E1, E2.
  set (limit := count_while is_float_char (a :: l)) in *.
  destruct (rposition is_ascii_digit (firstn limit (a :: l))) as [e|] eqn:RP; [|reflexivity].
  apply rposition_lt in RP. rewrite firstn_length in RP.
  assert (X : forall t : list N, firstn (S e) t = firstn (S e) (firstn limit t)).
  { intros t. rewrite firstn_firstn. replace (Nat.min (S e) limit) with (S e) by lia. reflexivity. }
  rewrite (X (a :: l')), (X (a :: l)), E2. reflexivity.
Qed.

Section Curly.
  Variable u : uni.

  (* Ra between two characters of the class *)
  Definition Rc (a c : N) : Prop :=
    a = c \/ (a = 8217%N /\ c = 39%N /\ u_lingual u 8217 = false /\ u_lingual u 39 = false).

  Lemma char3_apo_lingual c : char3 u c = true -> is_apo39 c = true -> u_lingual u c = false.
  Proof.
    intros H Ha. destruct (char3_parts u c H) as [_ Hcl].
    assert (Np : nopunct c = false).
    { unfold is_apo39, ceq in Ha. apply orb_prop in Ha. destruct Ha as [E|E]; apply N.eqb_eq in E; subst c; vm_compute; reflexivity. }
    assert (Dg : is_ascii_digit c = false).
    { unfold is_apo39, ceq in Ha. apply orb_prop in Ha. destruct Ha as [E|E]; apply N.eqb_eq in E; subst c; vm_compute; reflexivity. }
    destruct Hcl as [W|[D|[I|O]]].
    - rewrite (wch_nopunct u c Np) in W. discriminate.
    - apply (dch_parts u) in D. destruct D as [D _]. congruence.
    - unfold ichar in I. destruct (u_lingual u c); [discriminate|reflexivity].
    - unfold ochar in O. rewrite Np in O. rewrite !andb_false_r in O. cbn [andb] in O. discriminate.
  Qed.

  Lemma Ra_Rc s s' : Forall2 Ra s s' -> Forall (fun c => char3 u c = true) s -> Forall (fun c => char3 u c = true) s' ->
    Forall2 Rc s s'.
  Proof.
    intros H. induction H as [|a c l l' Hac _ IH]; intros P P'; [constructor|].
    inversion P as [|x1 t1 Pa Pl]; subst. inversion P' as [|x2 t2 Pc Pl']; subst.
    constructor; [|apply IH; assumption].
    destruct Hac as [->|[-> ->]]; [now left|right].
    repeat split; apply char3_apo_lingual; try assumption; reflexivity.
  Qed.

  Ltac rc H := destruct H as [->|(-> & -> & L1 & L2)]; [reflexivity|].

  Lemma Rc_wch a c : Rc a c -> wch u c = wch u a.
  Proof. intros H. rc H. unfold wch, wchar. rewrite L1, L2. reflexivity. Qed.
  Lemma Rc_dch a c : Rc a c -> dch u c = dch u a.
  Proof. intros H. rc H. reflexivity. Qed.
  Lemma Rc_lw a c : Rc a c -> lw u a = lw u c.
  Proof. intros H. rc H. unfold lw. rewrite L1, L2. reflexivity. Qed.
  Lemma Rc_host a c : Rc a c -> host_char a = host_char c.
  Proof. intros H. rc H. reflexivity. Qed.
  Lemma Rc_alnum a c : Rc a c -> is_ascii_alphanumeric a = is_ascii_alphanumeric c.
  Proof. intros H. rc H. reflexivity. Qed.
  Lemma Rc_digit a c : Rc a c -> is_ascii_digit a = is_ascii_digit c.
  Proof. intros H. rc H. reflexivity. Qed.
  Lemma Rc_hexdigit a c : Rc a c -> is_ascii_hexdigit a = is_ascii_hexdigit c.
  Proof. intros H. rc H. reflexivity. Qed.
  Lemma Rc_is_s a c : Rc a c -> is_s a = is_s c.
  Proof. intros H. rc H. reflexivity. Qed.
  Lemma Rc_is_x a c : Rc a c -> is_x a = is_x c.
  Proof. intros H. rc H. reflexivity. Qed.
  Lemma Rc_apo a c : Rc a c -> is_apo39 a = is_apo39 c.
  Proof. intros H. rc H. reflexivity. Qed.
  Lemma Rc_ceq k a c : ceq k 39 = false -> ceq k 8217 = false -> Rc a c -> ceq k a = ceq k c.
  Proof. intros K1 K2 H. destruct H as [->|(-> & -> & _)]; [reflexivity|]. rewrite K1, K2. reflexivity. Qed.
  Lemma Rc_ceqr k a c : ceq 39 k = false -> ceq 8217 k = false -> Rc a c -> ceq a k = ceq c k.
  Proof. intros K1 K2 H. destruct H as [->|(-> & -> & _)]; [reflexivity|]. rewrite K1, K2. reflexivity. Qed.
  Lemma Rc_Ric a c : Rc a c -> Ric a c.
  Proof. intros H. unfold Ric. rc H. reflexivity. Qed.
  Lemma Rc_float a c : Rc a c -> Pdiff is_float_char a c.
  Proof. intros H. destruct H as [->|(-> & -> & _)]; [now left|right]. split; vm_compute; reflexivity. Qed.

  Lemma Rc_la r r' : Forall2 Rc r r' -> la3 u r' = la3 u r.
  Proof.
    intros H. destruct H as [|a c l l' Hac _]; [reflexivity|]. cbn [la3].
    rewrite (Rc_wch a c Hac), (Rc_dch a c Hac). reflexivity.
  Qed.

  Lemma mem46_congr_c l l' : Forall2 Rc l l' -> mem_n 46 l' = mem_n 46 l.
  Proof.
    intros H. unfold mem_n. induction H as [|a c l l' Hac _ IH]; [reflexivity|]. cbn [existsb].
    change (N.eqb 46 c) with (ceq 46 c). change (N.eqb 46 a) with (ceq 46 a).
    rewrite IH, (Rc_ceq 46 a c eq_refl eq_refl Hac). reflexivity.
  Qed.

  Lemma hostname_token_congr_c s s' : Forall2 Rc s s' -> lex_hostname_token s' = lex_hostname_token s.
  Proof.
    intros H. unfold lex_hostname_token, lex_hostname.
    destruct H as [|a c l l' Hac Hl]; [reflexivity|].
    assert (HF : Forall2 Rc (a :: l) (c :: l')) by (constructor; assumption).
    rewrite <- (Rc_alnum a c Hac). destruct (is_ascii_alphanumeric a); [|reflexivity].
    rewrite (count_while_congr host_char (a :: l) (c :: l'))
      by (eapply Forall2_impl_c18; [|exact HF]; intros x y Hxy; apply Rc_host; exact Hxy).
    set (len := count_while host_char (a :: l)).
    destruct (len <=? 1); [reflexivity|].
    match goal with |- (if negb ?x then _ else _) = (if negb ?y then _ else _) =>
      replace x with y by (symmetry; apply mem46_congr_c; apply Forall2_slice_ic; exact HF); destruct (negb y); [reflexivity|] end.
    unfold text, char in *. pose proof (nth_error_Forall2 _ _ _ HF (len - 1)) as N.
    destruct (nth_error (a :: l) (len - 1)) as [x|]; destruct (nth_error (c :: l') (len - 1)) as [y|]; try contradiction; [|reflexivity].
    rewrite (Rc_ceqr 46 x y eq_refl eq_refl N). reflexivity.
  Qed.

  (* ================= alnum_lex is a congruence for Rc ================= *)
  Lemma alnum_lex_congr_c s s' : Forall2 Rc s s' -> alnum_lex u s' = alnum_lex u s.
  Proof.
    intros H. destruct H as [|a c l l' Hac Hl]; [reflexivity|].
    assert (HF : Forall2 Rc (a :: l) (c :: l')) by (constructor; assumption).
    assert (CW : count_while (lw u) (c :: l') = count_while (lw u) (a :: l)).
    { apply count_while_congr. eapply Forall2_impl_c18; [|exact HF]. intros x y Hxy. apply Rc_lw. exact Hxy. }
    pose proof (hostname_token_congr_c _ _ HF) as HH.
    unfold alnum_lex. rewrite (Rc_wch a c Hac), (Rc_dch a c Hac). destruct (wch u a) eqn:W.
    - rewrite HH, CW. reflexivity.
    - destruct (dch u a) eqn:X.
      + rewrite HH, CW.
        assert (E : a = c).
        { destruct Hac as [E|(-> & _)]; [exact E|]. vm_compute in X. discriminate. }
        subst c. rewrite (lex_number_prefix u a l l'); [reflexivity|].
        eapply Forall2_impl_c18; [|exact Hl]. intros x y. apply Rc_float.
      + destruct Hac as [<-|(-> & -> & _)].
        * rewrite (count_while_congr (ceq 9) (a :: l) (a :: l'))
            by (eapply Forall2_impl_c18; [|exact HF]; intros x y Hxy; apply (Rc_ceq 9); [reflexivity|reflexivity|exact Hxy]).
          rewrite (count_while_congr (ceq 32) (a :: l) (a :: l'))
            by (eapply Forall2_impl_c18; [|exact HF]; intros x y Hxy; apply (Rc_ceq 32); [reflexivity|reflexivity|exact Hxy]).
          rewrite (count_while_congr (ceq 10) (a :: l) (a :: l'))
            by (eapply Forall2_impl_c18; [|exact HF]; intros x y Hxy; apply (Rc_ceq 10); [reflexivity|reflexivity|exact Hxy]).
          reflexivity.
        * reflexivity.
  Qed.

  (* ================= the loop ================= *)
  Definition orel_c (p p' : option N) : Prop :=
    match p, p' with None, None => True | Some a, Some c => Rc a c | _, _ => False end.
  Lemma adv_rel_c prev prev' n s s' : orel_c prev prev' -> Forall2 Rc s s' -> orel_c (adv prev n s) (adv prev' n s').
  Proof.
    intros Ho HF. destruct n as [|m]; [exact Ho|]. cbn [adv]. pose proof (nth_error_Forall2 _ _ _ HF m) as X. unfold text, char in *.
    destruct (nth_error s m); destruct (nth_error s' m); cbn [orel_c]; try contradiction; try exact X; exact I.
  Qed.

  Lemma plain_loop_curly : forall fuel cursor prev prev' s s',
    orel_c prev prev' -> Forall2 Rc s s' -> St u prev s -> St u prev' s' ->
    plain_loop u fuel cursor s' = plain_loop u fuel cursor s.
  Proof.
    induction fuel as [|f IH]; intros cursor prev prev' s s' Ho HR HP HP'.
    - destruct HR; reflexivity.
    - destruct HR as [|a c l l' Hac Hl]; [reflexivity|].
      assert (HF : Forall2 Rc (a :: l) (c :: l')) by (constructor; assumption).
      cbn [plain_loop]. rewrite (lex_token_alnum u prev' c l' HP'), (lex_token_alnum u prev a l HP).
      pose proof (alnum_lex_congr_c _ _ HF) as EL. rewrite EL.
      destruct (alnum_lex u (a :: l)) as [[n k]|] eqn:AL; [|reflexivity].
      destruct (span_new cursor (cursor + n)) as [sp|]; [|reflexivity]. cbn [bind].
      match goal with |- bind ?x _ = bind ?y _ => replace x with y; [reflexivity|] end.
      symmetry. apply (IH _ (adv prev n (a :: l)) (adv prev' n (c :: l'))).
      + apply adv_rel_c; assumption.
      + apply Forall2_skipn_c18. exact HF.
      + apply (St_adv u prev _ n k HP AL).
      + apply (St_adv u prev' _ n k HP'). exact EL.
  Qed.

  Theorem plain_parse_curly (s s' : text) : Forall2 Ra s s' -> Alnum u s -> Alnum u s' -> plain_parse u s' = plain_parse u s.
  Proof.
    intros HR HP HP'. unfold plain_parse.
    pose proof (Ra_Rc s s' HR (proj1 HP) (proj1 HP')) as HC.
    assert (L : length s' = length s) by (symmetry; exact (Forall2_length_c18 _ _ _ HR)).
    rewrite L. apply (plain_loop_curly _ _ None None); [exact I|exact HC|apply Alnum_St; exact HP|apply Alnum_St; exact HP'].
  Qed.

  Theorem document_plain_curly (s s' : text) : Forall2 Ra s s' -> Alnum u s -> Alnum u s' ->
    document_plain u s' = document_plain u s.
  Proof.
    intros HR HP HP'. unfold document_plain. rewrite (plain_parse_curly s s' HR HP HP').
    destruct (plain_parse u s) as [t0|]; cbn [bind]; [|reflexivity].
    apply document_passes_ic. pose proof (Ra_Rc s s' HR (proj1 HP) (proj1 HP')) as HC.
    eapply Forall2_impl_c18; [|exact HC]. intros a c. apply Rc_Ric.
  Qed.

  (* ================= the patterns are closed under Rc ================= *)
  Lemma q_plural_congr_c s s' : Forall2 Rc s s' -> q_plural u s' = q_plural u s.
  Proof.
    intros H. pose proof (hostname_token_congr_c s s' H) as HH. unfold q_plural.
    destruct H as [|c0 d0 l l' H0 H]; [reflexivity|]. destruct H as [|c1 d1 l l' H1 H]; [reflexivity|].
    rewrite HH, <- (Rc_alnum c0 d0 H0), <- (Rc_is_s c1 d1 H1), (Rc_la l l' H), <- (Rc_digit c0 d0 H0).
    reflexivity.
  Qed.
  Lemma q_apos_congr_c s s' : Forall2 Rc s s' -> q_apos u s' = q_apos u s.
  Proof.
    intros H. unfold q_apos.
    destruct H as [|c0 d0 l l' H0 H]; [reflexivity|]. destruct H as [|c1 d1 l l' H1 H]; [reflexivity|].
    destruct H as [|c2 d2 l l' H2 H]; [reflexivity|].
    rewrite <- (Rc_alnum c0 d0 H0), <- (Rc_apo c1 d1 H1), <- (Rc_is_s c2 d2 H2), (Rc_la l l' H). reflexivity.
  Qed.
  Lemma q_hex_congr_c s s' : Forall2 Rc s s' -> q_hex s' = q_hex s.
  Proof.
    intros H. unfold q_hex.
    destruct H as [|c0 d0 l l' H0 H]; [reflexivity|]. destruct H as [|c1 d1 l l' H1 H]; [reflexivity|].
    destruct H as [|c2 d2 l l' H2 H]; [reflexivity|].
    rewrite <- (Rc_ceqr 48 c0 d0 eq_refl eq_refl H0), <- (Rc_is_x c1 d1 H1), <- (Rc_hexdigit c2 d2 H2). reflexivity.
  Qed.
  Lemma q_url_congr_c s s' : Forall2 Rc s s' -> q_url s' = q_url s.
  Proof.
    intros H. unfold q_url.
    destruct H as [|c0 d0 l l' H0 H]; [reflexivity|]. destruct H as [|c1 d1 l l' H1 H]; [reflexivity|].
    destruct H as [|c2 d2 l l' H2 H]; [reflexivity|].
    rewrite (Rc_ceqr 58 c0 d0 eq_refl eq_refl H0), (Rc_ceqr 47 c1 d1 eq_refl eq_refl H1),
      (Rc_ceqr 47 c2 d2 eq_refl eq_refl H2). reflexivity.
  Qed.
  Lemma start_ok_congr_c p p' : orel_c p p' -> start_ok u p' = start_ok u p.
  Proof.
    destruct p as [a|]; destruct p' as [c|]; cbn [orel_c start_ok]; try contradiction; [|reflexivity].
    intros H. rewrite (Rc_wch a c H). reflexivity.
  Qed.
  Lemma ctx_ok3_congr_c : forall s s', Forall2 Rc s s' -> forall p p', orel_c p p' -> ctx_ok3 u p' s' = ctx_ok3 u p s.
  Proof.
    intros s s' H. induction H as [|a c l l' Hac Hl IH]; intros p p' Ho; [reflexivity|].
    assert (HF : Forall2 Rc (a :: l) (c :: l')) by (constructor; assumption).
    cbn [ctx_ok3]. unfold q_here.
    pose proof (IH (Some a) (Some c) Hac) as E0. pose proof (q_plural_congr_c _ _ HF) as E1.
    pose proof (q_apos_congr_c _ _ HF) as E2. pose proof (q_hex_congr_c _ _ HF) as E3.
    pose proof (q_url_congr_c _ _ HF) as E4.
    unfold text, char in *. rewrite E0, (start_ok_congr_c p p' Ho), E1, E2, E3, E4. reflexivity.
  Qed.

  (* the class is closed under straightening an apostrophe, provided ' is a character of the class *)
  Lemma alnum_closed_curly s s' : Forall2 Ra s s' -> Alnum u s -> Forall (fun c => char3 u c = true) s' -> Alnum u s'.
  Proof.
    intros HR [HP HC] HP'. split; [exact HP'|].
    rewrite (ctx_ok3_congr_c s s' (Ra_Rc s s' HR HP HP') None None I). exact HC.
  Qed.

  (* ================= Rl4 = an Rl step, then an Ra step, through the class ================= *)
  Lemma rl4_split s s' : Forall2 (Rl4 u) s s' ->
    Forall (fun c => char3 u c = true) s -> Forall (fun c => char3 u c = true) s' ->
    exists m, Forall2 (Rl u) s m /\ Forall2 Ra m s' /\ Forall (fun c => char3 u c = true) m.
  Proof.
    intros H. induction H as [|a c l l' Hac _ IH]; intros P P'; [exists []; repeat split; constructor|].
    inversion P as [|x1 t1 Pa Pl]; subst. inversion P' as [|x2 t2 Pc Pl']; subst.
    destruct (IH Pl Pl') as (m & M1 & M2 & M3).
    destruct Hac as [Hl|[-> ->]].
    - exists (c :: m). repeat split; constructor; try assumption. now left.
    - exists (8217%N :: m). repeat split; constructor; try assumption; [now left|right; split; reflexivity].
  Qed.

  Theorem plain_parse_alnum4 (s s' : text) : Forall2 (Rl4 u) s s' -> Alnum u s -> Alnum u s' ->
    plain_parse u s' = plain_parse u s /\ document_plain u s' = document_plain u s.
  Proof.
    intros HR HP HP'. destruct (rl4_split s s' HR (proj1 HP) (proj1 HP')) as (m & M1 & M2 & M3).
    assert (HM : Alnum u m).
    { split; [exact M3|]. rewrite (ctx_ok3_congr0 u s m M1). exact (proj2 HP). }
    split.
    - rewrite (plain_parse_curly m s' M2 HM HP'). apply (plain_parse_alnum u s m M1 HP HM).
    - rewrite (document_plain_curly m s' M2 HM HP'). apply (document_plain_alnum u s m M1 HP HM).
  Qed.

  (* the class is closed under Rl4 when the image consists of characters of the class *)
  Lemma alnum_closed_rl4 s s' : Forall2 (Rl4 u) s s' -> Alnum u s -> Forall (fun c => char3 u c = true) s' -> Alnum u s'.
  Proof.
    intros HR HP HP'. destruct (rl4_split s s' HR (proj1 HP) HP') as (m & M1 & M2 & M3).
    assert (HM : Alnum u m).
    { split; [exact M3|]. rewrite (ctx_ok3_congr0 u s m M1). exact (proj2 HP). }
    apply (alnum_closed_curly m s' M2 HM HP').
  Qed.
End Curly.

Theorem lex_alnum4_stable u (s s' : text) : Forall2 (Rl4 u) s s' -> Alnum u s -> Alnum u s' ->
  plain_parse u s' = plain_parse u s /\ document_plain u s' = document_plain u s.
Proof. apply plain_parse_alnum4. Qed.

Theorem lex_curly_stable u (s s' : text) : Forall2 Ra s s' -> Alnum u s -> Alnum u s' ->
  plain_parse u s' = plain_parse u s /\ document_plain u s' = document_plain u s.
Proof. intros HR HP HP'. split; [apply plain_parse_curly|apply document_plain_curly]; assumption. Qed.
