(* C13CallersProofs.v — the property's "hence" sentence, end to end, for the compositions the callers
   of remove_overlaps have around it (Model/C13Callers.v). *)
Require Import Base Overlap Suggestion ListLemmas OverlapProofs SuggestionProofs BackToFront C13Algebra C13Callers.
From Coq Require Import Sorting.Sorted Sorting.Permutation.

Definition in_text (src : text) (l : lint) : Prop := lend l <= length src.

Lemma fix_all_edits sug src ks : fix_all sug src ks = apply_back_to_front src (edits sug ks).
Proof. reflexivity. Qed.

(* any sub-list of what remove_overlaps keeps can be fixed in one pass, in LIST order last to first:
   the list order is the text order (ro_sorted_start), consecutive kept lints do not touch *)
Theorem fix_sublist src sug raw ks :
  Forall lwf raw -> Forall (in_text src) raw -> subseq ks (remove_overlaps raw) ->
  fix_all sug src ks = Ok (splice_sim 0 src (edits sug ks)).
Proof.
  intros W B Sub. rewrite fix_all_edits.
  assert (forall k, In k ks -> In k raw) as Hin
    by (intros k Hk; apply ro_kept_in; eapply subseq_In; eassumption).
  rewrite (back_to_front_spec src _ 0); [reflexivity|].
  apply chain_of_kept.
  - apply Forall_forall. intros k Hk. rewrite Forall_forall in W. now apply W, Hin.
  - apply Forall_forall. intros k Hk. rewrite Forall_forall in B. now apply B, Hin.
  - lia.
  - apply Forall_forall. intros; lia.
  - eapply subseq_FOP; [exact Sub|].
    pose proof (ro_disjoint raw W) as D. clear -D.
    induction D as [|a l Ha D IH]; constructor; [|exact IH].
    eapply Forall_impl; [|exact Ha]. intros b [H _]. exact H.
Qed.

(* ---------- harper-wasm Linter::lint ---------- *)
Lemma remove_ignored_subseq e ig ls : subseq (remove_ignored e ig ls) ls.
Proof. unfold remove_ignored. destruct e; [apply subseq_refl|apply filter_subseq]. Qed.

Lemma wasm_lint_subseq e ig raw : subseq (wasm_lint e ig raw) (remove_overlaps raw).
Proof. apply remove_ignored_subseq. Qed.

Theorem wasm_lint_spec e ig raw : Forall lwf raw ->
  subseq (wasm_lint e ig raw) (lsort raw) /\
  ForallOrdPairs disjoint_pair (wasm_lint e ig raw) /\
  StronglySorted (fun a b => lstart a <= lstart b) (wasm_lint e ig raw) /\
  (e = false -> forall l, In l (wasm_lint e ig raw) -> ig l = false) /\
  (forall d, In d raw -> ~ In d (wasm_lint e ig raw) ->
     (e = false /\ ig d = true) \/
     exists k, In k (remove_overlaps raw) /\ lstart k <= lstart d < lend k).
Proof.
  intros W. split; [|split; [|split; [|split]]].
  - eapply subseq_trans; [apply wasm_lint_subseq|]. apply ro_sublist.
  - eapply subseq_FOP; [apply wasm_lint_subseq|]. now apply ro_disjoint.
  - eapply subseq_sorted; [apply wasm_lint_subseq|]. apply ro_sorted_start.
  - intros -> l Hl. unfold wasm_lint, remove_ignored in Hl. apply filter_In in Hl as [_ Hl].
    now apply negb_true_iff in Hl.
  - intros d Hd Hn.
    destruct (ro_sublist raw) as [_ [_ P]].
    assert (In d (remove_overlaps raw ++ dropped raw)) as Hd'
      by (eapply Permutation_in; [symmetry; exact P|exact Hd]).
    apply in_app_or in Hd' as [Hk|Hdrop].
    + left. unfold wasm_lint, remove_ignored in Hn. destruct e; [contradiction|].
      split; [reflexivity|]. destruct (ig d) eqn:G; [reflexivity|].
      exfalso. apply Hn. apply filter_In. split; [exact Hk|]. now rewrite G.
    + right. now apply ro_dropped_inside.
Qed.

Theorem wasm_fix_all e ig sug src raw :
  Forall lwf raw -> Forall (in_text src) raw ->
  fix_all sug src (wasm_lint e ig raw) = Ok (splice_sim 0 src (edits sug (wasm_lint e ig raw))).
Proof. intros W B. apply (fix_sublist src sug raw); try assumption. apply wasm_lint_subseq. Qed.

(* a lint that is NOT ignored can vanish without any reported lint covering its start: it lost
   against a lint that is itself hidden afterwards (overlap removal runs before the ignore filter) *)
Lemma wasm_shadowed_by_ignored :
  let raw := [mklint (mkspan 0 6) 0; mklint (mkspan 2 4) 1] in
  let ig l := lid l =? 0 in
  wasm_lint false ig raw = [] /\ ig (mklint (mkspan 2 4) 1) = false.
Proof. cbv zeta. split; vm_compute; reflexivity. Qed.

(* ---------- harper-cli, lint command ---------- *)
Theorem cli_lint_spec count raw :
  (count = true -> cli_lint count raw = CliCount (length raw)) /\
  (count = false -> raw = [] -> cli_lint count raw = CliNoLints) /\
  (count = false -> raw <> [] -> cli_lint count raw = CliLabels (remove_overlaps raw)).
Proof.
  split; [|split].
  - intros ->. reflexivity.
  - intros -> ->. reflexivity.
  - intros -> H. destruct raw; [contradiction|reflexivity].
Qed.

Theorem cli_labels_fix_all count sug src raw ks :
  Forall lwf raw -> Forall (in_text src) raw -> cli_lint count raw = CliLabels ks ->
  ks = remove_overlaps raw /\ ForallOrdPairs disjoint_pair ks /\
  fix_all sug src ks = Ok (splice_sim 0 src (edits sug ks)).
Proof.
  intros W B H. assert (ks = remove_overlaps raw) as ->.
  { unfold cli_lint in H. destruct count; [discriminate|]. destruct raw; [discriminate|]. now injection H. }
  split; [reflexivity|]. split; [now apply ro_disjoint|].
  apply (fix_sublist src sug raw); try assumption. apply subseq_refl.
Qed.

(* --count prints the number of lints BEFORE overlap removal: it can exceed the number of labels *)
Lemma cli_count_counts_raw :
  let raw := [mklint (mkspan 0 6) 0; mklint (mkspan 2 4) 1] in
  cli_lint true raw = CliCount 2 /\ cli_lint false raw = CliLabels [mklint (mkspan 0 6) 0].
Proof. cbv zeta. split; vm_compute; reflexivity. Qed.

(* ---------- merge_linters! ---------- *)
Theorem merge_lint_spec subs : Forall (Forall lwf) subs ->
  (forall k, In k (merge_lint subs) -> exists s, In s subs /\ In k s) /\
  ForallOrdPairs disjoint_pair (merge_lint subs) /\
  remove_overlaps (merge_lint subs) = merge_lint subs.
Proof.
  intros W. split; [|split].
  - intros k Hk. apply ro_kept_in in Hk. apply in_concat in Hk as [s [Hs Hk]]. now exists s.
  - apply ro_disjoint. apply Forall_concat. exact W.
  - apply ro_idempotent.
Qed.

Theorem merge_fix_all sug src subs :
  Forall (Forall lwf) subs -> Forall (Forall (in_text src)) subs ->
  fix_all sug src (merge_lint subs) = Ok (splice_sim 0 src (edits sug (merge_lint subs))).
Proof.
  intros W B. apply (fix_sublist src sug (concat subs)).
  - now apply Forall_concat.
  - now apply Forall_concat.
  - apply subseq_refl.
Qed.

(* a merged linter's output goes through remove_overlaps once more in the wasm / CLI callers,
   together with the lints of every other rule; on its own it would be left alone *)
Lemma merge_then_again subs : wasm_lint true (fun _ => false) (merge_lint subs) = merge_lint subs.
Proof. unfold wasm_lint, remove_ignored. apply ro_idempotent. Qed.

(* ---------- CurrencyPlacement ---------- *)
Lemma gen_pair_wf wrong a b sp : gen_pair wrong a b = Ok (Some sp) ->
  span_wf sp /\ sstart sp = sstart (cspan a) /\ send sp = send (cspan b).
Proof.
  unfold gen_pair. destruct (negb _); [discriminate|]. destruct (negb _); [discriminate|].
  unfold span_new. destruct (send (cspan b) <? sstart (cspan a)) eqn:E; [discriminate|].
  cbn [bind sstart send]. destruct (wrong _ _); [|discriminate].
  intros H. injection H as <-. apply Nat.ltb_ge in E. unfold span_wf. cbn [sstart send]. lia.
Qed.

Definition cand_ok (n : nat) (sp : span) : Prop := span_wf sp /\ send sp <= n.
Definition toks_in (n : nat) (c : list ctok) : Prop := Forall (fun t => send (cspan t) <= n) c.

Lemma gen_pair_ok wrong n a b o : send (cspan b) <= n -> gen_pair wrong a b = Ok o ->
  Forall (cand_ok n) (opt_list o).
Proof.
  intros Hb H. destruct o as [sp|]; [|constructor]. apply gen_pair_wf in H as [H1 [_ H3]].
  constructor; [|constructor]. split; [exact H1|]. now rewrite H3.
Qed.

Lemma windows2_eq wrong a b t :
  windows2 wrong (a :: b :: t) = (do o <- gen_pair wrong a b; do r <- windows2 wrong (b :: t); Ok (opt_list o ++ r)).
Proof. reflexivity. Qed.
Lemma windows4_eq wrong p a b c t :
  windows4 wrong (p :: a :: b :: c :: t) =
  (do o <- (if negb (ck_is_space (ck b)) || ck_is_currency (ck p) then Ok None else gen_pair wrong a c);
   do r <- windows4 wrong (a :: b :: c :: t); Ok (opt_list o ++ r)).
Proof. reflexivity. Qed.

Lemma windows2_ok wrong n : forall c r, toks_in n c -> windows2 wrong c = Ok r -> Forall (cand_ok n) r.
Proof.
  induction c as [|a t IH]; intros r T H; [injection H as <-; constructor|].
  destruct t as [|b t']; [injection H as <-; constructor|].
  rewrite windows2_eq in H. destruct (gen_pair wrong a b) as [o|] eqn:G; [|discriminate]. cbn [bind] in H.
  destruct (windows2 wrong (b :: t')) as [r'|] eqn:R; [|discriminate]. cbn [bind] in H. injection H as <-.
  inversion T as [|? ? _ T']; subst. apply Forall_app. split.
  - eapply gen_pair_ok; [|exact G]. now inversion T'.
  - now apply IH.
Qed.

Lemma first_triple_ok wrong n c r : toks_in n c -> first_triple wrong c = Ok r -> Forall (cand_ok n) r.
Proof.
  intros T H. destruct c as [|a [|b [|c' t]]]; try (injection H as <-; constructor).
  cbn [first_triple] in H. destruct (ck_is_space (ck b)); [|injection H as <-; constructor].
  destruct (gen_pair wrong a c') as [o|] eqn:G; [|discriminate]. cbn [bind] in H. injection H as <-.
  eapply gen_pair_ok; [|exact G]. inversion T as [|? ? _ T1]; subst. inversion T1 as [|? ? _ T2]; subst.
  now inversion T2.
Qed.

Lemma windows4_ok wrong n : forall c r, toks_in n c -> windows4 wrong c = Ok r -> Forall (cand_ok n) r.
Proof.
  induction c as [|p t IH]; intros r T H; [injection H as <-; constructor|].
  destruct t as [|a [|b [|c' t']]]; try (injection H as <-; constructor).
  rewrite windows4_eq in H.
  destruct (if negb (ck_is_space (ck b)) || ck_is_currency (ck p) then Ok None else gen_pair wrong a c')
    as [o|] eqn:G; [|discriminate].
  cbn [bind] in H.
  destruct (windows4 wrong (a :: b :: c' :: t')) as [r'|] eqn:R; [|discriminate]. cbn [bind] in H.
  injection H as <-. inversion T as [|? ? _ T0]; subst. apply Forall_app. split.
  - destruct (negb (ck_is_space (ck b)) || ck_is_currency (ck p)).
    + injection G as <-. constructor.
    + eapply gen_pair_ok; [|exact G]. inversion T0 as [|? ? _ T1]; subst. inversion T1 as [|? ? _ T2]; subst.
      now inversion T2.
  - now apply IH.
Qed.

Lemma currency_cands_ok wrong n : forall chunks r, Forall (toks_in n) chunks ->
  currency_cands wrong chunks = Ok r -> Forall (cand_ok n) r.
Proof.
  induction chunks as [|c cs IH]; intros r T H; [injection H as <-; constructor|].
  cbn [currency_cands] in H. unfold chunk_cands in H.
  destruct (windows2 wrong c) as [x|] eqn:X; [|discriminate]. cbn [bind] in H.
  destruct (first_triple wrong c) as [y|] eqn:Y; [|discriminate]. cbn [bind] in H.
  destruct (windows4 wrong c) as [z|] eqn:Z; [|discriminate]. cbn [bind] in H.
  destruct (currency_cands wrong cs) as [r'|] eqn:R; [|discriminate]. cbn [bind] in H. injection H as <-.
  inversion T as [|? ? Tc Tcs]; subst. repeat (apply Forall_app; split).
  - eapply windows2_ok; eassumption.
  - eapply first_triple_ok; eassumption.
  - eapply windows4_ok; eassumption.
  - now apply IH.
Qed.

Lemma number_from_ok (P : lint -> Prop) (Q : span -> Prop) : (forall s i, Q s -> P (mklint s i)) ->
  forall l i, Forall Q l -> Forall P (number_from i l).
Proof.
  intros H. induction l as [|s t IH]; intros i F; cbn [number_from]; [constructor|].
  inversion F; subst. constructor; [now apply H|now apply IH].
Qed.

(* whenever CurrencyPlacement::lint returns (Span::new did not panic), with the tokens inside the
   text, its lints are pairwise disjoint and can be fixed in one pass back to front *)
Theorem currency_fix_all wrong sug src chunks ls :
  Forall (toks_in (length src)) chunks -> currency_lint wrong chunks = Ok ls ->
  ForallOrdPairs disjoint_pair ls /\ remove_overlaps ls = ls /\
  fix_all sug src ls = Ok (splice_sim 0 src (edits sug ls)).
Proof.
  intros T H. unfold currency_lint in H.
  destruct (currency_cands wrong chunks) as [cs|] eqn:C; [|discriminate]. cbn [bind] in H. injection H as <-.
  pose proof (currency_cands_ok wrong _ chunks cs T C) as OK.
  assert (Forall lwf (number_from 0 cs)) as W.
  { apply (number_from_ok lwf (cand_ok (length src))); [|exact OK]. intros s i [H1 _]. exact H1. }
  assert (Forall (in_text src) (number_from 0 cs)) as B.
  { apply (number_from_ok (in_text src) (cand_ok (length src))); [|exact OK]. intros s i [_ H2]. exact H2. }
  split; [now apply ro_disjoint|]. split; [apply ro_idempotent|].
  apply (fix_sublist src sug (number_from 0 cs)); try assumption. apply subseq_refl.
Qed.

(* with the tokens of a chunk in order (start of an earlier token <= end of a later one: the C02
   invariant) Span::new never panics, so the function is total *)
Definition toks_ordered (c : list ctok) : Prop :=
  ForallOrdPairs (fun a b => sstart (cspan a) <= send (cspan b)) c.

Lemma gen_pair_total wrong a b : sstart (cspan a) <= send (cspan b) -> exists o, gen_pair wrong a b = Ok o.
Proof.
  intros H. unfold gen_pair. destruct (negb _); [eexists; reflexivity|]. destruct (negb _); [eexists; reflexivity|].
  unfold span_new. destruct (send (cspan b) <? sstart (cspan a)) eqn:E; [apply Nat.ltb_lt in E; lia|].
  cbn [bind]. destruct (wrong _ _); eexists; reflexivity.
Qed.

Lemma ord_tail a l : toks_ordered (a :: l) -> toks_ordered l.
Proof. unfold toks_ordered. now inversion 1. Qed.
Lemma ord_head a l y : toks_ordered (a :: l) -> In y l -> sstart (cspan a) <= send (cspan y).
Proof. unfold toks_ordered. inversion 1 as [|? ? F _]; subst. rewrite Forall_forall in F. apply F. Qed.

Lemma windows2_total wrong : forall c, toks_ordered c -> exists r, windows2 wrong c = Ok r.
Proof.
  induction c as [|a t IH]; intros O; [eexists; reflexivity|].
  destruct t as [|b t']; [eexists; reflexivity|]. rewrite windows2_eq.
  destruct (gen_pair_total wrong a b) as [o ->]; [apply (ord_head a _ b O); now left|]. cbn [bind].
  destruct (IH (ord_tail _ _ O)) as [r ->]. cbn [bind]. eexists; reflexivity.
Qed.

Lemma first_triple_total wrong c : toks_ordered c -> exists r, first_triple wrong c = Ok r.
Proof.
  intros O. destruct c as [|a [|b [|c' t]]]; try (eexists; reflexivity). cbn [first_triple].
  destruct (ck_is_space (ck b)); [|eexists; reflexivity].
  destruct (gen_pair_total wrong a c') as [o ->]; [apply (ord_head a _ c' O); right; now left|].
  cbn [bind]. eexists; reflexivity.
Qed.

Lemma windows4_total wrong : forall c, toks_ordered c -> exists r, windows4 wrong c = Ok r.
Proof.
  induction c as [|p t IH]; intros O; [eexists; reflexivity|].
  destruct t as [|a [|b [|c' t']]]; try (eexists; reflexivity). rewrite windows4_eq.
  assert (exists o, (if negb (ck_is_space (ck b)) || ck_is_currency (ck p) then Ok None else gen_pair wrong a c') = Ok o) as [o ->].
  { destruct (negb (ck_is_space (ck b)) || ck_is_currency (ck p)); [eexists; reflexivity|].
    apply gen_pair_total. apply (ord_head a _ c' (ord_tail _ _ O)). right; now left. }
  cbn [bind]. destruct (IH (ord_tail _ _ O)) as [r ->]. cbn [bind]. eexists; reflexivity.
Qed.

Theorem currency_lint_total wrong chunks : Forall toks_ordered chunks -> exists ls, currency_lint wrong chunks = Ok ls.
Proof.
  intros O. unfold currency_lint.
  assert (exists cs, currency_cands wrong chunks = Ok cs) as [cs ->]; [|cbn [bind]; eexists; reflexivity].
  induction chunks as [|c rest IH]; [eexists; reflexivity|]. inversion O as [|? ? Oc Or]; subst.
  cbn [currency_cands]. unfold chunk_cands.
  destruct (windows2_total wrong c Oc) as [x ->]. cbn [bind].
  destruct (first_triple_total wrong c Oc) as [y ->]. cbn [bind].
  destruct (windows4_total wrong c Oc) as [z ->]. cbn [bind].
  destruct (IH Or) as [r ->]. cbn [bind]. eexists; reflexivity.
Qed.

(* "5 $ 6": the first triple flags "5 $", the window of four flags "$ 6"; they share the "$" and the
   later one is dropped *)
Lemma currency_example :
  let chunk := [mkctok CkNumber (mkspan 0 1); mkctok CkSpace (mkspan 1 2); mkctok CkCurrency (mkspan 2 3);
                mkctok CkSpace (mkspan 3 4); mkctok CkNumber (mkspan 4 5)] in
  toks_ordered chunk /\ toks_in 5 chunk /\
  currency_cands (fun _ _ => true) [chunk] = Ok [mkspan 0 3; mkspan 2 5] /\
  currency_lint (fun _ _ => true) [chunk] = Ok [mklint (mkspan 0 3) 0].
Proof.
  cbv zeta. split; [|split; [|split]].
  - unfold toks_ordered. repeat (constructor; [repeat constructor; cbn; lia|]). constructor.
  - unfold toks_in. repeat constructor; cbn; lia.
  - vm_compute. reflexivity.
  - vm_compute. reflexivity.
Qed.

(* non-vacuity of the end-to-end statements: a raw list with a nested, an ignored and a free lint *)
Lemma callers_example :
  let raw := [mklint (mkspan 5 8) 0; mklint (mkspan 0 3) 1; mklint (mkspan 6 7) 2; mklint (mkspan 3 4) 3] in
  let ig l := lid l =? 3 in
  let sug l := ReplaceWith [N.of_nat (lid l)] in
  let src := [10; 11; 12; 13; 14; 15; 16; 17; 18]%N in
  Forall lwf raw /\ Forall (in_text src) raw /\
  map lid (wasm_lint false ig raw) = [1; 0] /\
  fix_all sug src (wasm_lint false ig raw) = Ok [1; 13; 14; 0; 18]%N /\
  cli_lint false raw = CliLabels [mklint (mkspan 0 3) 1; mklint (mkspan 3 4) 3; mklint (mkspan 5 8) 0] /\
  merge_lint [[mklint (mkspan 5 8) 0; mklint (mkspan 0 3) 1]; [mklint (mkspan 6 7) 2]]
    = [mklint (mkspan 0 3) 1; mklint (mkspan 5 8) 0].
Proof.
  cbv zeta. split; [repeat constructor|]. split; [repeat constructor; cbn; lia|].
  repeat split; vm_compute; reflexivity.
Qed.
