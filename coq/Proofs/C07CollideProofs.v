(* C07CollideProofs.v — characterisation of the F20 and F15 collision classes (Model/C07Collide.v). *)
Require Import Base DictIO DictIOProofs C07Collide.
From Coq Require Import Permutation.

(* ---------------------------------------------------------------------------------------------- *)
(*  F20                                                                                             *)
(* ---------------------------------------------------------------------------------------------- *)
Lemma mangle_app : forall a b, mangle (a ++ b) = mangle a ++ mangle b.
Proof. intros. unfold mangle. apply flat_map_app. Qed.
(* joining the pieces of a split gives the text back *)
Lemma mangle_split : forall s cur, mangle (split_on PCT cur s) = cur ++ s ++ [PCT].
Proof.
  induction s as [|c r IH]; intro cur; cbn [split_on].
  - unfold mangle. cbn [flat_map app]. now rewrite app_nil_r.
  - destruct (N.eqb c PCT) eqn:E.
    + apply N.eqb_eq in E. subst c. change (cur :: split_on PCT [] r) with ([cur] ++ split_on PCT [] r).
      rewrite mangle_app, IH. unfold mangle. cbn [flat_map app]. rewrite app_nil_r. now rewrite <- app_assoc.
    + rewrite IH. rewrite <- app_assoc. reflexivity.
Qed.
Lemma split_no_pct : forall s cur, no_pct cur -> Forall no_pct (split_on PCT cur s).
Proof.
  induction s as [|c r IH]; intros cur Hc; cbn [split_on]; [now constructor|].
  destruct (N.eqb c PCT) eqn:E.
  - constructor; [exact Hc|]. apply IH. intros [].
  - apply IH. intro H. apply in_app_or in H. destruct H as [H|[H|[]]]; [now apply Hc|].
    subst c. now rewrite N.eqb_refl in E.
Qed.
Lemma mangle_pct_split : forall segs, mangle (pct_split segs) = mangle segs.
Proof.
  induction segs as [|x r IH]; [reflexivity|]. unfold pct_split in *. cbn [flat_map]. rewrite mangle_app, IH, mangle_split.
  reflexivity.
Qed.
Lemma pct_split_no_pct : forall segs, Forall no_pct (pct_split segs).
Proof.
  induction segs as [|x r IH]; [constructor|]. unfold pct_split in *. cbn [flat_map]. apply Forall_app. split; [|exact IH].
  apply split_no_pct. intros [].
Qed.
Lemma lweqb_eq : forall a b, lweqb a b = true <-> a = b.
Proof.
  induction a as [|x a IH]; intros [|y b]; cbn [lweqb]; split; intro H; try discriminate; try reflexivity.
  - apply andb_true_iff in H. destruct H as [H1 H2]. apply weqb_eq in H1. apply IH in H2. now subst.
  - inversion H; subst. rewrite weqb_refl. now apply IH.
Qed.
Lemma mangle_nil : forall a, mangle a = [] -> a = [].
Proof. intros [|x a] H; [reflexivity|]. unfold mangle in H. cbn [flat_map] in H. destruct x; discriminate. Qed.

(* the class: same dictionary file <-> same pieces between '%' characters *)
Theorem f20_class : forall p q,
  file_dict_name (FileUrl p) = file_dict_name (FileUrl q) <-> pct_split (components p) = pct_split (components q).
Proof.
  intros p q. split; intro H.
  - apply mangle_inj; try apply pct_split_no_pct. rewrite !mangle_pct_split. cbn [file_dict_name] in H.
    destruct (mangle (components p)) as [|a l]; destruct (mangle (components q)) as [|b m]; try discriminate;
      [reflexivity|now inversion H].
  - cbn [file_dict_name]. rewrite <- (mangle_pct_split (components p)), <- (mangle_pct_split (components q)), H. reflexivity.
Qed.
Corollary f20_class_dec : forall p q,
  x_f20_collide p q = true <-> file_dict_name (FileUrl p) = file_dict_name (FileUrl q).
Proof. intros p q. unfold x_f20_collide. rewrite lweqb_eq. symmetry. apply f20_class. Qed.
(* two different files can only collide when a component of one of them contains '%' *)
Corollary f20_needs_pct : forall p q,
  components p <> components q -> file_dict_name (FileUrl p) = file_dict_name (FileUrl q) ->
  ~ (Forall no_pct (components p) /\ Forall no_pct (components q)).
Proof. intros p q Hne E [Hp Hq]. apply Hne. now apply file_dict_name_inj. Qed.

(* ---------------------------------------------------------------------------------------------- *)
(*  F15                                                                                             *)
(* ---------------------------------------------------------------------------------------------- *)
Section F15.
  Variable is_lower : N -> bool.
  Variable lower : N -> list N.
  Variable iter_order : list word -> list word.
  Hypothesis iter_perm : forall l, Permutation (iter_order l) l.
  Notation wid := (word_id is_lower lower).
  Notation append_word := (append_word is_lower lower).
  Notation extend_words := (extend_words is_lower lower).
  Notation dict_at := (dict_at is_lower lower).
  Notation add_to := (add_to is_lower lower iter_order).
  Notation dict_wf := (dict_wf is_lower lower).
  Notation last_same_id := (last_same_id is_lower lower).

  Lemma extend_lookup_last : forall ws D k,
    lookup k (extend_words D ws) = match last_same_id k ws with Some x => Some (x, true) | None => lookup k D end.
  Proof.
    induction ws as [|a ws IH] using rev_ind; intros D k; [reflexivity|].
    rewrite extend_snoc. unfold C07Collide.last_same_id. rewrite rev_unit. cbn [find].
    unfold DictIO.append_word. destruct (weqb (wid a) k) eqn:E.
    - apply weqb_eq in E. subst k. apply lookup_insert_same.
    - apply weqb_neq in E. rewrite lookup_insert_other by congruence. apply IH.
  Qed.

  Lemma wf_in_words : forall d w, dict_wf d -> (In w (words_of d) <-> lookup (wid w) d = Some (w, true)).
  Proof.
    intros d w Hwf. split; intro H.
    - apply in_lookup; [apply Hwf|]. now apply wf_word_key.
    - apply lookup_in in H. unfold words_of. apply in_map_iff. exists (wid w, (w, true)). now split.
  Qed.

  Lemma append_equiv : forall a b w, dict_equiv a b -> dict_equiv (append_word a w) (append_word b w).
  Proof.
    intros a b w E k. unfold DictIO.append_word. destruct (weqb k (wid w)) eqn:X.
    - apply weqb_eq in X. subst k. now rewrite !lookup_insert_same.
    - apply weqb_neq in X. now rewrite !lookup_insert_other.
  Qed.

  Definition adds_to (p : path) (ws : list word) (s : fsys) : fsys := fold_left (fun s w => add_to p w s) ws s.

  (* a run of adds to one dictionary file is extend_words on what the file held *)
  Lemma adds_to_spec : forall p ws s, fs_ok is_lower lower s -> is_tmp p = false -> Forall line_safe ws ->
    dict_equiv (dict_at p (adds_to p ws s)) (extend_words (dict_at p s) ws) /\ fs_ok is_lower lower (adds_to p ws s).
  Proof.
    intros p. induction ws as [|a ws IH] using rev_ind; intros s Hok Hp Hs.
    - split; [intro k; reflexivity|exact Hok].
    - apply Forall_app in Hs. destruct Hs as [Hs Ha]. inversion Ha as [|? ? Hla _]; subst.
      destruct (IH s Hok Hp Hs) as [E Hok']. unfold adds_to in *. rewrite fold_left_app. cbn [fold_left].
      destruct (add_to_spec is_lower lower iter_order iter_perm p a _ Hok' Hp Hla) as [E1 [Hok2 _]].
      split; [|exact Hok2]. rewrite extend_snoc. intro k. rewrite E1. now apply append_equiv.
  Qed.

  (* THE F15 class (reload side): a word added to a dictionary is in the reloaded file iff no LATER add to the same
     dictionary was the last one with its id and spelt differently *)
  Theorem f15_reload_class : forall p s pre w post,
    fs_ok is_lower lower s -> is_tmp p = false -> Forall line_safe (pre ++ w :: post) ->
    (In w (words_of (dict_at p (adds_to p (pre ++ w :: post) s))) <->
     forall x, last_same_id (wid w) post = Some x -> x = w).
  Proof.
    intros p s pre w post Hok Hp Hs. destruct (adds_to_spec p _ s Hok Hp Hs) as [E _].
    rewrite wf_in_words by apply wf_dict_at. rewrite E.
    replace (pre ++ w :: post) with ((pre ++ [w]) ++ post) by (rewrite <- app_assoc; reflexivity).
    unfold DictIO.extend_words. rewrite fold_left_app. fold (extend_words (dict_at p s) (pre ++ [w])).
    fold (extend_words (extend_words (dict_at p s) (pre ++ [w])) post). rewrite extend_lookup_last.
    destruct (last_same_id (wid w) post) as [x|].
    - split; intro H; [intros y Hy; inversion Hy; subst y; now inversion H|now rewrite (H x eq_refl)].
    - split; [intros _ x Hx; discriminate|intros _]. rewrite extend_snoc. unfold DictIO.append_word. apply lookup_insert_same.
  Qed.

  (* ... and the spelling found instead is that later one *)
  Theorem f15_reload_winner : forall p s pre w post x,
    fs_ok is_lower lower s -> is_tmp p = false -> Forall line_safe (pre ++ w :: post) ->
    last_same_id (wid w) post = Some x ->
    In x (words_of (dict_at p (adds_to p (pre ++ w :: post) s))) /\ wid x = wid w /\ In x post.
  Proof.
    intros p s pre w post x Hok Hp Hs Hl. destruct (adds_to_spec p _ s Hok Hp Hs) as [E _].
    pose proof Hl as Hl2. unfold C07Collide.last_same_id in Hl2. apply find_some in Hl2. destruct Hl2 as [Hin Hid].
    apply weqb_eq in Hid. split; [|split; [exact Hid|now apply in_rev]].
    rewrite wf_in_words by apply wf_dict_at. rewrite E, Hid.
    replace (pre ++ w :: post) with ((pre ++ [w]) ++ post) by (rewrite <- app_assoc; reflexivity).
    unfold DictIO.extend_words. rewrite fold_left_app. fold (extend_words (dict_at p s) (pre ++ [w])).
    fold (extend_words (extend_words (dict_at p s) (pre ++ [w])) post). rewrite extend_lookup_last. now rewrite Hl.
  Qed.
End F15.
