(* C08DocStateProofs.v — proofs about Model/C08DocState.v:
   A. the u32 casts: identity exactly on texts with < 2^32 line ends and lines narrower than 2^32 UTF-16
      units; what happens at the bound (the truncation branch);
   B. DocumentState as a state machine: generate_* leave the state alone, a history leaves behind what its
      operations say, every code-action answer is the single-shot answer for the CURRENT document;
   C. end to end over histories: at any character of any visible lint, addressed by the position harper
      publishes, the answer holds that lint's ignore command and, per suggestion, an edit whose application
      by a client is Suggestion::apply;
   D. the handler glue (unknown url, HarperIgnoreLint round trip). *)
Require Import Base Suggestion PosConv ListLemmas SuggestionProofs PosConvProofs Tables_posconvcasts C08DocState.

(* ------------------------------------------------------------------------------------------ *)
(*  A. u32                                                                                      *)
(* ------------------------------------------------------------------------------------------ *)
Lemma u32_modulus_nonzero : u32_modulus <> 0%N.
Proof. unfold u32_modulus. apply N.pow_nonzero. discriminate. Qed.

Lemma as_u32_small (x : nat) : fits_u32 x -> as_u32 x = x.
Proof.
  unfold fits_u32, as_u32. intros H. rewrite N.mod_small by exact H. apply Nat2N.id.
Qed.

Lemma as_u32_fits (x : nat) : fits_u32 (as_u32 x).
Proof.
  unfold fits_u32, as_u32. rewrite N2Nat.id. apply N.mod_lt. exact u32_modulus_nonzero.
Qed.

(* exactly 2^32 becomes 0 *)
Lemma as_u32_wrap : as_u32 (N.to_nat u32_modulus) = 0.
Proof.
  unfold as_u32. rewrite N2Nat.id, N.mod_same by exact u32_modulus_nonzero. reflexivity.
Qed.

Lemma fits_u32_le (x y : nat) : y <= x -> fits_u32 x -> fits_u32 y.
Proof. unfold fits_u32. intros H1 H2. lia. Qed.

Lemma not_fits_modulus : ~ fits_u32 (N.to_nat u32_modulus).
Proof. unfold fits_u32. rewrite N2Nat.id. apply N.lt_irrefl. Qed.

Lemma modulus_nat_nonzero : N.to_nat u32_modulus <> 0.
Proof. intros H. apply u32_modulus_nonzero. apply N2Nat.inj. rewrite H. reflexivity. Qed.

Lemma widest_ge_cur (t : text) : forall cur, cur <= widest t cur.
Proof.
  induction t as [|c t IH]; intros cur; cbn [widest]; [lia|].
  destruct (is_nl c); [lia|]. specialize (IH (cur + len_utf16 c)). lia.
Qed.

Lemma widest_line (ln : text) : forall cur rest, nonl ln -> cur + sum_utf16 ln <= widest (ln ++ rest) cur.
Proof.
  induction ln as [|c ln IH]; intros cur rest H.
  - cbn [sum_utf16 fold_right app]. pose proof (widest_ge_cur rest cur). lia.
  - apply nonl_inv in H. destruct H as [Hc Hln]. cbn [app widest]. rewrite Hc.
    rewrite sum_utf16_cons. specialize (IH (cur + len_utf16 c) rest Hln). lia.
Qed.

Lemma widest_after_lines (P' : text) : forall cur x, widest x 0 <= widest ((P' ++ [NL]) ++ x) cur.
Proof.
  induction P' as [|c P' IH]; intros cur x.
  - cbn [app widest]. rewrite is_nl_NL. lia.
  - cbn [app widest]. destruct (is_nl c).
    + specialize (IH 0 x). lia.
    + apply IH.
Qed.

Lemma count_nl_firstn_le (t : text) (i : nat) : count_nl (firstn i t) <= count_nl t.
Proof.
  rewrite <- (firstn_skipn i t) at 2. rewrite count_nl_app. lia.
Qed.

(* what index_to_position can answer: at most count_nl t lines, at most the widest line *)
Lemma index_to_position_bounds (t : text) (i l c : nat) :
  index_to_position t i = Ok (l, c) -> l <= count_nl t /\ c <= widest t 0.
Proof.
  intros E.
  assert (i <= length t) as Hi.
  { destruct (Nat.le_gt_cases i (length t)) as [H|H]; [exact H|].
    rewrite (index_to_position_rejects t i H) in E. discriminate. }
  destruct (index_to_position_value t i Hi) as [P [ln [Ef [HP [Hln E2]]]]].
  rewrite E in E2. injection E2 as -> ->. split; [apply count_nl_firstn_le|].
  rewrite <- (firstn_skipn i t), Ef, <- app_assoc.
  destruct HP as [->|[P' ->]].
  - cbn [app]. pose proof (widest_line ln 0 (skipn i t) Hln). lia.
  - pose proof (widest_after_lines P' 0 (ln ++ skipn i t)).
    pose proof (widest_line ln 0 (skipn i t) Hln). lia.
Qed.

(* inside the bound the casts are the identity: every theorem about index_to_position / span_to_range /
   text_edit holds for the code with its casts *)
Theorem index_to_position_u32_exact (t : text) (i : nat) :
  text_fits_u32 t -> index_to_position_u32 t i = index_to_position t i.
Proof.
  intros [Hl Hc]. unfold index_to_position_u32.
  destruct (index_to_position t i) as [[l c]|w] eqn:E; [|reflexivity].
  destruct (index_to_position_bounds t i l c E) as [B1 B2]. cbn [bind fst snd].
  rewrite (as_u32_small l) by (eapply fits_u32_le; eassumption).
  rewrite (as_u32_small c) by (eapply fits_u32_le; eassumption). reflexivity.
Qed.

Theorem span_to_range_u32_exact (t : text) (sp : span) :
  text_fits_u32 t -> span_to_range_u32 t sp = span_to_range t sp.
Proof.
  intros H. unfold span_to_range_u32, span_to_range. now rewrite !(index_to_position_u32_exact t _ H).
Qed.

Theorem text_edit_u32_exact (s : suggestion) (sp : span) (t : text) :
  text_fits_u32 t -> text_edit_u32 s sp t = text_edit s sp t.
Proof.
  intros H. unfold text_edit_u32, text_edit. now rewrite (span_to_range_u32_exact t sp H).
Qed.

(* whatever the text: the answer of the code is the exact answer reduced modulo 2^32, componentwise *)
Theorem index_to_position_u32_value (t : text) (i l c : nat) :
  index_to_position t i = Ok (l, c) ->
  index_to_position_u32 t i = Ok (as_u32 l, as_u32 c) /\ fits_u32 (as_u32 l) /\ fits_u32 (as_u32 c).
Proof.
  intros E. unfold index_to_position_u32. rewrite E. cbn [bind fst snd].
  split; [reflexivity|]. split; apply as_u32_fits.
Qed.

Lemma count_nl_repeat_NL (n : nat) : count_nl (repeat NL n) = n.
Proof.
  induction n as [|n IH]; [reflexivity|]. cbn [repeat]. rewrite count_nl_cons, is_nl_NL, IH. reflexivity.
Qed.

Lemma complete_repeat_NL (n : nat) : complete (repeat NL n).
Proof.
  destruct n as [|n]; [now left|]. right. exists (repeat NL n). cbn [repeat]. apply repeat_cons.
Qed.

Lemma skip_lines_0 (t : text) : skip_lines t 0 = Some t.
Proof. destruct t; reflexivity. Qed.

Lemma resolve_origin (t : text) : resolve t (0, 0) = Some 0.
Proof.
  unfold resolve. cbn [fst snd]. rewrite skip_lines_0.
  assert (walk_col t 0 = Some 0) as -> by (destruct t; reflexivity).
  f_equal. lia.
Qed.

Lemma as_u32_0 : as_u32 0 = 0.
Proof.
  apply as_u32_small. unfold fits_u32. cbn [N.of_nat].
  destruct u32_modulus eqn:Em; [now pose proof u32_modulus_nonzero|reflexivity].
Qed.

Lemma i2p_repeat_NL (n : nat) (rest : text) : index_to_position (repeat NL n ++ rest) n = Ok (n, 0).
Proof.
  pose proof (index_to_position_parts (repeat NL n) [] rest (complete_repeat_NL n) nonl_nil) as H.
  cbn [app length sum_utf16 fold_right] in H. rewrite Nat.add_0_r, repeat_length, count_nl_repeat_NL in H.
  exact H.
Qed.

(* the truncation branch, lines: in a text that begins with n = 2^32 line ends, the character behind them is
   published as (0,0) - the position of the FIRST character of the text *)
Theorem u32_line_truncation (rest : text) (n : nat) :
  n = N.to_nat u32_modulus ->
  let t := repeat NL n ++ rest in
  n <= length t /\ ~ text_fits_u32 t /\
  index_to_position t n = Ok (n, 0) /\ index_to_position_u32 t n = Ok (0, 0) /\
  resolve t (0, 0) = Some 0 /\ n <> 0.
Proof.
  intros Hn t.
  assert (as_u32 n = 0) as W by (rewrite Hn; apply as_u32_wrap).
  assert (~ fits_u32 n) as NF by (rewrite Hn; apply not_fits_modulus).
  assert (n <> 0) as NZ by (rewrite Hn; apply modulus_nat_nonzero).
  clear Hn.
  pose proof (i2p_repeat_NL n rest) as E. fold t in E.
  split; [unfold t; rewrite app_length, repeat_length; lia|]. split.
  - intros [Hl _]. apply NF. eapply fits_u32_le; [|exact Hl].
    unfold t. rewrite count_nl_app, count_nl_repeat_NL. lia.
  - split; [exact E|]. split.
    + unfold index_to_position_u32. rewrite E. cbn [bind fst snd]. rewrite W, as_u32_0. reflexivity.
    + split; [apply resolve_origin|exact NZ].
Qed.

Lemma sum_utf16_repeat_bmp (a : N) (n : nat) : (a <? 65536)%N = true -> sum_utf16 (repeat a n) = n.
Proof.
  intros H. induction n as [|n IH]; [reflexivity|]. cbn [repeat]. rewrite sum_utf16_cons, IH.
  unfold len_utf16. rewrite H. reflexivity.
Qed.

Lemma nonl_repeat (a : N) (n : nat) : is_nl a = false -> nonl (repeat a n).
Proof.
  intros H. induction n as [|n IH]; [apply nonl_nil|]. cbn [repeat]. now apply nonl_cons.
Qed.

Lemma i2p_repeat_a (n : nat) (rest : text) : index_to_position (repeat 97%N n ++ rest) n = Ok (0, n).
Proof.
  assert (nonl (repeat 97%N n)) as Hn by (apply nonl_repeat; reflexivity).
  pose proof (index_to_position_parts [] (repeat 97%N n) rest complete_nil Hn) as H.
  cbn [app length] in H. rewrite repeat_length, sum_utf16_repeat_bmp in H by reflexivity.
  exact H.
Qed.

(* the truncation branch, columns: behind n = 2^32 'a's on one line the column is 0 again *)
Theorem u32_column_truncation (rest : text) (n : nat) :
  n = N.to_nat u32_modulus ->
  let t := repeat 97%N n ++ rest in
  n <= length t /\ ~ text_fits_u32 t /\
  index_to_position t n = Ok (0, n) /\ index_to_position_u32 t n = Ok (0, 0) /\
  resolve t (0, 0) = Some 0 /\ n <> 0.
Proof.
  intros Hn t.
  assert (as_u32 n = 0) as W by (rewrite Hn; apply as_u32_wrap).
  assert (~ fits_u32 n) as NF by (rewrite Hn; apply not_fits_modulus).
  assert (n <> 0) as NZ by (rewrite Hn; apply modulus_nat_nonzero).
  clear Hn.
  assert (nonl (repeat 97%N n)) as Hnl by (apply nonl_repeat; reflexivity).
  pose proof (i2p_repeat_a n rest) as E. fold t in E.
  split; [unfold t; rewrite app_length, repeat_length; lia|]. split.
  - intros [_ Hc]. apply NF. eapply fits_u32_le; [|exact Hc].
    unfold t. pose proof (widest_line (repeat 97%N n) 0 rest Hnl) as Wd.
    rewrite (sum_utf16_repeat_bmp 97%N n eq_refl) in Wd. cbn [Nat.add] in Wd. exact Wd.
  - split; [exact E|]. split.
    + unfold index_to_position_u32. rewrite E. cbn [bind fst snd]. rewrite W, as_u32_0. reflexivity.
    + split; [apply resolve_origin|exact NZ].
Qed.

(* ------------------------------------------------------------------------------------------ *)
(*  B. the state machine                                                                        *)
(* ------------------------------------------------------------------------------------------ *)
Section DocStateProofs.
  Variable doc : Type.
  Variable source : doc -> text.
  Variable cfg : Type.
  Variable fill_with_curated : cfg -> cfg.
  Variable ctx_key : dlint -> doc -> N.
  Variable url_token_at : doc -> nat -> option span.

  Notation dstate := (dstate doc cfg).
  Notation op := (op doc cfg).
  Notation lint_current := (lint_current doc cfg fill_with_curated ctx_key).
  Notation step := (step doc source cfg fill_with_curated ctx_key url_token_at).
  Notation run := (run doc source cfg fill_with_curated ctx_key url_token_at).
  Notation visible_lints := (visible_lints doc cfg fill_with_curated ctx_key).
  Notation code_actions_of := (code_actions_of doc source cfg fill_with_curated ctx_key url_token_at).
  Notation diagnostics_of := (diagnostics_of doc source cfg fill_with_curated ctx_key).
  Notation code_actions_core := (code_actions_core doc source url_token_at).
  Notation ignored_after := (ignored_after doc cfg ctx_key).
  Notation doc_after := (doc_after doc cfg).
  Notation lint_after := (lint_after doc cfg).
  Notation config_after := (config_after doc cfg).
  Notation generate_code_actions := (generate_code_actions doc source cfg fill_with_curated ctx_key url_token_at).
  Notation generate_diagnostics := (generate_diagnostics doc source cfg fill_with_curated ctx_key).

  (* the temp / fill_with_curated / restore dance leaves the state exactly as it was *)
  Lemma lint_current_state (s : dstate) : fst (lint_current s) = s.
  Proof. destruct s; reflexivity. Qed.

  Lemma lint_current_lints (s : dstate) :
    snd (lint_current s) = visible_lints (ds_doc s) (ds_lint s) (ds_config s) (ds_ignored s).
  Proof. destruct s; reflexivity. Qed.

  (* generate_code_actions and generate_diagnostics are read-only, and answer from the current fields *)
  Theorem generate_code_actions_spec (s : dstate) (r : range) (fs : bool) :
    generate_code_actions s r fs
    = (s, code_actions_of (ds_doc s) (ds_lint s) (ds_config s) (ds_ignored s) r fs).
  Proof. destruct s; reflexivity. Qed.

  Theorem generate_diagnostics_spec (s : dstate) (sev : nat) :
    generate_diagnostics s sev
    = (s, diagnostics_of (ds_doc s) (ds_lint s) (ds_config s) (ds_ignored s) sev).
  Proof. destruct s; reflexivity. Qed.

  (* the state a history leaves behind is what its operations say, whatever was asked in between *)
  Theorem run_state (h : list op) : forall s : dstate,
    fst (run s h) = mkdstate (doc_after (ds_doc s) h) (lint_after (ds_lint s) h)
                             (config_after (ds_config s) h) (ignored_after (ds_doc s) (ds_ignored s) h).
  Proof.
    induction h as [|o h IH]; intros s.
    - destruct s; reflexivity.
    - cbn [C08DocState.run].
      destruct o as [d|f c|l|sev|r fs]; cbn [C08DocState.step].
      + destruct (run (set_document doc cfg s d) h) as [s2 rest] eqn:E. cbn [fst].
        pose proof (IH (set_document doc cfg s d)) as H. rewrite E in H. cbn [fst] in H. rewrite H.
        destruct s; reflexivity.
      + destruct (run (set_linter doc cfg s f c) h) as [s2 rest] eqn:E. cbn [fst].
        pose proof (IH (set_linter doc cfg s f c)) as H. rewrite E in H. cbn [fst] in H. rewrite H.
        destruct s; reflexivity.
      + destruct (run (ignore_lint doc cfg ctx_key s l) h) as [s2 rest] eqn:E. cbn [fst].
        pose proof (IH (ignore_lint doc cfg ctx_key s l)) as H. rewrite E in H. cbn [fst] in H. rewrite H.
        destruct s; reflexivity.
      + rewrite generate_diagnostics_spec.
        destruct (run s h) as [s2 rest] eqn:E. cbn [fst].
        pose proof (IH s) as H. rewrite E in H. cbn [fst] in H. rewrite H. reflexivity.
      + rewrite generate_code_actions_spec.
        destruct (run s h) as [s2 rest] eqn:E. cbn [fst].
        pose proof (IH s) as H. rewrite E in H. cbn [fst] in H. rewrite H. reflexivity.
  Qed.

  (* THE HISTORY PROPERTY: after ANY history, a code-action request is answered by the single-shot function
     of the CURRENT document (the last one set), the current linter and the ignore set accumulated so far -
     nothing an earlier document, an earlier generate_diagnostics or an earlier request left behind enters *)
  Theorem history_code_actions (s0 : dstate) (h : list op) (r : range) (fs : bool) :
    snd (step (fst (run s0 h)) (OCodeActions r fs))
    = RActions (code_actions_of (doc_after (ds_doc s0) h) (lint_after (ds_lint s0) h)
                                (config_after (ds_config s0) h)
                                (ignored_after (ds_doc s0) (ds_ignored s0) h) r fs).
  Proof.
    rewrite run_state. cbn [C08DocState.step]. rewrite generate_code_actions_spec. reflexivity.
  Qed.

  Theorem history_diagnostics (s0 : dstate) (h : list op) (sev : nat) :
    snd (step (fst (run s0 h)) (ODiagnostics sev))
    = RDiagnostics (diagnostics_of (doc_after (ds_doc s0) h) (lint_after (ds_lint s0) h)
                                   (config_after (ds_config s0) h)
                                   (ignored_after (ds_doc s0) (ds_ignored s0) h) sev).
  Proof.
    rewrite run_state. cbn [C08DocState.step]. rewrite generate_diagnostics_spec. reflexivity.
  Qed.

  Lemma run_app (h1 h2 : list op) : forall s : dstate,
    run s (h1 ++ h2) = (fst (run (fst (run s h1)) h2), snd (run s h1) ++ snd (run (fst (run s h1)) h2)).
  Proof.
    induction h1 as [|o h1 IH]; intros s.
    - cbn [app C08DocState.run fst snd]. now destruct (run s h2).
    - cbn [app C08DocState.run]. destruct (step s o) as [s1 a]. rewrite IH.
      destruct (run s1 h1) as [s2 rest]. cbn [fst snd]. reflexivity.
  Qed.

  Lemma run_length (h : list op) : forall s : dstate, length (snd (run s h)) = length h.
  Proof.
    induction h as [|o h IH]; intros s; [reflexivity|].
    cbn [C08DocState.run]. destruct (step s o) as [s1 a]. specialize (IH s1).
    destruct (run s1 h) as [s2 rest]. cbn [snd length] in *. now rewrite IH.
  Qed.

  (* ... for EVERY request inside a history: the k-th answer of the run is the single-shot answer for what
     the operations before it left behind *)
  Theorem history_every_answer (s0 : dstate) (h1 h2 : list op) (r : range) (fs : bool) :
    nth_error (snd (run s0 (h1 ++ OCodeActions r fs :: h2))) (length h1)
    = Some (RActions (code_actions_of (doc_after (ds_doc s0) h1) (lint_after (ds_lint s0) h1)
                                      (config_after (ds_config s0) h1)
                                      (ignored_after (ds_doc s0) (ds_ignored s0) h1) r fs)).
  Proof.
    rewrite run_app. cbn [snd]. rewrite nth_error_app2 by (rewrite run_length; lia).
    rewrite run_length, Nat.sub_diag. cbn [C08DocState.run].
    pose proof (history_code_actions s0 h1 r fs) as H.
    destruct (step (fst (run s0 h1)) (OCodeActions r fs)) as [s1 a]. cbn [snd] in H. subst a.
    destruct (run s1 h2) as [s2 rest]. reflexivity.
  Qed.

  (* ------------------------------------------------------------------------------------------ *)
  (*  C. end to end                                                                               *)
  (* ------------------------------------------------------------------------------------------ *)
  Lemma map_res_ok {A B} (f : A -> res B) (l : list A) :
    (forall x, In x l -> exists y, f x = Ok y) ->
    exists ys, map_res f l = Ok ys /\ forall x, In x l -> exists y, f x = Ok y /\ In y ys.
  Proof.
    induction l as [|a l IH]; intros H.
    - exists []. split; [reflexivity|]. intros x [].
    - destruct (H a (or_introl eq_refl)) as [y Ey].
      destruct IH as [ys [E Hys]]; [intros x Hx; apply H; now right|].
      exists (y :: ys). split; [cbn [map_res]; rewrite Ey; cbn [bind]; rewrite E; reflexivity|].
      intros x [<-|Hx].
      + exists y. split; [exact Ey|now left].
      + destruct (Hys x Hx) as [y' [E' I']]. exists y'. split; [exact E'|now right].
  Qed.

  Lemma in_insert_by_prio (l x : dlint) (ls : list dlint) :
    In x (insert_by_prio l ls) <-> x = l \/ In x ls.
  Proof.
    induction ls as [|a ls IH]; cbn [insert_by_prio].
    - cbn [In]. intuition.
    - destruct (lprio l <=? lprio a); cbn [In] in *; rewrite ?IH; intuition.
  Qed.

  Lemma in_sort_by_prio (x : dlint) (ls : list dlint) : In x (sort_by_prio ls) <-> In x ls.
  Proof.
    unfold sort_by_prio. induction ls as [|a ls IH]; cbn [fold_right]; [reflexivity|].
    rewrite in_insert_by_prio, IH. cbn [In]. intuition.
  Qed.

  (* one lint inside a text within the u32 bound: its actions exist, hold its ignore command and, per
     suggestion, an edit with the diagnostic's range whose application by a client is Suggestion::apply *)
  Lemma lint_to_code_actions_sound (l : dlint) (t : text) (fs : bool) :
    text_fits_u32 t -> span_in (length t) (lspan l) ->
    exists acts, lint_to_code_actions l t fs = Ok acts /\ In (AIgnore l) acts /\
      forall s, In s (lsugs l) ->
        exists r nt out, In (AEdit r nt (ltag l)) acts /\ span_to_range t (lspan l) = Ok r /\
                         client_apply t r nt = Some out /\ apply s (lspan l) t = Ok out.
  Proof.
    intros Hf Hin. unfold lint_to_code_actions.
    set (f := fun s => do e <- text_edit_u32 s (lspan l) t; Ok (AEdit (fst e) (snd e) (ltag l))).
    assert (forall s, exists r nt out, f s = Ok (AEdit r nt (ltag l)) /\ span_to_range t (lspan l) = Ok r /\
              client_apply t r nt = Some out /\ apply s (lspan l) t = Ok out) as Hs.
    { intros s. destruct (edit_equiv s (lspan l) t Hin) as [r [nt [out [E [C A]]]]].
      exists r, nt, out. unfold f. rewrite (text_edit_u32_exact s (lspan l) t Hf), E. cbn [bind fst snd].
      split; [reflexivity|]. split; [|now split].
      unfold text_edit in E. destruct (span_to_range t (lspan l)) as [r'|]; [|discriminate].
      cbn [bind] in E. destruct (new_text s (lspan l) t); [|discriminate]. cbn [bind] in E. now injection E as -> _. }
    destruct (map_res_ok f (lsugs l)) as [edits [Em He]].
    { intros s _. destruct (Hs s) as [r [nt [out [E _]]]]. eauto. }
    rewrite Em. cbn [bind].
    assert (exists dict, (if lspell l then do orig <- get_content (lspan l) t; Ok [AAddUser orig; AAddFile orig]
                          else Ok []) = Ok dict) as [dict ->].
    { destruct (lspell l); [|eauto]. rewrite (get_content_in t (lspan l) Hin). cbn [bind]. eauto. }
    cbn [bind]. eexists. split; [reflexivity|].
    assert (forall a, In a (edits ++ [AIgnore l] ++ dict) ->
                      In a (if fs then rev (edits ++ [AIgnore l] ++ dict) else edits ++ [AIgnore l] ++ dict)) as Hrev.
    { intros a Ha. destruct fs; [now apply -> in_rev|exact Ha]. }
    split.
    - apply Hrev. apply in_or_app. right. now left.
    - intros s Hsin. destruct (He s Hsin) as [y [Ey Iy]].
      destruct (Hs s) as [r [nt [out [E [R [C A]]]]]]. rewrite E in Ey. injection Ey as <-.
      exists r, nt, out. split; [|now split]. apply Hrev. apply in_or_app. now left.
  Qed.

  (* the single-shot answer at a character of a lint, addressed by the position harper publishes *)
  Theorem code_actions_core_at_published (d : doc) (lints : list dlint) (l : dlint) (i : nat) (fs : bool) :
    let t := source d in
    text_fits_u32 t ->
    Forall (fun x => span_in (length t) (lspan x)) lints ->
    (forall j sp, url_token_at d j = Some sp -> span_in (length t) sp) ->
    In l lints -> sstart (lspan l) <= i < send (lspan l) ->
    exists p acts,
      index_to_position_u32 t i = Ok p /\ resolve t p = Some i /\
      code_actions_core d lints (p, p) fs = Ok acts /\ In (AIgnore l) acts /\
      forall s, In s (lsugs l) ->
        exists r nt out, In (AEdit r nt (ltag l)) acts /\ span_to_range_u32 t (lspan l) = Ok r /\
                         client_apply t r nt = Some out /\ apply s (lspan l) t = Ok out.
  Proof.
    intros t Hf Hall Hurl Hl Hi.
    assert (span_in (length t) (lspan l)) as Hin by (rewrite Forall_forall in Hall; now apply Hall).
    assert (i <= length t) as Hit by (destruct Hin; lia).
    destruct (index_to_position_sound t i Hit) as [[ln c] [E R]].
    exists (ln, c).
    assert (position_to_index t ln c = Ok i) as P by now apply lookup_correct.
    assert (lookup_span t ((ln, c), (ln, c)) = Ok (with_len (mkspan i i) 1)) as Q.
    { unfold lookup_span, range_to_span. rewrite P. cbn [bind]. unfold span_new.
      rewrite Nat.ltb_irrefl. reflexivity. }
    set (q := with_len (mkspan i i) 1) in *.
    set (sel := filter (fun x => overlaps (lspan x) q) (sort_by_prio lints)).
    assert (code_actions_core d lints ((ln, c), (ln, c)) fs =
            (do per <- map_res (fun x => lint_to_code_actions x t fs) sel;
             match url_token_at d (sstart q) with
             | Some sp => do u <- get_content sp t; Ok (concat per ++ [AOpenUrl u])
             | None => Ok (concat per)
             end)) as Core.
    { unfold C08DocState.code_actions_core. cbv zeta. fold t. rewrite Q. reflexivity. }
    assert (In l sel) as Hsel.
    { apply filter_In. split; [now apply in_sort_by_prio|]. unfold q. rewrite overlaps_cursor. unfold covers.
      apply andb_true_iff. split; [apply Nat.leb_le|apply Nat.ltb_lt]; lia. }
    destruct (map_res_ok (fun x => lint_to_code_actions x t fs) sel) as [per [Ep Hper]].
    { intros x Hx. apply filter_In in Hx. destruct Hx as [Hx _]. rewrite in_sort_by_prio in Hx.
      rewrite Forall_forall in Hall.
      destruct (lint_to_code_actions_sound x t fs Hf (Hall x Hx)) as [acts [Ea _]]. eauto. }
    destruct (Hper l Hsel) as [la [Ela Ila]].
    destruct (lint_to_code_actions_sound l t fs Hf Hin) as [la' [Ela' [Hign Hed]]].
    rewrite Ela in Ela'. injection Ela' as <-.
    assert (forall a, In a la -> In a (concat per)) as Hc.
    { intros a Ha. apply in_concat. exists la. now split. }
    assert (exists acts, match url_token_at d (sstart q) with
                         | Some sp => do u <- get_content sp t; Ok (concat per ++ [AOpenUrl u])
                         | None => Ok (concat per)
                         end = Ok acts /\ forall a, In a (concat per) -> In a acts) as [acts [Eacts Hacts]].
    { destruct (url_token_at d (sstart q)) as [sp|] eqn:U.
      - rewrite (get_content_in t sp (Hurl _ _ U)). cbn [bind]. eexists. split; [reflexivity|].
        intros a Ha. apply in_or_app. now left.
      - eexists. split; [reflexivity|]. auto. }
    exists acts. split.
    { rewrite (index_to_position_u32_exact t i Hf). exact E. }
    split; [exact R|]. split.
    { refine (eq_trans Core _).
      rewrite Ep. cbn [bind]. exact Eacts. }
    split; [apply Hacts, Hc, Hign|].
    intros s Hs. destruct (Hed s Hs) as [r [nt [out [I [Rg [C A]]]]]].
    exists r, nt, out. split; [apply Hacts, Hc, I|]. split; [|now split].
    now rewrite (span_to_range_u32_exact t (lspan l) Hf).
  Qed.

  (* END TO END OVER HISTORIES: whatever happened on this DocumentState before - documents replaced, lints
     ignored, diagnostics generated or not, other requests served - a request at any character of any lint
     that is visible for the CURRENT document, sent at the position harper publishes for that character, is
     answered with that lint's ignore command and, per suggestion, an edit that carries the diagnostic's
     range and, applied by a client to the current text, yields what Suggestion::apply yields *)
  Theorem history_code_action_at_published (s0 : dstate) (h : list op) (l : dlint) (i : nat) (fs : bool) :
    let d := doc_after (ds_doc s0) h in
    let t := source d in
    let vis := visible_lints d (lint_after (ds_lint s0) h) (config_after (ds_config s0) h)
                             (ignored_after (ds_doc s0) (ds_ignored s0) h) in
    text_fits_u32 t ->
    Forall (fun x => span_in (length t) (lspan x)) vis ->
    (forall j sp, url_token_at d j = Some sp -> span_in (length t) sp) ->
    In l vis -> sstart (lspan l) <= i < send (lspan l) ->
    exists p acts,
      index_to_position_u32 t i = Ok p /\ resolve t p = Some i /\
      snd (step (fst (run s0 h)) (OCodeActions (p, p) fs)) = RActions (Ok acts) /\
      In (AIgnore l) acts /\
      forall s, In s (lsugs l) ->
        exists r nt out, In (AEdit r nt (ltag l)) acts /\ span_to_range_u32 t (lspan l) = Ok r /\
                         client_apply t r nt = Some out /\ apply s (lspan l) t = Ok out.
  Proof.
    intros d t vis Hf Hall Hurl Hl Hi.
    destruct (code_actions_core_at_published d vis l i fs Hf Hall Hurl Hl Hi)
      as [p [acts [E [R [C [I S]]]]]].
    exists p, acts. split; [exact E|]. split; [exact R|]. split; [|now split].
    rewrite history_code_actions. unfold C08DocState.code_actions_of. fold d. fold vis. now rewrite C.
  Qed.

  (* a diagnostic published after any history covers exactly its lint (u32 casts included) *)
  Theorem history_diagnostics_sound (s0 : dstate) (h : list op) (sev : nat) :
    let d := doc_after (ds_doc s0) h in
    let t := source d in
    let vis := visible_lints d (lint_after (ds_lint s0) h) (config_after (ds_config s0) h)
                             (ignored_after (ds_doc s0) (ds_ignored s0) h) in
    text_fits_u32 t ->
    Forall (fun x => span_in (length t) (lspan x)) vis ->
    exists ds, snd (step (fst (run s0 h)) (ODiagnostics sev)) = RDiagnostics (Ok ds) /\
      forall x, In x vis ->
        exists pa pb, In ((pa, pb), severity_to_lsp sev, ltag x) ds /\
                      resolve t pa = Some (sstart (lspan x)) /\ resolve t pb = Some (send (lspan x)).
  Proof.
    intros d t vis Hf Hall. rewrite history_diagnostics. unfold C08DocState.diagnostics_of. fold d. fold vis. fold t.
    unfold lints_to_diagnostics.
    destruct (map_res_ok (fun x => do r <- span_to_range_u32 t (lspan x); Ok (r, severity_to_lsp sev, ltag x)) vis)
      as [ds [E H]].
    { intros x Hx. rewrite Forall_forall in Hall. rewrite (span_to_range_u32_exact t _ Hf).
      destruct (span_to_range_sound t (lspan x) (Hall x Hx)) as [pa [pb [Er _]]]. rewrite Er. cbn [bind]. eauto. }
    exists ds. split; [now rewrite E|].
    intros x Hx. destruct (H x Hx) as [y [Ey Iy]].
    rewrite Forall_forall in Hall. rewrite (span_to_range_u32_exact t _ Hf) in Ey.
    destruct (span_to_range_sound t (lspan x) (Hall x Hx)) as [pa [pb [Er [Ra Rb]]]].
    rewrite Er in Ey. cbn [bind] in Ey. injection Ey as <-. exists pa, pb. now split.
  Qed.

  (* ------------------------------------------------------------------------------------------ *)
  (*  D. handler glue                                                                            *)
  (* ------------------------------------------------------------------------------------------ *)
  Variable json : Type.
  Variable lint_to_json : dlint -> json.
  Variable lint_of_json : json -> option dlint.
  Hypothesis lint_json_roundtrip : forall l, lint_of_json (lint_to_json l) = Some l.
    (* serde round trip of Lint through serde_json::Value - monitored by the harness on every embedded lint *)

  Notation handle_code_action := (handle_code_action doc source cfg fill_with_curated ctx_key url_token_at).
  Notation handle_publish := (handle_publish doc source cfg fill_with_curated ctx_key).
  Notation handle_ignore := (handle_ignore doc source cfg fill_with_curated ctx_key json lint_of_json).

  (* the code_action handler adds nothing to DocumentState::generate_code_actions but the unknown-url case *)
  Theorem handle_code_action_spec (o : option dstate) (r : range) (fs : bool) :
    handle_code_action o r fs =
      match o with
      | None => (None, Ok [])
      | Some s => (Some s, code_actions_of (ds_doc s) (ds_lint s) (ds_config s) (ds_ignored s) r fs)
      end.
  Proof.
    destruct o as [s|]; [|reflexivity]. unfold C08DocState.handle_code_action.
    now rewrite generate_code_actions_spec.
  Qed.

  Lemma mem_N_head (k : N) (l : list N) : mem_N k (k :: l) = true.
  Proof. cbn [mem_N]. now rewrite N.eqb_refl. Qed.

  (* the HarperIgnoreLint command sent back with the lint JSON a code action embedded: the lint's context key
     (against the current document) joins the ignore set, the state is otherwise untouched, and the diagnostics
     published in reply are those of the current document without any lint of that key - the lint itself gone *)
  Theorem handle_ignore_embedded (s : dstate) (l : dlint) (sev : nat) :
    let ign := ctx_key l (ds_doc s) :: ds_ignored s in
    handle_ignore (Some s) (lint_to_json l) sev
    = (Some (mkdstate (ds_doc s) (ds_lint s) (ds_config s) ign),
       Some (diagnostics_of (ds_doc s) (ds_lint s) (ds_config s) ign sev))
    /\ ~ In l (visible_lints (ds_doc s) (ds_lint s) (ds_config s) ign).
  Proof.
    intros ign. split.
    - unfold C08DocState.handle_ignore. rewrite lint_json_roundtrip.
      unfold C08DocState.handle_publish. rewrite generate_diagnostics_spec. destruct s; reflexivity.
    - unfold C08DocState.visible_lints, remove_ignored, ign. intros H. apply filter_In in H.
      destruct H as [_ H]. rewrite mem_N_head in H. discriminate.
  Qed.
End DocStateProofs.
