(* IgnoreShape.v — the tie between Model/Ignore.v and the shape of the Rust code, through the table
   regenerated from /repo on every run (tools/tables/lintcontext.py -> Model/Tables_lintcontext.v). *)
Require Import Base Suggestion Ignore Tables_lintcontext.
From Coq Require Import String.
Open Scope string_scope.

(* the context variant the sources build: 0 as pinned, 1 = F12 repaired, 2 = F13 repaired, 3 = both *)
Definition source_variant : nat := Nat.b2n lc_blanks_twin_loc + 2 * lc_sequel_variant.

Lemma code_shape :
  (* LintContext hashes exactly the five fields of the model's ctx, in this order *)
  lc_fields = ["lint_kind"; "suggestions"; "message"; "priority"; "tokens"] /\
  lc_derives_hash = true /\ lc_built_from_fields = true /\
  (* the windows and their order are the ones of `context`, twin_loc is not blanked:
     `context` (variant 0) is the model of the code, and the _refuted theorems speak about the code *)
  lc_prequel_variant = lc_sequel_variant /\ lc_chain_prequel_problem_sequel = true /\
  context_v source_variant = context /\
  (* fat tokens: (content, kind), hashed; Quote carries twin_loc, hashed; tkind covers every TokenKind *)
  fat_token_fields = ["content"; "kind"] /\ fat_token_derives_hash = true /\
  quote_fields = ["twin_loc"] /\ quote_derives_hash = true /\ token_kind_derives_hash = true /\
  number_fields = ["value"; "suffix"; "radix"; "precision"] /\ number_derives_hash = true /\
  token_kind_variants = ["Word"; "Punctuation"; "Decade"; "Number"; "Space"; "Newline"; "EmailAddress"; "Url";
                         "Hostname"; "Unlintable"; "ParagraphBreak"; "Regexish"] /\
  (* the JSON key of the exported list *)
  ignored_json_key = key_text /\ ignored_derives_serde = true.
Proof. repeat split; reflexivity. Qed.
