(* IgnoreShape.v — the tie between Model/Ignore.v and the shape of the Rust code, through the table
   regenerated from /repo on every run (tools/tables/lintcontext.py -> Model/Tables_lintcontext.v). *)
Require Import Base Suggestion Ignore Tables_lintcontext.
From Coq Require Import String.

(* the window expressions the translator knows (0 = before 4550195, 1 = since), as index builders *)
Definition context_indices_v (pv sv : nat) (l : ilint) (d : doc) : res (list nat) :=
  let sp := il_span l in
  let problem := token_indices_intersecting d sp in
  do prequel <- match pv with
                | 0 => Ok (match pulled_by (with_len sp 2) 2 with
                           | Some v => token_indices_intersecting d v
                           | None => []
                           end)
                | _ => do pw <- span_new (sstart sp - 2) (sstart sp); Ok (token_indices_intersecting d pw)
                end;
  let sequel := token_indices_intersecting d
                  (match sv with 0 => push_by (with_len sp 2) 2 | _ => span_new_with_len (send sp) 2 end) in
  Ok (prequel ++ problem ++ sequel)%list.
(* the statements the translator knows in the closure applied to each fat token *)
Definition blank_kind_v (twin meta : bool) (k : tkind) : tkind :=
  match k with
  | KQuote _ => if twin then KQuote None else k
  | KWord _ => if meta then KWord None else k
  | _ => k
  end.

Open Scope string_scope.

Lemma code_shape :
  (* LintContext hashes exactly the five fields of the model's ctx, in this order *)
  lc_fields = ["lint_kind"; "suggestions"; "message"; "priority"; "tokens"] /\
  lc_derives_hash = true /\ lc_built_from_fields = true /\
  (* the windows the sources use, in the order prequel / problem / sequel, are the ones of `context_indices`,
     and the closure applied to each fat token blanks what `blank_kind` blanks (and does nothing else:
     the translator raises on any other statement) *)
  lc_chain_prequel_problem_sequel = true /\
  (forall l d, context_indices_v lc_prequel_variant lc_sequel_variant l d = context_indices l d) /\
  (forall k, blank_kind_v lc_blanks_twin_loc lc_blanks_word_metadata k = blank_kind k) /\
  (* fat tokens: (content, kind), hashed; Quote carries twin_loc, hashed; tkind covers every TokenKind *)
  fat_token_fields = ["content"; "kind"] /\ fat_token_derives_hash = true /\
  quote_fields = ["twin_loc"] /\ quote_derives_hash = true /\ token_kind_derives_hash = true /\
  number_fields = ["value"; "suffix"; "radix"; "precision"] /\ number_derives_hash = true /\
  token_kind_variants = ["Word"; "Punctuation"; "Decade"; "Number"; "Space"; "Newline"; "EmailAddress"; "Url";
                         "Hostname"; "Unlintable"; "ParagraphBreak"; "Regexish"] /\
  (* the JSON key of the exported list *)
  ignored_json_key = key_text /\ ignored_derives_serde = true.
Proof.
  assert (forall l d, context_indices_v lc_prequel_variant lc_sequel_variant l d = context_indices l d) as H1.
  { intros l d. unfold context_indices_v, context_indices, prequel_window.
    destruct (span_new (sstart (il_span l) - 2) (sstart (il_span l))); reflexivity. }
  assert (forall k, blank_kind_v lc_blanks_twin_loc lc_blanks_word_metadata k = blank_kind k) as H2.
  { intros k. destruct k; reflexivity. }
  repeat (split; [reflexivity|]). split; [exact H1|]. split; [exact H2|]. repeat (split; [reflexivity|]). reflexivity.
Qed.
