(* EffectsProofs.v — generic lemmas about the checkers of Model/Effects.v (C10): a checker that answers `true`
   implies the Prop-level statement for EVERY reachable crate / listed site / traced event.  Nothing here mentions
   the generated tables; the instances are in EffectsChecked.v. *)
Require Import Base EffectsBase Effects.
From Coq Require Import String Ascii.
Open Scope string_scope.
Open Scope list_scope.

(* ------------------------------------------------------------------ equalities *)
Lemma pkg_eqb_eq : forall a b, pkg_eqb a b = true <-> a = b.
Proof.
  intros [a1 a2] [b1 b2]; unfold pkg_eqb; cbn [fst snd].
  rewrite andb_true_iff, !String.eqb_eq. split.
  - intros [H1 H2]; subst; reflexivity.
  - intros H; inversion H; auto.
Qed.

Lemma pmem_In : forall a l, pmem a l = true <-> In a l.
Proof.
  intros a l; unfold pmem; rewrite existsb_exists; split.
  - intros [x [Hin Heq]]. apply pkg_eqb_eq in Heq. subst; assumption.
  - intros Hin. exists a. split; [assumption | apply pkg_eqb_eq; reflexivity].
Qed.

Lemma smem_In : forall s l, smem s l = true <-> In s l.
Proof.
  intros s l; unfold smem; rewrite existsb_exists; split.
  - intros [x [Hin Heq]]. apply String.eqb_eq in Heq. subst; assumption.
  - intros Hin. exists s. split; [assumption | apply String.eqb_refl].
Qed.

Lemma skind_eqb_eq : forall a b, skind_eqb a b = true -> a = b.
Proof. intros [] []; cbn; intros H; try reflexivity; discriminate. Qed.

Lemma site_eqb_eq : forall a b, site_eqb a b = true -> a = b.
Proof.
  intros [a1 a2 a3 a4 a5 a6 a7] [b1 b2 b3 b4 b5 b6 b7]; unfold site_eqb; cbn [s_file s_fn s_kind s_api s_arg s_bind s_arm].
  rewrite !andb_true_iff, !String.eqb_eq.
  intros [[[[[[H1 H2] H3] H4] H5] H6] H7]. apply skind_eqb_eq in H3. subst; reflexivity.
Qed.

Lemma site_mem_In : forall s l, site_mem s l = true -> In s l.
Proof.
  intros s l; unfold site_mem; rewrite existsb_exists.
  intros [x [Hin Heq]]. apply site_eqb_eq in Heq. subst; assumption.
Qed.

(* ------------------------------------------------------------------ A. reachability *)
(* the Prop-level notion: what Cargo would pull in, starting from the shipped crates *)
Inductive Reach (g : graph) (roots : list pkg) : pkg -> Prop :=
| Reach_root : forall r, In r roots -> Reach g roots r
| Reach_step : forall a b, Reach g roots a -> In b (deps g a) -> Reach g roots b.

(* any set that contains the roots and is closed under the edges contains everything reachable *)
Lemma closed_contains_reach : forall g roots R,
  forallb (fun r => pmem r R) roots = true -> closed g R = true ->
  forall c, Reach g roots c -> In c R.
Proof.
  intros g roots R Hroots Hclosed c Hreach.
  induction Hreach as [r Hr | a b Ha IH Hb].
  - rewrite forallb_forall in Hroots. apply pmem_In. apply Hroots; assumption.
  - unfold closed in Hclosed. rewrite forallb_forall in Hclosed.
    specialize (Hclosed a IH). apply andb_true_iff in Hclosed. destruct Hclosed as [_ Hd].
    rewrite forallb_forall in Hd. apply pmem_In. apply Hd; assumption.
Qed.

(* conversely, the closure only ever collects reachable packages (whatever the fuel) *)
Lemma closure_sound : forall g roots fuel stack seen,
  (forall x, In x stack -> Reach g roots x) -> (forall x, In x seen -> Reach g roots x) ->
  forall c, In c (closure fuel g stack seen) -> Reach g roots c.
Proof.
  intros g roots fuel; induction fuel as [| f IH]; intros stack seen Hst Hseen c Hc; cbn [closure] in Hc.
  - apply Hseen; assumption.
  - destruct stack as [| a st].
    + apply Hseen; assumption.
    + destruct (pmem a seen) eqn:Hm.
      * eapply IH; [| | exact Hc]; [intros x Hx; apply Hst; right; assumption | assumption].
      * eapply IH; [| | exact Hc].
        -- intros x Hx. apply in_app_or in Hx. destruct Hx as [Hx | Hx].
           ++ eapply Reach_step; [apply Hst; left; reflexivity | assumption].
           ++ apply Hst; right; assumption.
        -- intros x [Hx | Hx]; [subst; apply Hst; left; reflexivity | apply Hseen; assumption].
Qed.

Lemma reach_set_sound : forall g roots c, In c (reach_set g roots) -> Reach g roots c.
Proof.
  intros g roots c Hc. unfold reach_set in Hc.
  eapply closure_sound; [| | exact Hc]; [intros x Hx; apply Reach_root; assumption | intros x []].
Qed.

(* what class_ok = true means *)
Definition CrateOk (members : list pkg) (t : list (pkg * eclass)) (c : pkg) : Prop :=
  In c members \/
  exists cl, class_of t c = Some cl /\ cl <> CNetClient /\
             (cl = CNetRuntime -> In (fst c) net_capable_allowed) /\
             (cl = CProcess -> In (fst c) process_allowed).

Lemma class_ok_spec : forall members t c, class_ok members t c = true -> CrateOk members t c.
Proof.
  intros members t c H. unfold class_ok in H. apply orb_true_iff in H. destruct H as [H | H].
  - left. apply pmem_In; assumption.
  - right. destruct (class_of t c) as [cl |] eqn:Hc; [| discriminate].
    exists cl. split; [reflexivity |].
    destruct cl; try discriminate; (split; [discriminate |]); split; intros E; try discriminate E.
    + apply smem_In; assumption.
    + apply smem_In; assumption.
Qed.

(* THE soundness lemma of the crate checker: `true` implies the statement for every reachable crate *)
Lemma check_crates_sound : forall g t members roots,
  check_crates g t members roots = true ->
  forall c, Reach g roots c -> CrateOk members t c.
Proof.
  intros g t members roots H c Hc. unfold check_crates in H.
  apply andb_true_iff in H. destruct H as [H Hall]. apply andb_true_iff in H. destruct H as [Hroots Hclosed].
  apply class_ok_spec. rewrite forallb_forall in Hall. apply Hall.
  eapply closed_contains_reach; eassumption.
Qed.

(* when the checker accepts, its reach_set IS the reachable set *)
Lemma check_crates_reach_exact : forall g t members roots,
  check_crates g t members roots = true ->
  forall c, Reach g roots c <-> In c (reach_set g roots).
Proof.
  intros g t members roots H c. split; [| apply reach_set_sound].
  unfold check_crates in H. apply andb_true_iff in H. destruct H as [H _].
  apply andb_true_iff in H. destruct H as [Hroots Hclosed].
  eapply closed_contains_reach; eassumption.
Qed.

(* a reachable third-party crate that nobody audited makes the checker answer false *)
Lemma unknown_crate_breaks : forall g t members roots c,
  Reach g roots c -> ~ In c members -> class_of t c = None ->
  check_crates g t members roots = false.
Proof.
  intros g t members roots c Hreach Hnm Hnone.
  destruct (check_crates g t members roots) eqn:Hck; [| reflexivity].
  exfalso. destruct (check_crates_sound _ _ _ _ Hck c Hreach) as [Hin | [cl [Hcl _]]].
  - contradiction.
  - rewrite Hnone in Hcl; discriminate.
Qed.

(* likewise a reachable net-client crate *)
Lemma client_crate_breaks : forall g t members roots c,
  Reach g roots c -> ~ In c members -> class_of t c = Some CNetClient ->
  check_crates g t members roots = false.
Proof.
  intros g t members roots c Hreach Hnm Hcl.
  destruct (check_crates g t members roots) eqn:Hck; [| reflexivity].
  exfalso. destruct (check_crates_sound _ _ _ _ Hck c Hreach) as [Hin | [cl [Hcl' [Hne _]]]].
  - contradiction.
  - rewrite Hcl in Hcl'. inversion Hcl'; subst. apply Hne; reflexivity.
Qed.

(* ------------------------------------------------------------------ B. sites *)
Lemma sites_within_sound : forall sel allowed sites,
  sites_within sel allowed sites = true ->
  forall s, In s sites -> sel (s_kind s) = true -> In s allowed.
Proof.
  intros sel allowed sites H s Hin Hsel. unfold sites_within in H. rewrite forallb_forall in H.
  specialize (H s Hin). rewrite Hsel in H. cbn in H. apply site_mem_In; assumption.
Qed.

(* a site of the selected kind that is not in the allow-list makes the checker answer false *)
Lemma stray_site_breaks : forall sel allowed sites s,
  In s sites -> sel (s_kind s) = true -> ~ In s allowed -> sites_within sel allowed sites = false.
Proof.
  intros sel allowed sites s Hin Hsel Hna.
  destruct (sites_within sel allowed sites) eqn:H; [| reflexivity].
  exfalso. apply Hna. eapply sites_within_sound; eassumption.
Qed.

Lemma one_field_spec : forall t k f, one_field t k f = true -> fields_of t k = Some [f].
Proof.
  intros t k f H. unfold one_field in H.
  destruct (fields_of t k) as [[| f' [| ? ?]] |]; try discriminate.
  apply String.eqb_eq in H. subst; reflexivity.
Qed.

Definition ConfigPathsOk (t : list (string * list string)) : Prop :=
  fields_of t "userDictPath" = Some ["user_dict_path"] /\
  fields_of t "fileDictPath" = Some ["file_dict_path"] /\
  fields_of t "statsPath" = Some ["stats_path"] /\
  forall k fs f, In (k, fs) t -> In f fs -> In f path_fields ->
                 In k ["userDictPath"; "fileDictPath"; "statsPath"].

Lemma config_paths_ok_spec : forall t, config_paths_ok t = true -> ConfigPathsOk t.
Proof.
  intros t H. unfold config_paths_ok in H. rewrite !andb_true_iff in H.
  destruct H as [[[H1 H2] H3] H4].
  repeat split; try (apply one_field_spec; assumption).
  intros k fs f Hin Hf Hp. rewrite forallb_forall in H4. specialize (H4 (k, fs) Hin). cbn [fst snd] in H4.
  apply orb_true_iff in H4. destruct H4 as [H4 | H4].
  - apply smem_In; assumption.
  - rewrite forallb_forall in H4. specialize (H4 f Hf). apply negb_true_iff in H4.
    apply smem_In in Hp. rewrite Hp in H4. discriminate.
Qed.

(* ------------------------------------------------------------------ C. listener address *)
Definition LoopbackLiteral (s : string) : Prop :=
  let l := list_ascii_of_string s in
  (exists h p b c d, split_on ":"%char l [] = [h; p] /\ port_ok p = true /\ v4_octets h = Some (127, b, c, d)%N) \/
  (exists p, l = list_ascii_of_string "[::1]:" ++ p /\ port_ok p = true).

Lemma loopback_literal_spec : forall s, is_loopback_literal s = true -> LoopbackLiteral s.
Proof.
  intros s H. unfold is_loopback_literal in H. unfold LoopbackLiteral. cbv zeta in *.
  remember (list_ascii_of_string s) as l eqn:El. clear El.
  apply orb_true_iff in H. destruct H as [H | H].
  - left. unfold loopback_v4 in H.
    destruct (split_on ":"%char l []) as [| h [| p [| ? ?]]] eqn:Es; try discriminate.
    apply andb_true_iff in H. destruct H as [Hp Ho].
    destruct (v4_octets h) as [[[[a b] c] d] |] eqn:Eo; [| discriminate].
    apply N.eqb_eq in Ho. subst a. exists h, p, b, c, d. repeat split; assumption.
  - right. unfold loopback_v6 in H.
    do 6 (destruct l as [| ?c l]; [discriminate H |];
          match goal with c : ascii |- _ => destruct c as [[] [] [] [] [] [] [] []]; try discriminate H end).
    eexists; split; [reflexivity | assumption].
Qed.

Definition ListenerOk (sites : list site) (addr : string) (ndefs : nat) : Prop :=
  LoopbackLiteral addr /\ ndefs = 1 /\
  forall s, In s sites -> s_api s = "TcpListener::bind" -> s_arg s = "DEFAULT_ADDRESS".

Lemma listener_ok_spec : forall sites addr ndefs, listener_ok sites addr ndefs = true -> ListenerOk sites addr ndefs.
Proof.
  intros sites addr ndefs H. unfold listener_ok in H. rewrite !andb_true_iff in H. destruct H as [[Hl Hn] Hs].
  split; [apply loopback_literal_spec; assumption |]. split; [apply Nat.eqb_eq; assumption |].
  intros s Hin Hapi. rewrite forallb_forall in Hs. specialize (Hs s Hin).
  rewrite Hapi in Hs. cbn in Hs. apply String.eqb_eq; assumption.
Qed.

(* ------------------------------------------------------------------ D. the monitor *)
Lemma beqb_eq : forall a b, beqb a b = true <-> a = b.
Proof.
  induction a as [| x a IH]; destruct b as [| y b]; cbn [beqb]; split; intros H; try reflexivity; try discriminate.
  - apply andb_true_iff in H. destruct H as [H1 H2]. apply N.eqb_eq in H1. apply IH in H2. subst; reflexivity.
  - inversion H; subst. apply andb_true_iff. split; [apply N.eqb_refl | apply IH; reflexivity].
Qed.

Lemma bmem_In : forall p l, bmem p l = true <-> In p l.
Proof.
  intros p l; unfold bmem; rewrite existsb_exists; split.
  - intros [x [Hin Heq]]. apply beqb_eq in Heq. subst; assumption.
  - intros Hin. exists p. split; [assumption | apply beqb_eq; reflexivity].
Qed.

Lemma is_dir_prefix_spec : forall p q, is_dir_prefix p q = true -> exists c rest, q = p ++ slash :: c :: rest.
Proof.
  induction p as [| x p IH]; intros q H.
  - destruct q as [| c [| c2 rest]]; cbn [is_dir_prefix] in H; try discriminate.
    apply N.eqb_eq in H. subst c. exists c2, rest. reflexivity.
  - destruct q as [| y q]; cbn [is_dir_prefix] in H; try discriminate.
    apply andb_true_iff in H. destruct H as [H1 H2]. apply N.eqb_eq in H1. subst y.
    destruct (IH q H2) as [c [rest E]]. exists c, rest. rewrite E. reflexivity.
Qed.

(* the file is one of the configured ones, the ".tmp" sibling of the user dictionary (a ".tmp" sibling of a file
   dictionary is itself a file directly inside the file-dictionary directory), or one the harness declared as its own *)
Definition PathAllowed (c : mcfg) (p : bytes) : Prop :=
  p = m_user c \/ p = m_user c ++ tmp_suffix \/ p = m_stats c \/ dir_of p = m_filedir c \/ In p (m_own c).

(* the destination is a dictionary file and the source is exactly its ".tmp" sibling *)
Definition RenameAllowed (c : mcfg) (src dst : bytes) : Prop :=
  (dst = m_user c \/ dir_of dst = m_filedir c) /\ src = dst ++ tmp_suffix.

(* the directory leads to a configured file, or is the file-dictionary directory *)
Definition MkdirAllowed (c : mcfg) (p : bytes) : Prop :=
  (exists x rest, m_user c = p ++ slash :: x :: rest) \/ (exists x rest, m_stats c = p ++ slash :: x :: rest) \/
  (exists x rest, m_filedir c = p ++ slash :: x :: rest) \/ p = m_filedir c.

Definition ev_safe (c : mcfg) (e : sysev) : Prop :=
  match e with
  | EvSocket f | EvSend f | EvBind f => f = AF_UNIX       (* in particular neither AF_INET nor AF_INET6 *)
  | EvConnect _ _ => False                                  (* the traced process connects nowhere *)
  | EvOpen w p => ~ In p resolver_files /\ (w = true -> PathAllowed c p)
  | EvRename a b => RenameAllowed c a b
  | EvUnlink p => PathAllowed c p
  | EvMkdir p => MkdirAllowed c p
  end.

Lemma path_allowed_spec : forall c p, path_allowed c p = true -> PathAllowed c p.
Proof.
  intros c p H. unfold path_allowed in H. rewrite !orb_true_iff in H. unfold PathAllowed.
  destruct H as [[[[H | H] | H] | H] | H].
  - left. apply beqb_eq; assumption.
  - right; left. apply beqb_eq; assumption.
  - right; right; left. apply beqb_eq; assumption.
  - right; right; right; left. apply beqb_eq; assumption.
  - right; right; right; right. apply bmem_In; assumption.
Qed.

Lemma rename_allowed_spec : forall c a b, rename_allowed c a b = true -> RenameAllowed c a b.
Proof.
  intros c a b H. unfold rename_allowed, dict_file in H. apply andb_true_iff in H. destruct H as [Hd Ht].
  apply orb_true_iff in Hd. split.
  - destruct Hd as [Hd | Hd]; [left | right]; apply beqb_eq; assumption.
  - apply beqb_eq in Ht. exact Ht.
Qed.

(* appending a slash-free suffix does not change the directory part *)
Lemma dir_of_aux_app_noslash : forall t p acc cur,
  forallb (fun x => negb (x =? slash)%N) t = true -> dir_of_aux (p ++ t) acc cur = dir_of_aux p acc cur.
Proof.
  intros t p. induction p as [| x p IH]; intros acc cur Ht.
  - cbn [app]. revert cur. induction t as [| y t IHt]; intros cur; [reflexivity |].
    cbn [forallb] in Ht. apply andb_true_iff in Ht. destruct Ht as [Hy Ht].
    cbn [dir_of_aux]. destruct (y =? slash)%N; [discriminate Hy |]. rewrite (IHt Ht). reflexivity.
  - cbn [app dir_of_aux]. destruct (x =? slash)%N; apply IH; assumption.
Qed.

Lemma dir_of_tmp : forall p, dir_of (tmp_of p) = dir_of p.
Proof. intros p. unfold dir_of, tmp_of. apply dir_of_aux_app_noslash. vm_compute. reflexivity. Qed.

(* an accepted rename stays inside the files that may be written: both ends are allowed paths *)
Lemma rename_allowed_paths : forall c a b, rename_allowed c a b = true -> path_allowed c a = true /\ path_allowed c b = true.
Proof.
  intros c a b H. unfold rename_allowed, dict_file in H. apply andb_true_iff in H. destruct H as [Hd Ht].
  apply beqb_eq in Ht. subst a. apply orb_true_iff in Hd. unfold path_allowed.
  destruct Hd as [Hd | Hd].
  - apply beqb_eq in Hd. subst b. split.
    + assert (E : beqb (tmp_of (m_user c)) (tmp_of (m_user c)) = true) by (apply beqb_eq; reflexivity).
      rewrite E. rewrite !orb_true_r. reflexivity.
    + assert (E : beqb (m_user c) (m_user c) = true) by (apply beqb_eq; reflexivity). rewrite E. reflexivity.
  - split.
    + rewrite dir_of_tmp, Hd. rewrite !orb_true_r. reflexivity.
    + rewrite Hd. rewrite !orb_true_r. reflexivity.
Qed.

Lemma mkdir_allowed_spec : forall c p, mkdir_allowed c p = true -> MkdirAllowed c p.
Proof.
  intros c p H. unfold mkdir_allowed in H. rewrite !orb_true_iff in H. unfold MkdirAllowed.
  destruct H as [[[H | H] | H] | H].
  - left. apply is_dir_prefix_spec; assumption.
  - right; left. apply is_dir_prefix_spec; assumption.
  - right; right; left. apply is_dir_prefix_spec; assumption.
  - right; right; right. apply beqb_eq; assumption.
Qed.

Lemma judge_ok_safe : forall c e, judge c e = VOk -> ev_safe c e.
Proof.
  intros c e H. destruct e as [f | f up | f | f | w p | a b | p | p]; cbn [judge ev_safe] in *.
  - destruct (f =? AF_UNIX)%N eqn:E; [apply N.eqb_eq; assumption | discriminate].
  - destruct ((f =? AF_UNIX)%N && bmem up resolver_files); discriminate.
  - destruct (f =? AF_UNIX)%N eqn:E; [apply N.eqb_eq; assumption | discriminate].
  - destruct (f =? AF_UNIX)%N eqn:E; [apply N.eqb_eq; assumption | discriminate].
  - destruct (bmem p resolver_files) eqn:Er; [discriminate |].
    split.
    + intros Hin. apply bmem_In in Hin. rewrite Hin in Er. discriminate.
    + intros Hw. subst w. destruct (path_allowed c p) eqn:Ep; [apply path_allowed_spec; assumption | discriminate].
  - destruct (rename_allowed c a b) eqn:Er; [apply rename_allowed_spec; assumption | discriminate].
  - destruct (path_allowed c p) eqn:Ep; [apply path_allowed_spec; assumption | discriminate].
  - destruct (mkdir_allowed c p) eqn:Ep; [apply mkdir_allowed_spec; assumption | discriminate].
Qed.

Lemma judge_rename_inside : forall c a b,
  judge c (EvRename a b) = VOk -> path_allowed c a = true /\ path_allowed c b = true.
Proof.
  intros c a b H. cbn [judge] in H. destruct (rename_allowed c a b) eqn:Er; [| discriminate].
  apply rename_allowed_paths; assumption.
Qed.

(* soundness of the monitor: a trace the oracle accepts contains no socket of an internet family, no connect,
   no datagram to an address, no open of a resolver file, and creates / modifies / renames / removes only
   configured files *)
Lemma trace_ok_sound : forall c tr, trace_ok c tr = true -> Forall (ev_safe c) tr.
Proof.
  intros c tr H. unfold trace_ok in H. rewrite forallb_forall in H. apply Forall_forall.
  intros e Hin. specialize (H e Hin). apply judge_ok_safe. destruct (judge c e); try discriminate; reflexivity.
Qed.
