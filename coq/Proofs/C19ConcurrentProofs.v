(* C19ConcurrentProofs.v — what the BufWriter + O_APPEND of save_stats guarantee when two processes append at once.
   1. bufwriter_concat: BufWriter + flush is the identity on the byte stream (whatever the fragments, whatever the
      capacity) — the "BufWriter/flush as the identity" item of the trusted base is now a theorem.
   2. bufwriter_single: a session of at most `cap` bytes reaches the file in ONE write(2).
   3. concurrent_small_batches: two concurrent sessions of at most `cap` bytes each: the log reads back as
      old ++ a ++ b or old ++ b ++ a.
   4. concurrent_large_batch_refuted: above the capacity NOTHING is guaranteed: a concrete pair of sessions of valid
      records and an interleaving of their write(2) calls after which Stats::read rejects the whole log — the records
      that were there before included. *)
From Coq Require Import String Ascii.
From Coq Require Import List Arith NArith Lia.
Require Import Base JsonEscape Stats StatsProofs C19Record C19RecordProofs C19Concurrent.
Import ListNotations.

Lemma concat_chunk_of buf : concat (chunk_of buf) = buf.
Proof. destruct buf; [reflexivity|]. cbn [chunk_of concat]. apply app_nil_r. Qed.

(* ---------- 1. the byte stream is unchanged ---------- *)
Lemma bw_write_all_concat cap buf frag out buf' :
  bw_write_all cap buf frag = (out, buf') -> concat out ++ buf' = buf ++ frag.
Proof.
  unfold bw_write_all. destruct (length frag <? cap - length buf).
  - intros H. injection H as E1 E2. subst out buf'. reflexivity.
  - destruct (Nat.ltb_spec (cap - length buf) (length frag)) as [L2|L2]; destruct (Nat.leb_spec cap (length frag)) as [L3|L3];
      intros H; injection H as E1 E2; subst out buf';
      rewrite ?concat_app, ?concat_chunk_of; cbn [concat app]; rewrite ?app_nil_r; try reflexivity.
    (* the fragment fills an EMPTY buffer exactly: handed to the inner writer directly *)
    destruct buf as [|x buf]; [rewrite app_nil_r; reflexivity|].
    destruct frag as [|y frag]; [cbn [app]; rewrite app_nil_r; reflexivity|]. cbn [length] in *. lia.
Qed.

Lemma bw_run_concat cap : forall frags buf, concat (bw_run cap buf frags) = buf ++ concat frags.
Proof.
  induction frags as [|f r IH]; intros buf; cbn [bw_run concat].
  - rewrite concat_chunk_of, app_nil_r. reflexivity.
  - destruct (bw_write_all cap buf f) as [out buf'] eqn:E. apply bw_write_all_concat in E.
    rewrite concat_app, IH, app_assoc, E, <- app_assoc. reflexivity.
Qed.

Theorem bufwriter_concat cap frags : concat (bufwriter cap frags) = concat frags.
Proof. unfold bufwriter. rewrite bw_run_concat. reflexivity. Qed.

(* the buffer never exceeds the capacity (so `capacity - len` of spare_capacity() cannot wrap) *)
Lemma bw_write_all_bound cap buf frag out buf' :
  length buf <= cap -> bw_write_all cap buf frag = (out, buf') -> length buf' <= cap.
Proof.
  unfold bw_write_all. intros Hb.
  destruct (Nat.ltb_spec (length frag) (cap - length buf)).
  - intros HH. injection HH as E1 E2. subst out buf'. rewrite app_length. lia.
  - destruct (Nat.ltb_spec (cap - length buf) (length frag)); destruct (Nat.leb_spec cap (length frag));
      intros HH; injection HH as E1 E2; subst out buf'; rewrite ?app_length; cbn [length]; lia.
Qed.

(* ---------- 2. a session that fits the buffer is one write(2) ---------- *)
Lemma length_zero_nil {A} (l : list A) : length l = 0 -> l = [].
Proof. destruct l; [reflexivity|discriminate]. Qed.

Lemma bw_run_small cap : 0 < cap -> forall frags buf,
  length buf + length (concat frags) <= cap -> bw_run cap buf frags = chunk_of (buf ++ concat frags).
Proof.
  intros Hc. induction frags as [|f r IH]; intros buf Hl; cbn [bw_run concat] in *.
  - rewrite app_nil_r. reflexivity.
  - rewrite app_length in Hl. unfold bw_write_all.
    destruct (Nat.ltb_spec (length f) (cap - length buf)) as [L1|L1].
    + cbn [app]. rewrite IH by (rewrite app_length; lia). rewrite <- app_assoc. reflexivity.
    + assert (length (concat r) = 0) as Z by lia. apply length_zero_nil in Z.
      destruct (Nat.ltb_spec (cap - length buf) (length f)) as [L2|L2]; [lia|].
      destruct (Nat.leb_spec cap (length f)) as [L3|L3].
      * assert (length buf = 0) as Zb by lia. apply length_zero_nil in Zb. subst buf.
        cbn [app]. rewrite IH by (rewrite Z; cbn [length]; lia). rewrite Z. cbn [app chunk_of]. rewrite app_nil_r.
        destruct f; [cbn [length] in L3; lia|reflexivity].
      * cbn [app]. rewrite IH by (rewrite app_length, Z; cbn [length]; lia). rewrite <- app_assoc. reflexivity.
Qed.

Theorem bufwriter_single cap frags : 0 < cap -> length (concat frags) <= cap ->
  bufwriter cap frags = chunk_of (concat frags).
Proof. intros Hc Hl. unfold bufwriter. rewrite (bw_run_small cap Hc frags []) by (cbn [length]; lia). reflexivity. Qed.

(* ---------- interleavings ---------- *)
Lemma interleave_nil_l {A} (b m : list A) : Interleave [] b m -> m = b.
Proof.
  intros H. remember [] as a eqn:Ea. induction H as [|x a b m H IH|y a b m H IH]; [reflexivity|discriminate|].
  rewrite (IH Ea). reflexivity.
Qed.
Lemma interleave_nil_r {A} (a m : list A) : Interleave a [] m -> m = a.
Proof.
  intros H. remember [] as b eqn:Eb. induction H as [|x a b m H IH|y a b m H IH]; [reflexivity| |discriminate].
  rewrite (IH Eb). reflexivity.
Qed.

Lemma interleave_by_ok {A} : forall (sched : list bool) (a b : list A), Interleave a b (interleave_by sched a b).
Proof.
  assert (forall b : list A, Interleave [] b b) as Hr by (induction b; constructor; assumption).
  assert (forall a : list A, Interleave a [] a) as Hl by (induction a; constructor; assumption).
  assert (forall a b : list A, Interleave a b (a ++ b)) as Hab by (induction a; intros; [apply Hr|constructor; auto]).
  induction sched as [|[|] s IH]; intros a b; destruct a as [|x a]; destruct b as [|y b]; cbn [interleave_by];
    try apply Hr; try apply Hl; try apply Hab; constructor; apply IH.
Qed.

(* every process's bytes are all there, in order: nothing is lost or duplicated, only the PLACE is not guaranteed *)
Lemma interleave_length {A} (a b m : list (list A)) : Interleave a b m ->
  length (concat m) = length (concat a) + length (concat b).
Proof. induction 1; cbn [concat]; rewrite ?app_length; [reflexivity|lia|lia]. Qed.

Lemma interleave_singletons (a b m : list bytes) : Interleave a b m -> length a <= 1 -> length b <= 1 ->
  concat m = concat a ++ concat b \/ concat m = concat b ++ concat a.
Proof.
  intros H La Lb. destruct a as [|x [|x' a]]; [| |cbn [length] in La; lia].
  - apply interleave_nil_l in H. subst m. left. reflexivity.
  - destruct b as [|y [|y' b]]; [| |cbn [length] in Lb; lia].
    + apply interleave_nil_r in H. subst m. left. cbn [concat]. rewrite !app_nil_r. reflexivity.
    + inversion H as [|x0 a0 b0 m0 H0|y0 a0 b0 m0 H0]; subst.
      * apply interleave_nil_l in H0. subst. left. cbn [concat]. rewrite !app_nil_r. reflexivity.
      * apply interleave_nil_r in H0. subst. right. cbn [concat]. rewrite !app_nil_r. reflexivity.
Qed.

Lemma chunk_of_length buf : length (chunk_of buf) <= 1.
Proof. destruct buf; cbn; lia. Qed.

(* ---------- 3. what IS guaranteed ---------- *)
Section Guaranteed.
  Variable record : Type.
  Variable ser : record -> bytes.
  Variable de : bytes -> option record.
  Variable valid : record -> Prop.
  Hypothesis de_ser : forall r, valid r -> de (ser r) = Some r.
  Hypothesis ser_line : forall r, valid r -> line_ok (ser r).

  (* two processes append the batches a and b at the same time, each through its own BufWriter, WHATEVER fragments the
     serializer hands over: if each batch is at most `cap` bytes, the log holds the old records, then one batch, then
     the other *)
  Theorem concurrent_small_batches cap file old a b fa fb m :
    0 < cap -> terminated file -> read record de file = Some old -> Forall valid a -> Forall valid b ->
    concat fa = write record ser a -> concat fb = write record ser b ->
    length (write record ser a) <= cap -> length (write record ser b) <= cap ->
    Interleave (bufwriter cap fa) (bufwriter cap fb) m ->
    read record de (concurrent_file file m) = Some (old ++ a ++ b) \/
    read record de (concurrent_file file m) = Some (old ++ b ++ a).
  Proof.
    intros Hc Ht Ho Va Vb Ea Eb La Lb HI.
    rewrite bufwriter_single in HI by (rewrite ?Ea; assumption).
    rewrite (bufwriter_single cap fb) in HI by (rewrite ?Eb; assumption).
    unfold concurrent_file.
    destruct (interleave_singletons _ _ _ HI (chunk_of_length _) (chunk_of_length _)) as [E|E];
      rewrite E, !concat_chunk_of, Ea, Eb, <- (write_app record ser); [left|right];
      apply (log_append_any record ser de valid de_ser ser_line file old _ Ht Ho); apply Forall_app; split; assumption.
  Qed.
End Guaranteed.

(* the same for the concrete Record under float_rt *)
Theorem record_concurrent_small (F : Type) (finite : F -> Prop) (print_f64 : F -> bytes) (parse_f64 : bytes -> option F) :
  float_rt F finite print_f64 parse_f64 ->
  forall cap file old a b fa fb m,
  0 < cap -> terminated file -> read (record F) (de_record F finite print_f64 parse_f64) file = Some old ->
  Forall (good F finite print_f64 parse_f64) a -> Forall (good F finite print_f64 parse_f64) b ->
  concat fa = write (record F) (ser_record F finite print_f64 parse_f64) a ->
  concat fb = write (record F) (ser_record F finite print_f64 parse_f64) b ->
  length (write (record F) (ser_record F finite print_f64 parse_f64) a) <= cap ->
  length (write (record F) (ser_record F finite print_f64 parse_f64) b) <= cap ->
  Interleave (bufwriter cap fa) (bufwriter cap fb) m ->
  read (record F) (de_record F finite print_f64 parse_f64) (concurrent_file file m) = Some (old ++ a ++ b) \/
  read (record F) (de_record F finite print_f64 parse_f64) (concurrent_file file m) = Some (old ++ b ++ a).
Proof.
  intros Hf cap file old a b fa fb m.
  apply (concurrent_small_batches (record F) (ser_record F finite print_f64 parse_f64) (de_record F finite print_f64 parse_f64)
           (good F finite print_f64 parse_f64));
    intros r Hr; apply (record_value_roundtrip F finite print_f64 parse_f64 Hf r Hr).
Qed.

(* ---------- 4. above the capacity: refuted ---------- *)
Notation tser := (ser_record bytes txt_finite (fun t => t) (fun t => Some t)).
Notation tde := (de_record bytes txt_finite (fun t => t) (fun t => Some t)).

(* process A logs nine lint records (ex_lint, 1 001 bytes + LF each: 9 018 bytes > 8 192; the buffer fills 100 bytes into the ninth line), process B one configuration
   update; the log held one configuration update before.  The serializer hands each line over in two fragments (the
   real one uses many more; only where the buffer fills matters). *)
Definition w_old : bytes := write (record bytes) tser [ex_cfg].
Definition w_a : list (record bytes) := repeat ex_lint 9.
Definition w_b : list (record bytes) := [ex_cfg].
Definition w_fa : list bytes := flat_map (fun r => [firstn 100 (tser r); skipn 100 (tser r) ++ [10%N]]) w_a.
Definition w_fb : list bytes := [write (record bytes) tser w_b].
Definition w_cut : nat := 8 * length (tser ex_lint ++ [10%N]) + 100.
Definition w_c1 : bytes := firstn w_cut (write (record bytes) tser w_a).
Definition w_c2 : bytes := skipn w_cut (write (record bytes) tser w_a).
(* A's first write(2), then B's only one, then A's second *)
Definition w_m : list bytes := [w_c1; write (record bytes) tser w_b; w_c2].

Lemma w_chunks : bufwriter bufwriter_capacity w_fa = [w_c1; w_c2] /\ bufwriter bufwriter_capacity w_fb = [write (record bytes) tser w_b].
Proof. split; vm_compute; reflexivity. Qed.

Theorem concurrent_large_batch_refuted :
  Forall (good bytes txt_finite (fun t => t) (fun t => Some t)) w_a /\
  Forall (good bytes txt_finite (fun t => t) (fun t => Some t)) w_b /\
  concat w_fa = write (record bytes) tser w_a /\ concat w_fb = write (record bytes) tser w_b /\
  terminated w_old /\ read (record bytes) tde w_old = Some [ex_cfg] /\
  bufwriter_capacity < length (write (record bytes) tser w_a) /\
  Interleave (bufwriter bufwriter_capacity w_fa) (bufwriter bufwriter_capacity w_fb) w_m /\
  read (record bytes) tde (concurrent_file w_old w_m) = None /\
  (* whereas one after the other, in either order, they read back *)
  read (record bytes) tde (w_old ++ write (record bytes) tser w_a ++ write (record bytes) tser w_b) = Some ([ex_cfg] ++ w_a ++ w_b).
Proof.
  destruct ex_good as [Gl Gc]. destruct w_chunks as [Ca Cb].
  split; [apply Forall_forall; intros r Hr; apply repeat_spec in Hr; subst r; exact Gl|].
  split; [constructor; [exact Gc|constructor]|].
  split; [vm_compute; reflexivity|]. split; [vm_compute; reflexivity|].
  split; [apply write_terminated|]. split; [vm_compute; reflexivity|].
  split; [apply Nat.ltb_lt; vm_compute; reflexivity|].
  split; [rewrite Ca, Cb; unfold w_m; apply IL_left, IL_right, IL_left, IL_nil|].
  split; vm_compute; reflexivity.
Qed.

(* non-vacuity of concurrent_small_batches / record_concurrent_small: one lint record against one configuration update,
   each handed over in two fragments, B's write(2) first *)
Example concurrent_small_example :
  let fa := [firstn 100 (tser ex_lint); skipn 100 (tser ex_lint) ++ [10%N]] in
  let fb := [firstn 10 (tser ex_cfg); skipn 10 (tser ex_cfg) ++ [10%N]] in
  concat fa = write (record bytes) tser [ex_lint] /\ concat fb = write (record bytes) tser [ex_cfg] /\
  length (write (record bytes) tser [ex_lint]) <= bufwriter_capacity /\
  length (write (record bytes) tser [ex_cfg]) <= bufwriter_capacity /\
  bufwriter bufwriter_capacity fa = [write (record bytes) tser [ex_lint]] /\
  Interleave (bufwriter bufwriter_capacity fa) (bufwriter bufwriter_capacity fb)
             (interleave_by [false] (bufwriter bufwriter_capacity fa) (bufwriter bufwriter_capacity fb)) /\
  read (record bytes) tde (concurrent_file w_old (interleave_by [false] (bufwriter bufwriter_capacity fa) (bufwriter bufwriter_capacity fb)))
    = Some ([ex_cfg] ++ [ex_cfg] ++ [ex_lint]).
Proof.
  cbv zeta. split; [vm_compute; reflexivity|]. split; [vm_compute; reflexivity|].
  split; [apply Nat.leb_le; vm_compute; reflexivity|]. split; [apply Nat.leb_le; vm_compute; reflexivity|].
  split; [vm_compute; reflexivity|]. split; [apply interleave_by_ok|]. vm_compute. reflexivity.
Qed.
