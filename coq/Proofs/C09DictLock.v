(* C09DictLock.v — C09, the add-to-dictionary commands under Backend.dict_write_lock (cfbe845).
   For EVERY history (any messages) and EVERY schedule of the dispatcher `run` (instr granularity, up to four
   handlers in flight): the dictionary files only grow, and when everything has been handled every word of a
   HarperAddToUserDict / HarperAddToFileDict command is in its dictionary file - no update is lost, whatever
   else ran in between - and the lock is free again.
   Invariant `LInv`: a handler is a HOLDER while it is between its load and its save (its program starts with
   ITmp.. / IWrite..); the lock is held iff there is a holder, there is at most one, and what the holder loaded
   is still what the file holds. *)
Require Import Base Server ServerLemmas ServerSeq ServerConc.

Definition dict_instr (i : instr) : bool :=
  match i with ILoadUD | ITmpUD | IWriteUD | ILoadFD | ITmpFD | IWriteFD => true | _ => false end.
Definition clean (p : list instr) : bool := forallb (fun i => negb (dict_instr i)) p.

(* the shapes the program of a handler can have w.r.t. the dictionary instrs *)
Definition wfprog (p : list instr) : bool :=
  match p with
  | ILoadUD :: ITmpUD :: IWriteUD :: t => clean t
  | ITmpUD :: IWriteUD :: t => clean t
  | IWriteUD :: t => clean t
  | ILoadFD :: t => clean t
  | ITmpFD :: IWriteFD :: t => clean t
  | IWriteFD :: t => clean t
  | _ => clean p
  end.
Definition holdsU (p : list instr) : bool := match p with ITmpUD :: _ | IWriteUD :: _ => true | _ => false end.
Definition holdsF (p : list instr) : bool := match p with ITmpFD :: _ | IWriteFD :: _ => true | _ => false end.
Definition holds (p : list instr) : bool := holdsU p || holdsF p.

Definition held_ok (w : world) (hs : hstate) : Prop :=
  (holdsU (h_prog hs) = true -> l_ud (h_loc hs) = w_udict w) /\
  (holdsF (h_prog hs) = true ->
     l_fd (h_loc hs) = fdict_of w (l_url (h_loc hs)) /\ is_file (l_url (h_loc hs)) = true).

Record LInv (y : sys) : Prop := mkLInv {
  li_ids : NoDup (map h_id (y_flight y));
  li_next : forall hs, In hs (y_flight y) -> h_id hs < y_next y;
  li_wf : forall hs, In hs (y_flight y) -> wfprog (h_prog hs) = true;
  li_free : s_dlock (y_world y) = false -> forall hs, In hs (y_flight y) -> holds (h_prog hs) = false;
  li_held : s_dlock (y_world y) = true -> exists hs, In hs (y_flight y) /\ holds (h_prog hs) = true;
  li_one : forall a b, In a (y_flight y) -> In b (y_flight y) ->
           holds (h_prog a) = true -> holds (h_prog b) = true -> h_id a = h_id b;
  li_ok : forall hs, In hs (y_flight y) -> held_ok (y_world y) hs
}.

(* ---------- small facts ---------- *)
Lemma add_word_in : forall x l, In x (add_word x l).
Proof.
  intros x l. unfold add_word. destruct (existsb (Nat.eqb x) l) eqn:E.
  - apply existsb_exists in E as (z & Hz & Ez). apply Nat.eqb_eq in Ez. subst z. exact Hz.
  - apply in_or_app. right. left. reflexivity.
Qed.

Lemma add_word_keeps : forall x z l, In z l -> In z (add_word x l).
Proof. intros x z l H. unfold add_word. destruct (existsb (Nat.eqb x) l); [exact H|apply in_or_app; left; exact H]. Qed.

Lemma clean_app : forall a b, clean (a ++ b) = clean a && clean b.
Proof. intros. unfold clean. apply forallb_app. Qed.

Lemma clean_wf : forall p, clean p = true -> wfprog p = true.
Proof.
  intros p H. destruct p as [|i p]; [reflexivity|].
  destruct i; cbn in H |- *; try discriminate H; exact H.
Qed.

Lemma clean_not_holds : forall p, clean p = true -> holds p = false.
Proof. intros p H. destruct p as [|i p]; [reflexivity|]. destruct i; cbn in H |- *; try discriminate H; reflexivity. Qed.

Lemma clean_no_write : forall p, clean p = true -> ~ In IWriteUD p /\ ~ In IWriteFD p /\ ~ In ILoadFD p.
Proof.
  intros p H. unfold clean in H. rewrite forallb_forall in H.
  repeat split; intro Hin; apply H in Hin; discriminate Hin.
Qed.

Lemma holds_false : forall p, holds p = false -> holdsU p = false /\ holdsF p = false.
Proof. intros p H. apply orb_false_iff in H. exact H. Qed.

Lemma not_holds_ok : forall w hs, holds (h_prog hs) = false -> held_ok w hs.
Proof. intros w hs H. apply holds_false in H as [A B]. split; intro C; congruence. Qed.

Lemma clean_delsend : forall {A} (q : list A), clean (map (fun _ => IDelSend) q) = true.
Proof. induction q; [reflexivity|exact IHq]. Qed.

(* an instr that is not one of the six leaves the dictionary files and the lock alone and continues with
   instrs that are not among the six either *)
Lemma exec_nondict : forall i l w push l' w', dict_instr i = false -> exec i l w = Some (push, l', w') ->
  w_udict w' = w_udict w /\ w_fdict w' = w_fdict w /\ s_dlock w' = s_dlock w /\ clean push = true /\ l_word l' = l_word l.
Proof.
  intros i l w push l' w' Hd H.
  destruct i; try discriminate Hd; cbn [exec] in H;
    repeat match type of H with
           | context [if ?b then _ else _] => destruct b
           | context [match ?x with _ => _ end] => destruct x
           end;
    try discriminate H; inversion H; subst; cbn; repeat split; try reflexivity; apply clean_delsend.
Qed.

Lemma client_effect_dict : forall o w,
  w_udict (client_effect o w) = w_udict w /\ w_fdict (client_effect o w) = w_fdict w /\ s_dlock (client_effect o w) = s_dlock w.
Proof.
  intros o w. destruct o; cbn [client_effect];
    repeat match goal with |- context [match ?x with _ => _ end] => destruct x end; repeat split; reflexivity.
Qed.

Lemma prog_wf : forall o, wfprog (prog o) = true /\ holds (prog o) = false.
Proof. intro o. destruct o; split; reflexivity. Qed.

Lemma fdict_of_same : forall w w' u, w_fdict w' = w_fdict w -> fdict_of w' u = fdict_of w u.
Proof. intros w w' u H. unfold fdict_of. rewrite H. reflexivity. Qed.

Lemma held_ok_same : forall w w' hs, w_udict w' = w_udict w -> w_fdict w' = w_fdict w -> held_ok w hs -> held_ok w' hs.
Proof. intros w w' hs A B [H1 H2]. unfold held_ok. rewrite A, (fdict_of_same w w' _ B). split; assumption. Qed.

(* ---------- replacing the handler that made a step ---------- *)
Section Replace.
  Variables (y : sys) (id : nat) (hs : hstate) (p' : list instr) (l' : locals) (w' : world).
  Hypothesis I : LInv y.
  Hypothesis Hf : find_h id (y_flight y) = Some hs.
  Let h' := mkh id p' l'.
  Let Hid : h_id h' = id := eq_refl.
  Hypothesis Hwf : wfprog (h_prog h') = true.
  Let y' := mksys w' (replace_h h' (y_flight y)) (y_todo y) (y_next y).

  Lemma rep_mem : forall a, In a (y_flight y') -> (a = h' /\ h_prog h' <> []) \/ (In a (y_flight y) /\ h_id a <> id).
  Proof.
    intros a Hin. cbn [y' y_flight] in Hin.
    destruct (replace_h_In h' (y_flight y) (li_ids y I) a Hin) as [(A & B & _)|(A & B)]; [left; split; assumption|right; split; [exact A|congruence]].
  Qed.

  Lemma rep_base : NoDup (map h_id (y_flight y')) /\ (forall a, In a (y_flight y') -> h_id a < y_next y') /\
                   (forall a, In a (y_flight y') -> wfprog (h_prog a) = true).
  Proof.
    destruct (find_h_In _ _ _ Hf) as [Hin Hi].
    split; [apply replace_h_NoDup_ids, (li_ids y I)|]. split.
    - intros a Ha. destruct (rep_mem a Ha) as [[-> _]|[A _]]; [rewrite Hid, <- Hi; apply (li_next y I), Hin|apply (li_next y I), A].
    - intros a Ha. destruct (rep_mem a Ha) as [[-> _]|[A _]]; [exact Hwf|apply (li_wf y I), A].
  Qed.

  (* the stepping handler does not hold the lock afterwards *)
  Lemma rep_release :
    holds (h_prog h') = false ->
    (forall a, In a (y_flight y) -> h_id a <> id -> holds (h_prog a) = true -> s_dlock w' = true /\ held_ok w' a) ->
    (s_dlock w' = true -> exists a, In a (y_flight y) /\ h_id a <> id /\ holds (h_prog a) = true) ->
    LInv y'.
  Proof.
    intros Hn Hoth Hheld. destruct rep_base as (B1 & B2 & B3).
    constructor; try assumption.
    - intros Hd a Ha. destruct (rep_mem a Ha) as [[-> _]|[A B]]; [exact Hn|].
      destruct (holds (h_prog a)) eqn:E; [|reflexivity]. destruct (Hoth a A B E) as [C _]. cbn [y' y_world] in Hd. congruence.
    - intro Hd. destruct (Hheld Hd) as (a & A & B & C). exists a. split; [|exact C].
      cbn [y' y_flight]. apply replace_h_keeps; [exact A|congruence].
    - intros a b Ha Hb Ea Eb.
      destruct (rep_mem a Ha) as [[-> _]|[A1 A2]]; [congruence|].
      destruct (rep_mem b Hb) as [[-> _]|[B1' B2']]; [congruence|].
      exact (li_one y I a b A1 B1' Ea Eb).
    - intros a Ha. destruct (rep_mem a Ha) as [[-> _]|[A B]]; [apply not_holds_ok, Hn|].
      destruct (holds (h_prog a)) eqn:E; [exact (proj2 (Hoth a A B E))|apply not_holds_ok, E].
  Qed.

  (* the stepping handler holds the lock afterwards *)
  Lemma rep_hold :
    holds (h_prog h') = true -> s_dlock w' = true -> held_ok w' h' ->
    (forall a, In a (y_flight y) -> h_id a <> id -> holds (h_prog a) = false) ->
    LInv y'.
  Proof.
    intros Hh Hd Hok Hoth. destruct rep_base as (B1 & B2 & B3).
    destruct (find_h_In _ _ _ Hf) as [Hin Hi].
    constructor; try assumption.
    - intro Hd'. cbn [y' y_world] in Hd'. congruence.
    - intros _. exists h'. split; [|exact Hh]. cbn [y' y_flight]. apply replace_h_new.
      + rewrite Hid, <- Hi. apply in_map, Hin.
      + intro E. rewrite E in Hh. discriminate Hh.
    - intros a b Ha Hb Ea Eb.
      destruct (rep_mem a Ha) as [[-> _]|[A1 A2]]; [|rewrite (Hoth a A1 A2) in Ea; discriminate].
      destruct (rep_mem b Hb) as [[-> _]|[B1' B2']]; [reflexivity|rewrite (Hoth b B1' B2') in Eb; discriminate].
    - intros a Ha. destruct (rep_mem a Ha) as [[-> _]|[A B]]; [exact Hok|apply not_holds_ok, (Hoth a A B)].
  Qed.
End Replace.

(* the handler that holds is the only one *)
Lemma others_idle : forall y hs, LInv y -> In hs (y_flight y) -> holds (h_prog hs) = true ->
  forall a, In a (y_flight y) -> h_id a <> h_id hs -> holds (h_prog a) = false.
Proof.
  intros y hs I Hin Hh a Ha Hne. destruct (holds (h_prog a)) eqn:E; [|reflexivity].
  exfalso. apply Hne. exact (li_one y I a hs Ha Hin E Hh).
Qed.

Lemma locked_when_held : forall y hs, LInv y -> In hs (y_flight y) -> holds (h_prog hs) = true -> s_dlock (y_world y) = true.
Proof.
  intros y hs I Hin Hh. destruct (s_dlock (y_world y)) eqn:E; [reflexivity|].
  rewrite (li_free y I E hs Hin) in Hh. discriminate Hh.
Qed.

(* ---------- LInv is preserved by every step of the dispatcher ---------- *)
Lemma linv_run_step : forall id y y', LInv y -> step (CRun id) y = Some y' -> LInv y'.
Proof.
  intros id y y' I H. cbn [step] in H.
  destruct (find_h id (y_flight y)) as [hs|] eqn:Hf; [|discriminate].
  destruct (h_prog hs) as [|i p] eqn:Hp; [discriminate|].
  destruct (exec i (h_loc hs) (y_world y)) as [[[push l'] w']|] eqn:He; [|discriminate].
  inversion H; subst y'; clear H.
  destruct (find_h_In _ _ _ Hf) as [Hin Hi]. subst id.
  pose proof (li_wf y I hs Hin) as Wf. rewrite Hp in Wf.
  pose proof (li_ok y I hs Hin) as Ok. unfold held_ok in Ok. rewrite Hp in Ok.
  destruct (dict_instr i) eqn:Ed.
  - (* one of the six *)
    destruct i; try discriminate Ed; cbn [exec] in He.
    + (* ILoadUD *)
      destruct (s_dlock (y_world y)) eqn:Edl; [discriminate|]. inversion He; subst; clear He.
      destruct p as [|[] [|[] t]]; try discriminate Wf. cbn [wfprog] in Wf.
      apply (rep_hold y (h_id hs) hs _ _ _ I Hf); cbn [h_prog h_loc app]; try reflexivity.
      * exact Wf.
      * split; [intros _; reflexivity|intro C; discriminate C].
      * intros a Ha _. exact (li_free y I Edl a Ha).
    + (* ITmpUD *)
      inversion He; subst; clear He.
      destruct p as [|[] t]; try discriminate Wf.
      assert (Hh : holds (h_prog hs) = true) by (rewrite Hp; reflexivity).
      apply (rep_hold y (h_id hs) hs _ _ _ I Hf); cbn [h_prog h_loc app]; try reflexivity.
      * exact Wf.
      * exact (locked_when_held y hs I Hin Hh).
      * split; [intros _; apply (proj1 Ok); reflexivity|intro C; discriminate C].
      * exact (others_idle y hs I Hin Hh).
    + (* IWriteUD *)
      inversion He; subst; clear He. cbn [wfprog] in Wf.
      assert (Hh : holds (h_prog hs) = true) by (rewrite Hp; reflexivity).
      apply (rep_release y (h_id hs) hs _ _ _ I Hf); cbn [h_prog h_loc app].
      * apply clean_wf, Wf.
      * apply clean_not_holds, Wf.
      * intros a Ha Hne Ea. rewrite (others_idle y hs I Hin Hh a Ha Hne) in Ea. discriminate Ea.
      * intro C. discriminate C.
    + (* ILoadFD *)
      destruct (s_dlock (y_world y)) eqn:Edl; [discriminate|]. cbn [wfprog] in Wf.
      destruct (is_file (l_url (h_loc hs))) eqn:Ef; inversion He; subst; clear He.
      * apply (rep_hold y (h_id hs) hs _ _ _ I Hf); cbn [h_prog h_loc app]; try reflexivity.
        -- exact Wf.
        -- split; [intro C; discriminate C|intros _]. cbn [l_fd lset_fd l_url]. split; [reflexivity|exact Ef].
        -- intros a Ha _. exact (li_free y I Edl a Ha).
      * apply (rep_release y (h_id hs) hs _ _ _ I Hf); cbn [h_prog h_loc app].
        -- apply clean_wf, Wf.
        -- apply clean_not_holds, Wf.
        -- intros a Ha _ Ea. rewrite (li_free y I Edl a Ha) in Ea. discriminate Ea.
        -- intro C. congruence.
    + (* ITmpFD *)
      inversion He; subst; clear He.
      destruct p as [|[] t]; try discriminate Wf.
      assert (Hh : holds (h_prog hs) = true) by (rewrite Hp; reflexivity).
      apply (rep_hold y (h_id hs) hs _ _ _ I Hf); cbn [h_prog h_loc app]; try reflexivity.
      * exact Wf.
      * exact (locked_when_held y hs I Hin Hh).
      * split; [intro C; discriminate C|intros _; apply (proj2 Ok); reflexivity].
      * exact (others_idle y hs I Hin Hh).
    + (* IWriteFD *)
      inversion He; subst; clear He. cbn [wfprog] in Wf.
      assert (Hh : holds (h_prog hs) = true) by (rewrite Hp; reflexivity).
      apply (rep_release y (h_id hs) hs _ _ _ I Hf); cbn [h_prog h_loc app].
      * apply clean_wf, Wf.
      * apply clean_not_holds, Wf.
      * intros a Ha Hne Ea. rewrite (others_idle y hs I Hin Hh a Ha Hne) in Ea. discriminate Ea.
      * intro C. discriminate C.
  - (* any other instr *)
    destruct (exec_nondict _ _ _ _ _ _ Ed He) as (Eu & Efd & Edl & Cp & _).
    assert (Cl : clean (i :: p) = true) by (destruct i; try discriminate Ed; exact Wf).
    assert (Cl' : clean (push ++ p) = true).
    { rewrite clean_app, Cp. cbn [clean forallb] in Cl. apply andb_true_iff in Cl as [_ Cl]. exact Cl. }
    assert (Hnh : holds (h_prog hs) = false) by (rewrite Hp; apply clean_not_holds, Cl).
    apply (rep_release y (h_id hs) hs _ _ _ I Hf); cbn [h_prog h_loc].
    + apply clean_wf, Cl'.
    + apply clean_not_holds, Cl'.
    + intros a Ha _ Ea. split; [rewrite Edl; exact (locked_when_held y a I Ha Ea)|].
      exact (held_ok_same _ _ a Eu Efd (li_ok y I a Ha)).
    + intro C. rewrite Edl in C. destruct (li_held y I C) as (a & Ha & Ea). exists a. split; [exact Ha|]. split; [|exact Ea].
      intro E. assert (a = hs).
      { eapply (NoDup_map_inj h_id (y_flight y)); [exact (li_ids y I)|exact Ha|exact Hin|exact E]. }
      subst a. congruence.
Qed.

Lemma linv_admit : forall y y', LInv y -> step CAdmit y = Some y' -> LInv y'.
Proof.
  intros y y' I H. cbn [step] in H. destruct (y_todo y) as [|o rest]; [discriminate|].
  destruct (length (y_flight y) <? max_in_flight); [|discriminate]. inversion H; subst y'; clear H.
  destruct (client_effect_dict o (y_world y)) as (Eu & Efd & Edl). destruct (prog_wf o) as [Pw Ph].
  set (hn := mkh (y_next y) (prog o) (locals_of o)).
  assert (Mem : forall a, In a (y_flight y ++ [hn]) -> In a (y_flight y) \/ a = hn).
  { intros a Ha. apply in_app_or in Ha as [Ha|[Ha|[]]]; [left; exact Ha|right; symmetry; exact Ha]. }
  constructor; cbn [y_world y_flight y_next].
  - rewrite map_app. apply NoDup_app_intro; [exact (li_ids y I)|constructor; [intros []|constructor]|].
    intros x Hx [Hy|[]]. cbn in Hy. subst x. apply in_map_iff in Hx as (a & Ea & Ha). pose proof (li_next y I a Ha). lia.
  - intros a Ha. destruct (Mem a Ha) as [A| ->]; [pose proof (li_next y I a A); lia|cbn; lia].
  - intros a Ha. destruct (Mem a Ha) as [A| ->]; [exact (li_wf y I a A)|exact Pw].
  - intros Hd a Ha. rewrite Edl in Hd. destruct (Mem a Ha) as [A| ->]; [exact (li_free y I Hd a A)|exact Ph].
  - intro Hd. rewrite Edl in Hd. destruct (li_held y I Hd) as (a & Ha & Ea). exists a. split; [apply in_or_app; left; exact Ha|exact Ea].
  - intros a b Ha Hb Ea Eb.
    destruct (Mem a Ha) as [A| ->]; [|cbn [hn h_prog] in Ea; congruence].
    destruct (Mem b Hb) as [B| ->]; [|cbn [hn h_prog] in Eb; congruence].
    exact (li_one y I a b A B Ea Eb).
  - intros a Ha. destruct (Mem a Ha) as [A| ->]; [exact (held_ok_same _ _ a Eu Efd (li_ok y I a A))|apply not_holds_ok, Ph].
Qed.

Lemma linv_step : forall c y y', LInv y -> step c y = Some y' -> LInv y'.
Proof. intros [|id] y y' I H; [eapply linv_admit; eassumption|eapply linv_run_step; eassumption]. Qed.

Lemma linv_init : forall h w, s_dlock w = false -> LInv (init h w).
Proof.
  intros h w Hd. constructor; cbn [init y_world y_flight y_next]; try (intros; contradiction).
  - constructor.
  - intro C. congruence.
Qed.

(* ---------- what is owed: the words of the add-word commands ---------- *)
Definition owedU (x : word) (y : sys) : Prop :=
  (exists u, In (AddUser x u) (y_todo y)) \/
  (exists hs, In hs (y_flight y) /\ In IWriteUD (h_prog hs) /\ l_word (h_loc hs) = x) \/
  In x (w_udict (y_world y)).

Definition owedF (x : word) (u : url) (y : sys) : Prop :=
  In (AddFile x u) (y_todo y) \/
  (exists hs, In hs (y_flight y) /\ (In ILoadFD (h_prog hs) \/ In IWriteFD (h_prog hs)) /\
              l_word (h_loc hs) = x /\ l_url (h_loc hs) = u) \/
  In x (fdict_of (y_world y) u).

Lemma fdict_of_upsert : forall w u v l, is_file u = true ->
  fdict_of (set_dlock false (set_fdict (upsert u l (w_fdict w)) w)) v = if url_eqb v u then l else fdict_of w v.
Proof.
  intros w u v l Hu. unfold fdict_of. cbn [w_fdict set_fdict set_dlock]. rewrite lookup_upsert.
  destruct (url_eqb v u) eqn:E; [apply url_eqb_eq in E; subst v; rewrite Hu; reflexivity|reflexivity].
Qed.

(* the dictionary files only grow *)
Lemma dict_mono_step : forall c y y', LInv y -> step c y = Some y' ->
  (forall x, In x (w_udict (y_world y)) -> In x (w_udict (y_world y'))) /\
  (forall x u, In x (fdict_of (y_world y) u) -> In x (fdict_of (y_world y') u)).
Proof.
  intros [|id] y y' I H; cbn [step] in H.
  - destruct (y_todo y) as [|o rest]; [discriminate|]. destruct (length (y_flight y) <? max_in_flight); [|discriminate].
    inversion H; subst y'; clear H. cbn [y_world]. destruct (client_effect_dict o (y_world y)) as (Eu & Efd & _).
    rewrite Eu. split; [auto|]. intros x u. rewrite (fdict_of_same _ _ u Efd). auto.
  - destruct (find_h id (y_flight y)) as [hs|] eqn:Hf; [|discriminate].
    destruct (h_prog hs) as [|i p] eqn:Hp; [discriminate|].
    destruct (exec i (h_loc hs) (y_world y)) as [[[push l'] w']|] eqn:He; [|discriminate].
    inversion H; subst y'; clear H. cbn [y_world].
    destruct (find_h_In _ _ _ Hf) as [Hin Hi].
    pose proof (li_ok y I hs Hin) as Ok. unfold held_ok in Ok. rewrite Hp in Ok.
    destruct (dict_instr i) eqn:Ed.
    + destruct i; try discriminate Ed; cbn [exec] in He.
      * destruct (s_dlock (y_world y)); [discriminate|]. inversion He; subst. split; auto.
      * inversion He; subst. split; auto.
      * inversion He; subst; clear He. cbn [w_udict set_udict set_dlock]. split.
        -- intros x Hx. rewrite (proj1 Ok eq_refl). apply add_word_keeps, Hx.
        -- intros x u Hx. exact Hx.
      * destruct (s_dlock (y_world y)); [discriminate|]. destruct (is_file (l_url (h_loc hs))); inversion He; subst; split; auto.
      * inversion He; subst. split; auto.
      * inversion He; subst; clear He. destruct (proj2 Ok eq_refl) as [Efd Efile]. split; [auto|].
        intros x u Hx. rewrite fdict_of_upsert by exact Efile.
        destruct (url_eqb u (l_url (h_loc hs))) eqn:E; [|exact Hx].
        apply url_eqb_eq in E. subst u. rewrite Efd. apply add_word_keeps, Hx.
    + destruct (exec_nondict _ _ _ _ _ _ Ed He) as (Eu & Efd & _). rewrite Eu. split; [auto|].
      intros x u. rewrite (fdict_of_same _ _ u Efd). auto.
Qed.

Lemma owedU_step : forall c x y y', LInv y -> step c y = Some y' -> owedU x y -> owedU x y'.
Proof.
  intros c x y y' I H O. pose proof (dict_mono_step c y y' I H) as [Mono _].
  destruct O as [(u & Hu)|[(hs & Hin & Hw & Hx)|Hx]]; [| |right; right; apply Mono, Hx].
  - (* still queued *)
    destruct c as [|id]; cbn [step] in H.
    + destruct (y_todo y) as [|o rest] eqn:Et; [discriminate|]. destruct (length (y_flight y) <? max_in_flight); [|discriminate].
      inversion H; subst y'; clear H. destruct Hu as [Hu|Hu].
      * subst o. right. left. exists (mkh (y_next y) (prog (AddUser x u)) (locals_of (AddUser x u))).
        split; [apply in_or_app; right; left; reflexivity|]. split; [cbn; tauto|reflexivity].
      * left. exists u. exact Hu.
    + destruct (find_h id (y_flight y)) as [hs|]; [|discriminate]. destruct (h_prog hs) as [|i p]; [discriminate|].
      destruct (exec i (h_loc hs) (y_world y)) as [[[push l'] w']|]; [|discriminate].
      inversion H; subst y'. left. exists u. exact Hu.
  - (* in flight *)
    destruct c as [|id]; cbn [step] in H.
    + destruct (y_todo y) as [|o rest]; [discriminate|]. destruct (length (y_flight y) <? max_in_flight); [|discriminate].
      inversion H; subst y'; clear H. right. left. exists hs. split; [apply in_or_app; left; exact Hin|]. split; assumption.
    + destruct (find_h id (y_flight y)) as [hs0|] eqn:Hf; [|discriminate].
      destruct (h_prog hs0) as [|i p] eqn:Hp; [discriminate|].
      destruct (exec i (h_loc hs0) (y_world y)) as [[[push l'] w']|] eqn:He; [|discriminate].
      inversion H; subst y'; clear H. destruct (find_h_In _ _ _ Hf) as [Hin0 Hi0].
      destruct (Nat.eq_dec (h_id hs) id) as [E|E].
      * (* the handler itself steps *)
        assert (hs = hs0).
        { eapply (NoDup_map_inj h_id (y_flight y)); [exact (li_ids y I)|exact Hin|exact Hin0|congruence]. }
        subst hs0. rewrite Hp in Hw.
        pose proof (li_wf y I hs Hin) as Wf. rewrite Hp in Wf.
        pose proof (li_ok y I hs Hin) as Ok. unfold held_ok in Ok. rewrite Hp in Ok.
        destruct (dict_instr i) eqn:Ed.
        -- destruct i; try discriminate Ed; cbn [exec] in He.
           ++ (* ILoadUD *)
              destruct (s_dlock (y_world y)); [discriminate|]. inversion He; subst; clear He.
              destruct p as [|[] [|[] t]]; try discriminate Wf.
              right. left. eexists. split; [apply replace_h_new; [cbn [h_id]; apply in_map, Hin|cbn; discriminate]|].
              cbn [h_prog h_loc app]. split; [cbn; tauto|reflexivity].
           ++ (* ITmpUD *)
              inversion He; subst; clear He. destruct p as [|[] t]; try discriminate Wf.
              right. left. eexists. split; [apply replace_h_new; [cbn [h_id]; apply in_map, Hin|cbn; discriminate]|].
              cbn [h_prog h_loc app]. split; [cbn; tauto|reflexivity].
           ++ (* IWriteUD: the word is written *)
              inversion He; subst; clear He. right. right. cbn [y_world w_udict set_udict set_dlock]. apply add_word_in.
           ++ (* ILoadFD: not in a program that still has IWriteUD *)
              cbn [wfprog] in Wf. destruct Hw as [Hw|Hw]; [discriminate Hw|]. exfalso. exact (proj1 (clean_no_write p Wf) Hw).
           ++ destruct p as [|[] t]; try discriminate Wf. cbn [wfprog] in Wf.
              destruct Hw as [Hw|[Hw|Hw]]; try discriminate Hw. exfalso. exact (proj1 (clean_no_write t Wf) Hw).
           ++ cbn [wfprog] in Wf. destruct Hw as [Hw|Hw]; [discriminate Hw|]. exfalso. exact (proj1 (clean_no_write p Wf) Hw).
        -- exfalso. assert (Cl : clean (i :: p) = true) by (destruct i; try discriminate Ed; exact Wf).
           exact (proj1 (clean_no_write _ Cl) Hw).
      * right. left. exists hs. split; [apply replace_h_keeps; [exact Hin|cbn [h_id]; exact E]|]. split; assumption.
Qed.

Lemma owedF_step : forall c x u y y', is_file u = true -> LInv y -> step c y = Some y' -> owedF x u y -> owedF x u y'.
Proof.
  intros c x u y y' Hfile I H O. pose proof (dict_mono_step c y y' I H) as [_ Mono].
  destruct O as [Hu|[(hs & Hin & Hw & Hx & Hurl)|Hx]]; [| |right; right; apply Mono, Hx].
  - destruct c as [|id]; cbn [step] in H.
    + destruct (y_todo y) as [|o rest] eqn:Et; [discriminate|]. destruct (length (y_flight y) <? max_in_flight); [|discriminate].
      inversion H; subst y'; clear H. destruct Hu as [Hu|Hu].
      * subst o. right. left. exists (mkh (y_next y) (prog (AddFile x u)) (locals_of (AddFile x u))).
        split; [apply in_or_app; right; left; reflexivity|]. split; [left; cbn; tauto|split; reflexivity].
      * left. exact Hu.
    + destruct (find_h id (y_flight y)) as [hs|]; [|discriminate]. destruct (h_prog hs) as [|i p]; [discriminate|].
      destruct (exec i (h_loc hs) (y_world y)) as [[[push l'] w']|]; [|discriminate].
      inversion H; subst y'. left. exact Hu.
  - destruct c as [|id]; cbn [step] in H.
    + destruct (y_todo y) as [|o rest]; [discriminate|]. destruct (length (y_flight y) <? max_in_flight); [|discriminate].
      inversion H; subst y'; clear H. right. left. exists hs. split; [apply in_or_app; left; exact Hin|]. repeat split; assumption.
    + destruct (find_h id (y_flight y)) as [hs0|] eqn:Hf; [|discriminate].
      destruct (h_prog hs0) as [|i p] eqn:Hp; [discriminate|].
      destruct (exec i (h_loc hs0) (y_world y)) as [[[push l'] w']|] eqn:He; [|discriminate].
      inversion H; subst y'; clear H. destruct (find_h_In _ _ _ Hf) as [Hin0 Hi0].
      destruct (Nat.eq_dec (h_id hs) id) as [E|E].
      * assert (hs = hs0).
        { eapply (NoDup_map_inj h_id (y_flight y)); [exact (li_ids y I)|exact Hin|exact Hin0|congruence]. }
        subst hs0. rewrite Hp in Hw.
        pose proof (li_wf y I hs Hin) as Wf. rewrite Hp in Wf.
        pose proof (li_ok y I hs Hin) as Ok. unfold held_ok in Ok. rewrite Hp in Ok.
        assert (NoF : forall t, clean t = true -> In ILoadFD t \/ In IWriteFD t -> False).
        { intros t Ct [A|A]; [exact (proj2 (proj2 (clean_no_write t Ct)) A)|exact (proj1 (proj2 (clean_no_write t Ct)) A)]. }
        destruct (dict_instr i) eqn:Ed.
        -- destruct i; try discriminate Ed; cbn [exec] in He.
           ++ destruct p as [|[] [|[] t]]; try discriminate Wf. cbn [wfprog] in Wf. exfalso.
              destruct Hw as [[Hw|[Hw|[Hw|Hw]]]|[Hw|[Hw|[Hw|Hw]]]]; try discriminate Hw; eapply NoF; eauto.
           ++ destruct p as [|[] t]; try discriminate Wf. cbn [wfprog] in Wf. exfalso.
              destruct Hw as [[Hw|[Hw|Hw]]|[Hw|[Hw|Hw]]]; try discriminate Hw; eapply NoF; eauto.
           ++ cbn [wfprog] in Wf. exfalso. destruct Hw as [[Hw|Hw]|[Hw|Hw]]; try discriminate Hw; eapply NoF; eauto.
           ++ (* ILoadFD *)
              destruct (s_dlock (y_world y)); [discriminate|]. rewrite Hurl, Hfile in He. inversion He; subst; clear He.
              right. left. eexists. split; [apply replace_h_new; [cbn [h_id]; apply in_map, Hin|cbn; discriminate]|].
              cbn [h_prog h_loc app]. split; [right; cbn; tauto|split; reflexivity].
           ++ (* ITmpFD *)
              inversion He; subst; clear He. destruct p as [|[] t]; try discriminate Wf.
              right. left. eexists. split; [apply replace_h_new; [cbn [h_id]; apply in_map, Hin|cbn; discriminate]|].
              cbn [h_prog h_loc app]. split; [right; cbn; tauto|split; reflexivity].
           ++ (* IWriteFD: the word is written *)
              inversion He; subst; clear He. right. right. cbn [y_world].
              rewrite fdict_of_upsert by exact Hfile. rewrite url_eqb_refl. apply add_word_in.
        -- exfalso. assert (Cl : clean (i :: p) = true) by (destruct i; try discriminate Ed; exact Wf).
           eapply NoF; eauto.
      * right. left. exists hs. split; [apply replace_h_keeps; [exact Hin|cbn [h_id]; exact E]|]. repeat split; assumption.
Qed.

Lemma linv_run : forall cs y y', LInv y -> run cs y = Some y' -> LInv y'.
Proof.
  induction cs as [|c cs IH]; intros y y' I H; cbn [run] in H; [inversion H; subst; exact I|].
  destruct (step c y) as [y1|] eqn:E; [|discriminate]. exact (IH y1 y' (linv_step c y y1 I E) H).
Qed.

Lemma owed_run : forall cs y y', LInv y -> run cs y = Some y' ->
  (forall x, owedU x y -> owedU x y') /\ (forall x u, is_file u = true -> owedF x u y -> owedF x u y').
Proof.
  induction cs as [|c cs IH]; intros y y' I H; cbn [run] in H; [inversion H; subst; split; auto|].
  destruct (step c y) as [y1|] eqn:E; [|discriminate].
  destruct (IH y1 y' (linv_step c y y1 I E) H) as [A B]. split.
  - intros x O. apply A. exact (owedU_step c x y y1 I E O).
  - intros x u Hu O. apply B; [exact Hu|]. exact (owedF_step c x u y y1 Hu I E O).
Qed.

(* C09: no add-to-dictionary command loses its word, whatever runs at the same time *)
Theorem add_word_not_lost : forall h w0 cs y,
  s_dlock w0 = false -> run cs (init h w0) = Some y -> quiescent y ->
  (forall x u, In (AddUser x u) h -> In x (w_udict (y_world y))) /\
  (forall x u, In (AddFile x u) h -> is_file u = true -> In x (fdict_of (y_world y) u)) /\
  (forall x, In x (w_udict w0) -> In x (w_udict (y_world y))) /\
  (forall x u, In x (fdict_of w0 u) -> In x (fdict_of (y_world y) u)) /\
  s_dlock (y_world y) = false.
Proof.
  intros h w0 cs y Hd H [Qf Qt].
  pose proof (linv_init h w0 Hd) as I0. pose proof (linv_run cs _ _ I0 H) as I.
  destruct (owed_run cs _ _ I0 H) as [OU OF].
  assert (EndU : forall x, owedU x y -> In x (w_udict (y_world y))).
  { intros x [(u & Hu)|[(hs & Hin & _)|Hx]]; [rewrite Qt in Hu; contradiction|rewrite Qf in Hin; contradiction|exact Hx]. }
  assert (EndF : forall x u, owedF x u y -> In x (fdict_of (y_world y) u)).
  { intros x u [Hu|[(hs & Hin & _)|Hx]]; [rewrite Qt in Hu; contradiction|rewrite Qf in Hin; contradiction|exact Hx]. }
  repeat split.
  - intros x u Hin. apply EndU, OU. left. exists u. exact Hin.
  - intros x u Hin Hu. apply EndF, OF; [exact Hu|]. left. exact Hin.
  - intros x Hx. apply EndU, OU. right. right. exact Hx.
  - intros x u Hx. destruct (is_file u) eqn:Ef; [apply EndF, OF; [exact Ef|right; right; exact Hx]|].
    unfold fdict_of in Hx. rewrite Ef in Hx. contradiction.
  - destruct (s_dlock (y_world y)) eqn:E; [|reflexivity]. destruct (li_held y I E) as (a & Ha & _). rewrite Qf in Ha. contradiction.
Qed.

(* ---------- non-vacuity and the role of the lock ---------- *)
Definition two_words_history : list op := [AddUser 5 (UFile 0 0); AddUser 6 (UFile 0 1); AddFile 7 (UFile 0 0)].
(* all three admitted; the first loads (takes the lock); the others are blocked until it has saved *)
Definition two_words_schedule : list choice :=
  [CAdmit; CAdmit; CAdmit; CRun 0; CRun 0; CRun 0; CRun 1; CRun 0; CRun 1; CRun 1; CRun 2; CRun 0; CRun 2; CRun 2; CRun 1; CRun 1; CRun 2; CRun 2].

Example two_words_run :
  exists y, run two_words_schedule (init two_words_history (world0 0)) = Some y /\ quiescentb y = true /\
    w_udict (y_world y) = [5; 6] /\ fdict_of (y_world y) (UFile 0 0) = [7] /\ s_dlock (y_world y) = false.
Proof. eexists. split; [vm_compute; reflexivity|]. repeat split; vm_compute; reflexivity. Qed.

(* while the first command is between its load and its save the second cannot load: the schedule that lost
   a word before cfbe845 (both load, then both save) is not a schedule of the server any more *)
Example lock_blocks_second_load :
  exists y, run [CAdmit; CAdmit; CRun 0] (init two_words_history (world0 0)) = Some y /\
    s_dlock (y_world y) = true /\ step (CRun 1) y = None /\ step (CRun 0) y <> None.
Proof. eexists. split; [vm_compute; reflexivity|]. repeat split; vm_compute; congruence. Qed.

(* ---------- HISTORY (labelled): the dispatcher with the add-word instrs as they were BEFORE cfbe845 (no lock) ---------- *)
Definition exec_before_cfbe845 (i : instr) (l : locals) (w : world) : option (list instr * locals * world) :=
  match i with
  | ILoadUD => Some ([], lset_ud (w_udict w) l, w)
  | IWriteUD => Some ([], l, set_udict (add_word (l_word l) (l_ud l)) w)
  | ILoadFD =>
      if is_file (l_url l) then Some ([ITmpFD; IWriteFD], lset_fd (fdict_of w (l_url l)) l, w) else Some ([], lset_fd [] l, w)
  | IWriteFD => Some ([], l, set_fdict (upsert (l_url l) (add_word (l_word l) (l_fd l)) (w_fdict w)) w)
  | _ => exec i l w
  end.

Definition step_before_cfbe845 (c : choice) (y : sys) : option sys :=
  match c with
  | CAdmit => step CAdmit y
  | CRun id =>
      match find_h id (y_flight y) with
      | Some h =>
          match h_prog h with
          | i :: p =>
              match exec_before_cfbe845 i (h_loc h) (y_world y) with
              | Some (push, l', w') => Some (mksys w' (replace_h (mkh id (push ++ p) l') (y_flight y)) (y_todo y) (y_next y))
              | None => None
              end
          | [] => None
          end
      | None => None
      end
  end.

Fixpoint run_before_cfbe845 (cs : list choice) (y : sys) : option sys :=
  match cs with
  | [] => Some y
  | c :: cs' => match step_before_cfbe845 c y with Some y' => run_before_cfbe845 cs' y' | None => None end
  end.

(* both commands load the (empty) user dictionary, then both save: the first word is overwritten *)
Definition lost_word_schedule : list choice :=
  [CAdmit; CAdmit; CRun 0; CRun 1; CRun 0; CRun 0; CRun 1; CRun 1; CRun 0; CRun 0; CRun 1; CRun 1].

Example word_lost_before_cfbe845 :
  (exists y, run_before_cfbe845 lost_word_schedule (init [AddUser 5 (UFile 0 0); AddUser 6 (UFile 0 1)] (world0 0)) = Some y /\
     quiescentb y = true /\ w_udict (y_world y) = [6]) /\
  run lost_word_schedule (init [AddUser 5 (UFile 0 0); AddUser 6 (UFile 0 1)] (world0 0)) = None.
Proof. split; [eexists; split; [vm_compute; reflexivity|split; vm_compute; reflexivity]|vm_compute; reflexivity]. Qed.
