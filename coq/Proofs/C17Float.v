(* C17Float.v — C17, the f64 premise, discharged with Flocq (IEEE 754 binary64 = BinarySingleNaN 53 1024).

   This is the ONLY place (with C17FloatLink.v and Properties/C17F64.v, which import it) where Flocq and the
   real numbers are used; every theorem here therefore depends on the axioms of Coq's classical reals
   (Print Assumptions in Properties/C17F64.v lists them).

   What the code does with the value of a Number token (harper-core/src/number.rs, correct_suffix_for):
       let number = number.into();                                   // f64
       if number < 0.0 || number - number.floor() > f64::EPSILON || number > u64::MAX as f64 { return None; }
       let integer = number as u64;                                  // saturating cast
       if let 11..=13 = integer % 100 { .. }  match integer % 10 { .. }
   and where it comes from (lexing/mod.rs, lex_number): `s.parse::<f64>()` on the digit string.
   Model: `correct_suffix_for_f64` below, operation by operation, on binary64 values.
   `f64_of_N n` is the CORRECTLY ROUNDED (round to nearest, ties to even) binary64 value of the integer n.  The
   one fact about Rust that stays a hypothesis: str::parse::<f64> is correctly rounded (monitored by the harness:
   the bits of the parsed value are compared with the bits computed by the extracted `f64_bits (f64_of_N n)`). *)
Require Import Base Tables_number Number NumberArith.
From Coq Require Import ZArith NArith Reals Lia Lra List Bool.
From Flocq Require Import Core BinarySingleNaN.
Import ListNotations.

Local Open Scope Z_scope.

Definition f64_prec : Prec_gt_0 53 := eq_refl.
Definition f64_emax : Prec_lt_emax 53 1024 := eq_refl.
Definition f64 := binary_float 53 1024.

(* the correctly rounded binary64 value of an integer *)
Definition f64_of_Z (z : Z) : f64 := binary_normalize 53 1024 f64_prec f64_emax mode_NE z 0 false.
Definition f64_of_N (n : N) : f64 := f64_of_Z (Z.of_N n).

(* constants of the code *)
Definition f64_zero : f64 := @B754_zero 53 1024 false.                                         (* 0.0 *)
Definition f64_epsilon : f64 := @B754_finite 53 1024 false 4503599627370496%positive (-104) eq_refl.   (* f64::EPSILON = 2^-52 *)
Definition u64_max : Z := 18446744073709551615.
Definition f64_u64max : f64 := f64_of_Z u64_max.                                              (* u64::MAX as f64 (rounds to 2^64) *)

(* `a < b` / `a > b` on f64 (false when unordered) *)
Definition f64_lt (a b : f64) : bool := Bltb a b.
Definition f64_floor (x : f64) : f64 := @Bnearbyint 53 1024 f64_emax mode_DN x.
Definition f64_sub (a b : f64) : f64 := @Bminus 53 1024 f64_prec f64_emax mode_NE a b.

(* `number as u64`: NaN -> 0, saturating at both ends, otherwise truncation towards zero *)
Definition f64_to_u64 (x : f64) : N :=
  if is_nan x then 0%N
  else if is_finite x then
    let z := Btrunc x in
    if z <? 0 then 0%N else if u64_max <? z then Z.to_N u64_max else Z.to_N z
  else if Bsign x then 0%N else Z.to_N u64_max.

(* NumberSuffix::correct_suffix_for on the f64 (the table part is Number.correct_suffix_for_int, whose `mod`s
   are the u64 `%` of the code) *)
Definition correct_suffix_for_f64 (x : f64) : option suffix :=
  if f64_lt x f64_zero || f64_lt f64_epsilon (f64_sub x (f64_floor x)) || f64_lt f64_u64max x then None
  else correct_suffix_for_int (f64_to_u64 x).

(* the bit pattern (f64::to_bits), for the tie with Rust only *)
Definition f64_bits (x : f64) : Z :=
  match x with
  | B754_zero s => if s then 2 ^ 63 else 0
  | B754_infinity s => (if s then 2 ^ 63 else 0) + 2047 * 2 ^ 52
  | B754_nan => 2047 * 2 ^ 52 + 2 ^ 51
  | B754_finite s m e _ =>
      (if s then 2 ^ 63 else 0) +
      (if Z.pos m <? 2 ^ 52 then Z.pos m else (e + 1075) * 2 ^ 52 + (Z.pos m - 2 ^ 52))
  end.

(* ------------------------------------------------------------------------------------------------ *)
(* the real number a digit string denotes                                                             *)
(* ------------------------------------------------------------------------------------------------ *)
Fixpoint dec_real_go (acc : R) (t : text) : R :=
  match t with
  | [] => acc
  | c :: r => dec_real_go (10 * acc + IZR (Z.of_N c - 48))%R r
  end.
Definition dec_real (t : text) : R := dec_real_go 0%R t.

Lemma dec_real_go_parse (t : text) : Forall (fun c => is_ascii_digit c = true) t ->
  forall a : N, dec_real_go (IZR (Z.of_N a)) t
              = IZR (Z.of_N (fold_left (fun a c => (10 * a + (c - 48))%N) t a)).
Proof.
  induction 1 as [|c r Hc _ IH]; intros a; [reflexivity|].
  cbn [dec_real_go fold_left]. rewrite <- IH. f_equal.
  unfold is_ascii_digit, in_range in Hc. apply andb_true_iff in Hc. destruct Hc as [H1 _].
  apply N.leb_le in H1.
  rewrite <- mult_IZR, <- plus_IZR. f_equal. lia.
Qed.
Lemma dec_real_parse (t : text) : Forall (fun c => is_ascii_digit c = true) t ->
  dec_real t = IZR (Z.of_N (parse_dec t)).
Proof. intros H. exact (dec_real_go_parse t H 0%N). Qed.

(* ------------------------------------------------------------------------------------------------ *)
(* every integer of magnitude below 2^53 is a binary64 value; rounding to nearest is the identity on it *)
(* ------------------------------------------------------------------------------------------------ *)
Notation fexp64 := (SpecFloat.fexp 53 1024).

Lemma int_representable (z : Z) : Z.abs z < 2 ^ 53 -> generic_format radix2 fexp64 (IZR z).
Proof.
  intros Hz.
  change fexp64 with (FLT_exp (-1074) 53).
  apply generic_format_FLT. exists (Float radix2 z 0).
  - unfold F2R. cbn [Fnum Fexp bpow]. ring.
  - cbn [Fnum]. exact Hz.
  - cbn [Fexp]. lia.
Qed.

Lemma int_round_id (z : Z) : Z.abs z < 2 ^ 53 -> round radix2 fexp64 ZnearestE (IZR z) = IZR z.
Proof. intros Hz. apply round_generic; [typeclasses eauto | apply int_representable; exact Hz]. Qed.

Lemma int_lt_bpow (z : Z) (e : Z) : Z.abs z < 2 ^ 53 -> 53 <= e -> (Rabs (IZR z) < bpow radix2 e)%R.
Proof.
  intros Hz He. rewrite <- abs_IZR.
  apply Rlt_le_trans with (bpow radix2 53).
  - rewrite <- (IZR_Zpower radix2 53) by lia. apply IZR_lt. exact Hz.
  - apply bpow_le. exact He.
Qed.

Lemma F2R_int (z : Z) : F2R (Float radix2 z 0) = IZR z.
Proof. unfold F2R. cbn [Fnum Fexp bpow]. ring. Qed.

Lemma f64_of_Z_exact (z : Z) : Z.abs z < 2 ^ 53 ->
  B2R (f64_of_Z z) = IZR z /\ is_finite (f64_of_Z z) = true
  /\ Bsign (f64_of_Z z) = match Rcompare (IZR z) 0 with Eq => false | Lt => true | Gt => false end.
Proof.
  intros Hz. unfold f64_of_Z.
  pose proof (binary_normalize_correct 53 1024 f64_prec f64_emax mode_NE z 0 false) as H.
  cbv zeta in H. rewrite F2R_int in H. cbn [round_mode] in H.
  rewrite (int_round_id z Hz) in H.
  rewrite Rlt_bool_true in H by (apply int_lt_bpow; [exact Hz | lia]).
  exact H.
Qed.

Lemma f64_of_N_exact (n : N) : (n < two53)%N ->
  B2R (f64_of_N n) = IZR (Z.of_N n) /\ is_finite (f64_of_N n) = true /\ Bsign (f64_of_N n) = false.
Proof.
  intros Hn. unfold two53 in Hn.
  assert (Hz : Z.abs (Z.of_N n) < 2 ^ 53) by lia.
  destruct (f64_of_Z_exact _ Hz) as (A & B & C). repeat split; try assumption.
  unfold f64_of_N. rewrite C.
  assert (0 <= IZR (Z.of_N n))%R by (apply IZR_le; lia).
  destruct (Rcompare_spec (IZR (Z.of_N n)) 0); try reflexivity. lra.
Qed.

(* ------------------------------------------------------------------------------------------------ *)
(* the operations of correct_suffix_for on such a value                                               *)
(* ------------------------------------------------------------------------------------------------ *)
Lemma B2R_u64max : B2R f64_u64max = IZR (2 ^ 64) /\ is_finite f64_u64max = true.
Proof.
  assert (E : B2SF f64_u64max = SpecFloat.S754_finite false 4503599627370496%positive 12) by (vm_compute; reflexivity).
  split.
  - rewrite <- SF2R_B2SF, E. unfold SF2R, F2R. cbn [cond_Zopp Fnum Fexp].
    change (bpow radix2 12) with (IZR 4096). rewrite <- mult_IZR. reflexivity.
  - rewrite <- is_finite_SF_B2SF, E. reflexivity.
Qed.

Lemma B2R_epsilon_pos : (0 < B2R f64_epsilon)%R /\ is_finite f64_epsilon = true.
Proof. split; [|reflexivity]. unfold f64_epsilon, B2R. apply F2R_gt_0. cbn. lia. Qed.

Lemma floor_int (z : Z) : round radix2 (FIX_exp 0) Zfloor (IZR z) = IZR z.
Proof.
  apply round_generic; [typeclasses eauto|]. apply generic_format_FIX.
  exists (Float radix2 z 0); [symmetry; apply F2R_int | reflexivity].
Qed.
Lemma trunc_int (z : Z) : round radix2 (FIX_exp 0) Ztrunc (IZR z) = IZR z.
Proof.
  apply round_generic; [typeclasses eauto|]. apply generic_format_FIX.
  exists (Float radix2 z 0); [symmetry; apply F2R_int | reflexivity].
Qed.

Section OnInt.
  Variable n : N.
  Hypothesis Hn : (n < two53)%N.
  Let x := f64_of_N n.

  Lemma x_val : B2R x = IZR (Z.of_N n). Proof. exact (proj1 (f64_of_N_exact n Hn)). Qed.
  Lemma x_fin : is_finite x = true. Proof. exact (proj1 (proj2 (f64_of_N_exact n Hn))). Qed.
  Lemma x_nonneg : (0 <= B2R x)%R. Proof. rewrite x_val. apply IZR_le. lia. Qed.

  (* `number < 0.0` is false *)
  Lemma guard_negative : f64_lt x f64_zero = false.
  Proof.
    unfold f64_lt. rewrite Bltb_correct by (exact x_fin || reflexivity).
    apply Rlt_bool_false. exact x_nonneg.
  Qed.

  (* `number.floor()` is the number itself *)
  Lemma floor_val : B2R (f64_floor x) = IZR (Z.of_N n) /\ is_finite (f64_floor x) = true.
  Proof.
    destruct (Bnearbyint_correct 53 1024 f64_emax mode_DN x) as (A & B & _).
    split.
    - unfold f64_floor. rewrite A. cbn [round_mode]. rewrite x_val. apply floor_int.
    - unfold f64_floor. rewrite B. exact x_fin.
  Qed.

  (* `number - number.floor()` is 0.0, hence not above EPSILON *)
  Lemma frac_val : B2R (f64_sub x (f64_floor x)) = 0%R /\ is_finite (f64_sub x (f64_floor x)) = true.
  Proof.
    destruct floor_val as (FV & FF).
    pose proof (Bminus_correct 53 1024 f64_prec f64_emax mode_NE x (f64_floor x) x_fin FF) as H.
    rewrite FV, x_val in H.
    replace (IZR (Z.of_N n) - IZR (Z.of_N n))%R with 0%R in H by ring.
    rewrite round_0 in H by typeclasses eauto.
    rewrite Rabs_R0 in H. rewrite Rlt_bool_true in H by apply bpow_gt_0.
    destruct H as (A & B & _). split; assumption.
  Qed.
  Lemma guard_fraction : f64_lt f64_epsilon (f64_sub x (f64_floor x)) = false.
  Proof.
    destruct frac_val as (A & B). destruct B2R_epsilon_pos as (P & Q).
    unfold f64_lt. rewrite Bltb_correct by assumption. rewrite A.
    apply Rlt_bool_false. lra.
  Qed.

  (* `number > u64::MAX as f64` is false *)
  Lemma guard_too_big : f64_lt f64_u64max x = false.
  Proof.
    destruct B2R_u64max as (A & B).
    unfold f64_lt. rewrite Bltb_correct by (exact B || exact x_fin). rewrite A, x_val.
    apply Rlt_bool_false. apply IZR_le. unfold two53 in Hn. lia.
  Qed.

  (* `number as u64` is n *)
  Lemma cast_val : f64_to_u64 x = n.
  Proof.
    assert (T : Btrunc x = Z.of_N n).
    { apply eq_IZR. rewrite (Btrunc_correct 53 1024 f64_emax). rewrite x_val. apply trunc_int. }
    unfold f64_to_u64. rewrite x_fin, T.
    assert (NN : is_nan x = false) by (generalize x_fin; destruct x; cbn; congruence).
    rewrite NN.
    destruct (Z.of_N n <? 0) eqn:E1; [apply Z.ltb_lt in E1; lia|].
    destruct (u64_max <? Z.of_N n) eqn:E2; [apply Z.ltb_lt in E2; unfold two53, u64_max in *; lia|].
    apply N2Z.id.
  Qed.

  (* the whole function, and the two remainders the code computes *)
  Lemma csf_f64_int : correct_suffix_for_f64 x = correct_suffix_for_int n.
  Proof.
    unfold correct_suffix_for_f64. rewrite guard_negative, guard_fraction, guard_too_big, cast_val. reflexivity.
  Qed.
End OnInt.

(* ------------------------------------------------------------------------------------------------ *)
(* statements for Properties/C17F64.v                                                               *)
(* ------------------------------------------------------------------------------------------------ *)
Definition digits (t : text) : Prop := Forall (fun c => is_ascii_digit c = true) t.

(* the correctly rounded binary64 value of a digit string denoting n < 2^53 is exactly n; the binary64 datum with
   that value is unique (so ANY correctly rounding parser returns f64_of_N n) *)
Theorem f64_parse_exact (D : text) : digits D -> (parse_dec D < two53)%N ->
  dec_real D = IZR (Z.of_N (parse_dec D))
  /\ generic_format radix2 fexp64 (dec_real D)
  /\ round radix2 fexp64 ZnearestE (dec_real D) = dec_real D
  /\ B2R (f64_of_N (parse_dec D)) = dec_real D
  /\ is_finite (f64_of_N (parse_dec D)) = true
  /\ (forall y : f64, is_finite y = true -> Bsign y = false ->
        B2R y = round radix2 fexp64 ZnearestE (dec_real D) -> y = f64_of_N (parse_dec D)).
Proof.
  intros HD Hlt. pose proof (dec_real_parse D HD) as E. unfold two53 in Hlt.
  assert (Hz : Z.abs (Z.of_N (parse_dec D)) < 2 ^ 53) by lia.
  destruct (f64_of_N_exact _ Hlt) as (A & B & C).
  rewrite E. repeat split.
  - apply int_representable. exact Hz.
  - apply int_round_id. exact Hz.
  - exact A.
  - exact B.
  - intros y Fy Sy Vy. rewrite (int_round_id _ Hz) in Vy.
    apply B2R_Bsign_inj; try assumption; congruence.
Qed.

(* on that value the code's guards are all false, the cast returns n, `integer % 100` / `integer % 10` are
   n mod 100 / n mod 10, and the function returns the English ordinal suffix *)
Theorem f64_suffix_exact (n : N) : (n < two53)%N ->
  f64_lt (f64_of_N n) f64_zero = false
  /\ f64_lt f64_epsilon (f64_sub (f64_of_N n) (f64_floor (f64_of_N n))) = false
  /\ f64_lt f64_u64max (f64_of_N n) = false
  /\ f64_to_u64 (f64_of_N n) = n
  /\ (f64_to_u64 (f64_of_N n) mod 100 = n mod 100)%N
  /\ (f64_to_u64 (f64_of_N n) mod 10 = n mod 10)%N
  /\ correct_suffix_for_f64 (f64_of_N n) = Some (ordinal n).
Proof.
  intros Hn. repeat split.
  - apply guard_negative; exact Hn.
  - apply guard_fraction; exact Hn.
  - apply guard_too_big; exact Hn.
  - apply cast_val; exact Hn.
  - rewrite cast_val by exact Hn. reflexivity.
  - rewrite cast_val by exact Hn. reflexivity.
  - rewrite csf_f64_int by exact Hn. apply ordinal_spec.
Qed.

(* the bound is sharp: 2^53 + 1 is not a binary64 value; the code sees 2^53 and answers `nd` where English says `rd` *)
Lemma f64_bound_sharp :
  f64_to_u64 (f64_of_N 9007199254740993) = 9007199254740992%N
  /\ correct_suffix_for_f64 (f64_of_N 9007199254740993) = Some Nd
  /\ ordinal 9007199254740993 = Rd.
Proof. vm_compute. repeat split; reflexivity. Qed.

Lemma f64_examples :
  f64_bits (f64_of_N 0) = 0 /\ f64_bits (f64_of_N 1) = 4607182418800017408
  /\ f64_bits (f64_of_N 9007199254740991) = 4845873199050653695
  /\ f64_bits f64_u64max = 4895412794951729152 /\ f64_bits f64_epsilon = 4372995238176751616
  /\ f64_to_u64 (f64_of_N 9007199254740991) = 9007199254740991%N
  /\ correct_suffix_for_f64 (f64_of_N 113) = Some Th
  /\ correct_suffix_for_f64 (f64_of_N 9007199254740991) = Some St.
Proof. vm_compute. repeat split; reflexivity. Qed.

(* ------------------------------------------------------------------------------------------------ *)
(* driver entry points (extracted by Extract/ExC17.v; compared with Rust's str::parse::<f64>, f64::to_bits and *)
(* NumberSuffix::correct_suffix_for by the `F` / `G` streams of the harness)                          *)
(* ------------------------------------------------------------------------------------------------ *)
(* the datum (-1)^neg * m * 2^e (exact when it is a binary64 value: the harness sends decoded f64s) *)
Definition f64_of_parts (neg : bool) (m : N) (e : Z) : f64 :=
  binary_normalize 53 1024 f64_prec f64_emax mode_NE (if neg then - Z.of_N m else Z.of_N m) e neg.
Definition f64_special (k : nat) : f64 :=
  match k with 0%nat => @B754_nan 53 1024 | 1%nat => @B754_infinity 53 1024 false | _ => @B754_infinity 53 1024 true end.
Definition run_f64 (x : f64) : Z * nat := (f64_bits x, suffix_code (correct_suffix_for_f64 x)).
(* a digit string: the correctly rounded value of the integer it denotes (any length; overflow gives infinity) *)
Definition run_f64_digits (D : text) : Z * nat := run_f64 (f64_of_N (parse_dec D)).
Definition run_f64_parts (neg : bool) (m : N) (e : Z) : Z * nat := run_f64 (f64_of_parts neg m e).
Definition run_f64_special (k : nat) : Z * nat := run_f64 (f64_special k).

Lemma run_f64_examples :
  run_f64_parts false 3 (-1) = (4609434218613702656, 0%nat)          (* 1.5: fraction above EPSILON -> None *)
  /\ run_f64_parts false 4503599627370497 (-52) = (4607182418800017409, 2%nat)   (* 1 + 2^-52: the fraction IS EPSILON, not above it -> `st` *)
  /\ run_f64_parts true 1 0 = (13830554455654793216, 0%nat)           (* -1.0 -> None *)
  /\ run_f64_parts true 0 0 = (9223372036854775808, 1%nat)            (* -0.0 -> th *)
  /\ run_f64_special 0 = (9221120237041090560, 1%nat)                 (* NaN: every guard is false, NaN as u64 = 0 -> th *)
  /\ run_f64_special 1 = (9218868437227405312, 0%nat)                 (* +inf > u64::MAX -> None *)
  /\ run_f64_parts false 1 64 = (4895412794951729152, 1%nat)          (* 2^64 = u64::MAX as f64: not above; cast saturates to 2^64-1 -> th *)
  /\ snd (run_f64_digits [49;56;52;52;54;55;52;52;48;55;51;55;48;57;53;53;49;54;49;53]%N) = 1%nat. (* "18446744073709551615" *)
Proof. vm_compute. repeat split; reflexivity. Qed.
