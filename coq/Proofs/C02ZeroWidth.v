(* C02ZeroWidth.v — phase 6: the first passes of Document::parse on token vectors WITH zero-width structural
   tokens, as Markdown::parse delivers them (a zero-width ParagraphBreak at the cursor after every block).
     PbGapped a b ts : the tokens that cover characters are non-empty, ordered, disjoint, inside [a,b) (a gapped
                       tiling, C02Gapped.Gapped); every other token is a zero-width ParagraphBreak, at ANY
                       position of the vector and with ANY span position ("floating": Markdown puts it at the
                       START of the last event, i.e. behind the tokens of that event).
   PbGapped 0 n ts  <->  TokInv n ts /\ every zero-width token is a ParagraphBreak   (pbgapped_iff_tokinv)
   — exactly the property's invariant minus zero-width NEWLINES (Start(List) of Markdown; they are merged by
   condense_newlines with their neighbours and need an order clause: Example C02_zero_width_newline_limit).
   Proved here, for every PbGapped vector:
     condense_spaces    never panics, result PbGapped (NOT a grouping: the double cursor increment skips a floating
                        break and absorbs the Space behind it — the break stays behind the merged Space, which
                        the invariant allows);
     condense_newlines  never panics, a grouping (C02GapPasses.condense_newlines_any), result PbGapped;
     newlines_to_breaks result PbGapped.
   No new model code: the three passes are Model/Condense.v's. *)
Require Import Base Overlap OverlapProofs Tables_lexer Lexer Condense ListLemmas TokenInv CondenseInv
  CondSpaces CondPattern CondPatterns3 CondInitialisms C02Gapped C02Quotes C02GapPasses.
From Coq Require Import List Arith Lia.
Import ListNotations.

Inductive PbGapped : nat -> nat -> list token -> Prop :=
| PG_nil : forall a b, a <= b -> PbGapped a b []
| PG_float : forall a b t ts,
    tstart t = tend t -> tkind_of t = KParagraphBreak -> PbGapped a b ts -> PbGapped a b (t :: ts)
| PG_tok : forall a b t ts,
    a <= tstart t -> tstart t < tend t -> PbGapped (tend t) b ts -> PbGapped a b (t :: ts).

(* what PbGapped says of one token *)
Definition pb_tok (t : token) : Prop :=
  tstart t < tend t \/ (tstart t = tend t /\ tkind_of t = KParagraphBreak).

Lemma pbgapped_le a b ts : PbGapped a b ts -> a <= b.
Proof. induction 1; lia. Qed.

Lemma gapped_pbgapped a b ts : Gapped a b ts -> PbGapped a b ts.
Proof. induction 1; [apply PG_nil; assumption|apply PG_tok; assumption]. Qed.

Lemma pbgapped_weaken a a' b b' ts : a' <= a -> b <= b' -> PbGapped a b ts -> PbGapped a' b' ts.
Proof.
  intros Ha Hb H. revert a' Ha. induction H as [a b Hab|a b t ts H1 H2 H3 IH|a b t ts H1 H2 H3 IH]; intros a' Ha.
  - apply PG_nil. lia.
  - apply PG_float; auto.
  - apply PG_tok; [lia|exact H2|apply IH; lia].
Qed.

Lemma pbgapped_app a b c xs ys : PbGapped a b xs -> PbGapped b c ys -> PbGapped a c (xs ++ ys).
Proof.
  induction 1 as [a b Hab|a b t ts H1 H2 H3 IH|a b t ts H1 H2 H3 IH]; intros HY; cbn [app].
  - eapply pbgapped_weaken; [exact Hab|apply le_n|exact HY].
  - apply PG_float; auto.
  - apply PG_tok; auto.
Qed.

Lemma pbgapped_app_inv a c xs ys : PbGapped a c (xs ++ ys) -> exists b, PbGapped a b xs /\ PbGapped b c ys.
Proof.
  revert a. induction xs as [|x xs IH]; intros a H; cbn [app] in H.
  - exists a. split; [apply PG_nil; lia|exact H].
  - inversion H as [|a0 b0 t ts H1 H2 H3|a0 b0 t ts H1 H2 H3]; subst.
    + destruct (IH _ H3) as [b [Hx Hy]]. exists b. split; [apply PG_float; assumption|exact Hy].
    + destruct (IH _ H3) as [b [Hx Hy]]. exists b. split; [apply PG_tok; assumption|exact Hy].
Qed.

Lemma pbgapped_skipn a b l k : PbGapped a b l -> exists a', a <= a' /\ PbGapped a' b (skipn k l).
Proof.
  intros H. rewrite <- (firstn_skipn k l) in H. apply pbgapped_app_inv in H.
  destruct H as [m [H1 H]]. exists m. split; [eapply pbgapped_le; exact H1|exact H].
Qed.

Lemma pbgapped_toks a b ts : PbGapped a b ts -> Forall pb_tok ts.
Proof. induction 1; constructor; auto; unfold pb_tok; auto. Qed.

(* a run without floating breaks is gapped *)
Lemma pbgapped_covering_gapped a b ts :
  PbGapped a b ts -> Forall covers_chars ts -> Gapped a b ts.
Proof.
  induction 1 as [a b Hab|a b t ts H1 H2 H3 IH|a b t ts H1 H2 H3 IH]; intros HF.
  - constructor. exact Hab.
  - inversion HF; subst. unfold covers_chars in *. lia.
  - inversion HF; subst. constructor; auto.
Qed.

(* ---------- PbGapped = the property's invariant + "every zero-width token is a ParagraphBreak" ---------- *)
Lemma pbgapped_facts a b ts : PbGapped a b ts ->
  Forall (fun t => tstart t <= tend t) ts /\
  Forall (fun t => tstart t < tend t -> tend t <= b) ts /\
  (forall lo, lo <= a -> OrderedFrom lo ts) /\
  ZeroWidthOnlyBreaks ts /\
  Forall (fun t => tstart t = tend t -> tkind_of t = KParagraphBreak) ts.
Proof.
  induction 1 as [a b Hab|a b t ts H1 H2 H3 IH|a b t ts H1 H2 H3 IH].
  - repeat split; try constructor. 
  - destruct IH as (I1 & I2 & I3 & I4 & I5). repeat split.
    + constructor; [lia|exact I1].
    + constructor; [lia|exact I2].
    + intros lo Hlo. apply OF_zero; [unfold covers_chars; lia|apply I3; exact Hlo].
    + constructor; [rewrite H2; trivial|exact I4].
    + constructor; [auto|exact I5].
  - destruct IH as (I1 & I2 & I3 & I4 & I5). pose proof (pbgapped_le _ _ _ H3) as Hle. repeat split.
    + constructor; [lia|exact I1].
    + constructor; [lia|exact I2].
    + intros lo Hlo. apply OF_cons; [exact H2|lia|apply I3; lia].
    + constructor; [lia|exact I4].
    + constructor; [lia|exact I5].
Qed.

Theorem pbgapped_tokinv n ts : PbGapped 0 n ts -> TokInv n ts.
Proof.
  intros H. destruct (pbgapped_facts _ _ _ H) as (I1 & I2 & I3 & I4 & _).
  split; [exact I1|]. split; [exact I2|]. split; [apply I3; lia|exact I4].
Qed.

Lemma ordered_pbgapped n ts : forall lo,
  OrderedFrom lo ts -> lo <= n ->
  Forall (fun t => tstart t <= tend t) ts -> InBounds n ts ->
  Forall (fun t => tstart t = tend t -> tkind_of t = KParagraphBreak) ts ->
  PbGapped lo n ts.
Proof.
  intros lo H. induction H as [lo|lo t ts Hz Hr IH|lo t ts Hc Hlo Hr IH]; intros Hn H1 H2 H3.
  - apply PG_nil. exact Hn.
  - inversion H1; subst. inversion H2; subst. inversion H3; subst.
    unfold covers_chars in Hz. apply PG_float; [lia|auto with arith|apply IH; auto].
    match goal with K : tstart t = tend t -> _ |- _ => apply K end. lia.
  - inversion H1; subst. inversion H2; subst. inversion H3; subst.
    unfold covers_chars in Hc. apply PG_tok; [exact Hlo|exact Hc|apply IH; auto].
Qed.

Theorem pbgapped_iff_tokinv n ts :
  PbGapped 0 n ts <->
  TokInv n ts /\ Forall (fun t => tstart t = tend t -> tkind_of t = KParagraphBreak) ts.
Proof.
  split.
  - intros H. split; [apply pbgapped_tokinv; exact H|]. apply (pbgapped_facts _ _ _ H).
  - intros [[H1 [H2 [H3 _]]] H5]. apply ordered_pbgapped; auto. lia.
Qed.

(* ---------- groupings that leave floating breaks alone ---------- *)
(* a rule is "break-safe" when a group is a single token whose ParagraphBreak kind is kept, or holds only tokens
   that cover characters (pb_tok of every member may be used to show it) *)
Definition pb_rule (G : list token -> tkind -> Prop) : Prop :=
  forall g k, G g k -> Forall pb_tok g ->
    (exists t, g = [t] /\ (tkind_of t = KParagraphBreak -> k = KParagraphBreak)) \/ Forall covers_chars g.

Theorem grouped_pbgapped G ts ts' : pb_rule G -> Grouped G ts ts' ->
  forall a b, PbGapped a b ts -> PbGapped a b ts'.
Proof.
  intros HR. induction 1 as [|g k rest rest' Hne HG Hrest IH]; intros a b HT; [exact HT|].
  apply pbgapped_app_inv in HT. destruct HT as [m [Hg Hr]].
  destruct (HR g k HG (pbgapped_toks _ _ _ Hg)) as [[t [-> Hk]]|Hcov].
  - inversion Hg as [|a0 b0 t0 ts0 H1 H2 H3|a0 b0 t0 ts0 H1 H2 H3]; subst.
    + apply PG_float; [exact H1|cbn [group_token tkind_of]; auto|].
      apply pbgapped_le in H3. eapply pbgapped_weaken; [exact H3|apply le_n|apply IH; exact Hr].
    + apply pbgapped_le in H3. apply PG_tok; [exact H1|exact H2|].
      change (tend (group_token [t] k)) with (tend t).
      eapply pbgapped_weaken; [exact H3|apply le_n|apply IH; exact Hr].
  - pose proof (pbgapped_covering_gapped _ _ _ Hg Hcov) as Gg.
    destruct (gapped_group a m g Hne Gg) as [Hs [Hlt He]].
    apply PG_tok; unfold group_token, tstart, tend; cbn [tspan sstart send]; [exact Hs|exact Hlt|].
    eapply pbgapped_weaken; [exact He|apply le_n|apply IH; exact Hr].
Qed.

Lemma pb_rule_newlines : pb_rule G_newlines.
Proof.
  intros g k [[t [-> ->]]|[ns [Hl [Hm _]]]] HF.
  - left. exists t. auto.
  - right. clear Hl. revert ns Hm. induction HF as [|t g Ht HF IH]; intros ns Hm; [constructor|].
    destruct ns as [|n ns]; [discriminate|]. cbn [map] in Hm. injection Hm as Hk Hm.
    constructor; [|eapply IH; exact Hm].
    destruct Ht as [Hc|[_ Hp]]; [exact Hc|congruence].
Qed.

Lemma pb_rule_breaks : pb_rule G_breaks.
Proof.
  intros g k [t [-> ->]] _. left. exists t. split; [reflexivity|].
  intros Hk. unfold newline_to_break. rewrite Hk. exact Hk.
Qed.

Theorem condense_newlines_pb : forall a b ts, PbGapped a b ts ->
  exists ts', condense_newlines ts = Ok ts' /\ Grouped G_newlines ts ts' /\ PbGapped a b ts'.
Proof.
  intros a b ts H. destruct (condense_newlines_any ts) as [ts' [E Gr]].
  exists ts'. split; [exact E|]. split; [exact Gr|].
  eapply grouped_pbgapped; [apply pb_rule_newlines|exact Gr|exact H].
Qed.

Theorem newlines_to_breaks_pb : forall a b ts, PbGapped a b ts ->
  Grouped G_breaks ts (newlines_to_breaks ts) /\ PbGapped a b (newlines_to_breaks ts).
Proof.
  intros a b ts H. split; [apply newlines_to_breaks_grouped|].
  eapply grouped_pbgapped; [apply pb_rule_breaks|apply newlines_to_breaks_grouped|exact H].
Qed.

(* ================= condense_spaces ================= *)
(* the inner loop stops at once when the next token is missing, does not start where the run ends, or is no Space *)
Lemma cs_inner_stop f copy cursor cnt e :
  match nth_error copy (cursor + 1) with
  | None => True
  | Some child => e <> tstart child \/ (forall n, tkind_of child <> KSpace n)
  end -> cs_inner (S f) copy cursor cnt e = Ok (cursor + 1, cnt, e, []).
Proof.
  intros H. cbn [cs_inner]. destruct (nth_error copy (cursor + 1)) as [child|]; [|reflexivity].
  destruct (e =? tstart child) eqn:E; cbn [negb]; [|reflexivity].
  apply Nat.eqb_eq in E. destruct H as [H|H]; [contradiction|].
  destruct (tkind_of child) eqn:K; try reflexivity. exfalso. exact (H _ eq_refl).
Qed.

Lemma remove_indices_hit {A} i q (x : A) xs : remove_indices i (i :: q) (x :: xs) = remove_indices (S i) q xs.
Proof. cbn [remove_indices]. rewrite Nat.eqb_refl. reflexivity. Qed.

(* the inner loop on the tokens r1 that follow the run start (e = the run's end so far): it passes over p >= 1
   tokens; the absorbed ones (queue rm: every second token, each an adjacent Space) are separated only by floating
   breaks — a covering token in between ends the run —, so what is left of the passed tokens, followed by the
   untouched rest, is PbGapped from the new end e' on *)
Lemma cs_inner_pb : forall fuel copy cursor cnt e b r1,
  (forall k, nth_error copy (cursor + 1 + k) = nth_error r1 k) ->
  length r1 < fuel -> PbGapped e b r1 ->
  exists p cnt' e' rm,
    cs_inner fuel copy cursor cnt e = Ok (cursor + p, cnt', e', rm) /\
    1 <= p /\ e <= e' /\
    QueueIn (cursor + 1) (cursor + 1 + length (firstn p r1)) rm /\
    PbGapped e' b (remove_indices (cursor + 1) rm (firstn p r1) ++ skipn p r1).
Proof.
  induction fuel as [|f IH]; intros copy cursor cnt e b r1 Hnth Hf HP; [lia|].
  pose proof (Hnth 0) as H0. rewrite Nat.add_0_r in H0.
  assert (STOP : (match nth_error r1 0 with
                  | None => True
                  | Some child => e <> tstart child \/ (forall n, tkind_of child <> KSpace n) end) ->
     exists p cnt' e' rm,
       cs_inner (S f) copy cursor cnt e = Ok (cursor + p, cnt', e', rm) /\
       1 <= p /\ e <= e' /\
       QueueIn (cursor + 1) (cursor + 1 + length (firstn p r1)) rm /\
       PbGapped e' b (remove_indices (cursor + 1) rm (firstn p r1) ++ skipn p r1)).
  { intros Hs. exists 1, cnt, e, []. split; [apply cs_inner_stop; rewrite H0; exact Hs|].
    split; [lia|]. split; [lia|]. split; [constructor|].
    rewrite remove_indices_nil, firstn_skipn. exact HP. }
  destruct r1 as [|child r2]; [apply STOP; exact I|].
  destruct (Nat.eq_dec e (tstart child)) as [Eadj|Nadj]; [|apply STOP; left; exact Nadj].
  destruct (tkind_of child) eqn:K; try (apply STOP; right; cbn [nth_error]; intros n0; rewrite K; discriminate).
  clear STOP.
  (* merge: child is an adjacent Space, hence covers characters *)
  inversion HP as [|a0 b0 t0 ts0 Z1 Z2 Z3|a0 b0 t0 ts0 C1 C2 C3]; subst a0 b0 t0 ts0; [congruence|].
  cbn [cs_inner]. rewrite H0. cbn [nth_error]. rewrite Eadj, Nat.eqb_refl. cbn [negb]. rewrite K.
  destruct r2 as [|x r3].
  - (* the Space is the last token *)
    replace (cursor + 1 + 1) with (cursor + 2) by lia.
    destruct (IH copy (cursor + 2) (cnt + n) (tend child) b []) as (p' & cnt' & e' & rm' & E & Hp & He & Q & P).
    { intros k. replace (cursor + 2 + 1 + k) with (cursor + 1 + (2 + k)) by lia. rewrite Hnth.
      cbn [nth_error Nat.add]. destruct k; reflexivity. }
    { cbn [length] in *. lia. }
    { exact C3. }
    rewrite E. cbn [bind]. exists (2 + p'), cnt', e', (cursor + 1 :: rm').
    split; [f_equal; f_equal; f_equal; f_equal; lia|]. split; [lia|]. split; [lia|].
    rewrite firstn_nil in Q. cbn [length] in Q. apply queue_in_empty in Q; [|lia]. subst rm'.
    rewrite firstn_nil, skipn_nil in P. cbn [remove_indices app] in P.
    change (2 + p') with (S (S p')). cbn [firstn]. rewrite ?firstn_nil. cbn [length skipn]. rewrite ?skipn_nil.
    split; [constructor; [lia|lia|constructor]|].
    rewrite remove_indices_hit. cbn [remove_indices app]. exact P.
  - inversion C3 as [|a0 b0 t0 ts0 Z1 Z2 Z3|a0 b0 t0 ts0 D1 D2 D3]; subst a0 b0 t0 ts0.
    + (* a floating break is skipped by the double increment: the loop goes on behind it *)
      replace (cursor + 1 + 1) with (cursor + 2) by lia.
      destruct (IH copy (cursor + 2) (cnt + n) (tend child) b r3) as (p' & cnt' & e' & rm' & E & Hp & He & Q & P).
      { intros k. replace (cursor + 2 + 1 + k) with (cursor + 1 + (2 + k)) by lia. rewrite Hnth. reflexivity. }
      { cbn [length] in *. lia. }
      { exact Z3. }
      rewrite E. cbn [bind]. exists (2 + p'), cnt', e', (cursor + 1 :: rm').
      split; [f_equal; f_equal; f_equal; f_equal; lia|]. split; [lia|]. split; [lia|].
      change (2 + p') with (S (S p')). cbn [firstn skipn length].
      split.
      * constructor; [lia|lia|]. eapply queue_in_weaken; [|
          replace (cursor + 1 + S (S (length (firstn p' r3)))) with (cursor + 2 + 1 + length (firstn p' r3)) by lia;
          exact Q]. lia.
      * rewrite remove_indices_hit.
        rewrite remove_indices_head; [|intros r Hin; apply (queue_in_ge _ _ _ Q) in Hin; lia].
        replace (S (S (cursor + 1))) with (cursor + 2 + 1) by lia. cbn [app].
        apply PG_float; [exact Z1|exact Z2|exact P].
    + (* a covering token is skipped: whatever follows it starts later, the loop stops *)
      destruct f as [|f']; [cbn [length] in Hf; lia|].
      rewrite cs_inner_stop.
      2:{ replace (cursor + 1 + 1 + 1) with (cursor + 1 + 2) by lia. rewrite Hnth. cbn [nth_error].
          destruct r3 as [|y r4]; [exact I|].
          inversion D3 as [|a0 b0 t0 ts0 Z1 Z2 Z3|a0 b0 t0 ts0 F1 F2 F3]; subst a0 b0 t0 ts0.
          - right. intros n0. rewrite Z2. discriminate.
          - left. lia. }
      cbn [bind]. exists 3, (cnt + n), (tend child), [cursor + 1].
      split; [f_equal; f_equal; f_equal; f_equal; lia|]. split; [lia|]. split; [lia|].
      cbn [firstn skipn length].
      split; [constructor; [lia|lia|constructor]|].
      rewrite remove_indices_hit. rewrite remove_indices_nil. cbn [app].
      destruct r3; exact C3.
Qed.

Lemma cs_outer_spec_pb : forall fuel copy cursor a b,
  PbGapped a b (skipn cursor copy) -> length (skipn cursor copy) < fuel ->
  exists upd q, cs_outer fuel copy cursor = Ok (upd, q) /\
    length upd = length (skipn cursor copy) /\
    QueueIn cursor (cursor + length upd) q /\
    PbGapped a b (remove_indices cursor q upd).
Proof.
  induction fuel as [|f IH]; intros copy cursor a b HT Hf; [lia|].
  assert (Hnth : forall k, nth_error copy (cursor + k) = nth_error (skipn cursor copy) k)
    by (intros k; symmetry; apply CondSpaces.nth_error_skipn).
  assert (Hskip : forall k, skipn (cursor + k) copy = skipn k (skipn cursor copy))
    by (intros k; rewrite skipn_skipn; f_equal; lia).
  assert (Hlen : length (skipn cursor copy) <= length copy) by (rewrite skipn_length; lia).
  assert (IH' : forall k a', PbGapped a' b (skipn k (skipn cursor copy)) ->
            length (skipn k (skipn cursor copy)) < f ->
            exists upd q, cs_outer f copy (cursor + k) = Ok (upd, q) /\
              length upd = length (skipn k (skipn cursor copy)) /\
              QueueIn (cursor + k) (cursor + k + length upd) q /\
              PbGapped a' b (remove_indices (cursor + k) q upd)).
  { intros k a' HT' Hk. rewrite <- Hskip in *. eapply IH; eassumption. }
  clear IH.
  assert (H0 : nth_error copy cursor = nth_error (skipn cursor copy) 0) by (rewrite <- Hnth; f_equal; lia).
  cbn [cs_outer]. rewrite H0. clear H0.
  remember (skipn cursor copy) as rest eqn:Hrest. clear Hrest.
  destruct rest as [|start r1]; cbn [nth_error].
  - exists [], []. split; [reflexivity|]. split; [reflexivity|]. split; [constructor|].
    cbn [remove_indices]. exact HT.
  - assert (KEEP : exists a', PbGapped a' b r1 /\ forall R, PbGapped a' b R -> PbGapped a b (start :: R)).
    { inversion HT as [|a0 b0 t0 ts0 Z1 Z2 Z3|a0 b0 t0 ts0 C1 C2 C3]; subst a0 b0 t0 ts0.
      - exists a. split; [exact Z3|]. intros R HR. apply PG_float; assumption.
      - exists (tend start). split; [exact C3|]. intros R HR. apply PG_tok; assumption. }
    destruct (tkind_of start) eqn:Hk.
    5: {
      clear KEEP.
      inversion HT as [|a0 b0 t0 ts0 Z1 Z2 Z3|a0 b0 t0 ts0 C1 C2 C3]; subst a0 b0 t0 ts0; [congruence|].
      destruct (cs_inner_pb (length copy) copy cursor n (tend start) b r1) as (p & cnt' & e' & rm & E & Hp & He & Q & P).
      { intros k. replace (cursor + 1 + k) with (cursor + S k) by lia. rewrite Hnth. reflexivity. }
      { cbn [length] in Hlen. lia. }
      { exact C3. }
      rewrite E. cbn [bind].
      apply pbgapped_app_inv in P. destruct P as [m [PK PS]].
      replace (cursor + p + 1) with (cursor + (p + 1)) by lia.
      assert (Hsk : skipn (p + 1) (start :: r1) = skipn p r1)
        by (replace (p + 1) with (S p) by lia; reflexivity).
      destruct (IH' (p + 1) m) as (upd' & q' & E2 & L & Q2 & G2).
      { rewrite Hsk. exact PS. }
      { rewrite Hsk, skipn_length. cbn [length] in Hf. lia. }
      rewrite Hsk in L. rewrite E2. cbn [bind]. unfold slice. rewrite (Hskip 1).
      replace (cursor + (p + 1) - (cursor + 1)) with p by lia.
      change (skipn 1 (start :: r1)) with r1.
      set (st := mktok (mkspan (tstart start) e') (KSpace cnt')).
      exists ((st :: firstn p r1) ++ [] ++ upd'), (rm ++ q').
      split; [reflexivity|].
      assert (Hl2 : length upd' = length r1 - p) by (rewrite L, skipn_length; reflexivity).
      split; [cbn [app length]; rewrite app_length, firstn_length; lia|].
      destruct (CondSpaces.glue (st :: firstn p r1) [] upd' cursor (cursor + (p + 1)) rm q') as [HR HQ].
      { cbn [length]. eapply queue_in_weaken; [|
          replace (cursor + S (length (firstn p r1))) with (cursor + 1 + length (firstn p r1)) by lia; exact Q]. lia. }
      { exact Q2. }
      { destruct (le_lt_dec p (length r1)) as [Hge|Hlt].
        - right. cbn [length]. rewrite firstn_length. lia.
        - left. destruct upd'; [reflexivity|cbn [length] in Hl2; lia]. }
      split; [exact HQ|]. rewrite HR.
      rewrite remove_indices_head; [|intros r Hin; apply (queue_in_ge _ _ _ Q) in Hin; lia].
      replace (S cursor) with (cursor + 1) by lia. cbn [app].
      apply PG_tok; unfold st, tstart, tend; cbn [tspan sstart send];
        [exact C1|unfold tstart, tend in C2, He; lia|].
      eapply pbgapped_app; [exact PK|exact G2].
    }
    all: (* start is not a Space *)
      destruct KEEP as [a' [HT1 BACK]];
      (destruct (IH' 1 a') as (upd' & q' & E & L & Q & Gr); [exact HT1|cbn [skipn length]; cbn [length] in Hf; lia|]);
      rewrite E; cbn [bind]; cbn [skipn] in *;
      exists ([start] ++ [] ++ upd'), ([] ++ q');
      (split; [reflexivity|]);
      (split; [cbn [app length]; lia|]);
      (destruct (CondSpaces.glue [start] [] upd' cursor (cursor + 1) [] q') as [HR HQ];
        [constructor|exact Q|right; cbn [length]; lia|]);
      (split; [exact HQ|]); rewrite HR; rewrite remove_indices_nil; cbn [app];
      apply BACK; exact Gr.
Qed.

Theorem condense_spaces_pb : forall a b ts, PbGapped a b ts ->
  exists ts', condense_spaces ts = Ok ts' /\ PbGapped a b ts'.
Proof.
  intros a b ts HT. unfold condense_spaces.
  destruct (cs_outer_spec_pb (S (length ts)) ts 0 a b HT ltac:(cbn [skipn]; lia)) as (upd & q & E & _ & _ & Gr).
  rewrite E. cbn [bind]. eexists. split; [reflexivity|exact Gr].
Qed.

(* ================= condense_dotted_initialisms ================= *)
Lemma initpairs_cover g : InitPairs g -> Forall pb_tok g -> Forall covers_chars g.
Proof.
  induction 1 as [w p Hw Hl Hp|w p r Hw Hl Hp Hr IH]; intros HF;
    inversion HF as [|x1 l1 Pw HF1]; subst; inversion HF1 as [|x2 l2 Pp HF2]; subst.
  - constructor; [unfold covers_chars, tlen in *; lia|]. constructor; [|constructor].
    destruct Pp as [Hc|[_ Hk]]; [exact Hc|]. rewrite Hk in Hp. cbn in Hp. discriminate.
  - constructor; [unfold covers_chars, tlen in *; lia|]. constructor; [|apply IH; exact HF2].
    destruct Pp as [Hc|[_ Hk]]; [exact Hc|]. rewrite Hk in Hp. cbn in Hp. discriminate.
Qed.

Lemma pb_rule_initialism : pb_rule G_initialism.
Proof.
  intros g k [[t [-> ->]]|[HI _]] HF.
  - left. exists t. auto.
  - right. apply initpairs_cover; assumption.
Qed.

Theorem condense_dotted_initialisms_pb : forall a b ts, PbGapped a b ts ->
  exists ts', condense_dotted_initialisms ts = Ok ts' /\ Grouped G_initialism ts ts' /\ PbGapped a b ts'.
Proof.
  intros a b ts H.
  assert (Forall twf ts) as W by (unfold twf; apply (pbgapped_facts _ _ _ H)).
  destruct (condense_dotted_initialisms_wf ts W) as [ts' [E Gr]].
  exists ts'. split; [exact E|]. split; [exact Gr|].
  eapply grouped_pbgapped; [apply pb_rule_initialism|exact Gr|exact H].
Qed.

(* ================= match_quotes: same spans, same kinds up to twin_loc ================= *)
Lemma strip_twin_break k : strip_twin k = strip_twin KParagraphBreak -> k = KParagraphBreak.
Proof. destruct k as [|p| | | | | | | | | |]; cbn; try discriminate; try reflexivity. destruct p; discriminate. Qed.

Lemma same_but_twins_pb : forall ts a b, PbGapped a b ts ->
  forall ts', SameButTwins ts ts' -> PbGapped a b ts'.
Proof.
  intros ts a b H. induction H as [a b Hab|a b t ts H1 H2 H3 IH|a b t ts H1 H2 H3 IH]; intros ts' [S1 S2].
  - destruct ts'; [apply PG_nil; exact Hab|discriminate].
  - destruct ts' as [|t' ts']; [discriminate|]. cbn [map] in S1, S2. injection S1 as A1 B1. injection S2 as A2 B2.
    apply PG_float; [unfold tstart, tend in *; rewrite A1; exact H1| |apply IH; split; assumption].
    apply strip_twin_break. rewrite A2, H2. reflexivity.
  - destruct ts' as [|t' ts']; [discriminate|]. cbn [map] in S1, S2. injection S1 as A1 B1. injection S2 as A2 B2.
    unfold tstart, tend in *. apply PG_tok; unfold tstart, tend; rewrite ?A1; [exact H1|exact H2|].
    apply IH; split; assumption.
Qed.

Theorem match_quotes_pb : forall a b ts, PbGapped a b ts ->
  exists ts', match_quotes ts = Ok ts' /\ SameButTwins ts ts' /\ PbGapped a b ts' /\
    QuotesOkBut (unpaired_quote ts) ts' /\ (NoTwins ts -> QuotesOk ts').
Proof.
  intros a b ts H. destruct (match_quotes_any ts) as [ts' [E [SB [QB _]]]].
  exists ts'. split; [exact E|]. split; [exact SB|]. split; [eapply same_but_twins_pb; eassumption|].
  split; [exact QB|]. intros NT.
  destruct (match_quotes_ok_if ts (notwins_unpaired ts NT)) as [ts2 [E2 [_ QO]]].
  assert (ts2 = ts') as -> by congruence. exact QO.
Qed.

(* ================= condense_pattern ================= *)
(* premise on the matcher: the tokens of a match are never ParagraphBreaks (true of the three fixed patterns: words,
   apostrophes, periods, Space / Newline) — so a matched run holds covering tokens only and its hull is first start ..
   last end, as on gapped vectors *)
Definition nb (t : token) : Prop := tkind_of t <> KParagraphBreak.
Definition no_break_matches (m : list token -> res nat) (ts : list token) : Prop :=
  forall i n, m (skipn i ts) = Ok n -> Forall nb (firstn n (skipn i ts)).

Lemma nb_cover g : Forall pb_tok g -> Forall nb g -> Forall covers_chars g.
Proof.
  induction 1 as [|t g Ht HF IH]; intros HN; [constructor|]. inversion HN; subst.
  constructor; [|apply IH; assumption]. destruct Ht as [Hc|[_ Hk]]; [exact Hc|contradiction].
Qed.

Section PatternPb.
  Variable m : list token -> res nat.
  Variable edit : tkind -> tkind.
  Variable ts : list token.
  Variables a b : nat.
  Hypothesis HT : PbGapped a b ts.
  Hypothesis HNB : no_break_matches m ts.

  Lemma cp_apply_spec_pb : forall kept lo pre, length pre = lo -> lo <= length ts -> DS m ts lo kept ->
    exists suf' q, cp_apply edit kept (pre ++ skipn lo ts) = Ok (pre ++ suf', q) /\
      (forall r, In r q -> lo <= r) /\
      Grouped (G_pattern_in ts m edit) (skipn lo ts) (remove_indices lo q suf').
  Proof.
    induction kept as [|s kept IH]; intros lo pre Hpre Hlo HD.
    - exists (skipn lo ts), []. split; [reflexivity|]. split; [intros r []|].
      rewrite remove_indices_nil. apply grouped_refl. intros t. left. exists t. split; reflexivity.
    - inversion HD as [|lo' s' rest Hls [Hm1 [Hm2 Hm3]] HD']; subst lo' s' rest.
      destruct s as [st en]. cbn [sstart send] in *.
      destruct (skipn_cons_split ts lo st en Hls Hm1 Hm2) as [A0 [t0 [g' [E1 [LA [Lg E2]]]]]].
      pose proof (firstn_skipn st ts) as Ets. rewrite E2 in Ets.
      assert (exists c e, Gapped c e (t0 :: g')) as [c [e HTg]].
      { pose proof HT as HT'. rewrite <- Ets in HT'. apply pbgapped_app_inv in HT' as [c [_ HT2]].
        apply pbgapped_app_inv in HT2 as [e [HTg _]]. exists c, e.
        apply pbgapped_covering_gapped; [exact HTg|].
        apply nb_cover; [exact (pbgapped_toks _ _ _ HTg)|].
        pose proof (HNB st (en - st) Hm3) as K. rewrite E2, <- Lg, firstn_app_exact in K. exact K. }
      pose proof (hull_gapped c e (t0 :: g') ltac:(discriminate) HTg) as Hh.
      remember (mktok (mkspan (group_start (t0 :: g')) (group_end (t0 :: g'))) (edit (tkind_of t0))) as x eqn:Ex.
      destruct (IH en (pre ++ A0 ++ x :: g')) as [suf' [q' [Hcp [Hq' HG]]]].
      { rewrite !app_length. cbn [length] in *. lia. }
      { lia. }
      { exact HD'. }
      destruct (cp_step_ops (pre ++ A0) t0 g' (skipn en ts) st en) as [Hsl [Hnth Hset]].
      { rewrite app_length. lia. }
      { exact Lg. }
      { exact Hm1. }
      exists (A0 ++ (x :: g') ++ suf'), (seq (st + 1) (en - (st + 1)) ++ q').
      split; [|split].
      + cbn [cp_apply sstart send]. rewrite E1.
        replace (pre ++ A0 ++ (t0 :: g') ++ skipn en ts) with ((pre ++ A0) ++ (t0 :: g') ++ skipn en ts)
          by (rewrite <- app_assoc; reflexivity).
        rewrite Hsl. cbn [bind]. rewrite Hh. cbn [bind]. rewrite Hnth. cbn [bind].
        rewrite Hset. cbn [bind]. rewrite <- Ex.
        replace ((pre ++ A0) ++ (x :: g') ++ skipn en ts) with ((pre ++ A0 ++ x :: g') ++ skipn en ts)
          by (rewrite <- !app_assoc; reflexivity).
        rewrite Hcp. cbn [bind]. f_equal. f_equal. rewrite <- !app_assoc. reflexivity.
      + intros r Hr. apply in_app_or in Hr. destruct Hr as [Hr|Hr].
        * apply in_seq in Hr. lia.
        * apply Hq' in Hr. lia.
      + rewrite E1.
        pose proof (remove_indices_app A0 ((x :: g') ++ suf') lo [] (seq (st + 1) (en - (st + 1)) ++ q')) as R1.
        change ([] ++ seq (st + 1) (en - (st + 1)) ++ q') with (seq (st + 1) (en - (st + 1)) ++ q') in R1.
        rewrite R1; clear R1.
        2:{ constructor. }
        2:{ intros r Hr. apply in_app_or in Hr. destruct Hr as [Hr|Hr].
            - apply in_seq in Hr. lia.
            - apply Hq' in Hr. lia. }
        rewrite remove_indices_nil. replace (lo + length A0) with st by lia.
        assert (length (x :: g') = en - st) as Lx by (cbn [length] in *; lia).
        rewrite remove_indices_app.
        2:{ apply CondPattern.queue_in_seq; [lia|]. rewrite Lx. lia. }
        2:{ intros r Hr. apply Hq' in Hr. rewrite Lx. lia. }
        rewrite Lx. replace (st + (en - st)) with en by lia.
        rewrite remove_indices_group by (cbn [length] in Lg; lia).
        apply grouped_app.
        * apply grouped_refl. intros t. left. exists t. split; reflexivity.
        * replace x with (group_token (t0 :: g') (edit (tkind_of t0))) by (symmetry; exact Ex).
          cbn [app]. apply (Grouped_cons (G_pattern_in ts m edit) (t0 :: g') (edit (tkind_of t0)) (skipn en ts)).
          -- discriminate.
          -- right. exists (firstn st ts), (skipn en ts). split; [symmetry; exact Ets|].
             split; [|reflexivity]. rewrite <- E2, Hm3, Lg. reflexivity.
          -- exact HG.
  Qed.

  Lemma pb_rule_pattern : pb_rule (G_pattern_in ts m edit).
  Proof.
    intros g k [[t [-> ->]]|[pre [rest [Ets [Hm _]]]]] HF.
    - left. exists t. auto.
    - right. apply nb_cover; [exact HF|].
      pose proof (HNB (length pre) (length g)) as K. rewrite Ets, skipn_app_exact, firstn_app_exact in K.
      apply K. exact Hm.
  Qed.
End PatternPb.

Theorem condense_pattern_pb : forall m edit a b ts,
  PbGapped a b ts -> matcher_ok m ts -> monotone_ends m ts -> no_break_matches m ts ->
  exists ts', condense_pattern m edit ts = Ok ts' /\ Grouped (G_pattern_in ts m edit) ts ts' /\ PbGapped a b ts'.
Proof.
  intros m edit a b ts HT Hok Hmono HNB.
  destruct (find_all_matches_spec m ts Hmono Hok) as [kept [Hf HD]].
  destruct (cp_apply_spec_pb m edit ts a b HT HNB kept 0 [] eq_refl (Nat.le_0_l _) HD) as [suf' [q [Hcp [_ HG]]]].
  cbn [app skipn] in Hcp, HG.
  exists (remove_indices 0 q suf'). split; [|split; [exact HG|]].
  - unfold condense_pattern. rewrite Hf. cbn [bind]. rewrite Hcp. reflexivity.
  - eapply grouped_pbgapped; [apply pb_rule_pattern; exact HNB|exact HG|exact HT].
Qed.

(* ---------- the contraction and the ellipsis pattern never match a break (any vector) ---------- *)
Lemma contraction_no_break src ts : no_break_matches (contraction_matches src) ts.
Proof.
  intros i n H. unfold contraction_matches in H.
  destruct (skipn i ts) as [|x [|y [|z r]]]; try (injection H as <-; constructor).
  destruct (is_word (tkind_of x) && is_apostrophe (tkind_of y) && is_word (tkind_of z)) eqn:K;
    injection H as <-; [|constructor].
  apply andb_prop in K. destruct K as [K Kc]. apply andb_prop in K. destruct K as [Ka Kb].
  cbn [firstn]. unfold nb.
  constructor; [intros E; rewrite E in Ka; discriminate|].
  constructor; [intros E; rewrite E in Kb; discriminate|].
  constructor; [intros E; rewrite E in Kc; discriminate|constructor].
Qed.

Lemma ellipsis_no_break src ts : no_break_matches (ellipsis_matches src) ts.
Proof.
  intros i n H. rewrite ellipsis_unfold in H.
  destruct (2 <=? count_while is_period_tok (skipn i ts)); injection H as <-; [|constructor].
  eapply Forall_impl; [|apply (count_while_all is_period_tok)].
  intros t Ht E. unfold is_period_tok in Ht. rewrite E in Ht. discriminate.
Qed.

Theorem condense_contractions_pb : forall src a b ts, PbGapped a b ts ->
  exists ts', condense_contractions src ts = Ok ts' /\
    Grouped (G_pattern_in ts (contraction_matches src) (fun k => k)) ts ts' /\ PbGapped a b ts'.
Proof.
  intros src a b ts H. destruct (contraction_ok src ts) as [MO ME].
  apply condense_pattern_pb; auto. apply contraction_no_break.
Qed.

Theorem condense_ellipsis_pb : forall src a b ts, PbGapped a b ts ->
  exists ts', condense_ellipsis src ts = Ok ts' /\
    Grouped (G_pattern_in ts (ellipsis_matches src) (fun _ => KPunct PEllipsis)) ts ts' /\ PbGapped a b ts'.
Proof.
  intros src a b ts H. destruct (ellipsis_ok src ts) as [MO ME].
  apply condense_pattern_pb; auto. apply ellipsis_no_break.
Qed.

(* ---------- the Latin pattern ---------- *)
(* latin_matches reads the span of WORD tokens only (get_content / Span::len behind an is_word test): replacing the span
   of every non-word token changes no answer.  CondPatterns3's facts, stated for vectors whose tokens all lie inside
   the text, are carried over to vectors with floating breaks that way. *)
Definition refit (sp : span) (t : token) : token := if is_word (tkind_of t) then t else mktok sp (tkind_of t).

Lemma refit_kind sp t : tkind_of (refit sp t) = tkind_of t.
Proof. unfold refit. destruct (is_word (tkind_of t)); reflexivity. Qed.
Lemma refit_word sp t : is_word (tkind_of t) = true -> refit sp t = t.
Proof. unfold refit. intros ->. reflexivity. Qed.

Lemma skipn_map' {A B} (f : A -> B) : forall n l, skipn n (map f l) = map f (skipn n l).
Proof. induction n as [|n IH]; intros [|x l]; cbn [skipn map]; auto. Qed.
Lemma firstn_map' {A B} (f : A -> B) : forall n l, firstn n (map f l) = map f (firstn n l).
Proof. induction n as [|n IH]; intros [|x l]; cbn [firstn map]; [reflexivity|reflexivity|reflexivity|]. f_equal. apply IH. Qed.

Lemma count_while_refit sp (p : tkind -> bool) l :
  count_while (fun t => p (tkind_of t)) (map (refit sp) l) = count_while (fun t => p (tkind_of t)) l.
Proof. induction l as [|t l IH]; [reflexivity|]. cbn [map count_while]. rewrite refit_kind, IH. reflexivity. Qed.

Lemma wordset_refit sp words src l : wordset_matches words src (map (refit sp) l) = wordset_matches words src l.
Proof.
  destruct l as [|t l]; [reflexivity|]. cbn [map wordset_matches]. rewrite refit_kind.
  destruct (is_word (tkind_of t)) eqn:K; [|reflexivity]. rewrite (refit_word sp t K). reflexivity.
Qed.
Lemma anycap_refit sp w src l : anycap_matches w src (map (refit sp) l) = anycap_matches w src l.
Proof.
  destruct l as [|t l]; [reflexivity|]. cbn [map anycap_matches]. rewrite refit_kind.
  destruct (is_word (tkind_of t)) eqn:K; [|reflexivity]. rewrite (refit_word sp t K). reflexivity.
Qed.
Lemma period_refit sp l : period_matches (map (refit sp) l) = period_matches l.
Proof. destruct l as [|t l]; [reflexivity|]. cbn [map period_matches]. rewrite refit_kind. reflexivity. Qed.

Lemma latin_refit sp src l : latin_matches src (map (refit sp) l) = latin_matches src l.
Proof.
  unfold latin_matches, latin_alt1, latin_alt2. cbv zeta.
  rewrite !skipn_map', !wordset_refit, !anycap_refit, !period_refit.
  rewrite (count_while_refit sp is_whitespace_kind). 
  rewrite ?skipn_map', ?anycap_refit, ?period_refit. reflexivity.
Qed.

Lemma latin_head_not_word src l :
  match l with t :: _ => is_word (tkind_of t) = false | [] => True end -> latin_matches src l = Ok 0.
Proof.
  destruct l as [|t l]; [reflexivity|]. intros H.
  unfold latin_matches, latin_alt1, latin_alt2, wordset_matches, anycap_matches. rewrite H. reflexivity.
Qed.

Lemma kind_nb_word k : is_word k = true -> k <> KParagraphBreak.
Proof. intros H E. rewrite E in H. discriminate. Qed.
Lemma kind_nb_period k : is_period k = true -> k <> KParagraphBreak.
Proof. intros H E. rewrite E in H. discriminate. Qed.
Lemma kind_nb_ws k : is_whitespace_kind k = true -> k <> KParagraphBreak.
Proof. intros H E. rewrite E in H. discriminate. Qed.

Theorem latin_ok_pb : forall src a ts, PbGapped a (length src) ts ->
  matcher_ok (latin_matches src) ts /\ monotone_ends (latin_matches src) ts /\
  no_break_matches (latin_matches src) ts.
Proof.
  intros src a ts HP.
  destruct (pbgapped_facts _ _ _ HP) as (W1 & W2 & _ & _ & W5).
  destruct (Nat.eq_dec (length src) 0) as [L0|Lpos].
  - (* empty text: no token covers a character, every token is a break *)
    assert (Forall (fun t => is_word (tkind_of t) = false) ts) as NW.
    { rewrite Forall_forall in *. intros t Hin. specialize (W1 t Hin). specialize (W2 t Hin). specialize (W5 t Hin).
      cbn beta in *. rewrite W5; [reflexivity|lia]. }
    assert (forall i, latin_matches src (skipn i ts) = Ok 0) as Z.
    { intros i. apply latin_head_not_word. pose proof (forall_skipn _ ts i NW) as K.
      destruct (skipn i ts); [exact I|inversion K; assumption]. }
    split; [|split].
    + intros i Hi. exists 0. split; [apply Z|lia].
    + intros i j _ _ Hi _. unfold match_len in Hi. rewrite Z in Hi. lia.
    + intros i n H. rewrite Z in H. injection H as <-. constructor.
  - set (sp := mkspan 0 1).
    assert (Forall (tok_ok src) (map (refit sp) ts)) as F.
    { rewrite Forall_forall. intros t' Hin. apply in_map_iff in Hin. destruct Hin as [t [<- Hin]].
      rewrite Forall_forall in *. specialize (W1 t Hin). specialize (W2 t Hin). specialize (W5 t Hin). cbn beta in *.
      unfold refit. destruct (is_word (tkind_of t)) eqn:K.
      - assert (tstart t < tend t) as C.
        { destruct (Nat.eq_dec (tstart t) (tend t)) as [E|N]; [|lia]. rewrite (W5 E) in K. discriminate. }
        split; [exact C|apply W2; exact C].
      - unfold tok_ok, tstart, tend, sp. cbn. lia. }
    destruct (latin_ok_forall src _ F) as [MO ME].
    assert (forall i, latin_matches src (skipn i (map (refit sp) ts)) = latin_matches src (skipn i ts)) as Hm
      by (intros i; rewrite skipn_map'; apply latin_refit).
    split; [|split].
    + intros i Hi. destruct (MO i) as [n [E Hn]]; [rewrite map_length; exact Hi|].
      rewrite Hm in E. rewrite map_length in Hn. exists n. split; assumption.
    + intros i j Hij Hj Hi0 Hj0. pose proof (ME i j Hij) as K. unfold match_len in *.
      rewrite !Hm, map_length in K. apply K; assumption.
    + intros i n H.
      destruct (le_lt_dec i (length ts)) as [Hi|Hi]; [|rewrite skipn_all2 by lia; rewrite firstn_nil; constructor].
      destruct (MO i) as [n' [E Hn]]; [rewrite map_length; exact Hi|].
      assert (n' = n) as -> by (rewrite Hm in E; congruence). clear E.
      destruct n as [|n0]; [constructor|]. set (n := S n0) in *.
      rewrite <- Hm, skipn_map' in H.
      set (l := skipn i ts) in *.
      assert (n <= length l) as Hl by (unfold l; rewrite skipn_length; rewrite map_length in Hn; exact Hn).
      set (g := firstn n (map (refit sp) l)).
      assert (length g = n) as Lg by (unfold g; rewrite firstn_length, map_length; lia).
      assert (g ++ skipn n (map (refit sp) l) = map (refit sp) l) as Eg by apply firstn_skipn.
      assert (Forall (fun t => tkind_of t <> KParagraphBreak) g) as NB.
      { destruct (latin_match_inv src g (skipn n (map (refit sp) l))) as
          [(w & p & -> & Kw & Kp & _)|(w1 & ws & w2 & p & -> & _ & Kws & K1 & K2 & Kp & _)].
        - intros Z. rewrite Z in Lg. cbn in Lg. lia.
        - rewrite Eg. unfold l. rewrite <- skipn_map'. apply forall_skipn. exact F.
        - rewrite Eg, Lg. exact H.
        - constructor; [apply kind_nb_word; exact Kw|]. constructor; [apply kind_nb_period; exact Kp|constructor].
        - constructor; [apply kind_nb_word; exact K1|]. apply Forall_app. split.
          + eapply Forall_impl; [|exact Kws]. intros t Ht. apply kind_nb_ws. exact Ht.
          + constructor; [apply kind_nb_word; exact K2|]. constructor; [apply kind_nb_period; exact Kp|constructor]. }
      unfold g in NB. rewrite firstn_map' in NB. rewrite Forall_forall in NB. rewrite Forall_forall.
      intros t Hin. unfold nb. rewrite <- (refit_kind sp t). apply NB. apply in_map. exact Hin.
Qed.

Theorem patterns_ok_pb : forall src a ts, PbGapped a (length src) ts ->
  no_break_matches (contraction_matches src) ts /\ no_break_matches (ellipsis_matches src) ts /\
  matcher_ok (latin_matches src) ts /\ monotone_ends (latin_matches src) ts /\ no_break_matches (latin_matches src) ts.
Proof.
  intros src a ts H. split; [apply contraction_no_break|]. split; [apply ellipsis_no_break|]. apply (latin_ok_pb src a ts H).
Qed.

Theorem condense_latin_pb : forall src a ts, PbGapped a (length src) ts ->
  exists ts', condense_latin src ts = Ok ts' /\
    Grouped (G_pattern_in ts (latin_matches src) (fun k => k)) ts ts' /\ PbGapped a (length src) ts'.
Proof.
  intros src a ts H. destruct (latin_ok_pb src a ts H) as [MO [ME NB]].
  apply condense_pattern_pb; auto.
Qed.

(* ---------- non-vacuity: floating breaks behind Spaces (the quirk shape), between Newlines, before a Word ---------- *)
Definition zwpb (p : nat) : token := mktok (mkspan p p) KParagraphBreak.
Definition pb_ex_in : list token :=
  [mktok (mkspan 0 1) (KSpace 1); mktok (mkspan 1 2) (KSpace 2); zwpb 0; mktok (mkspan 2 3) (KSpace 1);
   mktok (mkspan 3 4) (KNewline 1); mktok (mkspan 4 5) (KNewline 1); zwpb 3; mktok (mkspan 5 6) KWord].
Definition pb_ex_spaces : list token :=
  [mktok (mkspan 0 3) (KSpace 4); zwpb 0;
   mktok (mkspan 3 4) (KNewline 1); mktok (mkspan 4 5) (KNewline 1); zwpb 3; mktok (mkspan 5 6) KWord].
Definition pb_ex_out : list token :=
  [mktok (mkspan 0 3) (KSpace 4); zwpb 0; mktok (mkspan 3 5) KParagraphBreak; zwpb 3; mktok (mkspan 5 6) KWord].
Ltac pb_solve :=
  repeat first [ apply PG_nil; cbn; lia
               | apply PG_float; [reflexivity|reflexivity|]
               | apply PG_tok; [cbn; lia|cbn; lia|cbn [tend tspan send]] ].
Example pb_three_passes_example :
  PbGapped 0 6 pb_ex_in /\ ~ Forall covers_chars pb_ex_in /\
  condense_spaces pb_ex_in = Ok pb_ex_spaces /\
  (exists t2, condense_newlines pb_ex_spaces = Ok t2 /\ newlines_to_breaks t2 = pb_ex_out) /\
  PbGapped 0 6 pb_ex_out.
Proof.
  split; [unfold pb_ex_in, zwpb; pb_solve|].
  split. { intros H. inversion H as [|x l _ H1]; subst. inversion H1 as [|x2 l2 _ H2]; subst.
           inversion H2 as [|x3 l3 H3 _]; subst. unfold covers_chars in H3. cbn in H3. lia. }
  split; [vm_compute; reflexivity|].
  split; [eexists; split; vm_compute; reflexivity|].
  unfold pb_ex_out, zwpb; pb_solve.
Qed.

Print Assumptions condense_spaces_pb.
Print Assumptions condense_newlines_pb.
Print Assumptions pbgapped_iff_tokinv.
