(* C11CuratedProofs.v — facts about the statement-level model of LintGroup::new_curated (Model/C11Curated.v)
   over the GENERATED statement table: executing the statements gives exactly the two rule tables and the
   curated configuration the other C11 theorems are stated over; every registered name has one explicit
   default; the configuration's keys are the registered names; fill_with_curated assigns exactly those; and the
   one sub-group the code builds in HashMap iteration order has the same result in every order. *)
From Coq Require Import List NArith Bool Permutation Lia.
Require Import Base Tables_rules LintGroupCfg LintGroupCfgProofs LintGroupCfgJson C11Curated.
Import ListNotations.

(* ---- the generated statements, executed, are the generated tables ---- *)
Lemma program_is_table :
  program_cfg = curated_cfg /\
  map fst (g_linters new_curated_model) = map fst curated_struct_rules /\
  map fst (g_patterns new_curated_model) = map fst curated_pattern_rules /\
  program_names = curated_names.
Proof. split; [|split; [|split]]; vm_compute; reflexivity. Qed.

Lemma program_wfb :
  wfb program_cfg = true /\ wfb (g_linters new_curated_model) = true /\ wfb (g_patterns new_curated_model) = true.
Proof. split; [|split]; vm_compute; reflexivity. Qed.
Lemma program_cfg_wf : wf program_cfg.
Proof. exact (proj1 (wfb_wf _) (proj1 program_wfb)). Qed.

Definition names_have_default (cfg : config) (names : list key) : bool :=
  forallb (fun k => match get k cfg with Some (Some _) => true | _ => false end) names.
Definition keys_are_names (cfg : config) (names : list key) : bool :=
  forallb (fun e => existsb (keqb (fst e)) names) cfg.
Lemma names_have_default_true : names_have_default program_cfg program_names = true. Proof. vm_compute. reflexivity. Qed.
Lemma keys_are_names_true : keys_are_names program_cfg program_names = true. Proof. vm_compute. reflexivity. Qed.

(* the three facts below are proved for ANY configuration / name list that passes the two boolean checks (so no
   tactic ever looks inside the big constants), then instantiated *)
Section Generic.
  Variable (cfg : config) (names : list key).
  Hypothesis Hdef : names_have_default cfg names = true.
  Hypothesis Hkeys : keys_are_names cfg names = true.

  Lemma gen_one_default k : In k names ->
    exists b, get k cfg = Some (Some b) /\ forall v, get k cfg = Some v -> v = Some b.
  Proof.
    intros Hin. pose proof Hdef as T. unfold names_have_default in T. rewrite forallb_forall in T. specialize (T k Hin). cbv beta in T.
    destruct (get k cfg) as [[b|]|] eqn:G; try discriminate T.
    exists b. split; [reflexivity|]. intros v Hv. now injection Hv as <-.
  Qed.

  Lemma gen_keys k : contains_key k cfg = true <-> In k names.
  Proof.
    split.
    - unfold contains_key. destruct (get k cfg) as [v|] eqn:G; [intros _|discriminate].
      apply get_in in G. pose proof Hkeys as T. unfold keys_are_names in T.
      rewrite forallb_forall in T. specialize (T _ G). cbn [fst] in T. now apply existsb_keqb in T.
    - intros Hin. destruct (gen_one_default k Hin) as [b [G _]]. unfold contains_key. now rewrite G.
  Qed.

  Lemma gen_fill_exact (u : config) k : wf u ->
    (In k names -> exists dflt, get k cfg = Some (Some dflt) /\
       is_rule_enabled (fill_with_curated cfg u) k = match get k u with Some (Some b) => b | _ => dflt end) /\
    (~ In k names ->
       get k (fill_with_curated cfg u) = match get k u with Some (Some b) => Some (Some b) | _ => None end).
  Proof.
    intros Hu. split.
    - intros Hin. destruct (gen_one_default k Hin) as [b [G _]]. exists b. split; [exact G|].
      unfold is_rule_enabled. rewrite (get_fill _ _ _ Hu), G. now destruct (get k u) as [[x|]|].
    - intros Hn. rewrite (get_fill _ _ _ Hu).
      assert (G : get k cfg = None).
      { destruct (get k cfg) eqn:G; [|reflexivity]. exfalso. apply Hn, gen_keys.
        unfold contains_key. now rewrite G. }
      rewrite G. now destruct (get k u) as [[x|]|].
  Qed.
End Generic.

(* every registered rule has exactly one curated default (a value, and explicit) *)
Lemma program_one_default k : In k program_names ->
  exists b, get k program_cfg = Some (Some b) /\ forall v, get k program_cfg = Some v -> v = Some b.
Proof. exact (gen_one_default program_cfg program_names names_have_default_true k). Qed.

(* the keys of new_curated's configuration are the registered names *)
Lemma program_keys k : contains_key k program_cfg = true <-> In k program_names.
Proof. exact (gen_keys program_cfg program_names names_have_default_true keys_are_names_true k). Qed.

(* fill_with_curated assigns exactly the registered names: a registered name gets the user's explicit choice,
   else its default; any other key holds what the user said explicitly, else stays absent *)
Lemma program_fill_exact (u : config) k : wf u ->
  (In k program_names -> exists dflt, get k program_cfg = Some (Some dflt) /\
     is_rule_enabled (fill_with_curated program_cfg u) k = match get k u with Some (Some b) => b | _ => dflt end) /\
  (~ In k program_names ->
     get k (fill_with_curated program_cfg u) = match get k u with Some (Some b) => Some (Some b) | _ => None end).
Proof. exact (gen_fill_exact program_cfg program_names names_have_default_true keys_are_names_true u k). Qed.

(* ---- a sub-group built by add_pattern_linter in ANY order (HashMap iteration) ---- *)
Definition adds (ns : list key) : list rstmt := map RAddPattern ns.

Lemma adds_spec (ns : list key) : forall g : ugroup, g_linters g = [] -> wf (g_patterns g) ->
  let g' := fold_left run_rstmt (adds ns) g in
  g_linters g' = [] /\ g_cfg g' = g_cfg g /\ wf (g_patterns g') /\
  forall k, get k (g_patterns g') = if existsb (keqb k) ns then Some tt else get k (g_patterns g).
Proof.
  induction ns as [|n ns IH]; intros g HL HW; cbn [adds map fold_left].
  - cbn [existsb]. split; [exact HL|]. split; [reflexivity|]. split; [exact HW|]. reflexivity.
  - set (g1 := run_rstmt g (RAddPattern n)).
    assert (H1 : g_linters g1 = [] /\ g_cfg g1 = g_cfg g /\ wf (g_patterns g1) /\
                 forall k, get k (g_patterns g1) = if keqb k n then Some tt else get k (g_patterns g)).
    { unfold g1. cbn [run_rstmt]. unfold g_add_pattern, g_contains_key. rewrite HL.
      unfold contains_key at 1. cbn [get orb].
      unfold contains_key. destruct (get n (g_patterns g)) as [[]|] eqn:G; cbn [fst g_linters g_cfg g_patterns].
      - split; [first [exact HL|reflexivity]|]. split; [reflexivity|]. split; [exact HW|].
        intros k. destruct (keqb k n) eqn:E; [|reflexivity]. apply keqb_eq in E. now subst.
      - split; [first [exact HL|reflexivity]|]. split; [reflexivity|]. split; [now apply wf_insert|]. intros k. apply get_insert. }
    destruct H1 as [L1 [C1 [W1 G1]]].
    destruct (IH g1 L1 W1) as [L2 [C2 [W2 G2]]]. fold (adds ns).
    split; [exact L2|]. split; [now rewrite C2|]. split; [exact W2|].
    intros k. rewrite G2, G1. cbn [existsb]. now destruct (keqb k n), (existsb (keqb k) ns).
Qed.

Lemma ugroup_eq (a b : ugroup) : g_cfg a = g_cfg b -> g_linters a = g_linters b -> g_patterns a = g_patterns b -> a = b.
Proof. destruct a, b. cbn. now intros -> -> ->. Qed.

Lemma existsb_perm k (a b : list key) : Permutation a b -> existsb (keqb k) a = existsb (keqb k) b.
Proof.
  intros P. destruct (existsb (keqb k) a) eqn:A, (existsb (keqb k) b) eqn:B; try reflexivity; exfalso.
  - apply existsb_keqb in A. apply (Permutation_in _ P), existsb_keqb in A. congruence.
  - apply existsb_keqb in B. apply (Permutation_in _ (Permutation_sym P)), existsb_keqb in B. congruence.
Qed.

Theorem adds_any_order (ns ns' : list key) (v : option bool) : Permutation ns ns' ->
  run_sub (adds ns' ++ [RSetAll v]) = run_sub (adds ns ++ [RSetAll v]).
Proof.
  intros P. unfold run_sub. rewrite !fold_left_app. cbn [fold_left run_rstmt]. f_equal.
  destruct (adds_spec ns (g_empty unit unit) eq_refl I) as [L [C [W G]]].
  destruct (adds_spec ns' (g_empty unit unit) eq_refl I) as [L' [C' [W' G']]].
  apply ugroup_eq; [congruence|congruence|].
  apply wf_ext; auto. intros k. rewrite G, G'. now rewrite (existsb_perm k ns ns' P).
Qed.

(* the proper-noun sub-group IS of that shape (checked on the generated statements) *)
Definition proper_names : list key :=
  match pattern_adds curated_sub_proper_noun_capitalization_linters with Some (ks, _) => ks | None => [] end.
Lemma proper_shape :
  curated_sub_proper_noun_capitalization_linters = adds proper_names ++ [RSetAll (Some true)] /\ proper_names <> [].
Proof. split; [vm_compute; reflexivity|vm_compute; discriminate]. Qed.

Theorem proper_any_order (ns' : list key) : Permutation proper_names ns' ->
  run_sub (adds ns' ++ [RSetAll (Some true)]) = run_sub curated_sub_proper_noun_capitalization_linters.
Proof. intros P. rewrite (proj1 proper_shape). now apply adds_any_order. Qed.

(* ... and new_curated sees a merged sub-group only through its value *)
Lemma merge_sees_value (g : ugroup) (sub sub' : list rstmt) :
  run_sub sub' = run_sub sub -> run_tstmt g (TMerge sub') = run_tstmt g (TMerge sub).
Proof. intros E. cbn [run_tstmt]. now rewrite E. Qed.

(* one statement of everything above, as pinned in Properties/C11.v *)
Theorem new_curated_program :
  (program_cfg = curated_cfg /\
   map fst (g_linters new_curated_model) = map fst curated_struct_rules /\
   map fst (g_patterns new_curated_model) = map fst curated_pattern_rules /\
   program_names = curated_names) /\
  (forall k, In k program_names ->
     exists b, get k program_cfg = Some (Some b) /\ forall v, get k program_cfg = Some v -> v = Some b) /\
  (forall k, contains_key k program_cfg = true <-> In k program_names) /\
  (forall (u : config) k, wf u ->
     (In k program_names -> exists dflt, get k program_cfg = Some (Some dflt) /\
        is_rule_enabled (fill_with_curated program_cfg u) k = match get k u with Some (Some b) => b | _ => dflt end) /\
     (~ In k program_names ->
        get k (fill_with_curated program_cfg u) = match get k u with Some (Some b) => Some (Some b) | _ => None end)) /\
  (forall (ns' : list key) (g : ugroup), Permutation proper_names ns' ->
     run_tstmt g (TMerge (adds ns' ++ [RSetAll (Some true)]))
     = run_tstmt g (TMerge curated_sub_proper_noun_capitalization_linters)).
Proof.
  split; [exact program_is_table|]. split; [exact program_one_default|]. split; [exact program_keys|].
  split; [exact program_fill_exact|].
  intros ns' g P. apply merge_sees_value. now apply proper_any_order.
Qed.
