(* C09RaceProofs.v — C09, add-word commands / configuration changes in flight with didChange:
     check_all_sound   the explorer of Model/C09Race.v visits EVERY schedule of the dispatcher `run` (the quiescent end
                       of every schedule, with its trace of reads / writes / critical sections)
     race_exact_of     a member of a family that passes the explorer satisfies, for ALL schedules,
                       last word right  <->  race_overtaken = false
   The families themselves are checked in C09RaceFamA.v (add-word commands) and C09RaceFamB.v (configuration changes). *)
Require Import Base Server ServerLemmas ServerSeq ServerConc ServerProofs C09Batch C09Seq C09SeqProofs C09Race.

(* ---------- freshb decides fresh ---------- *)
Lemma lang_eqb_eq : forall a b, lang_eqb a b = true <-> a = b.
Proof. intros [] []; cbn; split; intro H; try reflexivity; discriminate. Qed.

Lemma list_eqb_iff : forall a b, list_eqb a b = true <-> a = b.
Proof. intros a b. split; [apply list_eqb_eq|intros ->; apply list_eqb_refl]. Qed.
Lemma dictv_eqb_iff : forall a b, dictv_eqb a b = true <-> a = b.
Proof. intros a b. split; [apply dictv_eqb_eq|intros ->; apply dictv_eqb_refl]. Qed.
Lemma text_eqb_iff : forall a b, text_eqb a b = true <-> a = b.
Proof. intros a b. split; [apply text_eqb_eq|intros ->; apply text_eqb_refl]. Qed.

Lemma dargs_eqb_iff : forall a b, dargs_eqb a b = true <-> a = b.
Proof.
  intros a b. split.
  - unfold dargs_eqb. intro H. repeat rewrite andb_true_iff in H.
    destruct H as [[[[[[[H1 H2] H3] H4] H5] H6] H7] H8].
    apply text_eqb_iff in H1. apply lang_eqb_eq in H2. apply dictv_eqb_iff in H3. apply dictv_eqb_iff in H4.
    apply Nat.eqb_eq in H5. apply Nat.eqb_eq in H6. apply Nat.eqb_eq in H7. apply list_eqb_iff in H8.
    destruct a, b. cbn in *. subst. reflexivity.
  - intros ->. unfold dargs_eqb. rewrite text_eqb_refl, !dictv_eqb_refl, !Nat.eqb_refl, list_eqb_refl.
    assert (L : lang_eqb (a_lang b) (a_lang b) = true) by (apply lang_eqb_eq; reflexivity). rewrite L. reflexivity.
Qed.

Lemma pub_eqb_iff : forall p q, pub_eqb p q = true <-> p = q.
Proof.
  intros [|a] [|b]; cbn [pub_eqb]; split; intro H; try reflexivity; try discriminate.
  - apply dargs_eqb_iff in H. subst. reflexivity.
  - inversion H. apply dargs_eqb_iff. reflexivity.
Qed.

Lemma freshb_iff : forall w u, freshb w u = true <-> fresh w u.
Proof. intros w u. unfold freshb, fresh. apply pub_eqb_iff. Qed.

(* ---------- the explorer visits every schedule ---------- *)
Lemma quiescentb_iff : forall y, quiescentb y = true <-> quiescent y.
Proof.
  intro y. unfold quiescentb, quiescent. destruct (y_flight y), (y_todo y); split; intro H; try discriminate; try (split; reflexivity);
    destruct H; discriminate.
Qed.

Lemma quiescent_no_step : forall c y, quiescentb y = true -> step c y = None.
Proof.
  intros c y Q. apply quiescentb_iff in Q. destruct Q as [F T]. destruct c; cbn [step].
  - rewrite T. reflexivity.
  - rewrite F. reflexivity.
Qed.

Lemma step_enabled : forall c y y', step c y = Some y' -> In c (enabled y).
Proof.
  intros [|id] y y' H; unfold enabled; [left; reflexivity|]. right.
  cbn [step] in H. destruct (find_h id (y_flight y)) as [hs|] eqn:F; [|discriminate].
  apply find_h_In in F as [F1 F2]. subst id. apply (in_map (fun hs => CRun (h_id hs))). exact F1.
Qed.

Lemma fold_some_true : forall (g : choice -> option bool) L r,
  fold_left (fun r c => match r with Some true => g c | _ => r end) L r = Some true ->
  r = Some true /\ forall c, In c L -> g c = Some true.
Proof.
  intros g. induction L as [|a L IH]; intros r H; cbn [fold_left] in H.
  - split; [exact H|intros c []].
  - apply IH in H as [H1 H2]. destruct r as [[|]|]; try discriminate. split; [reflexivity|].
    intros c [<-|Hc]; [exact H1|exact (H2 c Hc)].
Qed.

Lemma check_all_sound : forall f P acc y,
  check_all f P acc y = Some true ->
  forall cs y', run cs y = Some y' -> quiescent y' -> P (rev acc ++ xtrace cs y) y' = true.
Proof.
  induction f as [|f IH]; intros P acc y H cs y' R Q; [discriminate|].
  cbn [check_all] in H. destruct (quiescentb y) eqn:Qy.
  - destruct cs as [|c cs].
    + cbn [run] in R. inversion R; subst y'. cbn [xtrace]. rewrite app_nil_r. inversion H. reflexivity.
    + cbn [run] in R. rewrite (quiescent_no_step c y Qy) in R. discriminate.
  - destruct cs as [|c cs].
    + cbn [run] in R. inversion R; subst y'. apply quiescentb_iff in Q. rewrite Q in Qy. discriminate.
    + cbn [run] in R. destruct (step c y) as [y1|] eqn:S; [|discriminate].
      apply (fold_some_true (fun c => match step c y with
                                       | Some y' => check_all f P (rev (xevents c y) ++ acc) y'
                                       | None => Some true
                                       end)) in H as [_ H].
      specialize (H c (step_enabled c y y1 S)). cbn beta in H. rewrite S in H.
      pose proof (IH P _ _ H cs y' R Q) as X.
      cbn [xtrace]. rewrite S. rewrite rev_app_distr, rev_involutive, <- app_assoc in X. exact X.
Qed.

(* ---------- a member of a family ---------- *)
Definition race_P (w0 : world) (u : url) (tr : list xevent) (y : sys) : bool :=
  Bool.eqb (freshb (y_world y) u) (negb (race_overtaken w0 (y_world y) u tr)).

Definition race_member : Type := (world * list op * url)%type.
Definition race_fuel : nat := 80.
Definition race_checks (m : race_member) : bool :=
  match m with
  | (w0, h, u) => match check_all race_fuel (race_P w0 u) [] (init h w0) with Some true => true | _ => false end
  end.

Definition race_exact (m : race_member) : Prop :=
  match m with
  | (w0, h, u) =>
      forall cs y, run cs (init h w0) = Some y -> quiescent y ->
      (lastword (y_world y) u = expected (y_world y) u <->
       race_overtaken w0 (y_world y) u (xtrace cs (init h w0)) = false)
  end.

Lemma race_exact_of : forall m, race_checks m = true -> race_exact m.
Proof.
  intros [[w0 h] u] H. unfold race_checks in H. unfold race_exact. intros cs y R Q.
  destruct (check_all race_fuel (race_P w0 u) [] (init h w0)) as [[|]|] eqn:C; try discriminate.
  pose proof (check_all_sound _ _ _ _ C cs y R Q) as X. cbn [rev app] in X. unfold race_P in X.
  apply Bool.eqb_prop in X. change (fresh (y_world y) u <-> race_overtaken w0 (y_world y) u (xtrace cs (init h w0)) = false).
  rewrite <- freshb_iff, X. destruct (race_overtaken w0 (y_world y) u (xtrace cs (init h w0))); cbn; split; congruence.
Qed.

Lemma race_family_exact : forall fam, forallb race_checks fam = true -> forall m, In m fam -> race_exact m.
Proof. intros fam H m Hm. apply race_exact_of. rewrite forallb_forall in H. exact (H m Hm). Qed.

(* ---------- the worlds of the families ---------- *)
Definition uU : url := UUntitled 1.
(* a saved file uA and a second document uB (its file does not exist), both plain text *)
Definition race_wA : world := sfold [Open uA LPlain (tx 0) 1; Save uA; Open uB LPlain (tx 7) 1] (world0 0).
(* a saved file alone; an untitled document alone *)
Definition race_wS : world := sfold [Open uA LPlain (tx 0) 1; Save uA] (world0 0).
Definition race_wU : world := sfold [Open uU LMarkdown (tx 0) 1] (world0 0).

(* the small members: the command names another document / an untitled document (nothing is re-read from a file) *)
Definition race_fam_small : list race_member :=
  [ (race_wA, [AddUser 5 uB; Change uA (tx 1) 2], uA);
    (race_wA, [Change uA (tx 1) 2; AddUser 5 uB], uA);
    (race_wA, [AddUser 5 uB; Change uA (tx 1) 2], uB);
    (race_wU, [AddUser 5 uU; Change uU (tx 1) 2], uU);
    (race_wU, [Change uU (tx 1) 2; AddUser 5 uU], uU);
    (race_wU, [AddFile 5 uU; Change uU (tx 1) 2], uU);
    (race_wU, [CfgChange 1 []; Change uU (tx 1) 2], uU);
    (race_wU, [Change uU (tx 1) 2; CfgChange 1 []], uU) ].

Lemma race_fam_small_ok : forallb race_checks race_fam_small = true.
Proof. vm_compute. reflexivity. Qed.

(* ---------- non-vacuity ---------- *)
(* [AddUser 5 uB; Change uA]: 2002 schedules end quiescent; in 686 of them uA's last word is wrong, and the shape
   flags exactly those *)
Lemma race_counts_example :
  count_all race_fuel (fun tr y => race_overtaken race_wA (y_world y) uA tr) [] (init [AddUser 5 uB; Change uA (tx 1) 2] race_wA)
    = (2002%N, 686%N) /\
  count_all race_fuel (fun _ y => negb (freshb (y_world y) uA)) [] (init [AddUser 5 uB; Change uA (tx 1) 2] race_wA)
    = (2002%N, 686%N).
Proof. split; vm_compute; reflexivity. Qed.

(* the schedule of C09_dictionary_race_refuted (three handlers in flight, the didOpen included) has exactly the flag
   `dictionary overtaken`; the same messages one at a time have none *)
Lemma dict_race_shape :
  exists y, run dict_race_schedule (init dict_race_history (world0 0)) = Some y /\ quiescentb y = true /\
    race_okb (world0 0) dict_race_history uA = true /\
    race_shape (world0 0) (y_world y) uA (xtrace dict_race_schedule (init dict_race_history (world0 0)))
      = mkflags false true false false false /\
    freshb (y_world y) uA = false.
Proof. eexists. split; [vm_compute; reflexivity|]. vm_compute. repeat split. Qed.
