(* C14BytesProofs.v — C14, phase 5: the byte stream of the derived Hash of LintContext is PREFIX-FREE, hence injective,
   on contexts whose values fit their Rust types (`ctx_wfb`); so "the hash does not collide on the contexts in play"
   (hash_injective_on, the premise of C14_only / C14_ignored_iff / C14_flat_failure_iff) reduces to "SipHash-1-3 does not
   collide on their byte strings".
     le_pf / le64_pf / le32_pf   fixed-width little-endian integers
     utf8_pf, enc_str_pf         UTF-8 is a prefix code on scalar values; no UTF-8 byte is 0xFF, so the terminator of
                                 write_str makes the message self-delimiting
     vec_pf                      length prefix + prefix-free elements
     enc_kind_pf, enc_ftok_pf, enc_sugg_pf, enc_ctx_pf
     enc_ctx_injective, hash_reduces_to_bytes, only_sip, ignored_iff_sip *)
Require Import Base Suggestion Ignore ListLemmas IgnoreProofs C14Hash C14Bytes.
From Coq Require Import Lia.
Local Open Scope N_scope.

(* ---------- arithmetic ---------- *)
Lemma divmod_inj k a b : k <> 0 -> a / k = b / k -> a mod k = b mod k -> a = b.
Proof. intros Hk Hq Hr. rewrite (N.div_mod a k Hk), (N.div_mod b k Hk). congruence. Qed.

Lemma le_pf k : forall a b r r', a < 256 ^ N.of_nat k -> b < 256 ^ N.of_nat k ->
  le k a ++ r = le k b ++ r' -> a = b /\ r = r'.
Proof.
  induction k as [|k IH]; intros a b r r' Ha Hb E.
  - change (N.of_nat 0) with 0 in Ha, Hb. rewrite N.pow_0_r in Ha, Hb. split; [lia|exact E].
  - cbn [le app] in E. injection E as Eh Et.
    rewrite Nat2N.inj_succ, N.pow_succ_r' in Ha, Hb.
    apply IH in Et; [|apply N.div_lt_upper_bound; lia|apply N.div_lt_upper_bound; lia].
    destruct Et as [Eq ->]. split; [|reflexivity]. apply (divmod_inj 256); [lia|assumption|assumption].
Qed.

Lemma le64_pf a b r r' : a < m64 -> b < m64 -> le64 a ++ r = le64 b ++ r' -> a = b /\ r = r'.
Proof. intros Ha Hb. apply (le_pf 8); assumption. Qed.
Lemma le32_pf a b r r' : a < 4294967296 -> b < 4294967296 -> le32 a ++ r = le32 b ++ r' -> a = b /\ r = r'.
Proof. intros Ha Hb. apply (le_pf 4); assumption. Qed.

Lemma u64b_lt n : u64b n = true -> n < m64.
Proof. apply N.ltb_lt. Qed.
Lemma u32b_lt n : u32b n = true -> n < 4294967296.
Proof. apply N.ltb_lt. Qed.

Lemma usz_pf a b r r' : uszb a = true -> uszb b = true -> usz a ++ r = usz b ++ r' -> a = b /\ r = r'.
Proof.
  intros Ha Hb E. apply le64_pf in E; [|apply u64b_lt; exact Ha|apply u64b_lt; exact Hb].
  destruct E as [E ->]. split; [apply Nat2N.inj; exact E|reflexivity].
Qed.

Lemma forallb_Forall_true {A} (p : A -> bool) l : forallb p l = true -> Forall (fun x => p x = true) l.
Proof.
  induction l as [|x l IH]; intros H; [constructor|].
  cbn [forallb] in H. apply andb_prop in H. destruct H as [Hx Hl]. constructor; [exact Hx|apply IH; exact Hl].
Qed.

(* ---------- length prefix + prefix-free elements ---------- *)
Section PrefixFree.
  Context {A : Type} (f : A -> bytes) (P : A -> Prop).
  Definition prefix_free : Prop :=
    forall x y r r', P x -> P y -> f x ++ r = f y ++ r' -> x = y /\ r = r'.
  Hypothesis Hpf : prefix_free.

  Lemma flat_map_pf : forall l l' r r', Forall P l -> Forall P l' -> length l = length l' ->
    flat_map f l ++ r = flat_map f l' ++ r' -> l = l' /\ r = r'.
  Proof.
    induction l as [|x l IH]; intros [|y l'] r r' Hl Hl' Hlen E; try discriminate Hlen.
    - split; [reflexivity|exact E].
    - cbn [flat_map] in E. rewrite <- !app_assoc in E.
      inversion Hl as [|? ? Px Pl]. inversion Hl' as [|? ? Py Pl']. subst.
      apply Hpf in E; [|assumption|assumption]. destruct E as [-> E].
      apply IH in E; [|assumption|assumption|cbn [length] in Hlen; congruence].
      destruct E as [-> ->]. split; reflexivity.
  Qed.

  Lemma vec_pf l l' r r' : Forall P l -> Forall P l' -> uszb (length l) = true -> uszb (length l') = true ->
    usz (length l) ++ flat_map f l ++ r = usz (length l') ++ flat_map f l' ++ r' -> l = l' /\ r = r'.
  Proof.
    intros Hl Hl' Hn Hn' E. apply usz_pf in E; [|assumption|assumption]. destruct E as [Elen E].
    apply flat_map_pf; assumption.
  Qed.
End PrefixFree.

(* ---------- Vec<char> ---------- *)
Lemma le32_prefix_free : prefix_free le32 (fun c => u32b c = true).
Proof. intros x y r r' Hx Hy. apply le32_pf; apply u32b_lt; assumption. Qed.

Lemma enc_chars_pf x y r r' : charsb x = true -> charsb y = true ->
  enc_chars x ++ r = enc_chars y ++ r' -> x = y /\ r = r'.
Proof.
  unfold charsb, enc_chars. intros Hx Hy E. apply andb_prop in Hx, Hy. destruct Hx as [Lx Cx], Hy as [Ly Cy].
  rewrite <- !app_assoc in E.
  apply (vec_pf le32 _ le32_prefix_free) in E; [exact E|apply forallb_Forall_true; assumption..|assumption|assumption].
Qed.

(* ---------- UTF-8 ---------- *)
Lemma cons_inj {A} (a b : A) l l' : a :: l = b :: l' -> a = b /\ l = l'.
Proof. intros E. inversion E. split; reflexivity. Qed.
(* (injection would normalise the arithmetic) *)
Ltac cinj E :=
  match type of E with
  | _ :: _ = _ :: _ => let H := fresh "Eb" in apply cons_inj in E; destruct E as [H E]; cinj E
  | _ => idtac
  end.
Lemma utf8_pf c c' r r' : c < 1114112 -> c' < 1114112 -> utf8 c ++ r = utf8 c' ++ r' -> c = c' /\ r = r'.
Proof.
  intros Hc Hc'. unfold utf8.
  assert (forall x, x < 2048 -> x / 64 < 32) as B2 by (intros x Hx; apply N.div_lt_upper_bound; lia).
  assert (forall x, x < 65536 -> x / 64 / 64 < 16) as B3
    by (intros x Hx; apply N.div_lt_upper_bound; [lia|]; apply N.div_lt_upper_bound; lia).
  pose proof (N.le_0_l (c / 64)) as P1. pose proof (N.le_0_l (c / 64 / 64)) as P2.
  pose proof (N.le_0_l (c / 64 / 64 / 64)) as P3. pose proof (N.le_0_l (c' / 64)) as Q1.
  pose proof (N.le_0_l (c' / 64 / 64)) as Q2. pose proof (N.le_0_l (c' / 64 / 64 / 64)) as Q3.
  destruct (c <? 128) eqn:C1; [apply N.ltb_lt in C1|apply N.ltb_ge in C1;
    destruct (c <? 2048) eqn:C2; [apply N.ltb_lt in C2; pose proof (B2 c C2)|apply N.ltb_ge in C2;
      destruct (c <? 65536) eqn:C3; [apply N.ltb_lt in C3; pose proof (B3 c C3)|apply N.ltb_ge in C3]]];
  (destruct (c' <? 128) eqn:D1; [apply N.ltb_lt in D1|apply N.ltb_ge in D1;
    destruct (c' <? 2048) eqn:D2; [apply N.ltb_lt in D2; pose proof (B2 c' D2)|apply N.ltb_ge in D2;
      destruct (c' <? 65536) eqn:D3; [apply N.ltb_lt in D3; pose proof (B3 c' D3)|apply N.ltb_ge in D3]]]);
  cbv zeta; cbn [app]; intros E; cinj E; try (exfalso; lia).
  - (* 1, 1 *) subst. split; reflexivity.
  - (* 2, 2 *) subst. split; [|reflexivity]. apply (divmod_inj 64); lia.
  - (* 3, 3 *) subst. split; [|reflexivity].
    apply (divmod_inj 64); [lia| |lia]. apply (divmod_inj 64); lia.
  - (* 4, 4 *) subst. split; [|reflexivity].
    apply (divmod_inj 64); [lia| |lia]. apply (divmod_inj 64); [lia| |lia]. apply (divmod_inj 64); lia.
Qed.

Lemma utf8_head c : c < 1114112 -> exists h t, utf8 c = h :: t /\ h < 248.
Proof.
  intros Hc. unfold utf8.
  destruct (c <? 128) eqn:C1; [apply N.ltb_lt in C1; eexists; eexists; split; [reflexivity|lia]|].
  destruct (c <? 2048) eqn:C2.
  { apply N.ltb_lt in C2. eexists; eexists; split; [reflexivity|].
    assert (c / 64 < 32) by (apply N.div_lt_upper_bound; lia). lia. }
  destruct (c <? 65536) eqn:C3.
  { apply N.ltb_lt in C3. cbv zeta. eexists; eexists; split; [reflexivity|].
    assert (c / 64 / 64 < 16) by (apply N.div_lt_upper_bound; [lia|]; apply N.div_lt_upper_bound; lia). lia. }
  cbv zeta. eexists; eexists; split; [reflexivity|].
  assert (c / 64 / 64 / 64 < 8)
    by (apply N.div_lt_upper_bound; [lia|]; apply N.div_lt_upper_bound; [lia|]; apply N.div_lt_upper_bound; lia).
  lia.
Qed.

Lemma scalarb_lt c : scalarb c = true -> c < 1114112.
Proof. apply N.ltb_lt. Qed.

(* the message: UTF-8 bytes, then 0xFF — which is not a UTF-8 byte *)
Lemma enc_str_pf : forall s s' r r', forallb scalarb s = true -> forallb scalarb s' = true ->
  enc_str s ++ r = enc_str s' ++ r' -> s = s' /\ r = r'.
Proof.
  unfold enc_str.
  induction s as [|c s IH]; intros [|c' s'] r r' Hs Hs' E.
  - cbn [flat_map app] in E. injection E as E. split; [reflexivity|exact E].
  - exfalso. cbn [forallb] in Hs'. apply andb_prop in Hs'. destruct Hs' as [Hc' _].
    destruct (utf8_head c' (scalarb_lt _ Hc')) as [h [t [Eu Hh]]].
    cbn [flat_map app] in E. rewrite Eu in E. cbn [app] in E. injection E as E _. lia.
  - exfalso. cbn [forallb] in Hs. apply andb_prop in Hs. destruct Hs as [Hc _].
    destruct (utf8_head c (scalarb_lt _ Hc)) as [h [t [Eu Hh]]].
    cbn [flat_map app] in E. rewrite Eu in E. cbn [app] in E. injection E as E _. lia.
  - cbn [forallb] in Hs, Hs'. apply andb_prop in Hs, Hs'. destruct Hs as [Hc Hs], Hs' as [Hc' Hs'].
    cbn [flat_map] in E. rewrite <- !app_assoc in E.
    apply utf8_pf in E; [|apply scalarb_lt; assumption|apply scalarb_lt; assumption]. destruct E as [-> E].
    rewrite !app_assoc in E. apply IH in E; [|assumption|assumption]. destruct E as [-> ->]. split; reflexivity.
Qed.

(* ---------- Suggestion ---------- *)
Lemma d_lt (n : N) : n < 64 -> n < m64.
Proof. unfold m64. lia. Qed.

Lemma enc_sugg_pf : prefix_free enc_sugg (fun s => sugg_wfb s = true).
Proof.
  intros x y r r' Hx Hy E.
  destruct x as [x|x|], y as [y|y|]; cbn [enc_sugg sugg_wfb] in *; rewrite <- ?app_assoc in E;
    apply le64_pf in E; try (apply d_lt; cbv [d_s_replace d_s_insert d_s_remove]; lia);
    destruct E as [Ed E]; try discriminate Ed.
  - apply enc_chars_pf in E; [|assumption|assumption]. destruct E as [-> ->]. split; reflexivity.
  - apply enc_chars_pf in E; [|assumption|assumption]. destruct E as [-> ->]. split; reflexivity.
  - split; [reflexivity|exact E].
Qed.

(* ---------- TokenKind ---------- *)
Lemma enc_opt_usize_pf a b r r' :
  match a with Some n => uszb n = true | None => True end -> match b with Some n => uszb n = true | None => True end ->
  enc_opt_usize a ++ r = enc_opt_usize b ++ r' -> a = b /\ r = r'.
Proof.
  intros Ha Hb E. destruct a as [a|], b as [b|]; cbn [enc_opt_usize] in E; rewrite <- ?app_assoc in E;
    apply le64_pf in E; try (apply d_lt; lia); destruct E as [Ed E]; try discriminate Ed.
  - apply usz_pf in E; [|assumption|assumption]. destruct E as [-> ->]. split; reflexivity.
  - split; [reflexivity|exact E].
Qed.

Lemma enc_opt_n_pf a b r r' :
  match a with Some n => u64b n = true | None => True end -> match b with Some n => u64b n = true | None => True end ->
  enc_opt_n a ++ r = enc_opt_n b ++ r' -> a = b /\ r = r'.
Proof.
  intros Ha Hb E. destruct a as [a|], b as [b|]; cbn [enc_opt_n] in E; rewrite <- ?app_assoc in E;
    apply le64_pf in E; try (apply d_lt; lia); destruct E as [Ed E]; try discriminate Ed.
  - apply le64_pf in E; [|apply u64b_lt; assumption|apply u64b_lt; assumption]. destruct E as [-> ->]. split; reflexivity.
  - split; [reflexivity|exact E].
Qed.

(* a Punctuation other than Quote: a field-less variant, or Currency(c) *)
Lemma enc_punct_lead p r : punct_wfb p = true ->
  exists d r0, enc_punct p ++ r = le64 d ++ r0 /\ d < 64 /\ d <> d_p_quote.
Proof.
  unfold punct_wfb, enc_punct. intros H. destruct (p <? 64) eqn:Ep.
  - apply N.ltb_lt in Ep. apply andb_prop in H. destruct H as [Hq _]. apply negb_true_iff, N.eqb_neq in Hq.
    exists p, r. auto.
  - exists d_p_currency, (le64 (p - 64) ++ r). rewrite <- app_assoc. unfold d_p_currency, d_p_quote. repeat split; lia.
Qed.

Lemma enc_punct_pf p q r r' : punct_wfb p = true -> punct_wfb q = true ->
  enc_punct p ++ r = enc_punct q ++ r' -> p = q /\ r = r'.
Proof.
  unfold punct_wfb, enc_punct. intros Hp Hq E.
  destruct (p <? 64) eqn:Ep; destruct (q <? 64) eqn:Eq;
    try apply N.ltb_lt in Ep; try apply N.ltb_ge in Ep; try apply N.ltb_lt in Eq; try apply N.ltb_ge in Eq;
    rewrite <- ?app_assoc in E; apply le64_pf in E; try (apply d_lt; cbv [d_p_currency]; lia); destruct E as [Ed E].
  - subst. split; reflexivity.
  - exfalso. apply andb_prop in Hp. destruct Hp as [_ Hc]. apply negb_true_iff, N.eqb_neq in Hc. congruence.
  - exfalso. apply andb_prop in Hq. destruct Hq as [_ Hc]. apply negb_true_iff, N.eqb_neq in Hc. congruence.
  - apply le64_pf in E; [|apply u64b_lt; assumption|apply u64b_lt; assumption]. destruct E as [E ->].
    split; [lia|reflexivity].
Qed.

Ltac disc_lt := apply d_lt; cbv [d_tk_word d_tk_punct d_tk_decade d_tk_number d_tk_space d_tk_newline d_tk_email
  d_tk_url d_tk_hostname d_tk_unlintable d_tk_parbreak d_tk_regexish d_p_quote d_p_currency]; lia.

Lemma enc_kind_pf : prefix_free enc_kind (fun k => kind_wfb k = true).
Proof.
  intros x y r r' Hx Hy E.
  destruct x as [[mx|]|px|tx| |vx sx rx prx|nx|nx| | | | | | ]; try discriminate Hx;
  destruct y as [[my|]|py|ty| |vy sy ry pry|ny|ny| | | | | | ]; try discriminate Hy;
    cbn [enc_kind kind_wfb] in *; rewrite <- ?app_assoc in E;
    apply le64_pf in E; try disc_lt; destruct E as [Ed E]; try discriminate Ed; clear Ed.
  - (* Word(None), Word(None) *)
    apply le64_pf in E; try (apply d_lt; lia). destruct E as [_ ->]. split; reflexivity.
  - (* Punct, Punct *)
    apply enc_punct_pf in E; [|assumption|assumption]. destruct E as [-> ->]. split; reflexivity.
  - (* Punct p, Quote *)
    exfalso. destruct (enc_punct_lead px r Hx) as [d [r0 [Ep [Hd Hq]]]]. rewrite Ep in E.
    apply le64_pf in E; [|apply d_lt; assumption|disc_lt]. destruct E as [Ed _]. congruence.
  - (* Quote, Punct p *)
    exfalso. destruct (enc_punct_lead py r' Hy) as [d [r0 [Ep [Hd Hq]]]]. rewrite Ep in E.
    apply le64_pf in E; [|disc_lt|apply d_lt; assumption]. destruct E as [Ed _]. congruence.
  - (* Quote, Quote *)
    apply le64_pf in E; try disc_lt. destruct E as [_ E].
    apply enc_opt_usize_pf in E.
    + destruct E as [-> ->]. split; reflexivity.
    + destruct tx; [exact Hx|exact I].
    + destruct ty; [exact Hy|exact I].
  - (* Decade *) split; [reflexivity|exact E].
  - (* Number *)
    apply andb_prop in Hx, Hy. destruct Hx as [Hx Hpx], Hy as [Hy Hpy].
    apply andb_prop in Hx, Hy. destruct Hx as [Hx Hrx], Hy as [Hy Hry].
    apply andb_prop in Hx, Hy. destruct Hx as [Hvx Hsx], Hy as [Hvy Hsy].
    apply le64_pf in E; [|apply u64b_lt; assumption|apply u64b_lt; assumption]. destruct E as [-> E].
    apply enc_opt_n_pf in E; [|destruct sx; [exact Hsx|exact I]|destruct sy; [exact Hsy|exact I]]. destruct E as [-> E].
    apply le32_pf in E; [|apply u32b_lt; assumption|apply u32b_lt; assumption]. destruct E as [-> E].
    apply usz_pf in E; [|assumption|assumption]. destruct E as [-> ->]. split; reflexivity.
  - (* Space *) apply usz_pf in E; [|assumption|assumption]. destruct E as [-> ->]. split; reflexivity.
  - (* Newline *) apply usz_pf in E; [|assumption|assumption]. destruct E as [-> ->]. split; reflexivity.
  - split; [reflexivity|exact E].
  - split; [reflexivity|exact E].
  - split; [reflexivity|exact E].
  - split; [reflexivity|exact E].
  - split; [reflexivity|exact E].
  - split; [reflexivity|exact E].
Qed.

Lemma enc_ftok_pf : prefix_free enc_ftok (fun f => ftok_wfb f = true).
Proof.
  intros [kx cx] [ky cy] r r' Hx Hy E. unfold ftok_wfb, enc_ftok in *. cbn [fst snd] in *.
  apply andb_prop in Hx, Hy. destruct Hx as [Hcx Hkx], Hy as [Hcy Hky].
  rewrite <- !app_assoc in E. apply enc_chars_pf in E; [|assumption|assumption]. destruct E as [-> E].
  apply enc_kind_pf in E; [|assumption|assumption]. destruct E as [-> ->]. split; reflexivity.
Qed.

(* ---------- LintContext ---------- *)
Theorem enc_ctx_pf : prefix_free enc_ctx (fun c => ctx_wfb c = true).
Proof.
  intros [k1 s1 m1 p1 t1] [k2 s2 m2 p2 t2] r r' H1 H2 E.
  unfold ctx_wfb, enc_ctx in *. cbn [c_kind c_sugg c_msg c_prio c_toks] in *.
  repeat (match goal with H : _ && _ = true |- _ => apply andb_prop in H; destruct H end).
  rewrite <- !app_assoc in E.
  apply le64_pf in E; [|apply u64b_lt; assumption|apply u64b_lt; assumption]. destruct E as [-> E].
  apply (vec_pf enc_sugg _ enc_sugg_pf) in E; [|apply forallb_Forall_true; assumption..|assumption|assumption].
  destruct E as [-> E].
  apply enc_str_pf in E; [|assumption|assumption]. destruct E as [-> E].
  cbn [app] in E. apply cons_inj in E. destruct E as [-> E].
  apply (vec_pf enc_ftok _ enc_ftok_pf) in E; [|apply forallb_Forall_true; assumption..|assumption|assumption].
  destruct E as [-> ->]. split; reflexivity.
Qed.

Theorem enc_ctx_injective c c' : ctx_wfb c = true -> ctx_wfb c' = true -> enc_ctx c = enc_ctx c' -> c = c'.
Proof.
  intros H H' E. apply (enc_ctx_pf c c' [] [] H H'). rewrite !app_nil_r. exact E.
Qed.

(* ---------- what is asked of the hasher ---------- *)
(* a hasher over byte strings that does not collide on a given finite set of strings *)
Definition bytes_injective_on (h : bytes -> N) (U : list bytes) : Prop :=
  forall a b, In a U -> In b U -> h a = h b -> a = b.

Theorem hash_reduces_to_bytes (h : bytes -> N) cs :
  Forall (fun c => ctx_wfb c = true) cs -> bytes_injective_on h (map enc_ctx cs) ->
  hash_injective_on (fun c => h (enc_ctx c)) cs.
Proof.
  intros Hwf Hinj a b Ha Hb E. rewrite Forall_forall in Hwf.
  apply enc_ctx_injective; [apply Hwf; exact Ha|apply Hwf; exact Hb|].
  apply Hinj; [apply in_map; exact Ha|apply in_map; exact Hb|exact E].
Qed.

(* the converse: nothing is lost — a collision of the hasher on two of the strings is a collision on two contexts *)
Theorem bytes_reduce_to_hash (h : bytes -> N) cs :
  hash_injective_on (fun c => h (enc_ctx c)) cs -> bytes_injective_on h (map enc_ctx cs).
Proof.
  intros Hinj a b Ha Hb E. apply in_map_iff in Ha, Hb. destruct Ha as [ca [<- Ha]], Hb as [cb [<- Hb]].
  f_equal. apply Hinj; assumption.
Qed.

(* "only that lint" and "ignored iff", for the hash IgnoredLints really stores: SipHash-1-3, keys (0,0), over the stream *)
Theorem ignored_iff_sip hist cs l d c s' :
  contexts_of context hist cs -> ignore_all context stored_hash [] hist = Ok s' ->
  context l d = Ok c -> Forall (fun c => ctx_wfb c = true) (c :: cs) ->
  bytes_injective_on default_hasher (map enc_ctx (c :: cs)) ->
  (is_ignored context stored_hash s' l d = Ok true <-> In c cs).
Proof.
  intros Hcs Es Ec Hwf Hinj. apply (ignored_iff stored_hash hist cs l d c s' Hcs Es Ec).
  apply (hash_reduces_to_bytes default_hasher); assumption.
Qed.

Theorem only_sip hist cs l d c ls s' ls' :
  contexts_of context hist cs -> ignore_all context stored_hash [] hist = Ok s' ->
  (forall l0, In l0 ls -> exists c0, context l0 d = Ok c0) ->
  remove_ignored context stored_hash s' ls d = Ok ls' ->
  In l ls -> context l d = Ok c ->
  ~ In c cs ->
  Forall (fun c => ctx_wfb c = true) (c :: cs) ->
  bytes_injective_on default_hasher (map enc_ctx (c :: cs)) ->
  In l ls'.
Proof.
  intros Hcs Es Hall Er Hin Ec Hnot Hwf Hinj.
  apply (only context stored_hash hist cs l d c ls s' ls' Hcs Es Hall Er Hin Ec Hnot).
  apply (hash_reduces_to_bytes default_hasher); assumption.
Qed.
