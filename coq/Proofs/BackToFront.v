(* BackToFront.v — the consequence named in C13: one suggestion per kept lint, applied back to
   front, is the simultaneous splice (no edit disturbs the characters of another lint). *)
Require Import Base Overlap Suggestion ListLemmas OverlapProofs SuggestionProofs.
From Coq Require Import Sorting.Sorted Sorting.Permutation.

Definition edits (sug : lint -> suggestion) (ls : list lint) : list (span * suggestion) :=
  map (fun l => (lspan l, sug l)) ls.

Lemma chain_of_kept n sug : forall ks pos,
  Forall lwf ks -> Forall (fun l => lend l <= n) ks -> pos <= n ->
  Forall (fun k => pos <= lstart k) ks ->
  ForallOrdPairs (fun a b => lend a <= lstart b) ks ->
  chain n pos (edits sug ks).
Proof.
  induction ks as [|k ks IH]; intros pos W B Hp G C; cbn [edits map]; [now constructor|].
  inversion W; inversion B; inversion G; inversion C; subst.
  constructor; try assumption. apply IH; assumption.
Qed.

Theorem back_to_front src sug ls :
  Forall lwf ls -> Forall (fun l => lend l <= length src) ls ->
  apply_back_to_front src (edits sug (remove_overlaps ls))
  = Ok (splice_sim 0 src (edits sug (remove_overlaps ls))).
Proof.
  intros W B.
  assert (Forall lwf (remove_overlaps ls)) as W'.
  { apply Forall_forall. intros k Hk. rewrite Forall_forall in W. apply W. now apply ro_kept_in. }
  assert (Forall (fun l => lend l <= length src) (remove_overlaps ls)) as B'.
  { apply Forall_forall. intros k Hk. rewrite Forall_forall in B. apply B. now apply ro_kept_in. }
  rewrite (back_to_front_spec src _ 0).
  - reflexivity.
  - apply chain_of_kept; try assumption; [lia| |].
    + apply Forall_forall. intros; lia.
    + pose proof (ro_disjoint ls W) as D. clear -D.
      induction D as [|a l Ha D IH]; constructor; [|exact IH].
      eapply Forall_impl; [|exact Ha]. intros b [H _]. exact H.
Qed.
