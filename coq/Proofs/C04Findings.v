(* C04Findings.v — the known findings FC04d / FC04e / FC04h as exact characterisations over the models (phase 4):
   which inputs are affected, so that each classifier of known/C04.json is the failing class and nothing else.
   (FC04i has C04_javadoc_tag_window in C04JavaDocProofs.v.) *)
Require Import Base Mask ListLemmas MaskProofs MaskFrontends C04Typst C04TypstProofs Tables_masks.
From Coq Require Import List Arith NArith Bool Lia.
Import ListNotations.

(* ---------------------------------------------------------------------------------------------- *)
(** * without_initiators: where the kept span starts, exactly *)
Section Leaders.
  Variable is_whitespace : N -> bool.
  Notation leader := (leader_char is_whitespace).
  Notation nonleader := (fun c => negb (leader_char is_whitespace c)).

  Lemma without_initiators_start (src : text) a : without_initiators is_whitespace src = Ok a ->
    sstart a = match position nonleader src with Some i => i | None => length src end.
  Proof.
    unfold without_initiators, span_new. intros H.
    destruct (sub_chk (length src) match position nonleader (rev src) with Some i => i | None => 0 end) as [e|]; cbn [bind] in H; [|discriminate].
    match type of H with (if ?c then _ else _) = _ => destruct c end; [discriminate|]. inversion H. reflexivity.
  Qed.

  (* FC04h, the exact class: the first character of a comment node is handed to the prose parser iff it is neither a
     comment character (the generated table) nor whitespace.  tree-sitter-ruby puts `=begin` / `=end` INSIDE the comment
     node and `=` is not a comment character: the delimiter line is kept from its first character on. *)
  Theorem leader_kept_iff (c : N) (rest : text) a : without_initiators is_whitespace (c :: rest) = Ok a ->
    (sstart a = 0 <-> leader c = false).
  Proof.
    intros H. rewrite (without_initiators_start _ _ H). cbn [position]. destruct (leader c) eqn:E; cbn [negb].
    - destruct (position nonleader rest); cbn; split; intros; try lia; discriminate.
    - split; reflexivity.
  Qed.

  (* the last character likewise: the kept span ends behind the last non-leader character *)
  (* FC04d, first half: a non-empty span of without_initiators starts at a character that is neither whitespace nor a
     comment character — Unit / JsDoc hand the inner parser one such span per line, so no inner line begins with
     indentation and Markdown can never read a comment line as an indented code block there *)
  Theorem without_initiators_first_clean (line : text) a : without_initiators is_whitespace line = Ok a ->
    sstart a < send a -> exists c, nth_error line (sstart a) = Some c /\ leader c = false.
  Proof.
    intros H Hlt. pose proof (without_initiators_start _ _ H) as Hs.
    destruct (without_initiators_spec is_whitespace line) as (a' & Ha' & Hb & _). rewrite H in Ha'. inversion Ha'; subst a'.
    destruct (position nonleader line) as [i|] eqn:Ei; [|lia].
    destruct (position_some _ _ _ Ei) as (_ & (x & Hx & Hpx) & _). exists x. rewrite Hs. split; [assumption|].
    now apply negb_true_iff in Hpx.
  Qed.

  Lemma nth_error_firstn_lt {A} : forall m (l : list A) i, i < m -> nth_error (firstn m l) i = nth_error l i.
  Proof.
    induction m as [|m IH]; intros l i Hi; [lia|]. destruct l as [|x t]; [destruct i; reflexivity|].
    destruct i as [|i]; [reflexivity|]. cbn. apply IH. lia.
  Qed.
  Lemma nth_error_skipn_add {A} : forall a (l : list A) i, nth_error (skipn a l) i = nth_error l (a + i).
  Proof.
    induction a as [|a IH]; intros l i; [reflexivity|]. destruct l as [|x t]; [destruct i; reflexivity|]. cbn. apply IH.
  Qed.
  Lemma nth_error_slice {A} (l : list A) a b i : i < b - a -> nth_error (slice l a b) i = nth_error l (a + i).
  Proof. intros Hi. unfold slice. rewrite nth_error_firstn_lt by assumption. apply nth_error_skipn_add. Qed.

  (* FC04d, second half: Go hands the WHOLE block between the initiators to the inner parser — one call, every interior
     character (newlines, the `//` leaders and the indentation of the following lines) verbatim at offset i - start.
     So exactly the blocks with an interior line that Markdown reads as indented code (a tab / four spaces after a blank
     line: pulldown-cmark's rule, third party) lose that line; the class is characterised by the chunk, which is the
     file's own text. *)
  Theorem go_block_verbatim (inner : text -> list tok) (src : text) :
    exists actual, without_initiators is_whitespace src = Ok actual /\
      (starts_with GO_DIRECTIVE (slice src (sstart actual) (send actual)) = false ->
       go_parse is_whitespace inner src = Ok (map (tpush (sstart actual)) (inner (slice src (sstart actual) (send actual)))) /\
       forall i, i < send actual - sstart actual ->
         nth_error (slice src (sstart actual) (send actual)) i = nth_error src (sstart actual + i)).
  Proof.
    destruct (go_parse_exact is_whitespace inner src) as (actual & Ha & Hb & Hg).
    exists actual. split; [assumption|]. intros Hd. rewrite Hd in Hg. split; [assumption|].
    intros i Hi. now apply nth_error_slice.
  Qed.
End Leaders.

(* `=` is not in the table regenerated from is_comment_character; `=begin\nriver\n=end` keeps everything *)
Example fc04h_ruby_delimiter_kept :
  existsb (N.eqb 61) comment_characters = false /\
  without_initiators (fun c => (c =? 32) || (c =? 10))%N [61;98;101;103;105;110;10;114;105;118;101;114;10;61;101;110;100]%N
  = Ok (mkspan 0 17).
Proof. split; vm_compute; reflexivity. Qed.

(* ---------------------------------------------------------------------------------------------- *)
(** * FC04e: what the Typst translation hands to the prose lexer, exactly *)

(* the texts of the nodes reached through ranged ancestors: Text nodes and the raw text between the quotes of Str nodes *)
Fixpoint typst_lexed (n : tnode) : list text :=
  match n with
  | TText (Some _) txt => [txt]
  | TStr (Some _) raw => [decode (slice raw 1 (length raw - 1))]
  | TNode (Some _) cs => flat_map typst_lexed cs
  | TGroup cs => flat_map typst_lexed cs
  | _ => []
  end.

Lemma flat_map_ext_in {A B} (f g : A -> list B) (l : list A) :
  Forall (fun x => f x = g x) l -> flat_map f l = flat_map g l.
Proof. induction 1 as [|x t Hx _ IH]; [reflexivity|]. cbn. now rewrite Hx, IH. Qed.

(* the translation depends on the lexer ONLY through `typst_lexed n`: nothing else of the document is ever offered as
   prose, and every one of these texts is.  A string literal in code is a Str node: its contents are in the list
   whenever the node is reached (FC04e — by design of the Expr::Str arm, pinned by Tables_typst / C04_typst_prose_arms). *)
Theorem typst_lexer_inputs_exact bs (lex1 lex2 : text -> list tok) : forall n,
  (forall t, In t (typst_lexed n) -> lex1 t = lex2 t) -> tr_spec lex1 bs n = tr_spec lex2 bs n.
Proof.
  induction n as [r k|r t|r t|r k|r cs IH|cs IH] using tnode_ind'; intros H.
  - reflexivity.
  - destruct r as [[a b]|]; [|reflexivity]. cbn [tr_spec]. rewrite (H t); [reflexivity|left; reflexivity].
  - destruct r as [[a b]|]; [|reflexivity]. cbn [tr_spec]. rewrite (H (decode (slice t 1 (length t - 1)))); [reflexivity|left; reflexivity].
  - reflexivity.
  - destruct r as [[a b]|]; [|reflexivity]. cbn [tr_spec]. apply flat_map_ext_in.
    cbn [typst_lexed] in H. induction IH as [|c cs' Hc _ IHcs]; constructor.
    + apply Hc. intros t Ht. apply H. cbn [flat_map]. apply in_or_app. now left.
    + apply IHcs. intros t Ht. apply H. cbn [flat_map]. apply in_or_app. now right.
  - cbn [tr_spec]. apply flat_map_ext_in.
    cbn [typst_lexed] in H. induction IH as [|c cs' Hc _ IHcs]; constructor.
    + apply Hc. intros t Ht. apply H. cbn [flat_map]. apply in_or_app. now left.
    + apply IHcs. intros t Ht. apply H. cbn [flat_map]. apply in_or_app. now right.
Qed.

(* and each text of the list is really lexed: its tokens are in the output, shifted *)
Theorem typst_str_is_lexed bs (lex : text -> list tok) a b raw :
  typst_lexed (TStr (Some (a, b)) raw) = [decode (slice raw 1 (length raw - 1))] /\
  tr_spec lex bs (TStr (Some (a, b)) raw) = map (tpush (char_index bs a + 1)) (lex (decode (slice raw 1 (length raw - 1)))).
Proof. split; reflexivity. Qed.
