(* PatternProofs.v — every Pattern combinator returns Ok n with n <= |tokens| and never slices out of
   range (given that the opaque leaves do); the loops of RepeatingPattern, run_on_chunk and
   find_all_matches terminate within their fuel; run_on_chunk hands match_to_lint in-range, non-empty,
   increasing, disjoint token ranges. *)
Require Import Base Overlap TokenSeq Pattern PatternImpls Tables_patterns TokenSeqProofs ListLemmas.
From Coq Require String.

(* ---------- induction principle for the nested inductive ---------- *)
Section PatInd.
  Variable Q : pat -> Prop.
  Hypothesis HPred : forall i, Q (PPred i).
  Hypothesis HFlag : forall b, Q (PFlag b).
  Hypothesis HExactWord : forall w, Q (PExactWord w).
  Hypothesis HAny : Q PAny.
  Hypothesis HWhitespace : Q PWhitespace.
  Hypothesis HAnyCap : forall w, Q (PAnyCap w).
  Hypothesis HWordSet : forall ws, Q (PWordSet ws).
  Hypothesis HWithinEdit : forall o, Q (PWithinEdit o).
  Hypothesis HImplies : Q PImpliesQuantity.
  Hypothesis HNominal : Q PNominal.
  Hypothesis HSeq : forall ps, Forall Q ps -> Q (PSeq ps).
  Hypothesis HEither : forall ps, Forall Q ps -> Q (PEither ps).
  Hypothesis HAll : forall ps, Forall Q ps -> Q (PAll ps).
  Hypothesis HNaive : forall ps, Forall Q ps -> Q (PNaive ps).
  Hypothesis HMap : forall ps, Forall Q ps -> Q (PMap ps).
  Hypothesis HRepeat : forall q r, Q q -> Q (PRepeat q r).
  Hypothesis HInvert : forall q, Q q -> Q (PInvert q).
  Hypothesis HConsumes : forall q, Q q -> Q (PConsumes q).
  Hypothesis HNotTitle : forall q o, Q q -> Q (PNotTitle q o).
  Hypothesis HExactPhrase : forall ps, Forall Q ps -> Q (PExactPhrase ps).
  Hypothesis HIndef : Q PIndefArticle.
  Hypothesis HSimilar : forall ps fs, Forall Q ps -> Forall Q fs -> Q (PSimilar ps fs).
  Hypothesis HSplit : forall o, Q (PSplitCompound o).
  Hypothesis HKind : forall m, Forall (fun kq => Q (snd kq)) m -> Q (PKindGroup m).
  Hypothesis HWord : forall m, Forall (fun kq => Q (snd kq)) m -> Q (PWordGroup m).

  Fixpoint pat_ind2 (p : pat) : Q p :=
    let fl := fix fl (ps : list pat) : Forall Q ps :=
      match ps with [] => Forall_nil _ | q :: r => Forall_cons q (pat_ind2 q) (fl r) end in
    match p with
    | PPred i => HPred i
    | PFlag b => HFlag b
    | PExactWord w => HExactWord w
    | PAny => HAny
    | PWhitespace => HWhitespace
    | PAnyCap w => HAnyCap w
    | PWordSet ws => HWordSet ws
    | PWithinEdit o => HWithinEdit o
    | PImpliesQuantity => HImplies
    | PNominal => HNominal
    | PSeq ps => HSeq ps (fl ps)
    | PEither ps => HEither ps (fl ps)
    | PAll ps => HAll ps (fl ps)
    | PNaive ps => HNaive ps (fl ps)
    | PMap ps => HMap ps (fl ps)
    | PRepeat q r => HRepeat q r (pat_ind2 q)
    | PInvert q => HInvert q (pat_ind2 q)
    | PConsumes q => HConsumes q (pat_ind2 q)
    | PNotTitle q o => HNotTitle q o (pat_ind2 q)
    | PExactPhrase ps => HExactPhrase ps (fl ps)
    | PIndefArticle => HIndef
    | PSimilar ps fs => HSimilar ps fs (fl ps) (fl fs)
    | PSplitCompound o => HSplit o
    | PKindGroup m => HKind m
        ((fix fk (m : list (nat * pat)) : Forall (fun kq => Q (snd kq)) m :=
            match m with [] => Forall_nil _ | (k, q) :: r => Forall_cons (k, q) (pat_ind2 q) (fk r) end) m)
    | PWordGroup m => HWord m
        ((fix fk (m : list (text * pat)) : Forall (fun kq => Q (snd kq)) m :=
            match m with [] => Forall_nil _ | (k, q) :: r => Forall_cons (k, q) (pat_ind2 q) (fk r) end) m)
    end.
End PatInd.

(* ---------- list facts ---------- *)
Lemma Forall_skipn {A} (Q : A -> Prop) n (l : list A) : Forall Q l -> Forall Q (skipn n l).
Proof.
  revert l. induction n as [|n IH]; intros l H; [exact H|]. destruct l; [constructor|].
  inversion H; subst. cbn [skipn]. now apply IH.
Qed.
Lemma Forall_firstn {A} (Q : A -> Prop) n (l : list A) : Forall Q l -> Forall Q (firstn n l).
Proof.
  revert l. induction n as [|n IH]; intros l H; [constructor|]. destruct l; [constructor|].
  inversion H; subst. cbn [firstn]. constructor; [assumption|now apply IH].
Qed.

Lemma b2n_le b : b2n b <= 1.
Proof. destruct b; cbn; lia. Qed.
Lemma wordset_go_le c ws : wordset_go c ws <= 1.
Proof.
  induction ws as [|w r IH]; cbn [wordset_go]; [lia|].
  destruct (negb (length c =? length w)); [exact IH|]. destruct (zip_all_eq_ic c w); [lia|exact IH].
Qed.
Lemma ws_go_le ts : ws_go ts <= length ts.
Proof. induction ts as [|t r IH]; cbn [ws_go length]; [lia|]. destruct (flag F_WS t); lia. Qed.
Lemma nominal_go_le : forall n ts c, length ts <= n -> nominal_go ts c <= c + length ts.
Proof.
  induction n as [|n IH]; intros ts c H.
  - destruct ts; [cbn; lia|cbn in H; lia].
  - destruct ts as [|t r]; [cbn; lia|]. cbn [nominal_go length].
    destruct (flag F_ADJ t || flag F_DET t).
    + destruct r as [|nx r']; [lia|]. destruct (flag F_WS nx); [|lia].
      cbn [length] in *. specialize (IH r' (c + 2)). lia.
    + destruct (flag F_NOMINAL t); lia.
Qed.

(* ---------- checked primitives on good spans ---------- *)
Lemma span_len_ok s : sstart s <= send s -> span_len s = Ok (send s - sstart s).
Proof.
  intros H. unfold span_len, sub_chk. destruct (send s <? sstart s) eqn:E; [apply Nat.ltb_lt in E; lia|reflexivity].
Qed.

Lemma get_content_ok (s : span) (src : text) :
  sstart s <= send s -> send s <= length src -> exists c, get_content s src = Ok c.
Proof.
  intros H1 H2. unfold get_content, try_get_content.
  destruct ((send s <? sstart s) || (length src <=? sstart s) || (length src <? send s)) eqn:E.
  - rewrite span_len_ok by exact H1. cbn [bind].
    destruct (send s - sstart s =? 0) eqn:E0; cbn [bind]; [eexists; reflexivity|].
    apply Nat.eqb_neq in E0. apply orb_true_iff in E. destruct E as [E|E].
    + apply orb_true_iff in E. destruct E as [E|E]; [apply Nat.ltb_lt in E; lia|apply Nat.leb_le in E; lia].
    + apply Nat.ltb_lt in E. lia.
  - cbn [bind]. eexists; reflexivity.
Qed.

(* ================================================================================================ *)
Section Bounded.
  Variable leaf : nat -> tok -> text -> res bool.
  Variable oracle : nat -> list tok -> text -> res bool.
  Variable src : text.

  (* a token the pattern code may be handed: well-formed span inside the text (C02's invariant), and
     the closures of the blanket impl return normally on it *)
  Definition tok_good (t : tok) : Prop :=
    sstart (tspan t) <= send (tspan t) /\ send (tspan t) <= length src /\
    forall i, exists b, leaf i t src = Ok b.
  Definition toks_good (ts : list tok) : Prop := Forall tok_good ts.

  (* The domain D of token lists the theorems speak about: any class of lists of good tokens that is
     closed under the slicing the pattern code does (suffix, prefix, "tokens[0] and tokens[2]").
     Instantiated below with (a) all lists of good tokens and (b) good AND ordered tokens — the
     latter because make_title_case (the oracle of IsNotTitleCase) subtracts span starts and so
     presupposes order. *)
  Variable D : list tok -> Prop.
  Hypothesis D_good : forall ts, D ts -> toks_good ts.
  Hypothesis D_skipn : forall n ts, D ts -> D (skipn n ts).
  Hypothesis D_firstn : forall n ts, D ts -> D (firstn n ts).
  Hypothesis D_pick : forall a x b r, D (a :: x :: b :: r) -> D [a; b].

  (* edit distance / title case / dictionary return normally on the token lists of the domain *)
  Definition oracle_ok : Prop := forall o ts, D ts -> exists b, oracle o ts src = Ok b.

  Definition bounded (f : list tok -> res nat) : Prop :=
    forall ts, D ts -> exists n, f ts = Ok n /\ n <= length ts.

  Lemma good_content t : tok_good t -> exists c, get_content (tspan t) src = Ok c.
  Proof. intros [H1 [H2 _]]. now apply get_content_ok. Qed.

  (* ----- generic combinator lemmas ----- *)
  Section Gen.
    Variable P : Type.
    Variable m : P -> list tok -> res nat.

    Lemma seq_go_bounded ps : Forall (fun q => bounded (m q)) ps ->
      forall ts cursor, D ts -> cursor <= length ts ->
      exists n, seq_go P m ts ps cursor = Ok n /\ n <= length ts.
    Proof.
      induction 1 as [|q r Hq _ IH]; intros ts cursor Hg Hc; cbn [seq_go].
      - eexists; split; [reflexivity|exact Hc].
      - rewrite slice_from_ok by exact Hc. cbn [bind].
        destruct (Hq (skipn cursor ts)) as [n [E Hn]]; [now apply D_skipn|].
        rewrite E. cbn [bind]. rewrite skipn_length in Hn.
        destruct (n =? 0); [exists 0; split; [reflexivity|lia]|]. apply IH; [exact Hg|lia].
    Qed.

    Lemma either_go_bounded ps : Forall (fun q => bounded (m q)) ps ->
      forall ts longest, D ts -> longest <= length ts ->
      exists n, either_go P m ts ps longest = Ok n /\ n <= length ts.
    Proof.
      induction 1 as [|q r Hq _ IH]; intros ts longest Hg Hc; cbn [either_go].
      - eexists; split; [reflexivity|exact Hc].
      - destruct (Hq ts Hg) as [n [E Hn]]. rewrite E. cbn [bind]. apply IH; [exact Hg|].
        destruct (longest <? n); assumption.
    Qed.

    Lemma all_go_bounded ps : Forall (fun q => bounded (m q)) ps ->
      forall ts mx, D ts -> mx <= length ts ->
      exists n, all_go P m ts ps mx = Ok n /\ n <= length ts.
    Proof.
      induction 1 as [|q r Hq _ IH]; intros ts mx Hg Hc; cbn [all_go].
      - eexists; split; [reflexivity|exact Hc].
      - destruct (Hq ts Hg) as [n [E Hn]]. rewrite E. cbn [bind].
        destruct (n =? 0); [exists 0; split; [reflexivity|lia]|]. apply IH; [exact Hg|].
        destruct (mx <? n); assumption.
    Qed.

    Lemma first_go_bounded ps : Forall (fun q => bounded (m q)) ps ->
      forall ts, D ts -> exists n, first_go P m ts ps = Ok n /\ n <= length ts.
    Proof.
      induction 1 as [|q r Hq _ IH]; intros ts Hg; cbn [first_go].
      - exists 0; split; [reflexivity|lia].
      - destruct (Hq ts Hg) as [n [E Hn]]. rewrite E. cbn [bind].
        destruct (n =? 0); [now apply IH|]. now exists n.
    Qed.

    (* the `loop` of RepeatingPattern: every round consumes >= 1 token, so |tokens| + 2 rounds of
       fuel are never used up *)
    Lemma rep_go_bounded q required ts : bounded (m q) -> D ts ->
      forall fuel cursor rep, 1 <= fuel -> length ts + 2 <= fuel + cursor -> cursor <= length ts ->
      exists n, rep_go P m q required ts fuel cursor rep = Ok n /\ n <= length ts.
    Proof.
      intros Hq Hg. induction fuel as [|f IH]; intros cursor rep H1 H2 Hc; [lia|].
      cbn [rep_go]. rewrite slice_from_ok by exact Hc. cbn [bind].
      destruct (Hq (skipn cursor ts)) as [n [E Hn]]; [now apply D_skipn|].
      rewrite E. cbn [bind]. rewrite skipn_length in Hn.
      destruct (n =? 0) eqn:E0.
      - destruct (required <=? rep); [exists cursor|exists 0]; (split; [reflexivity|lia]).
      - apply Nat.eqb_neq in E0. apply IH; lia.
    Qed.

    Lemma keyed_go_bounded {K} (hit : K -> bool) (l : list (K * P)) :
      Forall (fun kq => bounded (m (snd kq))) l ->
      forall ts, D ts -> exists n, keyed_go P m hit ts l = Ok n /\ n <= length ts.
    Proof.
      induction 1 as [|[k q] r Hq _ IH]; intros ts Hg; cbn [keyed_go].
      - exists 0; split; [reflexivity|lia].
      - destruct (hit k); [exact (Hq ts Hg)|now apply IH].
    Qed.
  End Gen.

  (* ----- the leaves ----- *)
  Lemma m_pred_bounded i : bounded (fun ts => m_pred leaf i ts src).
  Proof.
    intros [|t r] Hg; cbn [m_pred]; [exists 0; split; [reflexivity|cbn; lia]|].
    pose proof (D_good _ Hg) as Hgg; inversion Hgg as [|? ? [_ [_ Hl]] _]; subst. destruct (Hl i) as [b E]. rewrite E. cbn [bind].
    eexists; split; [reflexivity|]. pose proof (b2n_le b). cbn [length]. lia.
  Qed.
  Lemma m_flag_bounded b : bounded (m_flag b).
  Proof.
    intros [|t r] _; cbn [m_flag]; [exists 0; split; [reflexivity|cbn; lia]|].
    eexists; split; [reflexivity|]. pose proof (b2n_le (flag b t)). cbn [length]. lia.
  Qed.
  Lemma m_exact_word_bounded w : bounded (fun ts => m_exact_word w ts src).
  Proof.
    intros [|t r] Hg; cbn [m_exact_word]; [exists 0; split; [reflexivity|cbn; lia]|].
    pose proof (D_good _ Hg) as Hgg; inversion Hgg as [|? ? Ht _]; subst.
    destruct (negb (flag F_WORD t)); [exists 0; split; [reflexivity|cbn; lia]|].
    destruct (good_content t Ht) as [c E]. rewrite E. cbn [bind].
    eexists; split; [reflexivity|]. pose proof (b2n_le (text_eqb c w)). cbn [length]. lia.
  Qed.
  Lemma m_any_bounded : bounded m_any.
  Proof. intros [|t r] _; cbn [m_any]; eexists; (split; [reflexivity|cbn; lia]). Qed.
  Lemma m_ws_bounded : bounded (fun ts => Ok (ws_go ts)).
  Proof. intros ts _. eexists; split; [reflexivity|apply ws_go_le]. Qed.
  Lemma m_anycap_bounded w : bounded (fun ts => m_anycap w ts src).
  Proof.
    intros [|t r] Hg; cbn [m_anycap]; [exists 0; split; [reflexivity|cbn; lia]|].
    pose proof (D_good _ Hg) as Hgg; inversion Hgg as [|? ? Ht _]; subst.
    destruct (negb (flag F_WORD t)); [exists 0; split; [reflexivity|cbn; lia]|].
    destruct Ht as [H1 H2]. rewrite span_len_ok by exact H1. cbn [bind].
    destruct (negb (send (tspan t) - sstart (tspan t) =? length w)); [exists 0; split; [reflexivity|cbn; lia]|].
    destruct (good_content t (conj H1 H2)) as [c E]. rewrite E. cbn [bind].
    eexists; split; [reflexivity|]. pose proof (b2n_le (zip_all_eq_ic c w)). cbn [length]. lia.
  Qed.
  Lemma m_wordset_bounded ws : bounded (fun ts => m_wordset ws ts src).
  Proof.
    intros [|t r] Hg; cbn [m_wordset]; [exists 0; split; [reflexivity|cbn; lia]|].
    pose proof (D_good _ Hg) as Hgg; inversion Hgg as [|? ? Ht _]; subst.
    destruct (negb (flag F_WORD t)); [exists 0; split; [reflexivity|cbn; lia]|].
    destruct (good_content t Ht) as [c E]. rewrite E. cbn [bind].
    eexists; split; [reflexivity|]. pose proof (wordset_go_le c ws). cbn [length]. lia.
  Qed.
  Lemma m_within_edit_bounded o : oracle_ok -> bounded (fun ts => m_within_edit oracle o ts src).
  Proof.
    intros HO [|t r] Hg; cbn [m_within_edit]; [exists 0; split; [reflexivity|cbn; lia]|].
    pose proof (D_good _ Hg) as Hgg; inversion Hgg as [|? ? Ht _]; subst.
    destruct (negb (flag F_WORD t)); [exists 0; split; [reflexivity|cbn; lia]|].
    destruct (good_content t Ht) as [c E]. rewrite E. cbn [bind].
    destruct (HO o [t]) as [b Eb]; [exact (D_firstn 1 _ Hg)|]. rewrite Eb. cbn [bind].
    eexists; split; [reflexivity|]. pose proof (b2n_le b). cbn [length]. lia.
  Qed.
  Lemma m_implies_bounded : bounded (fun ts => m_implies ts src).
  Proof.
    intros [|t r] Hg; cbn [m_implies]; [exists 0; split; [reflexivity|cbn; lia]|].
    pose proof (D_good _ Hg) as Hgg; inversion Hgg as [|? ? Ht _]; subst.
    destruct (flag F_WORDMETA t).
    - destruct (flag F_DET t); [exists 1; split; [reflexivity|cbn; lia]|].
      destruct (good_content t Ht) as [c E]. rewrite E. cbn [bind].
      eexists; split; [reflexivity|].
      pose proof (b2n_le (text_eqb c w_a || text_eqb c w_an || text_eqb c w_many)). cbn [length]. lia.
    - eexists; split; [reflexivity|]. pose proof (b2n_le (flag F_NUMBER t)). cbn [length]. lia.
  Qed.
  Lemma m_nominal_bounded : bounded (fun ts => Ok (nominal_go ts 0)).
  Proof. intros ts _. eexists; split; [reflexivity|]. apply (nominal_go_le (length ts) ts 0). lia. Qed.

  Lemma seq_fixed_bounded parts : Forall bounded parts -> bounded (seq_fixed parts).
  Proof.
    intros H ts Hg. unfold seq_fixed.
    apply (seq_go_bounded (list tok -> res nat) (fun f ts => f ts)); [|exact Hg|lia].
    eapply Forall_impl; [|exact H]. intros f Hf. exact Hf.
  Qed.
  Lemma m_indef_bounded : bounded (fun ts => m_indef_article ts src).
  Proof.
    unfold m_indef_article. apply seq_fixed_bounded. repeat constructor. apply m_wordset_bounded.
  Qed.
  Lemma m_split_bounded o : oracle_ok -> bounded (fun ts => m_split_compound oracle o ts src).
  Proof.
    intros HO ts Hg. unfold m_split_compound.
    destruct (seq_fixed_bounded [m_flag F_WORD; (fun ts => Ok (ws_go ts)); m_flag F_WORD]) with (ts := ts) as [n [E Hn]].
    { repeat constructor; [apply m_flag_bounded|apply m_ws_bounded|apply m_flag_bounded]. }
    { exact Hg. }
    rewrite E. cbn [bind]. destruct (n =? 3) eqn:E3; cbn [negb]; [|exists 0; split; [reflexivity|lia]].
    apply Nat.eqb_eq in E3. subst n.
    destruct ts as [|a [|x [|b r]]]; cbn [length] in Hn; try lia.
    unfold nth_chk. cbn [nth_error bind].
    pose proof (D_good _ Hg) as Hgg; inversion Hgg as [|? ? Ha Hg1]; subst. inversion Hg1 as [|? ? Hx Hg2]; subst. inversion Hg2 as [|? ? Hb _]; subst.
    destruct (good_content a Ha) as [ca Ea]. destruct (good_content b Hb) as [cb Eb]. rewrite Ea, Eb. cbn [bind].
    destruct (HO o [a; b]) as [f Ef]; [exact (D_pick _ _ _ _ Hg)|]. rewrite Ef. cbn [bind].
    destruct f; eexists; (split; [reflexivity|cbn [length]; lia]).
  Qed.

  (* ----- the main theorem: structural induction over `pat` ----- *)
  Theorem matches_bounded : oracle_ok -> forall p, bounded (fun ts => matches leaf oracle p ts src).
  Proof.
    intros HO. induction p using pat_ind2; cbn [matches].
    - apply m_pred_bounded.
    - apply m_flag_bounded.
    - apply m_exact_word_bounded.
    - apply m_any_bounded.
    - apply m_ws_bounded.
    - apply m_anycap_bounded.
    - apply m_wordset_bounded.
    - now apply m_within_edit_bounded.
    - apply m_implies_bounded.
    - apply m_nominal_bounded.
    - intros ts Hg. apply (seq_go_bounded pat (fun q ts => matches leaf oracle q ts src)); [assumption|assumption|lia].
    - intros ts Hg. apply (either_go_bounded pat (fun q ts => matches leaf oracle q ts src)); [assumption|assumption|lia].
    - intros ts Hg. apply (all_go_bounded pat (fun q ts => matches leaf oracle q ts src)); [assumption|assumption|lia].
    - intros ts Hg. apply (first_go_bounded pat (fun q ts => matches leaf oracle q ts src)); assumption.
    - intros ts Hg. apply (first_go_bounded pat (fun q ts => matches leaf oracle q ts src)); assumption.
    - intros ts Hg. apply (rep_go_bounded pat (fun q ts => matches leaf oracle q ts src)); [exact IHp|exact Hg| | |]; unfold rep_fuel; lia.
    - (* Invert *)
      intros ts Hg. destruct ts as [|t r]; [exists 0; split; [reflexivity|cbn; lia]|].
      destruct (IHp (t :: r) Hg) as [n [E _]]. rewrite E. cbn [bind].
      destruct (n =? 0); eexists; (split; [reflexivity|cbn [length]; lia]).
    - (* ConsumesRemaining *)
      intros ts Hg. destruct (IHp ts Hg) as [n [E Hn]]. rewrite E. cbn [bind].
      destruct (n =? length ts); eexists; (split; [reflexivity|lia]).
    - (* IsNotTitleCase *)
      intros ts Hg. destruct (IHp ts Hg) as [n [E Hn]]. rewrite E. cbn [bind].
      destruct (n =? 0) eqn:E0; [exists 0; split; [reflexivity|lia]|]. apply Nat.eqb_neq in E0.
      rewrite slice_chk_ok' by lia. cbn [bind]. unfold slice. cbn [skipn]. rewrite Nat.sub_0_r.
      assert (firstn n ts <> []) as Hne.
      { intros Hn0. apply (f_equal (@length tok)) in Hn0. rewrite firstn_length in Hn0. cbn in Hn0. lia. }
      destruct (hull_unwrap_ok _ Hne) as [sp [Es _]]. rewrite Es. cbn [bind].
      assert (D (firstn n ts)) as HDf by now apply D_firstn.
      pose proof (D_good _ HDf) as Hgf.
      destruct (hull_unwrap_in (length src) (firstn n ts) sp) as [W1 W2]; [|exact Es|].
      { eapply Forall_impl; [|exact Hgf]. intros t [A [B _]]. lia. }
      destruct (get_content_ok sp src W1 W2) as [c Ec]. rewrite Ec. cbn [bind].
      destruct (HO o _ HDf) as [d Ed]. rewrite Ed. cbn [bind].
      destruct d; eexists; (split; [reflexivity|lia]).
    - intros ts Hg. apply (seq_go_bounded pat (fun q ts => matches leaf oracle q ts src)); [assumption|assumption|lia].
    - apply m_indef_bounded.
    - (* SimilarToPhrase *)
      intros ts Hg.
      destruct (seq_go_bounded pat (fun q ts => matches leaf oracle q ts src) ps H ts 0 Hg) as [e [Ee He]]; [lia|].
      destruct (seq_go_bounded pat (fun q ts => matches leaf oracle q ts src) fs H0 ts 0 Hg) as [f [Ef Hf]]; [lia|].
      rewrite Ee, Ef. cbn [bind].
      destruct ((e =? 0) && (0 <? f)); eexists; (split; [reflexivity|lia]).
    - now apply m_split_bounded.
    - intros ts Hg. destruct ts as [|t r]; [exists 0; split; [reflexivity|cbn; lia]|].
      apply (keyed_go_bounded pat (fun q ts => matches leaf oracle q ts src)); assumption.
    - intros ts Hg. destruct ts as [|t r]; [exists 0; split; [reflexivity|cbn; lia]|].
      destruct (negb (flag F_WORD t)); [exists 0; split; [reflexivity|cbn; lia]|].
      pose proof (D_good _ Hg) as Hgg; inversion Hgg as [|? ? Ht _]; subst. destruct (good_content t Ht) as [c E]. rewrite E. cbn [bind].
      apply (keyed_go_bounded pat (fun q ts => matches leaf oracle q ts src)); assumption.
  Qed.

  (* ----- run_on_chunk ----- *)
  Fixpoint ranges_ok (lo : nat) (l : list (nat * nat)) (n : nat) : Prop :=
    match l with
    | [] => True
    | (a, b) :: r => lo <= a /\ a < b /\ b <= n /\ ranges_ok b r n
    end.
  Lemma ranges_ok_weaken lo lo' l n : lo' <= lo -> ranges_ok lo l n -> ranges_ok lo' l n.
  Proof. destruct l as [|[a b] r]; cbn [ranges_ok]; [trivial|]. intros H [H1 H2]. split; [lia|exact H2]. Qed.

  Lemma roc_loop_total mf chunk : bounded mf -> D chunk ->
    forall fuel cursor, 1 <= fuel -> length chunk + 1 <= fuel + cursor ->
    exists l, roc_loop mf chunk fuel cursor = Ok l /\ ranges_ok cursor l (length chunk).
  Proof.
    intros HB Hg. induction fuel as [|f IH]; intros cursor H1 H2; [lia|]. cbn [roc_loop].
    destruct (length chunk <=? cursor) eqn:EC; [exists []; split; [reflexivity|exact I]|].
    apply Nat.leb_gt in EC. rewrite slice_from_ok by lia. cbn [bind].
    destruct (HB (skipn cursor chunk)) as [n [E Hn]]; [now apply D_skipn|].
    rewrite E. cbn [bind]. rewrite skipn_length in Hn.
    destruct (n =? 0) eqn:E0; cbn [negb].
    - destruct (IH (cursor + 1)) as [l [El Hl]]; [lia|lia|]. exists l. split; [exact El|].
      eapply ranges_ok_weaken; [|exact Hl]. lia.
    - apply Nat.eqb_neq in E0. rewrite slice_chk_ok' by lia. cbn [bind].
      destruct (IH (cursor + n)) as [l [El Hl]]; [lia|lia|]. rewrite El. cbn [bind].
      eexists. split; [reflexivity|]. cbn [ranges_ok]. repeat split; [lia|lia|lia|exact Hl].
  Qed.

  (* run_on_chunk returns normally within |chunk| + 1 rounds, and every range it hands to
     match_to_lint is non-empty, inside the chunk, after the previous one *)
  Theorem run_on_chunk_total p chunk : oracle_ok -> D chunk ->
    exists l, run_on_chunk leaf oracle p chunk src = Ok l /\ ranges_ok 0 l (length chunk).
  Proof.
    intros HO Hg. unfold run_on_chunk, run_on_chunk_f.
    apply roc_loop_total; [exact (matches_bounded HO p)|exact Hg|lia|lia].
  Qed.

  Lemma lint_chunks_total p cs : oracle_ok -> Forall D cs ->
    exists l, lint_chunks leaf oracle p cs src = Ok l /\ length l = length cs.
  Proof.
    intros HO. induction 1 as [|c r Hc _ [l [IH IL]]]; [now exists []|]. cbn [lint_chunks].
    destruct (run_on_chunk_total p c HO Hc) as [x [Ex _]]. rewrite Ex, IH. cbn [bind].
    eexists; split; [reflexivity|]. cbn [length]. now rewrite IL.
  Qed.

  (* impl Linter for PatternLinter, the framework part: chunking + the matching loop *)
  Theorem pattern_lint_total p ts : oracle_ok -> D ts ->
    exists l, pattern_lint leaf oracle p ts src = Ok l.
  Proof.
    intros HO Hg. unfold pattern_lint, iter_chunks.
    destruct (iter_by_total (flag F_CHUNKTERM) ts) as [cs [E C]]. rewrite E. cbn [bind].
    destruct (lint_chunks_total p cs HO) as [l [El _]]; [|now exists l].
    exact (iter_by_pieces D D_skipn D_firstn _ _ _ Hg E).
  Qed.

  (* ----- find_all_matches ----- *)
  Lemma fam_scan_total p ts : oracle_ok -> D ts ->
    forall n i, i + n = length ts ->
    exists found, fam_scan leaf oracle p ts src i n = Ok found /\
                  Forall (fun sp => sstart sp < send sp /\ send sp <= length ts) found.
  Proof.
    intros HO Hg. induction n as [|n IH]; intros i Hi; cbn [fam_scan]; [exists []; split; [reflexivity|constructor]|].
    rewrite slice_from_ok by lia. cbn [bind].
    destruct (matches_bounded HO p (skipn i ts)) as [len [E Hl]]; [now apply D_skipn|].
    rewrite E. cbn [bind]. rewrite skipn_length in Hl.
    destruct (IH (S i)) as [tl [Et Ht]]; [lia|]. rewrite Et. cbn [bind].
    eexists; split; [reflexivity|]. destruct (0 <? len) eqn:E0; [|exact Ht].
    apply Nat.ltb_lt in E0. constructor; [|exact Ht]. unfold span_new_with_len. cbn [sstart send]. lia.
  Qed.

  Lemma Forall_remove_indices {A} (Q : A -> Prop) q (xs : list A) i :
    Forall Q xs -> Forall Q (remove_indices i q xs).
  Proof.
    intros H. revert i q. induction H as [|x xs Hx _ IH]; intros i q; cbn [remove_indices]; [constructor|].
    destruct q as [|r q']; [constructor; [exact Hx|apply IH]|].
    destruct (i =? r); [apply IH|constructor; [exact Hx|apply IH]].
  Qed.

  Theorem find_all_matches_total p ts : oracle_ok -> D ts ->
    exists found, find_all_matches leaf oracle p ts src = Ok found /\
                  Forall (fun sp => sstart sp < send sp /\ send sp <= length ts) found.
  Proof.
    intros HO Hg. unfold find_all_matches.
    destruct (fam_scan_total p ts HO Hg (length ts) 0) as [found [E HF]]; [lia|]. rewrite E. cbn [bind].
    destruct (length found <? 2); eexists; (split; [reflexivity|]); [exact HF|now apply Forall_remove_indices].
  Qed.
End Bounded.

(* ---------- the generated table: every `impl Pattern for` site is modelled and lives in patterns/ ---------- *)
Definition impl_known (s : String.string) : bool := existsb (String.eqb s) known_pattern_impls.
Lemma pattern_impls_covered :
  forallb (fun e => impl_known (fst (fst e)) && snd e) pattern_impl_sites = true /\
  forallb (fun k => existsb (fun e => String.eqb k (fst (fst e))) pattern_impl_sites) known_pattern_impls = true /\
  List.length pattern_impl_sites = 23 /\ pattern_linter_loop_shape = true.
Proof. repeat split; vm_compute; reflexivity. Qed.

(* ================================================================================================
   Termination without any premise on the tokens: whatever the leaves answer (even a match longer
   than the tokens on offer, even a panic), no loop of the pattern framework uses up its fuel — the
   loops either return or hit a checked operation (a Rust panic), they never spin. *)
Definition nf {A} (r : res A) : Prop := r <> Panic PFuel.
Lemma nf_ok {A} (a : A) : nf (Ok a).
Proof. discriminate. Qed.
Lemma nf_bind {A B} (r : res A) (k : A -> res B) : nf r -> (forall a, r = Ok a -> nf (k a)) -> nf (bind r k).
Proof.
  destruct r as [a|w]; cbn [bind]; [intros _ H; now apply H|].
  unfold nf. intros H _ E. apply H. now injection E as ->.
Qed.

Ltac nf_cases :=
  repeat match goal with
         | |- context [if ?c then _ else _] => destruct c
         end; cbn [bind]; try (unfold nf; discriminate).

Lemma nf_slice_from {A} (l : list A) a : nf (slice_from l a).
Proof. unfold slice_from. nf_cases. Qed.
Lemma nf_slice_chk {A} (l : list A) a b : nf (slice_chk l a b).
Proof. unfold slice_chk. nf_cases. Qed.
Lemma nf_span_len s : nf (span_len s).
Proof. unfold span_len, sub_chk. nf_cases. Qed.
Lemma nf_get_content {A} s (src : list A) : nf (get_content s src).
Proof.
  unfold get_content. apply nf_bind.
  - unfold try_get_content. destruct (_ || _); [|apply nf_ok].
    apply nf_bind; [apply nf_span_len|intros n _; destruct (n =? 0); apply nf_ok].
  - intros [v|] _; [apply nf_ok|unfold nf; discriminate].
Qed.
Lemma nf_nth_chk {A} (l : list A) i : nf (nth_chk l i).
Proof. unfold nth_chk. destruct (nth_error l i); unfold nf; discriminate. Qed.
Lemma nf_hull_unwrap s : nf (hull_unwrap s).
Proof.
  unfold hull_unwrap, hull. destruct (endpoints s) as [|x [|y l]]; unfold span_new; nf_cases.
Qed.
Lemma slice_from_inv {A} (l : list A) a r : slice_from l a = Ok r -> a <= length l.
Proof. unfold slice_from. destruct (length l <? a) eqn:E; [discriminate|]. intros _. now apply Nat.ltb_ge in E. Qed.

Section NoFuel.
  Variable leaf : nat -> tok -> text -> res bool.
  Variable oracle : nat -> list tok -> text -> res bool.
  Variable src : text.
  Hypothesis leaf_nf : forall i t, nf (leaf i t src).
  Hypothesis oracle_nf : forall o ts, nf (oracle o ts src).

  Section GenNF.
    Variable P : Type.
    Variable m : P -> list tok -> res nat.
    Definition mnf (q : P) : Prop := forall ts, nf (m q ts).

    Lemma seq_go_nf ps : Forall mnf ps -> forall ts c, nf (seq_go P m ts ps c).
    Proof.
      induction 1 as [|q r Hq _ IH]; intros ts c; cbn [seq_go]; [apply nf_ok|].
      apply nf_bind; [apply nf_slice_from|intros rest _]. apply nf_bind; [apply Hq|intros n _].
      destruct (n =? 0); [apply nf_ok|apply IH].
    Qed.
    Lemma either_go_nf ps : Forall mnf ps -> forall ts c, nf (either_go P m ts ps c).
    Proof.
      induction 1 as [|q r Hq _ IH]; intros ts c; cbn [either_go]; [apply nf_ok|].
      apply nf_bind; [apply Hq|intros n _; apply IH].
    Qed.
    Lemma all_go_nf ps : Forall mnf ps -> forall ts c, nf (all_go P m ts ps c).
    Proof.
      induction 1 as [|q r Hq _ IH]; intros ts c; cbn [all_go]; [apply nf_ok|].
      apply nf_bind; [apply Hq|intros n _]. destruct (n =? 0); [apply nf_ok|apply IH].
    Qed.
    Lemma first_go_nf ps : Forall mnf ps -> forall ts, nf (first_go P m ts ps).
    Proof.
      induction 1 as [|q r Hq _ IH]; intros ts; cbn [first_go]; [apply nf_ok|].
      apply nf_bind; [apply Hq|intros n _]. destruct (n =? 0); [apply IH|apply nf_ok].
    Qed.
    Lemma keyed_go_nf {K} (hit : K -> bool) l : Forall (fun kq => mnf (snd kq)) l ->
      forall ts, nf (keyed_go P m hit ts l).
    Proof.
      induction 1 as [|[k q] r Hq _ IH]; intros ts; cbn [keyed_go]; [apply nf_ok|].
      destruct (hit k); [apply Hq|apply IH].
    Qed.
    (* RepeatingPattern: round k starts with cursor >= k, and a round only starts when
       cursor <= |tokens|; |tokens| + 2 units of fuel are therefore never used up *)
    Lemma rep_go_nf q required ts : mnf q ->
      forall fuel cursor rep, 1 <= fuel -> length ts + 2 <= fuel + cursor ->
      nf (rep_go P m q required ts fuel cursor rep).
    Proof.
      intros Hq. induction fuel as [|f IH]; intros cursor rep H1 H2; [lia|]. cbn [rep_go].
      apply nf_bind; [apply nf_slice_from|intros rest Hs]. apply slice_from_inv in Hs.
      apply nf_bind; [apply Hq|intros n _].
      destruct (n =? 0) eqn:E0; [destruct (required <=? rep); apply nf_ok|].
      apply Nat.eqb_neq in E0. apply IH; lia.
    Qed.
  End GenNF.

  Lemma seq_fixed_nf parts : Forall (fun f => forall ts, nf (f ts)) parts -> forall ts, nf (seq_fixed parts ts).
  Proof. intros H ts. unfold seq_fixed. apply seq_go_nf. exact H. Qed.

  Theorem matches_nf : forall p ts, nf (matches leaf oracle p ts src).
  Proof.
    induction p using pat_ind2; intros ts; cbn [matches].
    - unfold m_pred. destruct ts; [apply nf_ok|]. apply nf_bind; [apply leaf_nf|intros; apply nf_ok].
    - unfold m_flag. destruct ts; apply nf_ok.
    - unfold m_exact_word. destruct ts; [apply nf_ok|]. destruct (negb _); [apply nf_ok|].
      apply nf_bind; [apply nf_get_content|intros; apply nf_ok].
    - unfold m_any. destruct ts; apply nf_ok.
    - apply nf_ok.
    - unfold m_anycap. destruct ts; [apply nf_ok|]. destruct (negb _); [apply nf_ok|].
      apply nf_bind; [apply nf_span_len|intros n _]. destruct (negb _); [apply nf_ok|].
      apply nf_bind; [apply nf_get_content|intros; apply nf_ok].
    - unfold m_wordset. destruct ts; [apply nf_ok|]. destruct (negb _); [apply nf_ok|].
      apply nf_bind; [apply nf_get_content|intros; apply nf_ok].
    - unfold m_within_edit. destruct ts; [apply nf_ok|]. destruct (negb _); [apply nf_ok|].
      apply nf_bind; [apply nf_get_content|intros c _]. apply nf_bind; [apply oracle_nf|intros; apply nf_ok].
    - unfold m_implies. destruct ts; [apply nf_ok|]. destruct (flag F_WORDMETA t); [|apply nf_ok].
      destruct (flag F_DET t); [apply nf_ok|]. apply nf_bind; [apply nf_get_content|intros; apply nf_ok].
    - apply nf_ok.
    - now apply (seq_go_nf pat (fun q ts => matches leaf oracle q ts src)).
    - now apply (either_go_nf pat (fun q ts => matches leaf oracle q ts src)).
    - now apply (all_go_nf pat (fun q ts => matches leaf oracle q ts src)).
    - now apply (first_go_nf pat (fun q ts => matches leaf oracle q ts src)).
    - now apply (first_go_nf pat (fun q ts => matches leaf oracle q ts src)).
    - apply (rep_go_nf pat (fun q ts => matches leaf oracle q ts src)); [exact IHp| |]; unfold rep_fuel; lia.
    - destruct ts; [apply nf_ok|]. apply nf_bind; [apply IHp|intros; apply nf_ok].
    - apply nf_bind; [apply IHp|intros; apply nf_ok].
    - apply nf_bind; [apply IHp|intros n _]. destruct (n =? 0); [apply nf_ok|].
      apply nf_bind; [apply nf_slice_chk|intros sl _]. apply nf_bind; [apply nf_hull_unwrap|intros sp _].
      apply nf_bind; [apply nf_get_content|intros c _]. apply nf_bind; [apply oracle_nf|intros; apply nf_ok].
    - now apply (seq_go_nf pat (fun q ts => matches leaf oracle q ts src)).
    - unfold m_indef_article. apply seq_fixed_nf. repeat constructor. intros ts0.
      unfold m_wordset. destruct ts0; [apply nf_ok|]. destruct (negb _); [apply nf_ok|].
      apply nf_bind; [apply nf_get_content|intros; apply nf_ok].
    - apply nf_bind; [now apply (seq_go_nf pat (fun q ts => matches leaf oracle q ts src))|intros e _].
      apply nf_bind; [now apply (seq_go_nf pat (fun q ts => matches leaf oracle q ts src))|intros; apply nf_ok].
    - unfold m_split_compound. apply nf_bind.
      + apply seq_fixed_nf. repeat constructor; intros ts0; try apply nf_ok; unfold m_flag; destruct ts0; apply nf_ok.
      + intros n _. destruct (negb _); [apply nf_ok|].
        apply nf_bind; [apply nf_nth_chk|intros a _]. apply nf_bind; [apply nf_nth_chk|intros b _].
        apply nf_bind; [apply nf_get_content|intros ca _]. apply nf_bind; [apply nf_get_content|intros cb _].
        apply nf_bind; [apply oracle_nf|intros; apply nf_ok].
    - destruct ts; [apply nf_ok|]. now apply (keyed_go_nf pat (fun q ts => matches leaf oracle q ts src)).
    - destruct ts; [apply nf_ok|]. destruct (negb _); [apply nf_ok|].
      apply nf_bind; [apply nf_get_content|intros c _].
      now apply (keyed_go_nf pat (fun q ts => matches leaf oracle q ts src)).
  Qed.

  (* run_on_chunk: the cursor grows by >= 1 per round and a round only starts while cursor < |chunk| *)
  Lemma roc_loop_nf mf chunk : (forall ts, nf (mf ts)) ->
    forall fuel cursor, 1 <= fuel -> length chunk + 1 <= fuel + cursor -> nf (roc_loop mf chunk fuel cursor).
  Proof.
    intros Hm. induction fuel as [|f IH]; intros cursor H1 H2; [lia|]. cbn [roc_loop].
    destruct (length chunk <=? cursor) eqn:EC; [apply nf_ok|]. apply Nat.leb_gt in EC.
    apply nf_bind; [apply nf_slice_from|intros rest _]. apply nf_bind; [apply Hm|intros n _].
    destruct (n =? 0) eqn:E0; cbn [negb].
    - apply IH; lia.
    - apply Nat.eqb_neq in E0. apply nf_bind; [apply nf_slice_chk|intros sl _].
      apply nf_bind; [apply IH; lia|intros; apply nf_ok].
  Qed.

  Theorem run_on_chunk_nf p chunk : nf (run_on_chunk leaf oracle p chunk src).
  Proof. unfold run_on_chunk, run_on_chunk_f. apply roc_loop_nf; [intros; apply matches_nf|lia|lia]. Qed.

  Lemma nf_iter_by f ts : nf (iter_by f ts).
  Proof. destruct (iter_by_total f ts) as [cs [E _]]. rewrite E. apply nf_ok. Qed.

  Theorem pattern_lint_nf p ts : nf (pattern_lint leaf oracle p ts src).
  Proof.
    unfold pattern_lint. apply nf_bind; [apply nf_iter_by|intros cs _].
    induction cs as [|c r IH]; cbn [lint_chunks]; [apply nf_ok|].
    apply nf_bind; [apply run_on_chunk_nf|intros x _]. apply nf_bind; [exact IH|intros; apply nf_ok].
  Qed.

  Theorem find_all_matches_nf p ts : nf (find_all_matches leaf oracle p ts src).
  Proof.
    unfold find_all_matches. apply nf_bind; [|intros found _; destruct (_ <? _); apply nf_ok].
    generalize 0 at 1. generalize (length ts). induction n as [|n IH]; intros i; cbn [fam_scan]; [apply nf_ok|].
    apply nf_bind; [apply nf_slice_from|intros rest _]. apply nf_bind; [apply matches_nf|intros len _].
    apply nf_bind; [apply IH|intros; apply nf_ok].
  Qed.
End NoFuel.

(* ================================================================================================
   The two domains the property file speaks about. *)
Lemma ordered_from_weaken lo lo' ts : lo' <= lo -> ordered_from lo ts -> ordered_from lo' ts.
Proof. destruct ts as [|t r]; cbn [ordered_from]; [trivial|]. intros H [H1 H2]. split; [lia|exact H2]. Qed.
Lemma ordered_from_skipn n : forall lo ts, ordered_from lo ts -> ordered_from lo (skipn n ts).
Proof.
  induction n as [|n IH]; intros lo ts H; [exact H|]. destruct ts as [|t r]; [exact I|].
  cbn [skipn]. destruct H as [H1 [H2 H3]]. apply IH. eapply ordered_from_weaken; [|exact H3]. lia.
Qed.
Lemma ordered_from_firstn n : forall lo ts, ordered_from lo ts -> ordered_from lo (firstn n ts).
Proof.
  induction n as [|n IH]; intros lo ts H; [exact I|]. destruct ts as [|t r]; [exact I|].
  cbn [firstn ordered_from]. destruct H as [H1 [H2 H3]]. repeat split; [exact H1|exact H2|now apply IH].
Qed.

Section Domains.
  Variable leaf : nat -> tok -> text -> res bool.
  Variable oracle : nat -> list tok -> text -> res bool.
  Variable src : text.

  (* (a) any list of good tokens, in any order (Markdown documents are not ordered) *)
  Definition D_any (ts : list tok) : Prop := toks_good leaf src ts.
  (* (b) good tokens in text order, not overlapping: what C02 establishes for plain text *)
  Definition D_ordered (ts : list tok) : Prop := toks_good leaf src ts /\ ordered_from 0 ts.

  Lemma D_any_pick a x b r : D_any (a :: x :: b :: r) -> D_any [a; b].
  Proof.
    unfold D_any, toks_good. intros H. inversion H as [|? ? Ha H1]; subst. inversion H1 as [|? ? _ H2]; subst.
    inversion H2 as [|? ? Hb _]; subst. constructor; [exact Ha|constructor; [exact Hb|constructor]].
  Qed.
  Lemma D_ordered_pick a x b r : D_ordered (a :: x :: b :: r) -> D_ordered [a; b].
  Proof.
    intros [H O]. split; [now apply (D_any_pick a x b r)|].
    cbn [ordered_from] in *. destruct O as [A1 [A2 [X1 [X2 [B1 [B2 _]]]]]]. repeat split; lia.
  Qed.

  Definition oracle_total_on (D : list tok -> Prop) : Prop :=
    forall o ts, D ts -> exists b, oracle o ts src = Ok b.

  Theorem matches_bounded_any : oracle_total_on D_any ->
    forall p ts, D_any ts -> exists n, matches leaf oracle p ts src = Ok n /\ n <= length ts.
  Proof.
    intros HO p. apply matches_bounded with (D := D_any); try assumption.
    - intros ts H; exact H.
    - intros n ts H. now apply Forall_skipn.
    - intros n ts H. now apply Forall_firstn.
    - exact D_any_pick.
  Qed.

  Theorem matches_bounded_ordered : oracle_total_on D_ordered ->
    forall p ts, D_ordered ts -> exists n, matches leaf oracle p ts src = Ok n /\ n <= length ts.
  Proof.
    intros HO p. apply matches_bounded with (D := D_ordered); try assumption.
    - intros ts [H _]; exact H.
    - intros n ts [H O]. split; [now apply Forall_skipn|now apply ordered_from_skipn].
    - intros n ts [H O]. split; [now apply Forall_firstn|now apply ordered_from_firstn].
    - exact D_ordered_pick.
  Qed.

  Theorem run_on_chunk_total_ordered : oracle_total_on D_ordered ->
    forall p chunk, D_ordered chunk ->
    exists l, run_on_chunk leaf oracle p chunk src = Ok l /\ ranges_ok 0 l (length chunk).
  Proof.
    intros HO p ts0 Hts0. apply run_on_chunk_total with (D := D_ordered); try assumption.
    - intros ts [H _]; exact H.
    - intros n ts [H O]. split; [now apply Forall_skipn|now apply ordered_from_skipn].
    - intros n ts [H O]. split; [now apply Forall_firstn|now apply ordered_from_firstn].
    - exact D_ordered_pick.
  Qed.

  Theorem run_on_chunk_total_any : oracle_total_on D_any ->
    forall p chunk, D_any chunk ->
    exists l, run_on_chunk leaf oracle p chunk src = Ok l /\ ranges_ok 0 l (length chunk).
  Proof.
    intros HO p ts0 Hts0. apply run_on_chunk_total with (D := D_any); try assumption.
    - intros ts H; exact H.
    - intros n ts H. now apply Forall_skipn.
    - intros n ts H. now apply Forall_firstn.
    - exact D_any_pick.
  Qed.

  Theorem pattern_lint_total_ordered : oracle_total_on D_ordered ->
    forall p ts, D_ordered ts -> exists l, pattern_lint leaf oracle p ts src = Ok l.
  Proof.
    intros HO p ts0 Hts0. apply pattern_lint_total with (D := D_ordered); try assumption.
    - intros ts [H _]; exact H.
    - intros n ts [H O]. split; [now apply Forall_skipn|now apply ordered_from_skipn].
    - intros n ts [H O]. split; [now apply Forall_firstn|now apply ordered_from_firstn].
    - exact D_ordered_pick.
  Qed.

  Theorem pattern_lint_total_any : oracle_total_on D_any ->
    forall p ts, D_any ts -> exists l, pattern_lint leaf oracle p ts src = Ok l.
  Proof.
    intros HO p ts0 Hts0. apply pattern_lint_total with (D := D_any); try assumption.
    - intros ts H; exact H.
    - intros n ts H. now apply Forall_skipn.
    - intros n ts H. now apply Forall_firstn.
    - exact D_any_pick.
  Qed.

  Theorem find_all_matches_total_any : oracle_total_on D_any ->
    forall p ts, D_any ts ->
    exists found, find_all_matches leaf oracle p ts src = Ok found /\
                  Forall (fun sp => sstart sp < send sp /\ send sp <= length ts) found.
  Proof.
    intros HO p ts0 Hts0. apply find_all_matches_total with (D := D_any); try assumption.
    - intros ts H; exact H.
    - intros n ts H. now apply Forall_skipn.
    - intros n ts H. now apply Forall_firstn.
    - exact D_any_pick.
  Qed.
End Domains.

(* ================================================================================================
   Witnesses on the model: the premises of the theorems above are necessary. *)
(* The token that finding F27 (fixed by 548c418) used to produce for Markdown `> \t\t!`:
   pulldown-cmark synthesises spaces for a partially consumed tab, the text of the event was longer
   than its source range and harper placed a token past the end of the 5-character source.  Any
   pattern leaf that reads such a token's text panics in Span::get_content ("Could not get position
   Span { start: 4, end: 6 } …") — so "tokens inside the source" cannot be dropped from
   matches_bounded; since 548c418 the front-ends establish it (monitored on every searched document). *)
Definition f27_src : text := ch [62; 32; 9; 9; 33].
Definition f27_tok : tok := mktok (mkspan 4 6) 1 1%N 0.
Lemma premise_tokens_inside_necessary : forall leaf oracle,
  send (tspan f27_tok) > length f27_src /\
  matches leaf oracle (PWordSet [w_a; w_an]) [f27_tok] f27_src = Panic PIndex /\
  run_on_chunk leaf oracle (PSeq [PWordSet [w_a; w_an]]) [f27_tok] f27_src = Panic PIndex.
Proof. intros. split; [cbn; lia|]. split; vm_compute; reflexivity. Qed.

(* A leaf that answers more than the tokens on offer (what Invert did before 826a5e5) makes
   SequencePattern slice out of range: `bounded` for the children is necessary. *)
Lemma unbounded_child_refuted :
  seq_go (list tok -> res nat) (fun f ts => f ts) [] [(fun _ => Ok 1); (fun _ => Ok 1)] 0 = Panic PIndex.
Proof. vm_compute. reflexivity. Qed.
